package main

// Field protection classes (guarded-by / atomic / immutable ...), evaluated over
// every access found by fieldAccesses (LOCK analysis supplies the held sets).

import (
	"fmt"
	"go/types"
	"sort"
	"strings"

	"golang.org/x/tools/go/ssa"
)

type fieldClass struct {
	Class  string // guarded | atomic | immutable | syncobj | confined | startphase | published | atomicw+lock
	Lock   string // "Type.field" of the mutex for guarded classes
	Reason string
}

func (p *Program) lockVar(spec string) *types.Var {
	// spec = "rel/pkg:Type.field"
	i := strings.Index(spec, ":")
	j := strings.LastIndex(spec, ".")
	if i < 0 || j < i {
		return nil
	}
	return fieldVar(p.Named(spec[:i], spec[i+1:j]), spec[j+1:])
}

func isSyncObjType(t types.Type) bool {
	t = types.Unalias(t)
	if _, ok := t.Underlying().(*types.Chan); ok {
		return false
	}
	n := namedOf(t)
	if n == nil || n.Obj().Pkg() == nil {
		return false
	}
	switch n.Obj().Pkg().Path() {
	case "sync":
		switch n.Obj().Name() {
		case "Mutex", "RWMutex", "Map", "WaitGroup", "Once", "Pool":
			return true
		}
	case "sync/atomic":
		return true
	}
	return false
}

// checkFieldTable evaluates the struct's fields against the table. ctors lists
// functions (by fnName substring) whose writes count as construction.
func (p *Program) checkFieldTable(r *Report, rel, typ string, table map[string]fieldClass, ctor func(fn *ssa.Function) bool) {
	n := p.Named(rel, typ)
	if n == nil {
		r.Unresolved("type " + rel + "." + typ)
		return
	}
	st, ok := n.Underlying().(*types.Struct)
	if !ok {
		r.Unresolved("struct " + rel + "." + typ)
		return
	}
	fields := map[*types.Var]bool{}
	byName := map[string]*types.Var{}
	for i := 0; i < st.NumFields(); i++ {
		fields[st.Field(i)] = true
		byName[st.Field(i).Name()] = st.Field(i)
	}
	for name := range table {
		if byName[name] == nil {
			// a renamed or removed field: the table entry is stale, the field (if renamed) is classified by inference below
			r.Note("table entry %s.%s has no field in the tree (renamed/removed); inference applies", typ, name)
		}
	}
	accs := p.fieldAccesses(fields)
	by := map[*types.Var][]access{}
	for _, a := range accs {
		by[a.Field] = append(by[a.Field], a)
	}
	var names []string
	for nme := range byName {
		names = append(names, nme)
	}
	sort.Strings(names)
	for _, name := range names {
		f := byName[name]
		cl, tabled := table[name]
		as := by[f]
		if !tabled {
			cl = p.inferClass(f, as, ctor)
		}
		constr := typ + "." + name
		switch cl.Class {
		case "syncobj":
			r.Lookup(constr, f.Pos(), "synchronisation object ("+typeName(f.Type())+"): safe by type")
		case "guarded", "atomicw+lock":
			lk := p.lockVar(cl.Lock)
			if lk == nil {
				r.Unresolved("lock " + cl.Lock + " guarding " + constr)
				continue
			}
			nchk := 0
			for _, a := range as {
				if a.Fresh || (ctor != nil && ctor(a.Fn)) {
					continue
				}
				nchk++
				mode := a.Held[lk]
				ok := mode == 2 || (!a.Write && mode >= 1)
				if cl.Class == "atomicw+lock" {
					if a.Write {
						ok = a.Atomic && mode == 2
					} else {
						ok = a.Atomic || mode >= 1
					}
				}
				if strings.HasPrefix(a.Kind, "escape-") {
					// a reference to guarded storage leaves the function: only fine when the caller holds the lock
					p.computeHeldOnEntry()
					ok = p.heldEntry[a.Fn][lk] >= 1
				}
				why := fmt.Sprintf("%s of %s (guarded by %s) with held=%s", a.Kind, constr, lk.Name(), a.Held.names())
				if ok && a.Stale && mode >= 1 {
					r.add(fmt.Sprintf("%s %s in %s", constr, a.Kind, fnName(a.Fn)), a.In.Pos(), "violated", why+": the reference was obtained in an earlier critical section (the guard was released in between): the container may have been replaced or emptied meanwhile, the use acts on a stale object", true)
					continue
				}
				if !ok {
					r.add(fmt.Sprintf("%s %s in %s", constr, a.Kind, fnName(a.Fn)), a.In.Pos(), "violated", why+": lock not held (or only read-held for a write, or a guarded reference used/escaping outside the critical section)", true)
				} else {
					r.add(fmt.Sprintf("%s %s in %s", constr, a.Kind, fnName(a.Fn)), a.In.Pos(), "discharged", why, true)
				}
			}
			if nchk == 0 {
				r.Lookup(constr, f.Pos(), "guarded field has no access outside construction")
			}
		case "atomic":
			for _, a := range as {
				if a.Fresh || (ctor != nil && ctor(a.Fn)) {
					continue
				}
				ok := a.Atomic || strings.HasPrefix(a.Kind, "method:(sync/atomic.")
				r.Check(ok, fmt.Sprintf("%s %s in %s", constr, a.Kind, fnName(a.Fn)), a.In.Pos(), "field is accessed only through sync/atomic")
			}
		case "immutable":
			okAll := true
			for _, a := range as {
				if !a.Write || a.Fresh || (ctor != nil && ctor(a.Fn)) {
					continue
				}
				okAll = false
				r.Violate(fmt.Sprintf("%s %s in %s", constr, a.Kind, fnName(a.Fn)), a.In.Pos(), "field classified immutable-after-construction is written outside construction")
			}
			if okAll {
				r.add(constr, f.Pos(), "discharged", fmt.Sprintf("immutable after construction: all %d writes are to a fresh, unpublished object or in constructor code", countWrites(as)), len(as) > 0)
			}
		default:
			r.Lookup(constr, f.Pos(), "class "+cl.Class+": "+cl.Reason)
		}
	}
}

func countWrites(as []access) int {
	n := 0
	for _, a := range as {
		if a.Write {
			n++
		}
	}
	return n
}

// inferClass classifies a field that is not in the frozen table.
func (p *Program) inferClass(f *types.Var, as []access, ctor func(fn *ssa.Function) bool) fieldClass {
	if isSyncObjType(f.Type()) {
		return fieldClass{Class: "syncobj"}
	}
	allWritesCtor, anyAtomic := true, false
	lockVotes := map[*types.Var]int{}
	nshared := 0
	for _, a := range as {
		if a.Atomic {
			anyAtomic = true
		}
		if a.Fresh || (ctor != nil && ctor(a.Fn)) {
			continue
		}
		nshared++
		if a.Write {
			allWritesCtor = false
		}
		for l := range a.Held {
			lockVotes[l]++
		}
	}
	if allWritesCtor {
		return fieldClass{Class: "immutable"}
	}
	if anyAtomic {
		return fieldClass{Class: "atomic"}
	}
	for l, n := range lockVotes {
		if n*2 > nshared { // majority of accesses hold l: candidate guard, every access must hold it
			if st := ownerStruct(p, l); st != "" {
				return fieldClass{Class: "guarded", Lock: st}
			}
		}
	}
	return fieldClass{Class: "unclassified", Reason: "written after construction without a common lock or atomics; thread-confinement is decided by the CONF rule where the struct is in its scope"}
}

// ownerStruct renders a mutex field as "rel:Type.field".
func ownerStruct(p *Program, l *types.Var) string {
	for _, pk := range p.Pkgs {
		sc := pk.Types.Scope()
		for _, nme := range sc.Names() {
			tn, ok := sc.Lookup(nme).(*types.TypeName)
			if !ok {
				continue
			}
			st, ok := tn.Type().Underlying().(*types.Struct)
			if !ok {
				continue
			}
			for i := 0; i < st.NumFields(); i++ {
				if st.Field(i) == l {
					rel := strings.TrimPrefix(strings.TrimPrefix(pk.PkgPath, modPath), "/")
					return rel + ":" + tn.Name() + "." + l.Name()
				}
			}
		}
	}
	return ""
}

func ctorByName(subs ...string) func(fn *ssa.Function) bool {
	return func(fn *ssa.Function) bool {
		s := fnName(fn)
		for _, x := range subs {
			if strings.Contains(s, x) {
				return true
			}
		}
		return false
	}
}
