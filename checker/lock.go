package main

// LOCK: must-held mutex sets per instruction (intraprocedural forward dataflow,
// intersection at joins; `defer Unlock()` keeps the lock to the exit) and
// held-on-entry per function (greatest fixpoint of the intersection over all
// call sites of the VTA graph; `go` sites and externally callable API methods
// contribute the empty set; external functions transfer their entry set
// unchanged, e.g. singleflight.Do running its callback on the caller's goroutine).
// A lock is identified by the struct field holding the mutex (instance-insensitive).

import (
	"go/token"
	"go/types"
	"sort"
	"strings"

	"golang.org/x/tools/go/callgraph"
	"golang.org/x/tools/go/ssa"
)

type lockSet map[*types.Var]int8 // 1 = read-held, 2 = write-held; nil map = ⊤ (unknown/all)

type lockInfo struct {
	in  []lockSet // state before each node
	top []bool    // node not reached by the dataflow (dead) -> ⊤
}

func (s lockSet) clone() lockSet {
	c := lockSet{}
	for k, v := range s {
		c[k] = v
	}
	return c
}

func meet(a lockSet, aTop bool, b lockSet, bTop bool) (lockSet, bool) {
	if aTop {
		return b, bTop
	}
	if bTop {
		return a, false
	}
	out := lockSet{}
	for k, v := range a {
		if w, ok := b[k]; ok {
			if w < v {
				v = w
			}
			out[k] = v
		}
	}
	return out, false
}

func sameSet(a, b lockSet) bool {
	if len(a) != len(b) {
		return false
	}
	for k, v := range a {
		if b[k] != v {
			return false
		}
	}
	return true
}

func (s lockSet) names() string {
	var n []string
	for k, v := range s {
		m := "W"
		if v == 1 {
			m = "R"
		}
		n = append(n, k.Name()+":"+m)
	}
	sort.Strings(n)
	return "{" + strings.Join(n, ",") + "}"
}

// lockOp: Lock/RLock/Unlock/RUnlock on a mutex that is a struct field.
func lockOp(in ssa.Instruction) (op string, f *types.Var) {
	c := callOf(in)
	if c == nil || c.IsInvoke() {
		return "", nil
	}
	fn := c.StaticCallee()
	if fn == nil {
		return "", nil
	}
	obj, _ := fn.Object().(*types.Func)
	if obj == nil || obj.Pkg() == nil || obj.Pkg().Path() != "sync" {
		return "", nil
	}
	recv := obj.Type().(*types.Signature).Recv()
	if recv == nil || len(c.Args) == 0 {
		return "", nil
	}
	if !typeIs(recv.Type(), "sync", "Mutex") && !typeIs(recv.Type(), "sync", "RWMutex") {
		return "", nil
	}
	switch obj.Name() {
	case "Lock", "RLock", "Unlock", "RUnlock":
	default:
		return "", nil
	}
	fld, _ := fieldAddr(c.Args[0])
	if fld == nil {
		return "", nil
	}
	return obj.Name(), fld
}

func applyLockOp(s lockSet, in ssa.Instruction) lockSet {
	if _, isDefer := in.(*ssa.Defer); isDefer {
		return s // deferred unlock: the lock stays held until the function returns
	}
	if _, isGo := in.(*ssa.Go); isGo {
		return s
	}
	op, f := lockOp(in)
	if f == nil {
		return s
	}
	out := s.clone()
	switch op {
	case "Lock":
		out[f] = 2
	case "RLock":
		if out[f] < 1 {
			out[f] = 1
		}
	case "Unlock", "RUnlock":
		delete(out, f)
	}
	return out
}

// held computes the must-held set before every node of fn given the set held on entry.
func (p *Program) heldIn(fn *ssa.Function, entry lockSet) *lockInfo {
	g := p.ig(fn)
	li := &lockInfo{in: make([]lockSet, len(g.Nodes)), top: make([]bool, len(g.Nodes))}
	for i := range li.top {
		li.top[i] = true
	}
	if len(g.Nodes) == 0 {
		return li
	}
	li.in[0], li.top[0] = entry.clone(), false
	work := []int{0}
	for len(work) > 0 {
		n := work[len(work)-1]
		work = work[:len(work)-1]
		out := applyLockOp(li.in[n], g.Nodes[n])
		for _, s := range g.Succ[n] {
			ns, nt := meet(li.in[s], li.top[s], out, false)
			if li.top[s] || !sameSet(ns, li.in[s]) {
				li.in[s], li.top[s] = ns, nt
				work = append(work, s)
			}
		}
	}
	return li
}

// publicIfaceMethods: names of methods of interfaces declared in non-internal packages of the module.
func (p *Program) apiInterfaces() []*types.Interface {
	var out []*types.Interface
	for _, pk := range p.Pkgs {
		if strings.Contains(pk.PkgPath, "/internal/") || strings.HasSuffix(pk.PkgPath, "/internal") {
			continue
		}
		sc := pk.Types.Scope()
		for _, n := range sc.Names() {
			tn, ok := sc.Lookup(n).(*types.TypeName)
			if !ok {
				continue
			}
			if it, ok := tn.Type().Underlying().(*types.Interface); ok && it.NumMethods() > 0 {
				out = append(out, it)
			}
		}
	}
	return out
}

// externallyCallable: fn may be invoked by code outside the module (users, tests
// of dependants) on an arbitrary goroutine holding none of vivid's locks.
func (p *Program) externallyCallable(fn *ssa.Function) bool {
	if fn.Parent() != nil || fn.Synthetic != "" && fn.Object() == nil {
		return false
	}
	obj, _ := fn.Object().(*types.Func)
	if obj == nil || !obj.Exported() {
		return false
	}
	pk := fnPkg(fn)
	if pk == nil {
		return false
	}
	internal := strings.Contains(pk.Path(), "/internal/") || strings.HasSuffix(pk.Path(), "/internal")
	sig := obj.Type().(*types.Signature)
	if sig.Recv() == nil {
		return !internal
	}
	if !internal {
		return true
	}
	// method of an internal type: reachable from outside only through a public interface
	rt := sig.Recv().Type()
	for _, it := range p.apiIfaces() {
		for i := 0; i < it.NumMethods(); i++ {
			if it.Method(i).Name() == obj.Name() && (types.Implements(rt, it) || types.Implements(types.NewPointer(rt), it)) {
				return true
			}
		}
	}
	return false
}

var apiIfaceCache = map[*Program][]*types.Interface{}

func (p *Program) apiIfaces() []*types.Interface {
	if c, ok := apiIfaceCache[p]; ok {
		return c
	}
	c := p.apiInterfaces()
	apiIfaceCache[p] = c
	return c
}

// computeHeldOnEntry runs the interprocedural fixpoint.
func (p *Program) computeHeldOnEntry() {
	if p.heldEntry != nil {
		return
	}
	type st struct {
		set lockSet
		top bool
	}
	state := map[*ssa.Function]*st{}
	var fns []*ssa.Function
	for fn := range p.All {
		fns = append(fns, fn)
	}
	sort.Slice(fns, func(i, j int) bool { return fns[i].String() < fns[j].String() })
	hasLockCode := map[*ssa.Function]bool{}
	for _, fn := range p.Mod {
		for _, b := range fn.Blocks {
			for _, in := range b.Instrs {
				if _, f := lockOp(in); f != nil {
					hasLockCode[fn] = true
				}
			}
		}
	}
	// only callers that module code can reach count (an exported library function nobody calls,
	// e.g. singleflight.DoChan with its `go doCall`, must not dilute the intersection)
	live := p.closure(p.Mod, cgOpts{FollowGo: true})
	for _, fn := range fns {
		n := p.CG.Nodes[fn]
		root := n == nil || len(n.In) == 0 || (p.inModule(fn) && p.externallyCallable(fn))
		if root {
			state[fn] = &st{set: lockSet{}, top: false}
		} else {
			state[fn] = &st{top: true}
		}
	}
	infos := map[*ssa.Function]*lockInfo{}
	info := func(fn *ssa.Function) *lockInfo {
		if li, ok := infos[fn]; ok {
			return li
		}
		s := state[fn]
		e := s.set
		if s.top {
			return nil
		}
		li := p.heldIn(fn, e)
		infos[fn] = li
		return li
	}
	heldAt := func(e *callgraph.Edge) (lockSet, bool) {
		caller := e.Caller.Func
		cs := state[caller]
		if cs == nil || cs.top {
			return nil, true
		}
		switch e.Site.(type) {
		case *ssa.Go:
			return lockSet{}, false
		case *ssa.Defer:
			// the deferred call runs when the caller returns: what the caller's own callers hold throughout (held on the
			// caller's entry) is still held then, unless the caller itself releases it
			out := lockSet{}
			for l, m := range cs.set {
				released := false
				for _, b := range caller.Blocks {
					for _, in := range b.Instrs {
						if op, f := lockOp(in); f == l && (op == "Unlock" || op == "RUnlock") {
							released = true
						}
					}
				}
				if !released {
					out[l] = m
				}
			}
			return out, false
		}
		if e.Site == nil {
			return cs.set, false
		}
		if !p.inModule(caller) || !hasLockCode[caller] {
			return cs.set, false // identity transfer
		}
		li := info(caller)
		if li == nil {
			return nil, true
		}
		g := p.ig(caller)
		idx, ok := g.Idx[e.Site]
		if !ok {
			return cs.set, false
		}
		if li.top[idx] {
			return nil, true
		}
		return li.in[idx], false
	}
	for iter := 0; iter < 50; iter++ {
		changed := false
		for _, fn := range fns {
			n := p.CG.Nodes[fn]
			if n == nil || len(n.In) == 0 {
				continue
			}
			if p.inModule(fn) && p.externallyCallable(fn) {
				continue
			}
			var acc lockSet
			accTop := true
			for _, e := range n.In {
				if live[e.Caller.Func] == nil {
					continue
				}
				s, t := heldAt(e)
				acc, accTop = meet(acc, accTop, s, t)
			}
			cur := state[fn]
			if accTop != cur.top || (!accTop && !sameSet(acc, cur.set)) {
				cur.set, cur.top = acc, accTop
				delete(infos, fn)
				changed = true
			}
		}
		if !changed {
			break
		}
	}
	p.heldEntry = map[*ssa.Function]lockSet{}
	for fn, s := range state {
		if s.top {
			p.heldEntry[fn] = lockSet{} // unreachable from any root: assume nothing held
		} else {
			p.heldEntry[fn] = s.set
		}
	}
}

// held returns the per-node must-held sets of a module function (with held-on-entry applied).
func (p *Program) held(fn *ssa.Function) *lockInfo {
	p.computeHeldOnEntry()
	if li, ok := p.lockCache[fn]; ok {
		return li
	}
	li := p.heldIn(fn, p.heldEntry[fn])
	p.lockCache[fn] = li
	return li
}

func (li *lockInfo) at(n int) lockSet {
	if n < 0 || n >= len(li.in) || li.top[n] {
		return lockSet{}
	}
	return li.in[n]
}

// ---- field accesses ----------------------------------------------------------------

type access struct {
	Fn     *ssa.Function
	Node   int
	In     ssa.Instruction
	Field  *types.Var
	Write  bool
	Atomic bool
	Held   lockSet
	Fresh  bool // base object allocated in this function and not yet escaped
	Kind   string
	Stale  bool // use of a reference to guarded storage obtained in an EARLIER critical section (the guard was released in between)
}

// fieldAccesses enumerates reads/writes of the given fields in module code,
// including accesses *through* a reference loaded from the field (map update,
// delete, range, index, append-store-back).
func (p *Program) fieldAccesses(fields map[*types.Var]bool) []access {
	var out []access
	for _, fn := range p.Mod {
		if len(fn.Blocks) == 0 {
			continue
		}
		var li *lockInfo
		g := p.ig(fn)
		heldAt := func(n int) lockSet {
			if li == nil {
				li = p.held(fn)
			}
			return li.at(n)
		}
		for i, in := range g.Nodes {
			fa, ok := in.(*ssa.FieldAddr)
			if !ok {
				if fv, ok := in.(*ssa.Field); ok {
					st, _ := fv.X.Type().Underlying().(*types.Struct)
					if st != nil && fields[st.Field(fv.Field).Origin()] {
						out = append(out, access{Fn: fn, Node: i, In: in, Field: st.Field(fv.Field).Origin(), Held: heldAt(i), Kind: "read"})
					}
				}
				continue
			}
			fld, base := fieldAddr(fa)
			if !fields[fld] {
				continue
			}
			fresh := isFreshAlloc(base) && !escapedBefore(g, base, i)
			for _, ref := range *fa.Referrers() {
				ri, ok := g.Idx[ref]
				if !ok {
					continue
				}
				switch x := ref.(type) {
				case *ssa.Store:
					if x.Addr == fa {
						out = append(out, access{Fn: fn, Node: ri, In: ref, Field: fld, Write: true, Held: heldAt(ri), Fresh: fresh, Kind: "store"})
					} else {
						out = append(out, access{Fn: fn, Node: ri, In: ref, Field: fld, Held: heldAt(ri), Fresh: fresh, Kind: "address-escapes"})
					}
				case *ssa.UnOp:
					if x.Op != token.MUL {
						continue
					}
					out = append(out, access{Fn: fn, Node: ri, In: ref, Field: fld, Held: heldAt(ri), Fresh: fresh, Kind: "load"})
					// uses of the loaded reference (and of references derived from it) that read or mutate the shared object
					if isRefType(x.Type()) {
						// take idiom: `v := s.f; s.f = nil` inside one critical section detaches v from the shared field;
						// later uses of v (after the unlock) touch an object no other goroutine can reach through s.f
						detach := -1
						for _, r2 := range *fa.Referrers() {
							_ = r2
						}
						for j, in2 := range g.Nodes {
							st, ok := in2.(*ssa.Store)
							if !ok || !isNilConst(st.Val) {
								continue
							}
							f2, b2 := fieldAddr(st.Addr)
							if f2 != fld || b2 != base {
								continue
							}
							if g.ReachAfter(ri, nil, nil)[j] && sameSet(heldAt(j), heldAt(ri)) && len(heldAt(ri)) > 0 {
								detach = j
							}
						}
						for _, d := range derivedUses(x) {
							ui, ok := g.Idx[d.in]
							if !ok {
								continue
							}
							if detach >= 0 && ui != detach && g.DominatedByNodes(ui, setOf(detach)) {
								continue
							}
							// stale: the guard held when the reference was loaded is released on some path before this use; the
							// container may have been replaced / emptied meanwhile even if the lock is held again at the use
							stale := false
							if ui != ri && len(heldAt(ri)) > 0 {
								after := g.ReachAfter(ri, nil, nil)
								for w, win := range g.Nodes {
									if !after[w] {
										continue
									}
									if _, isCall := win.(*ssa.Call); !isCall {
										continue
									}
									op, lf := lockOp(win)
									if (op == "Unlock" || op == "RUnlock") && heldAt(ri)[lf] > 0 && g.ReachAfter(w, nil, nil)[ui] && !g.ReachAfter(w, setOf(ri), nil)[ui] == false {
										// the use is reachable from the unlock without re-loading the reference
										if g.ReachAfter(w, setOf(ri), nil)[ui] {
											stale = true
										}
									}
								}
							}
							out = append(out, access{Fn: fn, Node: ui, In: d.in, Field: fld, Write: d.write, Held: heldAt(ui), Fresh: fresh, Kind: d.kind, Stale: stale})
						}
					}
				default:
					if a := atomicCall(ref); a != nil && a.Addr == fa {
						out = append(out, access{Fn: fn, Node: ri, In: ref, Field: fld, Write: a.Op != "Load", Atomic: true, Held: heldAt(ri), Fresh: fresh, Kind: "atomic-" + a.Op})
						continue
					}
					if c := callOf(ref); c != nil {
						// method call on the field's address (sync.Map, atomic.Bool, mutex, embedded helper)
						out = append(out, access{Fn: fn, Node: ri, In: ref, Field: fld, Held: heldAt(ri), Fresh: fresh, Kind: "method:" + calleeQual(c)})
					}
				}
			}
		}
	}
	return out
}

// escapedBefore: the freshly allocated object `base` may already be visible to
// another goroutine when node n executes (it was stored into memory, passed to
// a go statement / call, or captured by a closure before n).
func escapedBefore(g *IG, base ssa.Value, n int) bool {
	al, ok := base.(*ssa.Alloc)
	if !ok {
		return true
	}
	var escapes []int
	for _, ref := range *al.Referrers() {
		ri, ok := g.Idx[ref]
		if !ok {
			continue
		}
		switch x := ref.(type) {
		case *ssa.FieldAddr, *ssa.UnOp, *ssa.DebugRef:
		case *ssa.Store:
			if x.Val == al {
				escapes = append(escapes, ri)
			}
		case *ssa.MakeClosure, *ssa.Go, *ssa.Defer, *ssa.MakeInterface, *ssa.Phi, *ssa.Return, *ssa.MapUpdate, *ssa.Send:
			if _, isRet := ref.(*ssa.Return); isRet {
				continue
			}
			if mi, isMI := ref.(*ssa.MakeInterface); isMI {
				// interface conversion alone does not publish; follow its users conservatively
				for _, u := range *mi.Referrers() {
					if ui, ok := g.Idx[u]; ok {
						if _, isRet := u.(*ssa.Return); !isRet {
							escapes = append(escapes, ui)
						}
					}
				}
				continue
			}
			escapes = append(escapes, ri)
		case *ssa.Call:
			// passing the object to a call may publish it (e.g. time.AfterFunc closure capturing it is a MakeClosure, handled above);
			// calls on the object itself (methods) are treated as non-publishing unless they are go statements
			_ = x
		}
	}
	for _, e := range escapes {
		if e == n {
			continue
		}
		if g.ReachAfter(e, nil, nil)[n] {
			return true
		}
	}
	return false
}

func isRefType(t types.Type) bool {
	switch t.Underlying().(type) {
	case *types.Map, *types.Slice, *types.Pointer, *types.Chan:
		return true
	}
	return false
}

type derivedUse struct {
	in    ssa.Instruction
	kind  string
	write bool
}

// derivedUses follows a reference value loaded from a field through lookups,
// sub-slices, phis, tuple extracts and range iterators, and lists every
// instruction that reads or mutates the object(s) it designates.
func derivedUses(root ssa.Value) []derivedUse {
	var out []derivedUse
	seen := map[ssa.Value]bool{root: true}
	work := []ssa.Value{root}
	add := func(v ssa.Value) {
		if !seen[v] {
			seen[v] = true
			work = append(work, v)
		}
	}
	for len(work) > 0 {
		v := work[len(work)-1]
		work = work[:len(work)-1]
		refs := v.Referrers()
		if refs == nil {
			continue
		}
		_, isPtr := v.Type().Underlying().(*types.Pointer)
		for _, u := range *refs {
			switch y := u.(type) {
			case *ssa.MapUpdate:
				if y.Map == v {
					out = append(out, derivedUse{u, "map-update", true})
				} else if (y.Value == v || y.Key == v) && isContainer(v.Type()) {
					out = append(out, derivedUse{u, "escape-store", false})
				}
			case *ssa.Lookup:
				if y.X == v {
					out = append(out, derivedUse{u, "lookup", false})
					// only inner containers stay under the guard; element pointers are objects with their own protection
					if y.CommaOk {
						if tup, ok := y.Type().(*types.Tuple); ok && isContainer(tup.At(0).Type()) {
							add(y)
						}
					} else if isContainer(y.Type()) {
						add(y)
					}
				}
			case *ssa.Extract:
				if isContainer(y.Type()) {
					add(y)
				}
			case *ssa.Range:
				out = append(out, derivedUse{u, "range", false})
				add(y)
			case *ssa.Next:
				out = append(out, derivedUse{u, "range-next", false})
			case *ssa.Phi:
				add(y)
			case *ssa.Slice:
				if y.X == v {
					out = append(out, derivedUse{u, "slice", false})
					add(y)
				}
			case *ssa.IndexAddr:
				if y.X == v {
					w := false
					for _, r := range *y.Referrers() {
						if st, ok := r.(*ssa.Store); ok && st.Addr == y {
							w = true
						}
					}
					out = append(out, derivedUse{u, "index", w})
				}
			case *ssa.Index:
				out = append(out, derivedUse{u, "index", false})
			case *ssa.ChangeType:
				add(y)
			case *ssa.MakeInterface:
				add(y)
			case *ssa.Store:
				if y.Val == v && isContainer(v.Type()) {
					out = append(out, derivedUse{u, "escape-store", false})
				}
			case *ssa.Return:
				if isContainer(v.Type()) {
					out = append(out, derivedUse{u, "escape-return", false})
				}
			case *ssa.Send:
				if isContainer(v.Type()) {
					out = append(out, derivedUse{u, "escape-send", false})
				}
			case *ssa.MakeClosure:
				if isContainer(v.Type()) {
					out = append(out, derivedUse{u, "escape-closure", false})
				}
			case *ssa.Call, *ssa.Go, *ssa.Defer:
				c := callOf(u)
				if b, ok := c.Value.(*ssa.Builtin); ok {
					switch b.Name() {
					case "delete", "clear":
						out = append(out, derivedUse{u, b.Name(), true})
					case "len", "cap":
						out = append(out, derivedUse{u, b.Name(), false})
					case "append":
						out = append(out, derivedUse{u, "append", false})
					case "copy":
						out = append(out, derivedUse{u, "copy", len(c.Args) > 0 && c.Args[0] == v})
					}
					continue
				}
				if isPtr {
					continue // pointer to a struct handed to a call: the callee's own field accesses are analysed where they occur
				}
				out = append(out, derivedUse{u, "passed-to:" + calleeQual(c), false})
			}
		}
	}
	return out
}

func isContainer(t types.Type) bool {
	switch t.Underlying().(type) {
	case *types.Map, *types.Slice:
		return true
	}
	return false
}
