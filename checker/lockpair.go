package main

// Lock pairing: every acquisition of a mutex is released on every path to the function's exit — explicitly, or by a deferred
// release registered on that path. A lock taken in a single-use closure / helper and released by its caller (hand-off) is
// judged on the caller's graph with the helper spliced in.

import (
	"go/types"
	"sort"

	"golang.org/x/tools/go/ssa"
)

type lockLeak struct {
	Fn    *ssa.Function
	In    ssa.Instruction
	Mutex string
}

func mutexOp(in ssa.Instruction) (op string, field *types.Var, base ssa.Value, deferred bool) {
	c := callOf(in)
	if c == nil || c.StaticCallee() == nil || len(c.Args) == 0 {
		return
	}
	switch calleeQual(c) {
	case "(sync.Mutex).Lock", "(sync.RWMutex).Lock":
		op = "Lock"
	case "(sync.Mutex).Unlock", "(sync.RWMutex).Unlock":
		op = "Unlock"
	case "(sync.RWMutex).RLock":
		op = "RLock"
	case "(sync.RWMutex).RUnlock":
		op = "RUnlock"
	default:
		return
	}
	field, base = fieldAddr(c.Args[0])
	_, deferred = in.(*ssa.Defer)
	return
}

// releasesOn: the nodes of g that release (op) the mutex field f: explicit calls, deferred calls, and deferred closures that
// release it on every path.
func (p *Program) releaseNodes(g *IG, want string, f *types.Var) map[int]bool {
	out := map[int]bool{}
	for i, in := range g.Nodes {
		if op, fld, _, _ := mutexOp(in); op == want && fld == f {
			out[i] = true
			continue
		}
		if d, isD := in.(*ssa.Defer); isD {
			var target *ssa.Function
			if mc, isMC := d.Call.Value.(*ssa.MakeClosure); isMC {
				target, _ = mc.Fn.(*ssa.Function)
			}
			if target != nil && p.mustDo(target, func(in2 ssa.Instruction) bool {
				op, fld, _, _ := mutexOp(in2)
				return op == want && fld == f
			}, 0) {
				out[i] = true
			}
		}
	}
	return out
}

func (p *Program) lockLeaks() (leaks []lockLeak, nLocks int) {
	for _, fn := range p.Mod {
		if len(fn.Blocks) == 0 {
			continue
		}
		g := p.ig(fn)
		for i, in := range g.Nodes {
			op, f, _, deferred := mutexOp(in)
			if deferred || f == nil || (op != "Lock" && op != "RLock") {
				continue
			}
			nLocks++
			rel := p.releaseNodes(g, map[string]string{"Lock": "Unlock", "RLock": "RUnlock"}[op], f)
			if !anyIn(g.ReachAfter(i, rel, nil), g.Exits) {
				continue
			}
			// hand-off: the function is spliced into exactly one caller's graph and the release follows there
			ok := false
			var roots []*ssa.Function
			if fn.Parent() != nil {
				roots = append(roots, fn.Parent())
			}
			if node := p.CG.Nodes[fn]; node != nil {
				for _, e := range node.In {
					if p.inModule(e.Caller.Func) && e.Caller.Func != fn {
						roots = append(roots, e.Caller.Func)
					}
				}
			}
			for _, root := range roots {
				rg := p.igx(root)
				ri, in2 := rg.Idx[in]
				if !in2 || !rg.owns(p, fn) {
					continue
				}
				rrel := p.releaseNodes(rg, map[string]string{"Lock": "Unlock", "RLock": "RUnlock"}[op], f)
				if !anyIn(rg.ReachAfter(ri, rrel, nil), rg.Exits) {
					ok = true
				}
			}
			if !ok {
				leaks = append(leaks, lockLeak{Fn: fn, In: in, Mutex: ownerName(f) + "." + f.Name()})
			}
		}
	}
	sort.Slice(leaks, func(i, j int) bool { return leaks[i].In.Pos() < leaks[j].In.Pos() })
	return
}

func lockPairing(p *Program, r *Report) {
	leaks, n := p.lockLeaks()
	for _, l := range leaks {
		r.Violate("lock "+l.Mutex+" acquired in "+fnName(l.Fn)+" is not released on every path", l.In.Pos(), "some path from this acquisition reaches the function's exit without the matching release (explicit, or deferred on that path): the next caller blocks forever")
	}
	if n == 0 {
		r.Unresolved("no mutex acquisition in the module")
		return
	}
	r.Check(len(leaks) == 0, "every mutex acquisition is released on every path", 0, "checked "+itoa(n)+" Lock / RLock sites of struct-field mutexes in the module: each is followed on every path to the exit by the matching Unlock / RUnlock, a deferred one, or — for a lock handed to the single caller — by the caller's release")
}
