package main

// Lock pairing: every acquisition of a mutex is released on every path to the function's exit — explicitly, or by a deferred
// release registered on that path. A lock taken in a single-use closure / helper and released by its caller (hand-off) is
// judged on the caller's graph with the helper spliced in.

import (
	"fmt"
	"go/token"
	"go/types"
	"sort"
	"strings"

	"golang.org/x/tools/go/ssa"
)

type lockLeak struct {
	Fn    *ssa.Function
	In    ssa.Instruction
	Mutex string
}

func mutexOp(in ssa.Instruction) (op string, field *types.Var, base ssa.Value, deferred bool) {
	c := callOf(in)
	if c == nil || c.StaticCallee() == nil || len(c.Args) == 0 {
		return
	}
	switch calleeQual(c) {
	case "(sync.Mutex).Lock", "(sync.RWMutex).Lock":
		op = "Lock"
	case "(sync.Mutex).Unlock", "(sync.RWMutex).Unlock":
		op = "Unlock"
	case "(sync.RWMutex).RLock":
		op = "RLock"
	case "(sync.RWMutex).RUnlock":
		op = "RUnlock"
	default:
		return
	}
	field, base = fieldAddr(c.Args[0])
	_, deferred = in.(*ssa.Defer)
	return
}

// releasesOn: the nodes of g that release (op) the mutex field f: explicit calls, deferred calls, and deferred closures that
// release it on every path.
func (p *Program) releaseNodes(g *IG, want string, f *types.Var) map[int]bool {
	out := map[int]bool{}
	for i, in := range g.Nodes {
		if op, fld, _, _ := mutexOp(in); op == want && fld == f {
			out[i] = true
			continue
		}
		if d, isD := in.(*ssa.Defer); isD {
			var target *ssa.Function
			if mc, isMC := d.Call.Value.(*ssa.MakeClosure); isMC {
				target, _ = mc.Fn.(*ssa.Function)
			}
			if target != nil && p.mustDo(target, func(in2 ssa.Instruction) bool {
				op, fld, _, _ := mutexOp(in2)
				return op == want && fld == f
			}, 0) {
				out[i] = true
			}
		}
	}
	return out
}

func (p *Program) lockLeaks() (leaks []lockLeak, nLocks int) {
	for _, fn := range p.Mod {
		if len(fn.Blocks) == 0 {
			continue
		}
		g := p.ig(fn)
		for i, in := range g.Nodes {
			op, f, _, deferred := mutexOp(in)
			if deferred || f == nil || (op != "Lock" && op != "RLock") {
				continue
			}
			nLocks++
			rel := p.releaseNodes(g, map[string]string{"Lock": "Unlock", "RLock": "RUnlock"}[op], f)
			if !anyIn(g.ReachAfter(i, rel, nil), g.Exits) {
				continue
			}
			// hand-off: the function is spliced into exactly one caller's graph and the release follows there
			ok := false
			var roots []*ssa.Function
			if fn.Parent() != nil {
				roots = append(roots, fn.Parent())
			}
			if node := p.CG.Nodes[fn]; node != nil {
				for _, e := range node.In {
					if p.inModule(e.Caller.Func) && e.Caller.Func != fn {
						roots = append(roots, e.Caller.Func)
					}
				}
			}
			for _, root := range roots {
				rg := p.igx(root)
				ri, in2 := rg.Idx[in]
				if !in2 || !rg.owns(p, fn) {
					continue
				}
				rrel := p.releaseNodes(rg, map[string]string{"Lock": "Unlock", "RLock": "RUnlock"}[op], f)
				if !anyIn(rg.ReachAfter(ri, rrel, nil), rg.Exits) {
					ok = true
				}
			}
			if !ok {
				leaks = append(leaks, lockLeak{Fn: fn, In: in, Mutex: ownerName(f) + "." + f.Name()})
			}
		}
	}
	sort.Slice(leaks, func(i, j int) bool { return leaks[i].In.Pos() < leaks[j].In.Pos() })
	return
}

func lockPairing(p *Program, r *Report) {
	leaks, n := p.lockLeaks()
	for _, l := range leaks {
		r.Violate("lock "+l.Mutex+" acquired in "+fnName(l.Fn)+" is not released on every path", l.In.Pos(), "some path from this acquisition reaches the function's exit without the matching release (explicit, or deferred on that path): the next caller blocks forever")
	}
	if n == 0 {
		r.Unresolved("no mutex acquisition in the module")
		return
	}
	r.Check(len(leaks) == 0, "every mutex acquisition is released on every path", 0, "checked "+itoa(n)+" Lock / RLock sites of struct-field mutexes in the module: each is followed on every path to the exit by the matching Unlock / RUnlock, a deferred one, or — for a lock handed to the single caller — by the caller's release")
}

// lockReentrancy — no goroutine acquires a mutex it already holds.
//
// sync.Mutex and sync.RWMutex are not re-entrant. A second Lock by the holder blocks for ever; a second RLock blocks as soon as
// a writer is waiting in between (writers are preferred), and that writer then waits for the first RLock to be released — which
// the blocked holder never does. For every acquisition of a struct-field mutex, between it and its release(s) no call runs a
// method of the same receiver object that (itself, or through same-receiver helpers, depth 3) acquires the same field.
func lockReentrancy(p *Program, r *Report) {
	// which mutex fields a function acquires on its own receiver, transitively through calls on the same receiver
	memo := map[*ssa.Function]map[*types.Var]bool{}
	var acquires func(fn *ssa.Function, depth int) map[*types.Var]bool
	acquires = func(fn *ssa.Function, depth int) map[*types.Var]bool {
		if m, ok := memo[fn]; ok {
			return m
		}
		m := map[*types.Var]bool{}
		memo[fn] = m
		if len(fn.Params) == 0 || fn.Signature.Recv() == nil {
			return m
		}
		recv := ssa.Value(fn.Params[0])
		for _, b := range fn.Blocks {
			for _, in := range b.Instrs {
				if op, f, base, deferred := mutexOp(in); !deferred && f != nil && (op == "Lock" || op == "RLock") && strip(base) == recv {
					m[f] = true
				}
				if depth > 0 {
					if c := callOf(in); c != nil {
						if _, isGo := in.(*ssa.Go); isGo {
							continue
						}
						if y := c.StaticCallee(); y != nil && p.inModule(y) && y.Signature.Recv() != nil && len(c.Args) > 0 && strip(c.Args[0]) == recv {
							for f := range acquires(y, depth-1) {
								m[f] = true
							}
						}
					}
				}
			}
		}
		return m
	}
	n := 0
	for _, fn := range p.Mod {
		if len(fn.Blocks) == 0 {
			continue
		}
		g := p.ig(fn)
		for i, in := range g.Nodes {
			op, f, base, deferred := mutexOp(in)
			if deferred || f == nil || (op != "Lock" && op != "RLock") {
				continue
			}
			n++
			rel := p.releaseNodes(g, map[string]string{"Lock": "Unlock", "RLock": "RUnlock"}[op], f)
			// explicit releases end the section; a deferred release keeps it open until the exit
			explicit := map[int]bool{}
			for k := range rel {
				if _, isD := g.Nodes[k].(*ssa.Defer); !isD {
					explicit[k] = true
				}
			}
			section := g.ReachAfter(i, explicit, nil)
			bad := ""
			var pos = in.Pos()
			for k := range section {
				c := callOf(g.Nodes[k])
				if c == nil || k == i {
					continue
				}
				if _, isGo := g.Nodes[k].(*ssa.Go); isGo {
					continue
				}
				if _, isD := g.Nodes[k].(*ssa.Defer); isD {
					continue
				}
				y := c.StaticCallee()
				if y == nil || !p.inModule(y) || y.Signature.Recv() == nil || len(c.Args) == 0 || strip(c.Args[0]) != strip(base) {
					continue
				}
				if acquires(y, 3)[f] {
					bad, pos = fnName(y), g.Nodes[k].Pos()
				}
			}
			if bad != "" {
				r.Violate("mutex "+ownerName(f)+"."+f.Name()+" re-acquired while held in "+fnName(fn), pos, "between this acquisition and its release the same goroutine calls "+bad+", which acquires the same mutex of the same object: a second Lock blocks for ever, a second RLock blocks as soon as a writer waits in between — and that writer then waits for ever too")
			}
		}
	}
	r.Check(n > 0, "mutex acquisitions examined for re-entrancy", token.NoPos, fmt.Sprintf("%d acquisitions of struct-field mutexes: no call made while one is held runs a same-receiver method that acquires the same mutex", n))
}

// lockPanicSafety — a mutex held while user code runs is released by defer.
//
// User code (an Actor's hooks, option functions, behaviours) may panic, and callers recover such panics (supervision, or the
// caller's own recover). A mutex released by an explicit Unlock after the call stays locked when the call panics: every later
// acquirer blocks for ever. For every acquisition of a struct-field mutex that is released explicitly only (no deferred release
// registered in the function), no call between the acquisition and the release reaches — through module functions, depth 4 — an
// invoke of an interface of the library's public package or a call of a function value of a named function type of that package.
func lockPanicSafety(p *Program, r *Report) {
	root := p.tpkg("")
	memo := map[*ssa.Function]int{}
	var runsUser func(fn *ssa.Function, depth int) bool
	runsUser = func(fn *ssa.Function, depth int) bool {
		if v, ok := memo[fn]; ok {
			return v == 1
		}
		memo[fn] = 2
		res := false
		for _, b := range fn.Blocks {
			for _, in := range b.Instrs {
				c := callOf(in)
				if c == nil {
					continue
				}
				if _, isGo := in.(*ssa.Go); isGo {
					continue
				}
				if c.IsInvoke() {
					// hooks the user implements: On… methods, providers, codecs — not the interfaces the library itself implements
					// for its references, contexts and mailboxes
					if nt := namedOf(c.Value.Type()); nt != nil && nt.Obj().Pkg() == root {
						m := c.Method.Name()
						if strings.HasPrefix(m, "On") || m == "Provide" || m == "Encode" || m == "Decode" {
							res = true
						}
					}
					continue
				}
				if y := c.StaticCallee(); y != nil {
					if depth > 0 && p.inModule(y) && len(y.Blocks) > 0 && runsUser(y, depth-1) {
						res = true
					}
					continue
				}
				if _, isB := c.Value.(*ssa.Builtin); isB {
					continue
				}
				if nt := namedOf(c.Value.Type()); nt != nil && nt.Obj().Pkg() == root {
					res = true
				}
			}
		}
		if res {
			memo[fn] = 1
		}
		return res
	}
	n := 0
	for _, fn := range p.Mod {
		if len(fn.Blocks) == 0 {
			continue
		}
		g := p.ig(fn)
		for i, in := range g.Nodes {
			op, f, _, deferred := mutexOp(in)
			if deferred || f == nil || (op != "Lock" && op != "RLock") {
				continue
			}
			n++
			rel := p.releaseNodes(g, map[string]string{"Lock": "Unlock", "RLock": "RUnlock"}[op], f)
			hasDefer := false
			explicit := map[int]bool{}
			for k := range rel {
				if _, isD := g.Nodes[k].(*ssa.Defer); isD {
					hasDefer = true
				} else {
					explicit[k] = true
				}
			}
			if hasDefer || len(explicit) == 0 {
				continue
			}
			section := g.ReachAfter(i, explicit, nil)
			for k := range section {
				if k == i {
					continue
				}
				c := callOf(g.Nodes[k])
				if c == nil {
					continue
				}
				if _, isGo := g.Nodes[k].(*ssa.Go); isGo {
					continue
				}
				y := c.StaticCallee()
				if y == nil || !p.inModule(y) || len(y.Blocks) == 0 {
					continue
				}
				memo = map[*ssa.Function]int{}
				if runsUser(y, 4) {
					r.Violate("mutex "+ownerName(f)+"."+f.Name()+" held across user code in "+fnName(fn)+" without a deferred release", g.Nodes[k].Pos(), "the call to "+fnName(y)+" can run user code (actor hooks, option functions), which may panic and be recovered by the caller; the explicit release after it is skipped then and the mutex stays locked for ever")
				}
			}
		}
	}
	r.Check(n > 0, "explicitly released mutexes examined for panic safety", token.NoPos, fmt.Sprintf("%d acquisitions: none that is released explicitly only is held across a call that can run user code", n))
}
