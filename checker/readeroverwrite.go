package main

import (
	"fmt"
	"go/types"

	"golang.org/x/tools/go/ssa"
)

// c12DecodedKept — a registered reader never overwrites what it has decoded.
//
// A registered reader fills the message it is handed from the stream. Whatever it stores into the message AFTER a read — the
// whole struct (`*m = *registered`) or a field whose address it handed to the Reader — replaces decoded wire content by local
// content: the decoded value no longer equals what was encoded (an error reply loses the detail attached with With /
// WithMessage when it crosses systems, while the same reply on a local reference keeps it).
func c12DecodedKept(p *Program, r *Report) {
	c := p.codec()
	n := 0
	for _, rg := range p.registrations() {
		fn := rg.Reader
		if fn == nil || len(fn.Blocks) == 0 {
			continue
		}
		// the message: a pointer parameter that is neither the stream nor the codec, or the typed view of the `any` parameter
		anyPrm := map[ssa.Value]bool{}
		ptrPrm := map[ssa.Value]bool{}
		for _, prm := range fn.Params {
			if nt := namedOf(prm.Type()); nt != nil && (nt == c.ReaderT || nt == c.WriterT || nt.Obj().Name() == "Codec") {
				continue
			}
			if pt, isPtr := prm.Type().Underlying().(*types.Pointer); isPtr {
				if nt := namedOf(pt.Elem()); nt != nil && (nt == c.ReaderT || nt == c.WriterT) {
					continue
				}
				ptrPrm[prm] = true
			}
			if _, isIface := prm.Type().Underlying().(*types.Interface); isIface {
				anyPrm[prm] = true
			}
		}
		isMsg := func(v ssa.Value) bool {
			for k := 0; k < 4; k++ {
				switch x := v.(type) {
				case *ssa.Extract:
					v = x.Tuple
					continue
				case *ssa.TypeAssert:
					return anyPrm[x.X]
				case *ssa.ChangeType:
					v = x.X
					continue
				}
				break
			}
			return ptrPrm[v]
		}
		g := p.ig(fn)
		// reads: Reader calls that receive the address of a field of the message (directly or in a variadic slice)
		readAt := map[*types.Var][]int{}
		var anyRead []int
		for i, in := range g.Nodes {
			cc := callOf(in)
			if cc == nil || cc.StaticCallee() == nil || cc.StaticCallee().Signature.Recv() == nil || namedOf(cc.StaticCallee().Signature.Recv().Type()) != c.ReaderT {
				continue
			}
			var args []ssa.Value
			for _, a := range callArgs(cc) {
				if elems, ok := varargElems(a); ok && len(elems) > 0 {
					args = append(args, elems...)
				} else {
					args = append(args, a)
				}
			}
			for _, a := range args {
				v := strip(a)
				if mi, isMI := v.(*ssa.MakeInterface); isMI {
					v = strip(mi.X)
				}
				if fa, isFA := v.(*ssa.FieldAddr); isFA && isMsg(fa.X) {
					if f := fieldOfAddr(fa); f != nil {
						readAt[f] = append(readAt[f], i)
						anyRead = append(anyRead, i)
					}
				}
			}
		}
		if len(anyRead) == 0 {
			continue
		}
		n++
		bad := ""
		pos := fn.Pos()
		for i, in := range g.Nodes {
			st, ok := in.(*ssa.Store)
			if !ok {
				continue
			}
			after := func(reads []int) bool {
				for _, rd := range reads {
					if g.ReachAfter(rd, nil, nil)[i] {
						return true
					}
				}
				return false
			}
			if isMsg(st.Addr) && after(anyRead) {
				bad, pos = "the whole message is assigned after its fields were read from the stream", st.Pos()
			}
			if fa, isFA := st.Addr.(*ssa.FieldAddr); isFA && isMsg(fa.X) {
				if f := fieldOfAddr(fa); f != nil && after(readAt[f]) {
					bad, pos = "field "+f.Name()+" is assigned after it was read from the stream", st.Pos()
				}
			}
		}
		r.Check(bad == "", fmt.Sprintf("%s keeps what it decoded", fnName(fn)), pos, map[bool]string{true: "no store into the message (as a whole, or into a field handed to the Reader) is reachable after the read: the decoded value is what was on the wire", false: bad + ": decoded wire content is replaced by local content, the round trip is no longer the identity"}[bad == ""])
	}
	if n == 0 {
		r.Unresolved("registered readers that hand field addresses of their message to the Reader")
	}
}
