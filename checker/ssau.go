package main

// SSA utilities: instruction-level flow graph with labelled branch edges,
// reachability with removed nodes/edges (dominance, must-pass-through),
// recognition of sync/atomic operations, field addresses, comparisons.

import (
	"go/constant"
	"go/token"
	"go/types"
	"reflect"
	"sort"
	"strings"
	"unsafe"

	"golang.org/x/tools/go/ssa"
)

// ---- instruction graph -----------------------------------------------------------

type IG struct {
	Fn      *ssa.Function
	Fns     []*ssa.Function             // Fn plus the single-call helpers inlined into the graph (igx)
	Bind    map[ssa.Value]ssa.Value     // parameter of an inlined helper -> the argument at its (single) call site
	Inlined map[*ssa.Call]*ssa.Function // call sites spliced into the graph
	virt    []*vIf                      // virtual branch nodes (a decision parked in a boolean local, resolved per incoming path)
	virtIdx map[*vIf]int
	Nodes   []ssa.Instruction
	Idx     map[ssa.Instruction]int
	Succ    [][]int
	Pred    [][]int
	Exits   []int // Return instructions (panics are not success exits)
	Panic   []int
}

type edge struct{ from, to int }

func (p *Program) ig(fn *ssa.Function) *IG { return p.ig0(fn) }

// ig0: the flow graph of fn alone.
func (p *Program) ig0(fn *ssa.Function) *IG {
	if g, ok := p.igCache[fn]; ok {
		return g
	}
	g := &IG{Fn: fn, Fns: []*ssa.Function{fn}, Idx: map[ssa.Instruction]int{}}
	first := map[*ssa.BasicBlock]int{}
	for _, b := range fn.Blocks {
		first[b] = len(g.Nodes)
		for _, in := range b.Instrs {
			g.Idx[in] = len(g.Nodes)
			g.Nodes = append(g.Nodes, in)
		}
	}
	g.Succ = make([][]int, len(g.Nodes))
	g.Pred = make([][]int, len(g.Nodes))
	for _, b := range fn.Blocks {
		base := first[b]
		for i := range b.Instrs {
			n := base + i
			if i+1 < len(b.Instrs) {
				g.Succ[n] = append(g.Succ[n], n+1)
				continue
			}
			for _, s := range b.Succs {
				g.Succ[n] = append(g.Succ[n], g.targetNode(p.resolveEdge(b, s), first))
			}
			switch b.Instrs[i].(type) {
			case *ssa.Return:
				g.Exits = append(g.Exits, n)
			case *ssa.Panic:
				g.Panic = append(g.Panic, n)
			}
		}
	}
	g.finishVirtual(first)
	for n, ss := range g.Succ {
		for _, s := range ss {
			g.Pred[s] = append(g.Pred[s], n)
		}
	}
	p.igCache[fn] = g
	return g
}

// Reach computes the set of nodes reachable from the given start nodes without
// entering a node of avoidN and without taking an edge of avoidE. Start nodes
// themselves are included (even when in avoidN they are not expanded).
func (g *IG) Reach(start []int, avoidN map[int]bool, avoidE map[edge]bool) map[int]bool {
	seen := map[int]bool{}
	var stack []int
	for _, s := range start {
		if !seen[s] {
			seen[s] = true
			stack = append(stack, s)
		}
	}
	first := map[int]bool{}
	for _, s := range start {
		first[s] = true
	}
	for len(stack) > 0 {
		n := stack[len(stack)-1]
		stack = stack[:len(stack)-1]
		if avoidN[n] {
			continue // an avoided node is reached but never expanded — also when it is a start node
		}
		for _, s := range g.Succ[n] {
			if avoidE[edge{n, s}] || seen[s] {
				continue
			}
			seen[s] = true
			if avoidN[s] {
				continue // reached but not expanded
			}
			stack = append(stack, s)
		}
	}
	return seen
}

// ReachFromSuccs is Reach starting at the successors of n (n itself only if on a cycle).
func (g *IG) ReachAfter(n int, avoidN map[int]bool, avoidE map[edge]bool) map[int]bool {
	seen := map[int]bool{}
	var stack []int
	for _, s := range g.Succ[n] {
		if avoidE[edge{n, s}] || seen[s] {
			continue
		}
		seen[s] = true
		if !avoidN[s] {
			stack = append(stack, s)
		}
	}
	for len(stack) > 0 {
		m := stack[len(stack)-1]
		stack = stack[:len(stack)-1]
		for _, s := range g.Succ[m] {
			if avoidE[edge{m, s}] || seen[s] {
				continue
			}
			seen[s] = true
			if !avoidN[s] {
				stack = append(stack, s)
			}
		}
	}
	return seen
}

func (g *IG) entry() []int {
	if len(g.Nodes) == 0 {
		return nil
	}
	return []int{0}
}

// DominatedByNodes: every path from function entry to target passes through one of the nodes.
func (g *IG) DominatedByNodes(target int, nodes map[int]bool) bool {
	if nodes[target] {
		return true
	}
	if nodes[0] {
		return true
	}
	r := g.Reach(g.entry(), nodes, nil)
	return !r[target]
}

// DominatedByEdges: every path from entry to target takes one of the edges.
func (g *IG) DominatedByEdges(target int, edges map[edge]bool) bool {
	r := g.Reach(g.entry(), nil, edges)
	return !r[target]
}

// branchEdge returns the edge leaving the If instruction on the given outcome.
func (g *IG) branchEdge(ifi *ssa.If, outcome bool) edge {
	n := g.Idx[ifi]
	k := 0
	if !outcome {
		k = 1
	}
	if k >= len(g.Succ[n]) {
		return edge{n, -1}
	}
	return edge{n, g.Succ[n][k]}
}

func setOf(ns ...int) map[int]bool {
	m := map[int]bool{}
	for _, n := range ns {
		m[n] = true
	}
	return m
}

func union(a, b map[int]bool) map[int]bool {
	m := map[int]bool{}
	for k := range a {
		m[k] = true
	}
	for k := range b {
		m[k] = true
	}
	return m
}

func anyIn(set map[int]bool, ns []int) bool {
	for _, n := range ns {
		if set[n] {
			return true
		}
	}
	return false
}

// ---- calls ---------------------------------------------------------------------

func callOf(in ssa.Instruction) *ssa.CallCommon {
	switch c := in.(type) {
	case *ssa.Call:
		return &c.Call
	case *ssa.Go:
		return &c.Call
	case *ssa.Defer:
		return &c.Call
	}
	return nil
}

// calleeFunc: static callee, or (for method values/closures) the function a
// MakeClosure wraps.
func calleeFunc(c *ssa.CallCommon) *ssa.Function {
	if c == nil {
		return nil
	}
	if f := c.StaticCallee(); f != nil {
		return f
	}
	return nil
}

// calleeQual returns "pkgpath.Name" or "(pkgpath.Recv).Name" for static and
// interface-method calls; "" for dynamic function values.
func calleeQual(c *ssa.CallCommon) string {
	if c == nil {
		return ""
	}
	if c.IsInvoke() {
		return methodQual(c.Method)
	}
	if f := c.StaticCallee(); f != nil {
		if o := f.Origin(); o != nil {
			f = o
		}
		if obj, ok := f.Object().(*types.Func); ok && obj != nil {
			return methodQual(obj)
		}
		return f.String()
	}
	return ""
}

func methodQual(m *types.Func) string {
	if m == nil {
		return ""
	}
	m = m.Origin()
	sig := m.Type().(*types.Signature)
	pk := ""
	if m.Pkg() != nil {
		pk = m.Pkg().Path()
	}
	if recv := sig.Recv(); recv != nil {
		t := recv.Type()
		if pt, ok := t.(*types.Pointer); ok {
			t = pt.Elem()
		}
		switch n := t.(type) {
		case *types.Named:
			return "(" + pk + "." + n.Obj().Name() + ")." + m.Name()
		case *types.Alias:
			return "(" + pk + "." + n.Obj().Name() + ")." + m.Name()
		}
		return "(" + types.TypeString(t, nil) + ")." + m.Name()
	}
	return pk + "." + m.Name()
}

func isCallTo(in ssa.Instruction, quals ...string) bool {
	c := callOf(in)
	if c == nil {
		return false
	}
	q := calleeQual(c)
	for _, w := range quals {
		if q == w {
			return true
		}
	}
	return false
}

// vq builds a qualified name inside the module: vq("internal/actor","Context","tell").
func vq(rel, recv, name string) string {
	path := modPath
	if rel != "" {
		path += "/" + rel
	}
	if recv == "" {
		return path + "." + name
	}
	return "(" + path + "." + recv + ")." + name
}

// callArgs returns the arguments excluding the receiver.
func callArgs(c *ssa.CallCommon) []ssa.Value {
	if c.IsInvoke() {
		return c.Args
	}
	if f := c.StaticCallee(); f != nil && f.Signature.Recv() != nil && len(c.Args) > 0 {
		return c.Args[1:]
	}
	return c.Args
}

func callRecv(c *ssa.CallCommon) ssa.Value {
	if c.IsInvoke() {
		return c.Value
	}
	if f := c.StaticCallee(); f != nil && f.Signature.Recv() != nil && len(c.Args) > 0 {
		return c.Args[0]
	}
	return nil
}

// ---- values ----------------------------------------------------------------------

// strip removes representation-only wrappers.
func strip(v ssa.Value) ssa.Value {
	for {
		switch x := v.(type) {
		case *ssa.ChangeType:
			v = x.X
		case *ssa.Convert:
			v = x.X
		case *ssa.MakeInterface:
			v = x.X
		case *ssa.ChangeInterface:
			v = x.X
		case *ssa.UnOp:
			// captured-variable spill: `t0 = new T (x); *t0 = x; ... *t0` with a single store
			if x.Op != token.MUL {
				return v
			}
			al, ok := x.X.(*ssa.Alloc)
			if !ok {
				return v
			}
			var only ssa.Value
			n := 0
			for _, r := range *al.Referrers() {
				if st, ok := r.(*ssa.Store); ok && st.Addr == al {
					only = st.Val
					n++
				}
			}
			if n != 1 {
				return v
			}
			v = only
		default:
			return v
		}
	}
}

// fieldAddr: if v is &base.f (FieldAddr) return (field, base).
func fieldAddr(v ssa.Value) (*types.Var, ssa.Value) {
	fa, ok := v.(*ssa.FieldAddr)
	if !ok {
		return nil, nil
	}
	t := fa.X.Type()
	if pt, ok := t.Underlying().(*types.Pointer); ok {
		t = pt.Elem()
	}
	st, _ := t.Underlying().(*types.Struct)
	if st == nil || fa.Field >= st.NumFields() {
		return nil, nil
	}
	return st.Field(fa.Field).Origin(), unspill(fa.X)
}

// unspill looks through the heap cell go/ssa creates for variables captured by closures.
func unspill(v ssa.Value) ssa.Value {
	if u, ok := v.(*ssa.UnOp); ok && u.Op == token.MUL {
		if _, ok := u.X.(*ssa.Alloc); ok {
			if w := strip(v); w != v {
				return w
			}
		}
	}
	return v
}

// fieldLoad: if v is a load *(&base.f) or a Field extraction, return (field, base).
func fieldLoad(v ssa.Value) (*types.Var, ssa.Value) {
	switch x := v.(type) {
	case *ssa.UnOp:
		if x.Op == token.MUL {
			return fieldAddr(x.X)
		}
	case *ssa.Field:
		st, _ := x.X.Type().Underlying().(*types.Struct)
		if st != nil && x.Field < st.NumFields() {
			return st.Field(x.Field).Origin(), x.X
		}
	}
	return nil, nil
}

func constInt(v ssa.Value) (int64, bool) {
	c, ok := strip(v).(*ssa.Const)
	if !ok || c.Value == nil {
		return 0, false
	}
	if c.Value.Kind() != constant.Int {
		return 0, false
	}
	n, exact := constant.Int64Val(c.Value)
	return n, exact
}

func constBool(v ssa.Value) (bool, bool) {
	c, ok := v.(*ssa.Const)
	if !ok || c.Value == nil || c.Value.Kind() != constant.Bool {
		return false, false
	}
	return constant.BoolVal(c.Value), true
}

func isNilConst(v ssa.Value) bool {
	c, ok := v.(*ssa.Const)
	return ok && c.Value == nil
}

// ---- atomics ---------------------------------------------------------------------

type atomicOp struct {
	Op    string // Load Store Add CAS Swap
	Addr  ssa.Value
	Field *types.Var // field addressed, when Addr is &x.f
	Base  ssa.Value
	Args  []ssa.Value // operands after the address (Store: val; Add: delta; CAS: old,new)
	Call  *ssa.CallCommon
}

// atomicCall recognises sync/atomic package functions and methods of the
// sync/atomic types.
func atomicCall(in ssa.Instruction) *atomicOp {
	c := callOf(in)
	if c == nil || c.IsInvoke() {
		return nil
	}
	f := c.StaticCallee()
	if f == nil {
		return nil
	}
	if o := f.Origin(); o != nil {
		f = o
	}
	obj, _ := f.Object().(*types.Func)
	if obj == nil || obj.Pkg() == nil || obj.Pkg().Path() != "sync/atomic" {
		return thinAtomicWrapper(c, f)
	}
	name := obj.Name()
	if len(c.Args) == 0 {
		return nil
	}
	op := ""
	switch {
	case strings.HasPrefix(name, "Load"):
		op = "Load"
	case strings.HasPrefix(name, "Store"):
		op = "Store"
	case strings.HasPrefix(name, "Add"):
		op = "Add"
	case strings.HasPrefix(name, "CompareAndSwap"):
		op = "CAS"
	case strings.HasPrefix(name, "Swap"):
		op = "Swap"
	case strings.HasPrefix(name, "And"), strings.HasPrefix(name, "Or"):
		op = "RMW"
	default:
		return nil
	}
	a := &atomicOp{Op: op, Addr: c.Args[0], Args: c.Args[1:], Call: c}
	a.Field, a.Base = fieldAddr(c.Args[0])
	return a
}

// ---- comparisons -------------------------------------------------------------------

// cmpFact describes what an If condition says about a value on its TRUE edge:
// X <Op> C, with C an integer constant; or X ==/!= nil (IsNil); or a bare
// boolean value (Op==NEQ, C==0 on a bool: "X is true").
type cmpFact struct {
	X     ssa.Value
	Op    token.Token
	C     int64
	IsNil bool
	Bool  bool
	Y     ssa.Value // non-constant right operand (X Op Y), when C is not constant
}

func negTok(t token.Token) token.Token {
	switch t {
	case token.EQL:
		return token.NEQ
	case token.NEQ:
		return token.EQL
	case token.LSS:
		return token.GEQ
	case token.GEQ:
		return token.LSS
	case token.GTR:
		return token.LEQ
	case token.LEQ:
		return token.GTR
	}
	return t
}

func flipTok(t token.Token) token.Token {
	switch t {
	case token.LSS:
		return token.GTR
	case token.GTR:
		return token.LSS
	case token.LEQ:
		return token.GEQ
	case token.GEQ:
		return token.LEQ
	}
	return t
}

// condFact normalises cond for the given branch outcome.
func condFact(cond ssa.Value, outcome bool) (cmpFact, bool) {
	switch c := cond.(type) {
	case *ssa.UnOp:
		if c.Op == token.NOT {
			return condFact(c.X, !outcome)
		}
	case *ssa.BinOp:
		op := c.Op
		switch op {
		case token.EQL, token.NEQ, token.LSS, token.LEQ, token.GTR, token.GEQ:
		default:
			return cmpFact{}, false
		}
		x, y := c.X, c.Y
		if _, ok := constInt(x); ok || isNilConst(x) {
			x, y = y, x
			op = flipTok(op)
		}
		if !outcome {
			op = negTok(op)
		}
		if isNilConst(y) {
			return cmpFact{X: x, Op: op, IsNil: true}, true
		}
		if n, ok := constInt(y); ok {
			return cmpFact{X: x, Op: op, C: n}, true
		}
		if b, ok := constBool(y); ok {
			// x == true etc.
			t := (op == token.EQL) == b
			return cmpFact{X: x, Bool: true, Op: map[bool]token.Token{true: token.NEQ, false: token.EQL}[t], C: 0}, true
		}
		return cmpFact{X: x, Op: op, Y: y}, true
	}
	if b, ok := cond.Type().Underlying().(*types.Basic); ok && b.Kind() == types.Bool {
		op := token.NEQ
		if !outcome {
			op = token.EQL
		}
		return cmpFact{X: cond, Bool: true, Op: op, C: 0}, true
	}
	return cmpFact{}, false
}

// impliesPositive: the fact implies X > 0 (or X != 0 which we accept for counters).
func (f cmpFact) impliesPositive() bool {
	if f.IsNil || f.Bool || f.Y != nil {
		return false
	}
	switch f.Op {
	case token.GTR:
		return f.C >= 0
	case token.GEQ:
		return f.C >= 1
	case token.NEQ:
		return f.C == 0
	}
	return false
}

// impliesEq: the fact implies X == c.
func (f cmpFact) impliesEq(c int64) bool {
	if f.IsNil || f.Y != nil {
		return false
	}
	return f.Op == token.EQL && f.C == c
}

// impliesNe: fact implies X != c
func (f cmpFact) impliesNe(c int64) bool {
	if f.IsNil || f.Y != nil {
		return false
	}
	switch f.Op {
	case token.NEQ:
		return f.C == c
	case token.EQL:
		return f.C != c
	case token.GTR:
		return f.C >= c
	case token.LSS:
		return f.C <= c
	}
	return false
}

// ifs lists the If instructions of a function.
func ifsOf(fn *ssa.Function) []*ssa.If {
	var out []*ssa.If
	for _, b := range fn.Blocks {
		if len(b.Instrs) == 0 {
			continue
		}
		if i, ok := b.Instrs[len(b.Instrs)-1].(*ssa.If); ok {
			out = append(out, i)
		}
	}
	// virtual branches of fn (see resolveEdge): created when the function's graph is built
	if theProgram != nil {
		theProgram.ig0(fn)
		for _, v := range theProgram.vifs[fn] {
			out = append(out, v.If)
		}
	}
	return out
}

// ---- path-sensitive resolution of parked decisions -------------------------------------------
//
// `hasWork := a || (b && c); if !hasWork { return }` compiles to join blocks that consist of phis (and negations) only and
// end in a jump or in a branch on such a phi. For an edge entering such a block the value of the phi is known: a boolean
// constant (control continues at one successor: jump threading) or a value computed earlier on that path (the comparison
// `c`). In the second case the edge leads to a VIRTUAL branch node testing that value, whose successors are the (resolved)
// successors of the join block's branch. Edge predicates then stay exact for code that parks a decision in a local.

type vIf struct {
	If   *ssa.If
	T, F edgeTarget
}

type edgeTarget struct {
	blk *ssa.BasicBlock
	v   *vIf
}

var theProgram *Program

func (p *Program) resolveEdge(from, to *ssa.BasicBlock) edgeTarget {
	if p.edgeMemo == nil {
		p.edgeMemo = map[[2]*ssa.BasicBlock]edgeTarget{}
		p.vifs = map[*ssa.Function][]*vIf{}
	}
	k := [2]*ssa.BasicBlock{from, to}
	if t, ok := p.edgeMemo[k]; ok {
		return t
	}
	t := p.resolveEdgeEnv(from, to, map[ssa.Value]ssa.Value{}, 0)
	p.edgeMemo[k] = t
	return t
}

func (p *Program) resolveEdgeEnv(from, to *ssa.BasicBlock, env map[ssa.Value]ssa.Value, depth int) edgeTarget {
	for ; depth < 8; depth++ {
		if len(to.Instrs) == 0 {
			return edgeTarget{blk: to}
		}
		// pure join block: phis and negations only, then jump / if
		last := to.Instrs[len(to.Instrs)-1]
		_, isIf := last.(*ssa.If)
		_, isJump := last.(*ssa.Jump)
		if !isIf && !isJump {
			return edgeTarget{blk: to}
		}
		pure, hasPhi := true, false
		for _, in := range to.Instrs[:len(to.Instrs)-1] {
			switch x := in.(type) {
			case *ssa.Phi:
				hasPhi = true
			case *ssa.UnOp:
				if x.Op != token.NOT {
					pure = false
				}
			case *ssa.DebugRef:
			default:
				pure = false
			}
		}
		if !pure || !hasPhi {
			return edgeTarget{blk: to}
		}
		pi := -1
		for i, pr := range to.Preds {
			if pr == from {
				if pi >= 0 {
					return edgeTarget{blk: to} // both branches of one If lead here: ambiguous
				}
				pi = i
			}
		}
		if pi < 0 {
			return edgeTarget{blk: to}
		}
		// a jump-only join whose phis are used outside the chain of joins must stay on the path (its values matter later);
		// skipping it is harmless for reachability: phis are not effects
		env2 := map[ssa.Value]ssa.Value{}
		for k, v := range env {
			env2[k] = v
		}
		for _, in := range to.Instrs {
			if ph, ok := in.(*ssa.Phi); ok && pi < len(ph.Edges) {
				v := ph.Edges[pi]
				if w, ok := env[v]; ok {
					v = w
				}
				env2[ph] = v
			}
		}
		if isJump {
			from, to, env = to, to.Succs[0], env2
			continue
		}
		ifi := last.(*ssa.If)
		cond, neg := ifi.Cond, false
		for {
			if u, ok := cond.(*ssa.UnOp); ok && u.Op == token.NOT && u.Block() == to {
				cond, neg = u.X, !neg
				continue
			}
			break
		}
		if w, ok := env2[cond]; ok {
			cond = w
		}
		if ph, ok := cond.(*ssa.Phi); ok && ph.Block() == to {
			return edgeTarget{blk: to} // unresolved
		}
		if c, ok := cond.(*ssa.Const); ok {
			b, isB := constBool(c)
			if !isB {
				return edgeTarget{blk: to}
			}
			if neg {
				b = !b
			}
			k := 1
			if b {
				k = 0
			}
			from, to, env = to, to.Succs[k], env2
			continue
		}
		if cond == ifi.Cond && !neg {
			return edgeTarget{blk: to} // the branch tests a value that is not a phi of this block: an ordinary block
		}
		// a value computed earlier on this path decides the branch
		v := &vIf{If: &ssa.If{Cond: cond}}
		setInstrBlock(v.If, to)
		tk, fk := 0, 1
		if neg {
			tk, fk = 1, 0
		}
		v.T = p.resolveEdgeEnv(to, to.Succs[tk], env2, depth+1)
		v.F = p.resolveEdgeEnv(to, to.Succs[fk], env2, depth+1)
		fn := to.Parent()
		p.vifs[fn] = append(p.vifs[fn], v)
		return edgeTarget{v: v}
	}
	return edgeTarget{blk: to}
}

// setInstrBlock sets the unexported block of a synthesised instruction so that Block()/Parent() work.
func setInstrBlock(in *ssa.If, b *ssa.BasicBlock) {
	f := reflect.ValueOf(in).Elem().FieldByName("anInstruction").FieldByName("block")
	*(**ssa.BasicBlock)(unsafe.Pointer(f.UnsafeAddr())) = b
}

// targetNode: the node index of an edge target; virtual branch nodes are allocated after the real ones.
func (g *IG) targetNode(t edgeTarget, first map[*ssa.BasicBlock]int) int {
	if t.v == nil {
		return first[t.blk]
	}
	if g.virtIdx == nil {
		g.virtIdx = map[*vIf]int{}
	}
	if i, ok := g.virtIdx[t.v]; ok {
		return i
	}
	i := len(g.Nodes)
	g.virtIdx[t.v] = i
	g.virt = append(g.virt, t.v)
	g.Nodes = append(g.Nodes, t.v.If)
	g.Idx[t.v.If] = i
	g.Succ = append(g.Succ, nil)
	if g.Pred != nil {
		g.Pred = append(g.Pred, nil)
	}
	return i
}

// finishVirtual wires the successors of the virtual branch nodes (which may allocate further virtual nodes).
func (g *IG) finishVirtual(first map[*ssa.BasicBlock]int) {
	for k := 0; k < len(g.virt); k++ {
		v := g.virt[k]
		i := g.virtIdx[v]
		if len(g.Succ[i]) > 0 {
			continue
		}
		t, f := g.targetNode(v.T, first), g.targetNode(v.F, first)
		g.Succ[i] = []int{t, f}
	}
	for len(g.Pred) < len(g.Nodes) {
		g.Pred = append(g.Pred, nil)
	}
}

// edgesWhere returns the branch edges of fn on which pred(fact) holds.
func (g *IG) edgesWhere(pred func(cmpFact) bool) map[edge]bool {
	out := map[edge]bool{}
	for _, ifi := range g.ifs() {
		for _, outcome := range []bool{true, false} {
			f, ok := condFact(ifi.Cond, outcome)
			if ok && pred(f) {
				out[g.branchEdge(ifi, outcome)] = true
			}
		}
	}
	return out
}

// typeIs reports whether t (after stripping one pointer) is the named type pkgpath.name.
func typeIs(t types.Type, pkgpath, name string) bool {
	if pt, ok := t.(*types.Pointer); ok {
		t = pt.Elem()
	}
	if a, ok := t.(*types.Alias); ok {
		t = types.Unalias(a)
	}
	n, ok := t.(*types.Named)
	if !ok {
		return false
	}
	o := n.Obj()
	return o.Name() == name && o.Pkg() != nil && o.Pkg().Path() == pkgpath
}

func namedOf(t types.Type) *types.Named {
	if pt, ok := t.(*types.Pointer); ok {
		t = pt.Elem()
	}
	t = types.Unalias(t)
	n, _ := t.(*types.Named)
	if n != nil {
		return n.Origin()
	}
	return nil
}

func typeName(t types.Type) string {
	s := types.TypeString(t, func(p *types.Package) string {
		return strings.TrimPrefix(strings.TrimPrefix(p.Path(), modPath+"/"), modPath)
	})
	return s
}

// threadJump implements jump threading for boolean flags: when block `to`
// contains only phis, negations and an If whose condition is, on the edge coming
// from `from`, a boolean constant, control is known to continue at one successor.
// This keeps the edge-based path predicates exact across refactors that park a
// decision in a local bool (`eligible := false; switch {...}; if !eligible`).
func threadJump(from, to *ssa.BasicBlock) *ssa.BasicBlock {
	for depth := 0; depth < 4; depth++ {
		if len(to.Instrs) == 0 {
			return to
		}
		ifi, ok := to.Instrs[len(to.Instrs)-1].(*ssa.If)
		if !ok {
			return to
		}
		for _, in := range to.Instrs[:len(to.Instrs)-1] {
			switch x := in.(type) {
			case *ssa.Phi:
			case *ssa.UnOp:
				if x.Op != token.NOT {
					return to
				}
			default:
				return to
			}
		}
		pi := -1
		for i, pr := range to.Preds {
			if pr == from {
				if pi >= 0 {
					return to // both branches of one If lead here: ambiguous
				}
				pi = i
			}
		}
		if pi < 0 {
			return to
		}
		val, ok := evalOnEdge(ifi.Cond, to, pi)
		if !ok {
			return to
		}
		next := to.Succs[1]
		if val {
			next = to.Succs[0]
		}
		from, to = to, next
	}
	return to
}

func evalOnEdge(v ssa.Value, b *ssa.BasicBlock, pred int) (bool, bool) {
	switch x := v.(type) {
	case *ssa.Const:
		return constBool(x)
	case *ssa.UnOp:
		if x.Op == token.NOT && x.Block() == b {
			r, ok := evalOnEdge(x.X, b, pred)
			return !r, ok
		}
	case *ssa.Phi:
		if x.Block() == b && pred < len(x.Edges) {
			return constBool(x.Edges[pred])
		}
	}
	return false, false
}

// retOperand returns the i-th result of a return, looking through the spill
// that go/ssa introduces in functions with defer (`*t0 = v; rundefers; t = *t0; return t`).
func retOperand(ret *ssa.Return, i int) ssa.Value {
	if i >= len(ret.Results) {
		return nil
	}
	v := ret.Results[i]
	if u, ok := v.(*ssa.UnOp); ok && u.Op == token.MUL {
		if al, ok := u.X.(*ssa.Alloc); ok && !al.Heap {
			blk := ret.Block()
			for k := len(blk.Instrs) - 1; k >= 0; k-- {
				if st, ok := blk.Instrs[k].(*ssa.Store); ok && st.Addr == al {
					return st.Val
				}
			}
		}
	}
	return v
}

// resolveFreeVar: v (in closure fn) is a free variable, or a load of a captured
// variable cell; returns the value bound in the enclosing function (looking
// through the cell when it is stored exactly once), or nil.
func resolveFreeVar(fn *ssa.Function, v ssa.Value) ssa.Value {
	var fv *ssa.FreeVar
	switch x := v.(type) {
	case *ssa.FreeVar:
		fv = x
	case *ssa.UnOp:
		if x.Op == token.MUL {
			fv, _ = x.X.(*ssa.FreeVar)
		}
	}
	if fv == nil || fn.Parent() == nil {
		return nil
	}
	idx := -1
	for i, f := range fn.FreeVars {
		if f == fv {
			idx = i
		}
	}
	if idx < 0 {
		return nil
	}
	for _, b := range fn.Parent().Blocks {
		for _, in := range b.Instrs {
			mc, ok := in.(*ssa.MakeClosure)
			if !ok || mc.Fn != ssa.Value(fn) || idx >= len(mc.Bindings) {
				continue
			}
			bnd := mc.Bindings[idx]
			if al, ok := bnd.(*ssa.Alloc); ok {
				var only ssa.Value
				n := 0
				for _, r := range *al.Referrers() {
					if st, ok := r.(*ssa.Store); ok && st.Addr == ssa.Value(al) {
						only = st.Val
						n++
					}
				}
				if n == 1 {
					return strip(only)
				}
				return al
			}
			return strip(bnd)
		}
	}
	return nil
}

// ifs lists the If instructions of every function of the graph.
func (g *IG) ifs() []*ssa.If {
	var out []*ssa.If
	seen := map[*ssa.If]bool{}
	for _, f := range g.Fns {
		for _, i := range ifsOf(f) {
			if !seen[i] {
				seen[i] = true
				out = append(out, i)
			}
		}
	}
	// virtual branch nodes that exist in this graph only (a spliced helper's result decided at the caller's branch)
	for _, v := range g.virt {
		if !seen[v.If] {
			seen[v.If] = true
			out = append(out, v.If)
		}
	}
	return out
}

var igxCache = map[*Program]map[*ssa.Function]*IG{}

// igx builds the flow graph of fn with its *single-call helpers* inlined (same package, called synchronously from exactly one
// site of the inlined set, depth <= 2). A helper extracted from a role function ("finish()", "hasWork()") then stays part
// of the paths the rules quantify over. A helper returning boolean constants is threaded into the caller's branch on its
// result, so the facts established inside it remain attached to the right successor.
func (p *Program) igx(fn *ssa.Function) *IG { return p.igxSkip(fn, nil) }

// igxSkip: as igx, but the functions of skip stay opaque calls (a rule that keys on the branch edges of a call's result
// must not have that callee spliced in: threaded returns bypass the caller's If node).
func (p *Program) igxSkip(fn *ssa.Function, skip map[*ssa.Function]bool) *IG {
	if igxCache[p] == nil {
		igxCache[p] = map[*ssa.Function]*IG{}
	}
	if skip == nil {
		if g, ok := igxCache[p][fn]; ok {
			return g
		}
	}
	set := []*ssa.Function{fn}
	inSet := map[*ssa.Function]bool{fn: true}
	callSite := map[*ssa.Function]*ssa.Call{}
	depthOf := map[*ssa.Function]int{fn: 0}
	for qi := 0; qi < len(set); qi++ {
		f := set[qi]
		if depthOf[f] >= 2 {
			continue
		}
		counts := map[*ssa.Function][]*ssa.Call{}
		for _, b := range f.Blocks {
			for _, in := range b.Instrs {
				c, ok := in.(*ssa.Call)
				if !ok {
					continue
				}
				y := c.Call.StaticCallee()
				if mc, isMC := c.Call.Value.(*ssa.MakeClosure); isMC {
					y, _ = mc.Fn.(*ssa.Function)
				}
				if y == nil || len(y.Blocks) == 0 || !p.inModule(y) || fnPkg(y) != fnPkg(fn) || skip[y] {
					continue
				}
				counts[y] = append(counts[y], c)
			}
		}
		for y, cs := range counts {
			if len(cs) != 1 || inSet[y] {
				continue
			}
			// not called from another member of the set either
			inSet[y] = true
			callSite[y] = cs[0]
			depthOf[y] = depthOf[f] + 1
			set = append(set, y)
		}
	}
	// a helper that is ALSO called by another member (found later) would create spurious paths: drop it
	for _, f := range set {
		for _, b := range f.Blocks {
			for _, in := range b.Instrs {
				if c, ok := in.(*ssa.Call); ok {
					if y := c.Call.StaticCallee(); y != nil && inSet[y] && y != fn && callSite[y] != c {
						inSet[y] = false
					}
				}
			}
		}
	}
	var fns []*ssa.Function
	for _, f := range set {
		if inSet[f] {
			fns = append(fns, f)
		}
	}
	// determinism: keep discovery order (root first)
	g := &IG{Fn: fn, Fns: fns, Idx: map[ssa.Instruction]int{}}
	first := map[*ssa.BasicBlock]int{}
	for _, f := range fns {
		for _, b := range f.Blocks {
			first[b] = len(g.Nodes)
			for _, in := range b.Instrs {
				g.Idx[in] = len(g.Nodes)
				g.Nodes = append(g.Nodes, in)
			}
		}
	}
	g.Succ = make([][]int, len(g.Nodes))
	g.Pred = make([][]int, len(g.Nodes))
	inlinedAt := map[*ssa.Call]*ssa.Function{}
	g.Bind, g.Inlined = map[ssa.Value]ssa.Value{}, map[*ssa.Call]*ssa.Function{}
	for y, c := range callSite {
		if inSet[y] {
			inlinedAt[c] = y
			g.Inlined[c] = y
			args := c.Call.Args
			for pi, prm := range y.Params {
				if pi < len(args) {
					g.Bind[prm] = args[pi]
				}
			}
			if mc, isMC := c.Call.Value.(*ssa.MakeClosure); isMC {
				for fi, fv := range y.FreeVars {
					if fi < len(mc.Bindings) {
						g.Bind[fv] = mc.Bindings[fi]
					}
				}
			}
		}
	}
	type phiRet struct {
		y      *ssa.Function
		b      *ssa.BasicBlock // the caller's block containing the call and the branch on its result
		ifi    *ssa.If
		resIdx int
	}
	var phiRets []phiRet
	for _, f := range fns {
		for _, b := range f.Blocks {
			base := first[b]
			for i, in := range b.Instrs {
				n := base + i
				if c, ok := in.(*ssa.Call); ok && inlinedAt[c] != nil {
					y := inlinedAt[c]
					g.Succ[n] = append(g.Succ[n], first[y.Blocks[0]])
					// returns of y continue after the call; boolean-constant returns are threaded into the caller's branch on the result
					var ifi *ssa.If
					resIdx := 0 // which result of the call the branch tests
					pure := true
					for _, later := range b.Instrs[i+1:] {
						switch x := later.(type) {
						case *ssa.If:
							if fc, okf := condFact(x.Cond, true); okf && (fc.Bool || fc.IsNil) {
								if fc.X == ssa.Value(c) {
									ifi = x
								} else if ex, isEx := fc.X.(*ssa.Extract); isEx && ex.Tuple == ssa.Value(c) {
									ifi, resIdx = x, ex.Index
								}
							}
						case *ssa.UnOp, *ssa.BinOp, *ssa.Phi, *ssa.DebugRef, *ssa.Extract:
						default:
							pure = false
						}
						if ifi != nil || !pure {
							break
						}
					}
					if ifi != nil && pure {
						phiRets = append(phiRets, phiRet{y, b, ifi, resIdx})
					}
					for _, yb := range y.Blocks {
						ret, isRet := yb.Instrs[len(yb.Instrs)-1].(*ssa.Return)
						if !isRet {
							continue
						}
						rn := g.Idx[ret]
						threaded := false
						if ifi != nil && pure && resIdx < len(ret.Results) {
							fc, _ := condFact(ifi.Cond, true)
							op := retOperand(ret, resIdx)
							decided, holds := false, false // does the true-edge fact hold for this return?
							if fc.Bool {
								if bv, isC := constBool(op); isC {
									decided, holds = true, (fc.Op == token.NEQ) == bv
								}
							} else if fc.IsNil {
								if isNilConst(op) {
									decided, holds = true, fc.Op == token.EQL
								} else if p.nonNilValue(op, 0) {
									decided, holds = true, fc.Op == token.NEQ
								}
							}
							if decided {
								k := 1
								if holds {
									k = 0
								}
								g.Succ[rn] = append(g.Succ[rn], g.targetNode(p.resolveEdge(b, b.Succs[k]), first))
								threaded = true
							}
						}
						if !threaded {
							g.Succ[rn] = append(g.Succ[rn], n+1)
						}
					}
					continue
				}
				if i+1 < len(b.Instrs) {
					g.Succ[n] = append(g.Succ[n], n+1)
					continue
				}
				for _, sb := range b.Succs {
					g.Succ[n] = append(g.Succ[n], g.targetNode(p.resolveEdge(b, sb), first))
				}
				switch in.(type) {
				case *ssa.Return:
					if f == fn {
						g.Exits = append(g.Exits, n)
					}
				case *ssa.Panic:
					g.Panic = append(g.Panic, n)
				}
			}
		}
	}
	// a helper that returns a named boolean result (`return adopted`) ends in a block [phi; return phi]: every edge into that
	// block on which the phi is a constant is threaded straight into the caller's branch on the result
	for _, pr := range phiRets {
		fc, _ := condFact(pr.ifi.Cond, true)
		if !fc.Bool {
			continue
		}
		for _, yb := range pr.y.Blocks {
			ret, isRet := yb.Instrs[len(yb.Instrs)-1].(*ssa.Return)
			if !isRet || pr.resIdx >= len(ret.Results) {
				continue
			}
			ph, isPhi := ret.Results[pr.resIdx].(*ssa.Phi)
			if !isPhi || ph.Block() != yb {
				continue
			}
			pureRB := true
			for _, in := range yb.Instrs[:len(yb.Instrs)-1] {
				switch in.(type) {
				case *ssa.Phi, *ssa.DebugRef:
				default:
					pureRB = false
				}
			}
			if !pureRB {
				continue
			}
			// every edge of the graph that arrives at the return block — from a direct predecessor, or from further back through
			// phi-only join blocks that edge resolution has already skipped — carries a definite operand of the returned phi
			pureJump := func(bb *ssa.BasicBlock) bool {
				if len(bb.Instrs) == 0 {
					return false
				}
				if _, isJ := bb.Instrs[len(bb.Instrs)-1].(*ssa.Jump); !isJ {
					return false
				}
				for _, in := range bb.Instrs[:len(bb.Instrs)-1] {
					switch in.(type) {
					case *ssa.Phi, *ssa.DebugRef:
					default:
						return false
					}
				}
				return true
			}
			predIdx := func(bb, of *ssa.BasicBlock) int {
				idx := -1
				for i, q := range of.Preds {
					if q == bb {
						if idx >= 0 {
							return -1
						}
						idx = i
					}
				}
				return idx
			}
			operandFrom := func(bb *ssa.BasicBlock) ssa.Value {
				if k := predIdx(bb, yb); k >= 0 && k < len(ph.Edges) {
					return ph.Edges[k]
				}
				for k, mid := range yb.Preds {
					if k >= len(ph.Edges) || !pureJump(mid) {
						continue
					}
					j := predIdx(bb, mid)
					if j < 0 {
						continue
					}
					v := ph.Edges[k]
					if mph, isPhi := v.(*ssa.Phi); isPhi && mph.Block() == mid && j < len(mph.Edges) {
						v = mph.Edges[j]
					}
					return v
				}
				return nil
			}
			for n := range g.Succ {
				hits := false
				for _, t := range g.Succ[n] {
					if t == first[yb] {
						hits = true
					}
				}
				if !hits || n >= len(g.Nodes) {
					continue
				}
				if _, isVirt := g.Nodes[n].(*ssa.If); isVirt && g.Nodes[n].Block() == yb {
					continue
				}
				bb := g.Nodes[n].Block()
				if bb == nil || bb.Parent() != pr.y || bb == yb {
					continue
				}
				op := operandFrom(bb)
				if op == nil {
					continue
				}
				if _, isPhi := op.(*ssa.Phi); isPhi {
					continue
				}
				// when both successors of a branch arrive here the operand is per edge, not per block: leave it
				cnt := 0
				for _, t := range g.Succ[n] {
					if t == first[yb] {
						cnt++
					}
				}
				if cnt != 1 {
					continue
				}
				var tgt int
				if bv, isC := constBool(op); isC {
					holds := (fc.Op == token.NEQ) == bv
					si := 1
					if holds {
						si = 0
					}
					tgt = g.targetNode(p.resolveEdge(pr.b, pr.b.Succs[si]), first)
				} else {
					bt, isB := op.Type().Underlying().(*types.Basic)
					if !isB || bt.Kind() != types.Bool {
						continue
					}
					tk, fk := 0, 1
					if fc.Op != token.NEQ {
						tk, fk = 1, 0
					}
					v := &vIf{If: &ssa.If{Cond: op}}
					setInstrBlock(v.If, yb)
					v.T = p.resolveEdge(pr.b, pr.b.Succs[tk])
					v.F = p.resolveEdge(pr.b, pr.b.Succs[fk])
					tgt = g.targetNode(edgeTarget{v: v}, first)
				}
				for j, t := range g.Succ[n] {
					if t == first[yb] {
						g.Succ[n][j] = tgt
					}
				}
			}
		}
	}
	g.finishVirtual(first)
	for n, ss := range g.Succ {
		for _, t := range ss {
			g.Pred[t] = append(g.Pred[t], n)
		}
	}
	if skip == nil {
		igxCache[p][fn] = g
	}
	return g
}

// owns: fn is the graph's root or one of its inlined helpers that no function outside the graph calls.
func (g *IG) owns(p *Program, fn *ssa.Function) bool {
	if o := fn.Origin(); o != nil {
		fn = o
	}
	in := map[*ssa.Function]bool{}
	for _, f := range g.Fns {
		if o := f.Origin(); o != nil {
			f = o
		}
		in[f] = true
	}
	if !in[fn] {
		return false
	}
	if fn == g.Fn || fn == g.Fn.Origin() {
		return true
	}
	for f := range p.All {
		fo := f
		if o := f.Origin(); o != nil {
			fo = o
		}
		if in[fo] {
			continue
		}
		if strings.HasPrefix(f.Synthetic, "wrapper for") {
			continue // promoted-method wrapper of an embedding type (e.g. System embeds Context): not a call site in the source
		}
		for _, b := range f.Blocks {
			for _, ins := range b.Instrs {
				for _, op := range ins.Operands(nil) {
					if op == nil || *op == nil {
						continue
					}
					if y, ok := (*op).(*ssa.Function); ok {
						if o := y.Origin(); o != nil {
							y = o
						}
						if y == fn {
							return false
						}
					}
				}
			}
		}
	}
	return true
}

// ---- event summaries through helpers ------------------------------------------------------
//
// A role-defining effect ("kills the connection actor", "re-arms the reader") may be moved into a helper that several
// sites call. eventNodes finds the direct sites of pred in g and, for static calls to module functions of the same package,
// classifies the call by a summary of the callee: must (every entry→return path of the callee performs the effect, directly
// or through a must-callee) or may (some instruction of the callee or of its static module callees, depth <= 3, performs it).
// Rules use `must` where the effect is required and `may` where it is forbidden.

func (p *Program) mayDo(fn *ssa.Function, pred func(ssa.Instruction) bool, depth int, seen map[*ssa.Function]bool) bool {
	if fn == nil || seen[fn] || depth > 3 || len(fn.Blocks) == 0 {
		return false
	}
	seen[fn] = true
	for _, f := range withAnon(fn) {
		for _, b := range f.Blocks {
			for _, in := range b.Instrs {
				if pred(in) {
					return true
				}
				if c := callOf(in); c != nil {
					if y := c.StaticCallee(); y != nil && p.inModule(y) && p.mayDo(y, pred, depth+1, seen) {
						return true
					}
				}
			}
		}
	}
	return false
}

func (p *Program) mustDo(fn *ssa.Function, pred func(ssa.Instruction) bool, depth int) bool {
	if fn == nil || depth > 2 || len(fn.Blocks) == 0 {
		return false
	}
	g := p.ig(fn)
	via := map[int]bool{}
	for i, in := range g.Nodes {
		if pred(in) {
			via[i] = true
			continue
		}
		if c, ok := in.(*ssa.Call); ok {
			if y := c.Call.StaticCallee(); y != nil && y != fn && p.inModule(y) && fnPkg(y) == fnPkg(fn) && p.mustDo(y, pred, depth+1) {
				via[i] = true
			}
		}
	}
	if len(via) == 0 {
		return false
	}
	for _, e := range g.entry() {
		if via[e] {
			return true // the very first instruction is the effect (Reach would expand an avoided start node)
		}
	}
	return !anyIn(g.Reach(g.entry(), via, nil), g.Exits)
}

func (p *Program) eventNodes(g *IG, pred func(ssa.Instruction) bool) (must, may map[int]bool) {
	must, may = map[int]bool{}, map[int]bool{}
	for i, in := range g.Nodes {
		if pred(in) {
			must[i], may[i] = true, true
			continue
		}
		c, ok := in.(*ssa.Call)
		if !ok {
			continue
		}
		y := c.Call.StaticCallee()
		if g.Inlined != nil && g.Inlined[c] != nil {
			continue // spliced into this graph: its own instructions are the events
		}
		if y == nil || !p.inModule(y) || fnPkg(y) != fnPkg(g.Fn) || y == g.Fn {
			continue
		}
		if p.mustDo(y, pred, 1) {
			must[i], may[i] = true, true
		} else if p.mayDo(y, pred, 1, map[*ssa.Function]bool{}) {
			may[i] = true
		}
	}
	return
}

// res: v stripped, with parameters of inlined helpers replaced by the arguments at their call sites.
func (g *IG) res(v ssa.Value) ssa.Value {
	v = strip(v)
	for i := 0; i < 4; i++ {
		w, ok := g.Bind[v]
		if !ok {
			break
		}
		v = strip(w)
	}
	return v
}

// nonNilValue: v is certainly not nil — a fresh allocation, a non-nil interface conversion of one, or the result of a
// module function all of whose returns are such values.
func (p *Program) nonNilValue(v ssa.Value, depth int) bool {
	if depth > 2 {
		return false
	}
	switch x := v.(type) {
	case *ssa.Alloc, *ssa.MakeClosure, *ssa.MakeMap, *ssa.MakeChan, *ssa.MakeSlice, *ssa.Function:
		return true
	case *ssa.MakeInterface:
		if _, isPtr := x.X.Type().Underlying().(*types.Pointer); isPtr {
			return p.nonNilValue(x.X, depth)
		}
		return true
	case *ssa.ChangeInterface:
		return p.nonNilValue(x.X, depth)
	case *ssa.UnOp:
		// sentinel: a package-level variable of the module assigned only by package initialisation (ErrorNotFound, …)
		if gl, ok := x.X.(*ssa.Global); ok && x.Op == token.MUL && gl.Pkg != nil && strings.HasPrefix(gl.Pkg.Pkg.Path(), modPath) {
			for _, ref := range p.globalStores(gl) {
				if ref.Parent().Name() != "init" && !strings.HasPrefix(ref.Parent().Name(), "init#") {
					return false
				}
			}
			return true
		}
	case *ssa.Call:
		y := x.Call.StaticCallee()
		if y == nil || !p.inModule(y) || len(y.Blocks) == 0 || y.Signature.Results().Len() != 1 {
			return false
		}
		n := 0
		for _, b := range y.Blocks {
			if ret, ok := b.Instrs[len(b.Instrs)-1].(*ssa.Return); ok {
				n++
				op := retOperand(ret, 0)
				// "return e" of the receiver: non-nil when the receiver argument is
				if len(y.Params) > 0 && y.Signature.Recv() != nil && strip(op) == ssa.Value(y.Params[0]) && len(x.Call.Args) > 0 {
					if !p.nonNilValue(x.Call.Args[0], depth+1) {
						return false
					}
					continue
				}
				if !p.nonNilValue(op, depth+1) {
					return false
				}
			}
		}
		return n > 0
	}
	return false
}

// globalStores: the store instructions of the module that assign the package-level variable gl.
func (p *Program) globalStores(gl *ssa.Global) []ssa.Instruction {
	if p.gstores == nil {
		p.gstores = map[*ssa.Global][]ssa.Instruction{}
		for _, fn := range p.Mod {
			for _, b := range fn.Blocks {
				for _, in := range b.Instrs {
					if st, ok := in.(*ssa.Store); ok {
						if g2, ok := st.Addr.(*ssa.Global); ok {
							p.gstores[g2] = append(p.gstores[g2], in)
						}
					}
				}
			}
		}
	}
	return p.gstores[gl]
}

// withGraph makes g the context of provenance queries (origins): parameters of inlined helpers continue through their
// arguments, results of inlined calls through the helper's return operands. Use: defer p.withGraph(g)().
func (p *Program) withGraph(g *IG) func() {
	old := p.ctxG
	p.ctxG = g
	return func() { p.ctxG = old }
}

// unwrapThin: fn does nothing but forward to one module function and return its results
// (func() (bool, error) { return m.trySend(envelop) }): the forwarded-to function is the role function.
func (p *Program) unwrapThin(fn *ssa.Function) *ssa.Function {
	if fn == nil || len(fn.Blocks) != 1 {
		return fn
	}
	var call *ssa.Call
	for _, in := range fn.Blocks[0].Instrs {
		switch x := in.(type) {
		case *ssa.Call:
			if call != nil || x.Call.StaticCallee() == nil || !p.inModule(x.Call.StaticCallee()) {
				return fn
			}
			call = x
		case *ssa.UnOp, *ssa.FieldAddr, *ssa.Extract, *ssa.DebugRef, *ssa.Field:
		case *ssa.Return:
			if call == nil {
				return fn
			}
			for _, res := range x.Results {
				v := res
				if ex, ok := v.(*ssa.Extract); ok {
					v = ex.Tuple
				}
				if v != ssa.Value(call) {
					return fn
				}
			}
			return call.Call.StaticCallee()
		default:
			return fn
		}
	}
	return fn
}

// freshValue: v is an object created here — an allocation, or the result of a module function all of whose returns are
// fresh values (constructors, through thin wrappers).
func (p *Program) freshValue(v ssa.Value, depth int) bool {
	if depth > 3 {
		return false
	}
	switch x := strip(v).(type) {
	case *ssa.Alloc:
		return true
	case *ssa.Phi:
		for _, e := range x.Edges {
			if !p.freshValue(e, depth) {
				return false
			}
		}
		return len(x.Edges) > 0
	case *ssa.Call:
		y := x.Call.StaticCallee()
		if y == nil || !p.inModule(y) || len(y.Blocks) == 0 || y.Signature.Results().Len() < 1 {
			return false
		}
		n := 0
		for _, b := range y.Blocks {
			if ret, ok := b.Instrs[len(b.Instrs)-1].(*ssa.Return); ok {
				n++
				if !p.freshValue(retOperand(ret, 0), depth+1) {
					return false
				}
			}
		}
		return n > 0
	}
	return false
}

// values: the values v may stand for in this graph — v itself (stripped, helper parameters resolved), or, when v is the
// result of an inlined single-result helper, that helper's return operands.
func (g *IG) values(v ssa.Value) []ssa.Value { return g.valuesDepth(v, 0) }

func (g *IG) valuesDepth(v ssa.Value, depth int) []ssa.Value {
	w := g.res(v)
	if c, ok := w.(*ssa.Call); ok && depth < 4 {
		if y := g.Inlined[c]; y != nil && y.Signature.Results().Len() == 1 {
			var out []ssa.Value
			for _, b := range y.Blocks {
				if ret, isR := b.Instrs[len(b.Instrs)-1].(*ssa.Return); isR {
					out = append(out, g.valuesDepth(retOperand(ret, 0), depth+1)...)
				}
			}
			if len(out) > 0 {
				return out
			}
		}
	}
	return []ssa.Value{w}
}

// effectiveReturns: the Return nodes that produce result #idx of the return at node ex — ex itself, or, when it returns the
// result of a spliced-in single-result helper, that helper's Return nodes (recursively).
func (g *IG) effectiveReturns(ex, idx int) []int {
	ret, ok := g.Nodes[ex].(*ssa.Return)
	if !ok || idx >= len(ret.Results) {
		return []int{ex}
	}
	v := g.res(retOperand(ret, idx))
	c, isC := v.(*ssa.Call)
	if !isC {
		return []int{ex}
	}
	y := g.Inlined[c]
	if y == nil || y.Signature.Results().Len() != 1 {
		return []int{ex}
	}
	var out []int
	for _, b := range y.Blocks {
		if r2, isR := b.Instrs[len(b.Instrs)-1].(*ssa.Return); isR {
			out = append(out, g.effectiveReturns(g.Idx[r2], 0)...)
		}
	}
	if len(out) == 0 {
		return []int{ex}
	}
	return out
}

// inlinedCalls: the call sites spliced into the graph, in node order.
func (g *IG) inlinedCalls() []*ssa.Call {
	var out []*ssa.Call
	for c := range g.Inlined {
		out = append(out, c)
	}
	sort.Slice(out, func(i, j int) bool { return g.Idx[out[i]] < g.Idx[out[j]] })
	return out
}

// sameBlockDef: v is a load of a local cell (a named result spilled because of a defer, a captured variable); returns the
// value of the last store to that cell preceding the load in the same basic block, or v itself.
func sameBlockDef(v ssa.Value) ssa.Value {
	u, ok := v.(*ssa.UnOp)
	if !ok || u.Op != token.MUL {
		return v
	}
	al, ok := u.X.(*ssa.Alloc)
	if !ok {
		return v
	}
	instrs := u.Block().Instrs
	at := -1
	for i, in := range instrs {
		if in == ssa.Instruction(u) {
			at = i
		}
	}
	for i := at - 1; i >= 0; i-- {
		if st, isSt := instrs[i].(*ssa.Store); isSt && st.Addr == ssa.Value(al) {
			return st.Val
		}
	}
	return v
}

// nilArgEdges: edges of g on which a parameter (or the receiver) of the root function is asserted to be nil. A path through
// such an edge lies outside the function's contract (every caller in the module passes a live object); "on every path" rules
// do not quantify over it. Only the nil-ness of a parameter itself counts — not of a field, and not any other condition.
func (g *IG) nilArgEdges() map[edge]bool {
	params := map[ssa.Value]bool{}
	for _, prm := range g.Fn.Params {
		switch prm.Type().Underlying().(type) {
		case *types.Pointer, *types.Interface, *types.Map, *types.Slice, *types.Signature, *types.Chan:
			params[prm] = true
		}
	}
	return g.edgesWhere(func(f cmpFact) bool {
		return f.IsNil && f.Op == token.EQL && params[strip(f.X)]
	})
}

// thinAtomicWrapper: the callee is a one-line method around one atomic operation on a field of its receiver with constant
// operands ("tryAcquire() bool { return atomic.CompareAndSwapUint32(&m.status, idle, processing) }"); the call then IS that
// operation, performed on the caller's receiver argument, and its value is the operation's value.
func thinAtomicWrapper(c *ssa.CallCommon, f *ssa.Function) *atomicOp {
	if len(c.Args) != 1 {
		return nil
	}
	inner := thinAtomicBody(f)
	if inner == nil {
		return nil
	}
	return &atomicOp{Op: inner.Op, Addr: inner.Addr, Args: inner.Args, Call: c, Field: inner.Field, Base: c.Args[0]}
}

// thinAtomicBody: f is such a wrapper; returns the operation it performs.
func thinAtomicBody(f *ssa.Function) *atomicOp {
	if theProgram == nil || f == nil || !theProgram.inModule(f) || len(f.Blocks) != 1 || f.Signature.Recv() == nil || len(f.Params) != 1 {
		return nil
	}
	var inner *atomicOp
	var innerCall ssa.Value
	for _, in := range f.Blocks[0].Instrs {
		switch x := in.(type) {
		case *ssa.FieldAddr, *ssa.DebugRef:
		case *ssa.Call:
			if inner != nil {
				return nil
			}
			a := atomicCall(x)
			if a == nil || a.Field == nil || a.Base == nil || strip(a.Base) != ssa.Value(f.Params[0]) {
				return nil
			}
			for _, arg := range a.Args {
				if _, isK := arg.(*ssa.Const); !isK {
					return nil
				}
			}
			inner, innerCall = a, x
		case *ssa.Return:
			if inner == nil {
				return nil
			}
			if len(x.Results) > 1 || (len(x.Results) == 1 && x.Results[0] != innerCall) {
				return nil
			}
		default:
			return nil
		}
	}
	return inner
}
