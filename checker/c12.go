package main

// C12 — codec round-trip (structural part): reader/writer signature agreement,
// primitive tables, registry consistency, field coverage, lossy conversions,
// positional field correspondence.

import (
	"fmt"
	"go/token"
	"go/types"
	"sort"
	"strings"

	"golang.org/x/tools/go/ssa"
)

func init() {
	register(&Property{
		ID: "C12",
		Explanation: "Decided: (R1) for every registered (reader, writer) pair, for the message framing (WriteMessage/ReadMessage), the envelope (Encode/DecodeEnvelopWithRemoting), the handshake and the version-vector helpers, the sets of wire-symbol sequences along all success paths are equal (helpers inlined, loops unrolled 0..2); " +
			"(R2) the primitive writer's and reader's type switches cover the same types with paired methods of equal width and byte order; (R3) each registered reader/writer asserts the registered type, which is a pointer type, and wire names are pairwise distinct; " +
			"(R4) every field of a registered message type (and of the structs its helpers serialise) is read by the writer and written by the reader, or is in the exemption table; (R5) no writer-side narrowing integer conversion of a message field (7 known findings); " +
			"(R6) at every wire position where both sides resolve a message field, it is the same field (a swap of two same-typed fields is caught); " +
			"(R7) a writer sends a constant in place of a field value only on a path that observed that field absent (nil / zero / failed type assertion of a value read from the message), never by consulting other state; " +
			"(R8) a reader-side guard comparing a wire count with the bytes that remain admits count == remaining (an empty collection written last is valid writer output). " +
			"(R9) the codec's pooled Reader/Writer: every state field written by the read/write methods (cursor, sticky error, buffer length) is reset on every path between release and Put or between Get and hand-out, and no function that releases a pooled writer returns (or stores into a field) a slice of that writer's buffer — an encoding must be copied out before its buffer goes back to the pool. " +
			"(R10) no call statement of the codec packages whose callee returns an error is a bare expression statement: encoding / decoding errors are checked or discarded explicitly. (R11) every hand-over of a message to the user's Codec (Encode on the writing side, Decode on the reading side, for envelopes and for nested messages) is dominated by the same outcome of the same registry-membership test of the message's descriptor, so a registered type is never written in Codec format under its registered name. (R11, addition) in every function that hands a payload to Codec.Decode, every path to a return passes a decode or leaves with an error: no shortcut delivers nil for a payload that was not decoded. (R12) every Reader method returning (string | []byte, error) returns fresh memory on every return — a copying conversion, make/append, or another such method — never a slice of the Reader's buffer nor an unsafe.String/Slice over it: frame buffers are re-used, and a decoded value that is a view of one changes under its holder. (R13) in a registered reader no store into the message — the whole struct, or a field whose address was handed to the Reader — is reachable after the read: decoded wire content is never replaced by local content. NOT decided: value-level equality (nil vs empty map, zero time, presence-flag values), user-registered types outside the module.",
		Assumptions: []string{"success paths: error edges (err != nil on an error-typed value) and returns of constructed errors are pruned"},
		Rules: []Rule{
			{ID: "C12.R1", Min: 30, Desc: "reader/writer signature agreement", Fn: c12Agreement},
			{ID: "C12.R2", Min: 13, Desc: "primitive tables agree", Fn: c12Primitives},
			{ID: "C12.R3", Min: 28, Desc: "registry consistency", Fn: c12Registry},
			{ID: "C12.R4", Min: 20, Desc: "field coverage", Fn: c12Coverage},
			{ID: "C12.R10", Min: 1, Desc: "no error of the codec layer is dropped implicitly", Fn: func(p *Program, r *Report) {
				p.checkNoImplicitDrop(r, "the codec (messages, envelope and cluster serialisers, registered readers/writers)", "an encoding error that is not propagated yields a truncated or empty frame that is sent as if it were complete; a decoding error that is not propagated hands on a half-filled message", func(rel string) bool {
					return rel == "" || rel == "internal/messages" || rel == "internal/remoting/serialize" || rel == "internal/cluster"
				})
			}},
			{ID: "C12.R11", Min: 2, Desc: "writer and reader choose between the registered format and the user Codec by the same registry-membership test", Fn: codecChoice},
			{ID: "C12.R12", Min: 4, Desc: "strings and byte slices the Reader decodes own their bytes (no view of the frame buffer)", Fn: c12DecodedOwnBytes},
			{ID: "C12.R13", Min: 5, Desc: "a registered reader never overwrites what it has decoded", Fn: c12DecodedKept},
			{ID: "C12.R5", Min: 7, Desc: "no lossy conversion on the writer side", Fn: c12Lossy},
			{ID: "C12.R6", Min: 12, Desc: "positional field correspondence", Fn: c12Positions},
			{ID: "C12.R7", Min: 3, Desc: "no constant substituted for a present field", Fn: c12Substitution},
			{ID: "C12.R9", Min: 5, Desc: "pooled readers/writers start clean and their buffers do not outlive the release", Fn: c12Pools},
			{ID: "C12.R8", Min: 2, Desc: "remaining-size guards admit the boundary count", Fn: c12Boundary},
		},
	})
}

type wirePair struct {
	Name         string
	W, R         *ssa.Function
	WIdx, RIdx   int
	Pos          token.Pos
	RegisteredAs types.Type
}

func (p *Program) wirePairs() ([]wirePair, []string) {
	var out []wirePair
	var problems []string
	for _, r := range p.registrations() {
		if _, isTP := r.T.(*types.TypeParam); isTP {
			continue
		}
		if r.Reader == nil || r.Writer == nil {
			problems = append(problems, "registration "+r.Name+": reader/writer is not a function value")
			continue
		}
		wi, _ := p.streamParam(r.Writer)
		ri, _ := p.streamParam(r.Reader)
		out = append(out, wirePair{Name: "registered " + r.Name, W: r.Writer, R: r.Reader, WIdx: wi, RIdx: ri, Pos: r.Site.Pos(), RegisteredAs: r.T})
	}
	c := p.codec()
	if c.WriterT != nil {
		out = append(out, wirePair{Name: "message framing (WriteMessage/ReadMessage)", W: p.methodNamed(c.WriterT, "WriteMessage"), R: p.methodNamed(c.ReaderT, "ReadMessage"), WIdx: 0, RIdx: 0})
	}
	out = append(out, wirePair{Name: "envelope (Encode/DecodeEnvelopWithRemoting)", W: p.Func("internal/remoting/serialize", "EncodeEnvelopWithRemoting"), R: p.Func("internal/remoting/serialize", "DecodeEnvelopWithRemoting"), WIdx: -1, RIdx: -2})
	out = append(out, wirePair{Name: "handshake (Send/Wait)", W: p.Method("internal/remoting", "Handshake", "Send"), R: p.Method("internal/remoting", "Handshake", "Wait"), WIdx: -1, RIdx: -2})
	if w, r := p.Func("internal/cluster", "WriteVersionVector"), p.Func("internal/cluster", "ReadVersionVector"); w != nil && r != nil {
		wi, _ := p.streamParam(w)
		ri, _ := p.streamParam(r)
		out = append(out, wirePair{Name: "version vector (Write/ReadVersionVector)", W: w, R: r, WIdx: wi, RIdx: ri})
	}
	for i := range out {
		if out[i].W == nil || out[i].R == nil {
			problems = append(problems, "pair "+out[i].Name+": function not found")
		} else if out[i].Pos == token.NoPos {
			out[i].Pos = out[i].W.Pos()
		}
	}
	return out, problems
}

func c12Agreement(p *Program, r *Report) {
	c := p.codec()
	for _, pr := range c.problems {
		r.Unresolved(pr)
	}
	pairs, problems := p.wirePairs()
	for _, pr := range problems {
		r.Unresolved(pr)
	}
	for _, pr := range pairs {
		if pr.W == nil || pr.R == nil {
			continue
		}
		if (pr.WIdx < 0 && pr.WIdx != -1) || (pr.RIdx < 0 && pr.RIdx != -2) {
			// a registered function that does not take the stream (cannot happen with the registry's function types)
			r.Unresolved("stream parameter of " + pr.Name)
			continue
		}
		ws, rs := p.wireSigOf(pr.W, pr.WIdx), p.wireSigOf(pr.R, pr.RIdx)
		for _, pb := range append(append([]string{}, ws.Problems...), rs.Problems...) {
			r.Undecided(pr.Name, pr.Pos, pb)
		}
		if ws.Truncated || rs.Truncated {
			r.Undecided(pr.Name, pr.Pos, "path enumeration truncated")
			continue
		}
		wm, rm := sigSet(ws), sigSet(rs)
		// the reader may stop early on a sub-stream switch; compare up to SUBSTREAM
		var onlyW, onlyR []string
		for k := range wm {
			if _, ok := rm[k]; !ok {
				onlyW = append(onlyW, k)
			}
		}
		for k := range rm {
			if _, ok := wm[k]; !ok {
				onlyR = append(onlyR, k)
			}
		}
		sort.Strings(onlyW)
		sort.Strings(onlyR)
		ok := len(onlyW) == 0 && len(onlyR) == 0 && len(wm) > 0
		why := fmt.Sprintf("writer and reader have the same %d success-path signature(s), e.g. [%s]", len(wm), first(sortedKeys(wm)))
		if !ok {
			why = fmt.Sprintf("signature sets differ: writer-only %s ; reader-only %s", clip(onlyW), clip(onlyR))
		}
		r.Check(ok, pr.Name, pr.Pos, why)
	}
}

func first(ks []string) string {
	if len(ks) == 0 {
		return ""
	}
	s := ks[len(ks)-1]
	if len(s) > 160 {
		s = s[:160] + "…"
	}
	return s
}

func clip(ks []string) string {
	if len(ks) > 2 {
		ks = ks[:2]
	}
	var out []string
	for _, k := range ks {
		if len(k) > 220 {
			k = k[:220] + "…"
		}
		out = append(out, "["+k+"]")
	}
	if len(out) == 0 {
		return "∅"
	}
	return strings.Join(out, " ")
}

func c12Primitives(p *Program, r *Report) {
	c := p.codec()
	for _, pr := range c.problems {
		r.Unresolved(pr)
	}
	if len(c.problems) > 0 {
		return
	}
	// (a) same types on both sides, paired methods
	var ts []string
	for t := range c.WKind {
		if !strings.HasPrefix(t, "*") {
			ts = append(ts, t)
		}
	}
	sort.Strings(ts)
	for _, t := range ts {
		wk, wm := c.WKind[t], c.WMethod[t]
		pk, hasPtr := c.WKind["*"+t]
		rk, hasR := c.RKind["*"+t]
		rm := c.RMethod["*"+t]
		pairOK := strings.TrimPrefix(strings.TrimPrefix(wm, "Write"), "write") == strings.TrimPrefix(rm, "Read") ||
			(wm == "writeByte" && rm == "ReadByte") || (wm == "WriteString" && rm == "ReadString") ||
			(strings.HasPrefix(wm, "WriteBytesWithLength") && strings.HasPrefix(rm, "ReadBytesWithLength") && wm[len("Write"):] == rm[len("Read"):])
		r.Check(hasPtr && hasR && wk == pk && wk == rk && wk != "" && pairOK, "primitive "+t, p.methodNamed(c.WriterT, "Write").Pos(),
			fmt.Sprintf("Writer.Write handles %s and *%s (%s via %s), Reader.Read handles *%s (%s via %s)", t, t, wk, wm, t, rk, rm))
	}
	for t := range c.RKind {
		if _, ok := c.WKind[strings.TrimPrefix(t, "*")]; !ok {
			r.Violate("primitive "+t+" only on the reader side", p.methodNamed(c.ReaderT, "Read").Pos(), "Reader.Read has a case the writer lacks")
		}
	}
	// (b) widths and byte order of the base primitives
	for _, k := range []struct {
		name  string
		width int64
	}{{"Uint16", 2}, {"Uint32", 4}, {"Uint64", 8}} {
		w, rd := p.methodNamed(c.WriterT, "Write"+k.name), p.methodNamed(c.ReaderT, "Read"+k.name)
		if w == nil || rd == nil {
			r.Unresolved("Write" + k.name + "/Read" + k.name)
			continue
		}
		wWidth, wOrder := widthAndOrder(w, c.Reserve)
		rWidth, rOrder := widthAndOrder(rd, c.Check)
		adv := posAdvance(rd)
		r.Check(wWidth == k.width && rWidth == k.width && adv == k.width && wOrder == "Put"+k.name && rOrder == k.name, "width/order of "+k.name, w.Pos(),
			fmt.Sprintf("writer reserves %d bytes and encodes with order.%s; reader checks %d bytes, decodes with order.%s and advances by %d", wWidth, wOrder, rWidth, rOrder, adv))
	}
	// (c) derived primitives delegate symmetrically
	for _, d := range []struct{ name, base string }{{"Int16", "Uint16"}, {"Int32", "Uint32"}, {"Int64", "Uint64"}, {"Float32", "Uint32"}, {"Float64", "Uint64"}, {"Int8", "Byte"}, {"Uint8", "Byte"}, {"Bool", "Byte"}} {
		w, rd := p.methodNamed(c.WriterT, "Write"+d.name), p.methodNamed(c.ReaderT, "Read"+d.name)
		if w == nil || rd == nil {
			r.Unresolved("Write" + d.name + "/Read" + d.name)
			continue
		}
		wb := callsMethod(w, "Write"+d.base) || (d.base == "Byte" && callsMethod(w, "writeByte"))
		rb := callsMethod(rd, "Read"+d.base)
		r.Check(wb && rb, d.name+" delegates to "+d.base+" on both sides", w.Pos(), "Write"+d.name+" and Read"+d.name+" are both defined through the "+d.base+" primitive (same width, same order)")
	}
	// (d) length-prefixed bytes: the writer's prefix width for size k equals the reader's
	wl, rl := p.methodNamed(c.WriterT, "WriteBytesWithLength"), p.methodNamed(c.ReaderT, "ReadBytesWithLength")
	if wl != nil && rl != nil {
		wc, rc := lengthCases(wl, "Write"), lengthCases(rl, "Read")
		ok := len(wc) == 3
		for k, v := range wc {
			if rc[k] != v {
				ok = false
			}
		}
		r.Check(ok, "length prefixes agree", wl.Pos(), fmt.Sprintf("writer %v reader %v (size → primitive)", wc, rc))
	}
}

func widthAndOrder(fn *ssa.Function, checkFn *ssa.Function) (int64, string) {
	var width int64 = -1
	order := ""
	for _, b := range fn.Blocks {
		for _, in := range b.Instrs {
			c := callOf(in)
			if c == nil {
				continue
			}
			if cal := c.StaticCallee(); cal != nil && checkFn != nil && cal == checkFn {
				for _, a := range c.Args[1:] {
					if n, ok := constInt(a); ok {
						width = n
					}
				}
			}
			if c.IsInvoke() && strings.HasSuffix(typeName(c.Value.Type()), "binary.ByteOrder") {
				order = c.Method.Name()
			}
		}
	}
	return width, order
}

// posAdvance: the constant added to the reader's cursor.
func posAdvance(fn *ssa.Function) int64 {
	for _, b := range fn.Blocks {
		for _, in := range b.Instrs {
			st, ok := in.(*ssa.Store)
			if !ok {
				continue
			}
			f, _ := fieldAddr(st.Addr)
			if f == nil || theProgram == nil || f != theProgram.codec().RPos {
				continue
			}
			if bo, ok := st.Val.(*ssa.BinOp); ok && bo.Op == token.ADD {
				if n, ok := constInt(bo.Y); ok {
					return n
				}
			}
		}
	}
	return -1
}

func callsMethod(fn *ssa.Function, name string) bool {
	for _, b := range fn.Blocks {
		for _, in := range b.Instrs {
			if c := callOf(in); c != nil && c.StaticCallee() != nil && c.StaticCallee().Name() == name {
				return true
			}
		}
	}
	return false
}

// lengthCases: for the switch over lengthSize, which primitive each constant case uses.
func lengthCases(fn *ssa.Function, prefix string) map[int64]string {
	return lengthCasesDepth(fn, prefix, 2)
}

func lengthCasesDepth(fn *ssa.Function, prefix string, depth int) map[int64]string {
	out := map[int64]string{}
	defer func() {
		// a thin delegate (the switch lives in a shared — possibly generic — helper the size parameter is handed to)
		if len(out) > 0 || depth == 0 {
			return
		}
		for _, b := range fn.Blocks {
			for _, in := range b.Instrs {
				c := callOf(in)
				if c == nil || c.StaticCallee() == nil || len(c.StaticCallee().Blocks) == 0 {
					continue
				}
				passes := false
				for _, a := range c.Args {
					if _, isP := strip(a).(*ssa.Parameter); isP {
						if bt, isB := a.Type().Underlying().(*types.Basic); isB && bt.Info()&types.IsInteger != 0 {
							passes = true
						}
					}
				}
				if !passes {
					continue
				}
				for k, v := range lengthCasesDepth(c.StaticCallee(), prefix, depth-1) {
					out[k] = v
				}
			}
		}
	}()
	for _, ifi := range ifsOf(fn) {
		f, ok := condFact(ifi.Cond, true)
		if !ok || f.Op != token.EQL || f.IsNil || f.Y != nil {
			continue
		}
		if _, isParam := strip(f.X).(*ssa.Parameter); !isParam {
			continue
		}
		// first stream primitive in the true successor region
		blk := ifi.Block().Succs[0]
		for depth := 0; depth < 4 && blk != nil; depth++ {
			found := false
			for _, in := range blk.Instrs {
				if c := callOf(in); c != nil && c.StaticCallee() != nil && strings.HasPrefix(c.StaticCallee().Name(), prefix+"Uint") {
					out[f.C] = strings.TrimPrefix(c.StaticCallee().Name(), prefix)
					found = true
					break
				}
			}
			if found || len(blk.Succs) == 0 {
				break
			}
			blk = blk.Succs[len(blk.Succs)-1]
		}
	}
	return out
}

func c12Registry(p *Program, r *Report) {
	regs := p.registrations()
	names := map[string]int{}
	for _, rg := range regs {
		if _, isTP := rg.T.(*types.TypeParam); isTP {
			continue
		}
		names[rg.Name]++
	}
	for _, rg := range regs {
		if _, isTP := rg.T.(*types.TypeParam); isTP {
			continue
		}
		_, isPtr := rg.T.(*types.Pointer)
		ok := isPtr && rg.Name != "" && names[rg.Name] == 1
		why := fmt.Sprintf("registered type %s is a pointer type, wire name %q is unique", typeName(rg.T), rg.Name)
		for side, fn := range map[string]*ssa.Function{"reader": rg.Reader, "writer": rg.Writer} {
			if fn == nil {
				ok = false
				continue
			}
			for _, b := range fn.Blocks {
				for _, in := range b.Instrs {
					if ta, isTA := in.(*ssa.TypeAssert); isTA && len(fn.Params) > 0 && strip(ta.X) == ssa.Value(fn.Params[0]) {
						if !types.Identical(ta.AssertedType, rg.T) {
							ok = false
							why = fmt.Sprintf("%s asserts %s but the registration is for %s: the unchecked assertion panics", side, typeName(ta.AssertedType), typeName(rg.T))
						}
					}
				}
			}
		}
		r.Check(ok, "registration "+rg.Name, rg.Site.Pos(), why)
	}
	if len(regs) == 0 {
		r.Unresolved("no RegisterInternalMessage call found")
	}
}

// fieldsTouched: for a function (and the module helpers it calls with a value derived from its message), the fields of struct type n that are read / written.
func (p *Program) fieldsTouched(fn *ssa.Function, n *types.Named, depth int, seen map[*ssa.Function]bool) (reads, writes map[string]bool) {
	reads, writes = map[string]bool{}, map[string]bool{}
	if fn == nil || depth > 4 || seen[fn] {
		return
	}
	seen[fn] = true
	for _, b := range fn.Blocks {
		for _, in := range b.Instrs {
			switch x := in.(type) {
			case *ssa.FieldAddr:
				f, _ := fieldAddr(x)
				if f == nil || ownerOf(f, n) == false {
					continue
				}
				for _, ref := range *x.Referrers() {
					switch y := ref.(type) {
					case *ssa.Store:
						if y.Addr == ssa.Value(x) {
							writes[f.Name()] = true
						} else {
							writes[f.Name()] = true // address handed on (e.g. ReadInto(&m.F))
						}
					case *ssa.UnOp:
						reads[f.Name()] = true
					default:
						// &m.F passed to a call: the callee writes it (reader) — count as both
						writes[f.Name()] = true
						reads[f.Name()] = true
					}
				}
			case *ssa.Field:
				if st, ok := x.X.Type().Underlying().(*types.Struct); ok && namedOf(x.X.Type()) == n {
					reads[st.Field(x.Field).Name()] = true
				}
			case *ssa.Call:
				if cal := x.Call.StaticCallee(); cal != nil && p.inModule(cal) {
					rr, ww := p.fieldsTouched(cal, n, depth+1, seen)
					for k := range rr {
						reads[k] = true
					}
					for k := range ww {
						writes[k] = true
					}
				}
			}
		}
	}
	return
}

func ownerOf(f *types.Var, n *types.Named) bool {
	st, ok := n.Underlying().(*types.Struct)
	if !ok {
		return false
	}
	for i := 0; i < st.NumFields(); i++ {
		if st.Field(i).Origin() == f {
			return true
		}
	}
	return false
}

var c12Exempt = map[string]string{
	"singletonForwardedMessage.sender": "transmitted as senderAddr + senderPath (the ref itself is rebuilt by the receiver)",
	"Error.err":                        "documented as not serialised: only code and message cross the wire",
	"PongMessage.Ping":                 "only Ping.Time is transmitted; the reader rebuilds the PingMessage",
}

func c12Coverage(p *Program, r *Report) {
	type job struct {
		n    *types.Named
		w, r *ssa.Function
		pos  token.Pos
	}
	var jobs []job
	for _, rg := range p.registrations() {
		pt, ok := rg.T.(*types.Pointer)
		if !ok {
			continue
		}
		n := namedOf(pt.Elem())
		if n == nil {
			continue
		}
		jobs = append(jobs, job{n, rg.Writer, rg.Reader, rg.Site.Pos()})
	}
	// structs serialised by helpers
	// (exported type names; the helper functions are found by role: the package function taking the codec's Writer and the
	// struct that reads most of its fields / taking the Reader and returning the struct that sets most of its fields)
	for _, typ := range []string{"NodeState", "ClusterView"} {
		n := p.Named("internal/cluster", typ)
		if n == nil {
			r.Unresolved("helper-serialised struct " + typ)
			continue
		}
		var w, rd *ssa.Function
		bw, br := 0, 0
		cc := p.codec()
		for _, fn := range p.Mod {
			if fn.Parent() != nil || fnPkg(fn) != n.Obj().Pkg() || fn.Signature.Recv() != nil || len(fn.Blocks) == 0 {
				continue
			}
			hasW, hasR, hasT := false, false, false
			for _, prm := range fn.Params {
				switch namedOf(prm.Type()) {
				case cc.WriterT:
					hasW = true
				case cc.ReaderT:
					hasR = true
				case n:
					hasT = true
				}
			}
			if hasW && hasT {
				rdF, _ := p.fieldsTouched(fn, n, 0, map[*ssa.Function]bool{})
				direct := 0
				for _, b := range fn.Blocks {
					for _, in := range b.Instrs {
						if fa, ok := in.(*ssa.FieldAddr); ok {
							if f := fieldOfAddr(fa); f != nil && ownerName(f) == n.Obj().Name() {
								direct++
							}
						}
					}
				}
				if direct > 0 && len(rdF) > bw {
					bw, w = len(rdF), fn
				}
			}
			if hasR && fn.Signature.Results().Len() >= 1 && namedOf(fn.Signature.Results().At(0).Type()) == n {
				_, wrF := p.fieldsTouched(fn, n, 0, map[*ssa.Function]bool{})
				cnt := len(wrF) + len(litFields(p, fn, n, 0, map[*ssa.Function]bool{}))
				direct := 0
				for _, b := range fn.Blocks {
					for _, in := range b.Instrs {
						if al, ok := in.(*ssa.Alloc); ok && namedOf(al.Type()) == n {
							direct++
						}
					}
				}
				if direct > 0 && cnt > br {
					br, rd = cnt, fn
				}
			}
		}
		if w == nil || rd == nil {
			r.Unresolved("helper-serialised struct " + typ)
			continue
		}
		jobs = append(jobs, job{n, w, rd, w.Pos()})
	}
	for _, j := range jobs {
		st, ok := j.n.Underlying().(*types.Struct)
		if !ok {
			continue
		}
		wr, _ := p.fieldsTouched(j.w, j.n, 0, map[*ssa.Function]bool{})
		_, rw := p.fieldsTouched(j.r, j.n, 0, map[*ssa.Function]bool{})
		// reader-side composite literals: fields set in a literal of the type
		if j.r != nil {
			for _, f := range litFields(p, j.r, j.n, 0, map[*ssa.Function]bool{}) {
				rw[f] = true
			}
		}
		if st.NumFields() == 0 {
			r.Lookup(j.n.Obj().Name(), j.pos, "message type has no fields")
			continue
		}
		for i := 0; i < st.NumFields(); i++ {
			f := st.Field(i)
			key := j.n.Obj().Name() + "." + f.Name()
			if why, ex := c12Exempt[key]; ex {
				r.Lookup(key, f.Pos(), "exempt: "+why)
				continue
			}
			// a field of a synchronisation type (sync.Mutex, atomic.Uint64 counter …) is local bookkeeping, not message content
			if ft := namedOf(f.Type()); ft != nil && ft.Obj().Pkg() != nil && (ft.Obj().Pkg().Path() == "sync" || ft.Obj().Pkg().Path() == "sync/atomic") {
				r.Lookup(key, f.Pos(), "not message content: a field of type "+typeName(f.Type())+" (synchronisation / local statistics)")
				continue
			}
			r.Check(wr[f.Name()] && rw[f.Name()], key, f.Pos(), fmt.Sprintf("field is read by the writer (%v) and written by the reader (%v)", wr[f.Name()], rw[f.Name()]))
		}
	}
}

func litFields(p *Program, fn *ssa.Function, n *types.Named, depth int, seen map[*ssa.Function]bool) []string {
	var out []string
	if fn == nil || depth > 4 || seen[fn] {
		return nil
	}
	seen[fn] = true
	for _, b := range fn.Blocks {
		for _, in := range b.Instrs {
			if al, ok := in.(*ssa.Alloc); ok && namedOf(al.Type()) == n {
				for _, ref := range *al.Referrers() {
					if fa, ok := ref.(*ssa.FieldAddr); ok {
						if f, _ := fieldAddr(fa); f != nil {
							out = append(out, f.Name())
						}
					}
				}
			}
			if c := callOf(in); c != nil && c.StaticCallee() != nil && p.inModule(c.StaticCallee()) {
				out = append(out, litFields(p, c.StaticCallee(), n, depth+1, seen)...)
			}
		}
	}
	return out
}

func intWidth(t types.Type, wordBits int) (bits int, signed bool, ok bool) {
	b, isB := t.Underlying().(*types.Basic)
	if !isB || b.Info()&types.IsInteger == 0 {
		return 0, false, false
	}
	switch b.Kind() {
	case types.Int8:
		return 8, true, true
	case types.Int16:
		return 16, true, true
	case types.Int32:
		return 32, true, true
	case types.Int64:
		return 64, true, true
	case types.Int:
		return wordBits, true, true
	case types.Uint8:
		return 8, false, true
	case types.Uint16:
		return 16, false, true
	case types.Uint32:
		return 32, false, true
	case types.Uint64:
		return 64, false, true
	case types.Uint, types.Uintptr:
		return wordBits, false, true
	}
	return 0, false, false
}

func (p *Program) wordBits() int {
	if p.GOARCH == "386" {
		return 32
	}
	return 64
}

// shortLengthWrites: sites in registered writers (and the stream helpers they call) that write a non-constant string / byte
// slice with a length prefix narrower than 4 bytes: values longer than 255 / 65535 bytes make the writer fail.
type shortWrite struct {
	Fn    *ssa.Function
	In    ssa.Instruction
	Bytes int64
	What  string
	Ord   int // ordinal among the short writes of Fn
}

func (p *Program) shortLengthWrites() []shortWrite {
	c := p.codec()
	var out []shortWrite
	seen := map[*ssa.Function]bool{}
	// which Writer methods write with a short prefix regardless of the argument (WriteShortString → WriteBytesWithLength(_, 1))
	shortMethod := map[*ssa.Function]int64{}
	var wbl *ssa.Function
	for _, m := range p.methodsOf(c.WriterT) {
		if m.Name() == "WriteBytesWithLength" {
			wbl = m
		}
	}
	if wbl != nil {
		for _, m := range p.methodsOf(c.WriterT) {
			for _, b := range m.Blocks {
				for _, in := range b.Instrs {
					if cc := callOf(in); cc != nil && cc.StaticCallee() == wbl && len(cc.Args) == 3 {
						if k, ok := constInt(cc.Args[2]); ok && k < 4 {
							shortMethod[m] = k
						}
					}
				}
			}
		}
	}
	var visit func(fn *ssa.Function, depth int)
	visit = func(fn *ssa.Function, depth int) {
		if fn == nil || seen[fn] || depth > 4 {
			return
		}
		seen[fn] = true
		for _, b := range fn.Blocks {
			for _, in := range b.Instrs {
				cc := callOf(in)
				if cc == nil || cc.StaticCallee() == nil {
					continue
				}
				cal := cc.StaticCallee()
				if p.inModule(cal) && (cal.Signature.Recv() == nil || namedOf(cal.Signature.Recv().Type()) != c.WriterT) {
					if _, isW := p.streamParam(cal); isW {
						visit(cal, depth+1)
					}
					continue
				}
				k, short := shortMethod[cal]
				if cal == wbl && len(cc.Args) == 3 {
					if kk, ok := constInt(cc.Args[2]); ok && kk < 4 {
						k, short = kk, true
					}
				}
				if !short || len(cc.Args) < 2 {
					continue
				}
				if _, isConst := unconv(cc.Args[1]).(*ssa.Const); isConst {
					continue // a literal of known length
				}
				ord := 1
				for _, o := range out {
					if o.Fn == fn {
						ord++
					}
				}
				out = append(out, shortWrite{Fn: fn, In: in, Bytes: k, What: cal.Name(), Ord: ord})
			}
		}
	}
	for _, rg := range p.registrations() {
		visit(rg.Writer, 0)
	}
	for _, f := range []*ssa.Function{p.streamOwner(p.Func("internal/remoting/serialize", "EncodeEnvelopWithRemoting"))} {
		visit(f, 0)
	}
	return out
}

func c12Lossy(p *Program, r *Report) {
	n := 0
	seen := map[*ssa.Function]bool{}
	var visit func(fn *ssa.Function, depth int)
	visit = func(fn *ssa.Function, depth int) {
		if fn == nil || seen[fn] || depth > 4 {
			return
		}
		seen[fn] = true
		for _, b := range fn.Blocks {
			for _, in := range b.Instrs {
				if cv, ok := in.(*ssa.Convert); ok {
					fb, _, ok1 := intWidth(cv.X.Type(), 64) // judged for the widest platform int (64 bit): int→int32 loses values there
					tb, _, ok2 := intWidth(cv.Type(), 64)
					if !ok1 || !ok2 || tb >= fb {
						continue
					}
					if lc, isCall := cv.X.(*ssa.Call); isCall {
						if b, isB := lc.Call.Value.(*ssa.Builtin); isB && (b.Name() == "len" || b.Name() == "cap") {
							continue // a length is not a message field (collections are bounded by the frame), whatever it is the length of
						}
					}
					fld := p.fieldOfSource(cv.X, 0)
					if fld == "" {
						continue // not a message field (len(x) etc. are bounded by the frame)
					}
					// only conversions that feed the stream
					feeds := false
					for _, ref := range *cv.Referrers() {
						if _, isMI := ref.(*ssa.MakeInterface); isMI {
							feeds = true
						}
						if c := callOf(ref); c != nil && c.StaticCallee() != nil && strings.HasPrefix(c.StaticCallee().Name(), "Write") {
							feeds = true
						}
					}
					if !feeds {
						continue
					}
					n++
					// identity = (field, narrower type): the writer function's name is not part of it
					r.Violate(fmt.Sprintf("writer narrows %s to %s", fld, typeName(cv.Type())), cv.Pos(),
						fmt.Sprintf("writer narrows field %s from %s to %s: values outside the narrower range do not round-trip", fld, typeName(cv.X.Type()), typeName(cv.Type())))
				}
				if c := callOf(in); c != nil && c.StaticCallee() != nil && p.inModule(c.StaticCallee()) {
					if _, isW := p.streamParam(c.StaticCallee()); isW {
						visit(c.StaticCallee(), depth+1)
					}
				}
			}
		}
	}
	for _, rg := range p.registrations() {
		visit(rg.Writer, 0)
	}
	for _, sw := range p.shortLengthWrites() {
		n++
		r.Violate(fmt.Sprintf("%s: %s #%d with a %d-byte length prefix", fnName(sw.Fn), sw.What, sw.Ord, sw.Bytes), sw.In.Pos(),
			fmt.Sprintf("a string/byte value of unbounded length is written with a %d-byte length prefix: longer values make the writer fail, they do not round-trip", sw.Bytes))
	}
	if n == 0 {
		r.Lookup("writer-side integer conversions", token.NoPos, "no narrowing conversion of a message field found")
	}
}

// c12Substitution: a writer sends a constant in place of a message field only on paths where the field was observed
// absent (nil / zero / failed type assertion of a value read from the message). A constant chosen by anything else —
// a registry lookup, a flag elsewhere — silently drops information the reader cannot restore.
func c12Substitution(p *Program, r *Report) {
	c := p.codec()
	n := 0
	seen := map[*ssa.Function]bool{}
	fromMessage := func(v ssa.Value) bool {
		o := p.origins(v)
		if len(o) == 0 {
			return false
		}
		// the stream and the codec are not the message
		notMsg := map[string]bool{}
		if in, ok := v.(ssa.Instruction); ok {
			root := in.Parent()
			for root.Parent() != nil {
				root = root.Parent()
			}
			for _, fn := range []*ssa.Function{in.Parent(), root} {
				for _, prm := range fn.Params {
					if n := namedOf(prm.Type()); n != nil && (n == c.WriterT || n == c.ReaderT || n.Obj().Name() == "Codec") {
						notMsg["param:"+prm.Name()] = true
					}
				}
			}
		}
		for _, ch := range o {
			last := ch
			if i := strings.LastIndex(ch, "<-"); i >= 0 {
				last = ch[i+2:]
			}
			if (!strings.HasPrefix(last, "param:") && !strings.HasPrefix(last, "freevar:")) || notMsg[last] {
				return false
			}
		}
		return true
	}
	absence := func(ifi *ssa.If, outcome bool) bool {
		f, ok := condFact(ifi.Cond, outcome)
		if !ok || f.Y != nil || f.Op != token.EQL {
			return false
		}
		if !(f.IsNil || f.Bool || f.C == 0) {
			return false
		}
		return fromMessage(f.X)
	}
	underAbsence := func(pred, phiB *ssa.BasicBlock) bool {
		if ifi, ok := pred.Instrs[len(pred.Instrs)-1].(*ssa.If); ok {
			for k, outcome := range []bool{true, false} {
				if pred.Succs[k] == phiB && pred.Succs[1-k] != phiB && absence(ifi, outcome) {
					return true
				}
			}
		}
		for _, b := range pred.Parent().Blocks {
			ifi, ok := b.Instrs[len(b.Instrs)-1].(*ssa.If)
			if !ok {
				continue
			}
			for k, outcome := range []bool{true, false} {
				s := b.Succs[k]
				if len(s.Preds) == 1 && s.Dominates(pred) && absence(ifi, outcome) {
					return true
				}
			}
		}
		return false
	}
	var visit func(fn *ssa.Function, depth int)
	visit = func(fn *ssa.Function, depth int) {
		if fn == nil || seen[fn] || depth > 4 {
			return
		}
		seen[fn] = true
		for _, b := range fn.Blocks {
			for _, in := range b.Instrs {
				cc := callOf(in)
				if cc == nil || cc.StaticCallee() == nil {
					continue
				}
				cal := cc.StaticCallee()
				if p.inModule(cal) {
					if _, isW := p.streamParam(cal); isW {
						visit(cal, depth+1)
					}
				}
				if cal.Signature.Recv() == nil || namedOf(cal.Signature.Recv().Type()) != c.WriterT || !strings.HasPrefix(cal.Name(), "Write") {
					continue
				}
				var args []ssa.Value
				for _, a := range cc.Args[1:] {
					if elems, ok := varargElems(a); ok {
						args = append(args, elems...)
					} else {
						args = append(args, a)
					}
				}
				for ai, a := range args {
					if mi, ok := a.(*ssa.MakeInterface); ok {
						a = mi.X
					}
					var phis []*ssa.Phi
					seenV := map[ssa.Value]bool{}
					var collect func(v ssa.Value)
					collect = func(v ssa.Value) {
						if seenV[v] {
							return
						}
						seenV[v] = true
						if ph, ok := v.(*ssa.Phi); ok {
							phis = append(phis, ph)
							for _, e := range ph.Edges {
								collect(e)
							}
						}
					}
					collect(a)
					for _, ph := range phis {
						hasField := false
						for _, e := range ph.Edges {
							if _, isC := e.(*ssa.Const); !isC {
								hasField = true
							}
						}
						if !hasField {
							continue
						}
						for ei, e := range ph.Edges {
							if _, isC := e.(*ssa.Const); !isC {
								continue
							}
							n++
							pred := ph.Block().Preds[ei]
							r.Check(underAbsence(pred, ph.Block()), fmt.Sprintf("%s: %s argument %d, constant alternative #%d", fnName(fn), cal.Name(), ai, ei), in.Pos(),
								"the constant is sent instead of the field only on a path that observed the field absent (nil / zero / failed assertion of a value read from the message)")
						}
					}
				}
			}
		}
	}
	for _, rg := range p.registrations() {
		visit(rg.Writer, 0)
	}
	if n == 0 {
		r.Lookup("constant substitutes in writers", token.NoPos, "no writer sends a constant as an alternative to a field value")
	}
}

// c12Boundary: a reader-side plausibility guard comparing a wire count with the bytes that remain must admit
// count == remaining: an empty collection written last, or a collection of one-byte elements filling the rest of the
// buffer, is valid writer output. (Which counts are *needed* is arithmetic and not decided; rejecting the boundary is
// visible in the comparison operator.)
func c12Boundary(p *Program, r *Report) {
	n := 0
	for _, fn := range sortedFuncs(p.codecScope()) {
		wi := p.wireInts(fn)
		g := p.ig(fn)
		for _, ifi := range ifsOf(fn) {
			f, ok := condFact(ifi.Cond, true)
			if !ok || f.Y == nil {
				continue
			}
			isRem := func(v ssa.Value) bool {
				if cc, ok := unconv(v).(*ssa.Call); ok {
					if b, isB := cc.Call.Value.(*ssa.Builtin); isB && b.Name() == "len" {
						return true
					}
				}
				o := p.origins(unconv(v))
				return anyContains(o, "RemainingSize") || anyContains(o, "binop:-") || anyContains(o, "call:len")
			}
			isCnt := func(v ssa.Value) bool { return wi[v] || wi[unconv(v)] || wi[strip(v)] }
			var cntLeft bool
			switch {
			case isCnt(f.X) && isRem(f.Y):
				cntLeft = true
			case isCnt(f.Y) && isRem(f.X):
				cntLeft = false
			default:
				continue
			}
			// normalise to "count OP remaining" on the true edge
			op := f.Op
			if !cntLeft {
				op = flipTok(op)
			}
			// the edge on which count >= remaining (boundary included) and the edge on which count > remaining
			var rejectsBoundary bool
			var rejEdge edge
			switch op {
			case token.GEQ: // true edge: count >= remaining
				rejEdge, rejectsBoundary = g.branchEdge(ifi, true), true
			case token.LSS: // false edge: count >= remaining
				rejEdge, rejectsBoundary = g.branchEdge(ifi, false), true
			case token.GTR, token.LEQ:
				rejectsBoundary = false
			default:
				continue
			}
			n++
			construct := "remaining-size guard in " + fnName(fn)
			if !rejectsBoundary {
				r.Check(true, construct, ifi.Cond.Pos(), "the guard separates count > remaining from count <= remaining: the boundary count is admitted")
				continue
			}
			// count >= remaining goes one way: a violation if that way only fails
			fails := true
			for ex := range g.Reach([]int{rejEdge.to}, nil, nil) {
				ret, isRet := g.Nodes[ex].(*ssa.Return)
				if !isRet || len(ret.Results) == 0 {
					continue
				}
				last := retOperand(ret, len(ret.Results)-1)
				if b, isB := constBool(last); isB {
					if b {
						fails = false
					}
				} else if isNilConst(last) {
					fails = false
				}
			}
			r.Check(!fails, construct, ifi.Cond.Pos(), "count == remaining is sent down a path that only fails: valid encodings ending in an empty collection (or in one-byte elements) are rejected")
		}
	}
	if n == 0 {
		r.Unresolved("no comparison of a wire count with the remaining size found")
	}
}

func unconv(v ssa.Value) ssa.Value {
	for {
		switch x := v.(type) {
		case *ssa.Convert:
			v = x.X
		case *ssa.ChangeType:
			v = x.X
		default:
			return v
		}
	}
}

// c12Pools: see the explanation (R9).
func c12Pools(p *Program, r *Report) {
	c := p.codec()
	n := 0
	for _, T := range []*types.Named{c.ReaderT, c.WriterT} {
		if T == nil {
			continue
		}
		var acquire, release *ssa.Function
		pkgFns := []*ssa.Function{}
		for _, fn := range p.Mod {
			if fnPkg(fn) == T.Obj().Pkg() && fn.Parent() == nil {
				pkgFns = append(pkgFns, fn)
			}
		}
		for _, fn := range pkgFns {
			for _, b := range fn.Blocks {
				for _, in := range b.Instrs {
					cc := callOf(in)
					if cc == nil {
						continue
					}
					switch calleeQual(cc) {
					case "(sync.Pool).Get":
						if res := fn.Signature.Results(); res.Len() == 1 && namedOf(res.At(0).Type()) == T {
							acquire = fn
						}
					case "(sync.Pool).Put":
						if len(fn.Params) == 1 && namedOf(fn.Params[0].Type()) == T {
							release = fn
						}
					}
				}
			}
		}
		if acquire == nil || release == nil {
			r.Unresolved("pool acquire / release function of " + T.Obj().Name())
			continue
		}
		// state fields: written by methods of T other than Reset-style whole-object resets (methods storing >= 2 fields
		// from constants only are resets) — simply: fields stored in some method that also reads input/appends output.
		st := T.Underlying().(*types.Struct)
		fields := map[*types.Var]bool{}
		for i := 0; i < st.NumFields(); i++ {
			fields[st.Field(i)] = true
		}
		state := map[*types.Var]bool{}
		for _, a := range p.fieldAccesses(fields) {
			if !a.Write || a.Fresh {
				continue
			}
			root := a.Fn
			for root.Parent() != nil {
				root = root.Parent()
			}
			if root == acquire || root == release || root.Signature.Recv() == nil {
				continue
			}
			// a method whose parameters all are plain data setters (Reset(data), SetOrder) is not a read/write method: require
			// that the method's name starts with Read/Write/read/write or is the bounds check / capacity helper
			nm := strings.ToLower(root.Name())
			if strings.HasPrefix(nm, "read") || strings.HasPrefix(nm, "write") || root == c.Check || root == c.Reserve || root == c.ReadReflect || root == c.WriteReflect || nm == "skip" || nm == "seek" {
				state[a.Field] = true
			}
		}
		ag, rg := p.igx(acquire), p.igx(release)
		storesOf := func(g *IG, f *types.Var) map[int]bool {
			return nodesWhere(g, func(in ssa.Instruction) bool {
				s, ok := in.(*ssa.Store)
				if !ok {
					return false
				}
				x, _ := fieldAddr(s.Addr)
				return x == f
			})
		}
		puts := nodesWhere(rg, func(in ssa.Instruction) bool {
			cc := callOf(in)
			return cc != nil && calleeQual(cc) == "(sync.Pool).Put"
		})
		var names []string
		for f := range state {
			names = append(names, f.Name())
		}
		sort.Strings(names)
		for _, nm := range names {
			f := fieldVar(T, nm)
			n++
			inRelease := len(puts) > 0 && len(storesOf(rg, f)) > 0
			for pn := range puts {
				if !rg.DominatedByNodes(pn, storesOf(rg, f)) {
					inRelease = false
				}
			}
			inAcquire := len(storesOf(ag, f)) > 0 && !anyIn(ag.Reach(ag.entry(), storesOf(ag, f), nil), ag.Exits)
			r.Check(inRelease || inAcquire, fmt.Sprintf("pooled %s: %s reset between uses", T.Obj().Name(), nm), release.Pos(),
				"the field is stored on every path before the object is put back, or on every path before a pooled object is handed out: the next user never sees the previous user's cursor / sticky error / contents")
		}
	}
	// buffers of a pooled writer do not outlive the release
	if c.WriterT != nil {
		var releaseW *ssa.Function
		for _, fn := range p.Mod {
			if fnPkg(fn) == c.WriterT.Obj().Pkg() && len(fn.Params) == 1 && namedOf(fn.Params[0].Type()) == c.WriterT && fn.Parent() == nil {
				for _, b := range fn.Blocks {
					for _, in := range b.Instrs {
						if cc := callOf(in); cc != nil && calleeQual(cc) == "(sync.Pool).Put" {
							releaseW = fn
						}
					}
				}
			}
		}
		for _, fn := range p.Mod {
			if releaseW == nil || len(fn.Blocks) == 0 {
				continue
			}
			var released []ssa.Value
			for _, b := range fn.Blocks {
				for _, in := range b.Instrs {
					if cc := callOf(in); cc != nil && cc.StaticCallee() == releaseW && len(cc.Args) == 1 {
						released = append(released, strip(cc.Args[0]))
					}
				}
			}
			if len(released) == 0 {
				continue
			}
			aliases := func(v ssa.Value) bool {
				seen := map[ssa.Value]bool{}
				var rec func(v ssa.Value, d int) bool
				rec = func(v ssa.Value, d int) bool {
					if v == nil || seen[v] || d > 8 {
						return false
					}
					seen[v] = true
					switch x := v.(type) {
					case *ssa.Slice:
						return rec(x.X, d+1)
					case *ssa.Phi:
						for _, e := range x.Edges {
							if rec(e, d+1) {
								return true
							}
						}
					case *ssa.Call:
						if y := x.Call.StaticCallee(); y != nil && y.Signature.Recv() != nil && namedOf(y.Signature.Recv().Type()) == c.WriterT && len(x.Call.Args) > 0 {
							if _, isSl := x.Type().Underlying().(*types.Slice); isSl {
								for _, w := range released {
									if strip(x.Call.Args[0]) == w {
										return true
									}
								}
							}
						}
					case *ssa.UnOp:
						if x.Op == token.MUL {
							if f, base := fieldAddr(x.X); f != nil && ownerName(f) == c.WriterT.Obj().Name() {
								for _, w := range released {
									if strip(base) == w {
										if _, isSl := x.Type().Underlying().(*types.Slice); isSl {
											return true
										}
									}
								}
							}
						}
					}
					return false
				}
				return rec(v, 0)
			}
			okRet, nRet := true, 0
			badPos := fn.Pos()
			for _, b := range fn.Blocks {
				for _, in := range b.Instrs {
					switch x := in.(type) {
					case *ssa.Return:
						for k := range x.Results {
							if _, isSl := x.Results[k].Type().Underlying().(*types.Slice); !isSl {
								continue
							}
							nRet++
							if aliases(retOperand(x, k)) {
								okRet = false
								badPos = x.Pos()
							}
						}
					case *ssa.Store:
						if _, isSl := x.Val.Type().Underlying().(*types.Slice); isSl {
							if f, _ := fieldAddr(x.Addr); f != nil && ownerName(f) != c.WriterT.Obj().Name() && aliases(x.Val) {
								n++
								r.Violate(fmt.Sprintf("%s stores bytes of a released pooled writer into %s.%s", fnName(fn), ownerName(f), f.Name()), x.Pos(), "a view of the pooled buffer outlives the release")
							}
						}
					}
				}
			}
			if nRet > 0 {
				n++
				r.Check(okRet, fnName(fn)+" does not return bytes of the pooled writer it releases", badPos,
					fmt.Sprintf("none of its %d slice-typed return operands is a view of the buffer of a writer this function releases to the pool: the bytes are copied out first", nRet))
			}
		}
	}
	if n == 0 {
		r.Unresolved("pooled codec objects")
	}
}

func c12Positions(p *Program, r *Report) {
	pairs, _ := p.wirePairs()
	total := 0
	for _, pr := range pairs {
		if pr.W == nil || pr.R == nil {
			continue
		}
		ws, rs := p.wireSigOf(pr.W, pr.WIdx), p.wireSigOf(pr.R, pr.RIdx)
		wm, rm := sigSet(ws), sigSet(rs)
		compared, bad := 0, ""
		for k, wseq := range wm {
			rseq, ok := rm[k]
			if !ok || len(rseq) != len(wseq) {
				continue
			}
			for i := range wseq {
				wf, rf := wseq[i].Field, rseq[i].Field
				if wf == "" || rf == "" || ownerPart(wf) != ownerPart(rf) {
					continue // unresolved, or attributed to different structs (not comparable)
				}
				compared++
				if !sameFieldName(wf, rf) && bad == "" {
					bad = fmt.Sprintf("position %d (%s): writer sends field %s, reader stores into field %s", i, wseq[i].Kind, wf, rf)
				}
			}
		}
		total += compared
		if compared == 0 {
			continue
		}
		r.Check(bad == "", pr.Name+": field order", pr.Pos, fmt.Sprintf("%d resolvable positions compared; %s", compared, map[bool]string{true: "same field on both sides everywhere", false: bad}[bad == ""]))
	}
	if total == 0 {
		r.Unresolved("no wire position with a resolvable field on both sides")
	}
}

func ownerPart(f string) string {
	if i := strings.Index(f, "."); i >= 0 {
		return f[:i]
	}
	return ""
}

// sameFieldName: identical, or the reader's local/alternative spelling of the same field (case-insensitive, e.g. senderAddr vs senderAddr).
func sameFieldName(a, b string) bool {
	return strings.EqualFold(a, b)
}
