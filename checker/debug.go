package main

import (
	"fmt"
	"go/types"
	"sort"
)

// debugFields prints every access of every field of pkg.Type with lock sets (development aid).
func debugFields(repo, rel, name string) int {
	p, err := loadProgram(repo, "")
	if err != nil {
		fmt.Println(err)
		return 1
	}
	n := p.Named(rel, name)
	if n == nil {
		fmt.Println("no such type")
		return 1
	}
	st := n.Underlying().(*types.Struct)
	fields := map[*types.Var]bool{}
	for i := 0; i < st.NumFields(); i++ {
		fields[st.Field(i)] = true
	}
	acc := p.fieldAccesses(fields)
	sort.SliceStable(acc, func(i, j int) bool { return acc[i].Field.Name() < acc[j].Field.Name() })
	for _, a := range acc {
		w := "R"
		if a.Write {
			w = "W"
		}
		fmt.Printf("%-18s %s %-14s fresh=%-5v held=%-28s %s @ %s\n", a.Field.Name(), w, a.Kind, a.Fresh, a.Held.names(), fnName(a.Fn), p.pos(a.In.Pos()))
	}
	return 0
}

func debugClasses(repo string, specs []string) int {
	p, err := loadProgram(repo, "")
	if err != nil {
		fmt.Println(err)
		return 1
	}
	for i := 0; i+1 < len(specs); i += 2 {
		n := p.Named(specs[i], specs[i+1])
		if n == nil {
			fmt.Println("no type", specs[i], specs[i+1])
			continue
		}
		st := n.Underlying().(*types.Struct)
		fields := map[*types.Var]bool{}
		for j := 0; j < st.NumFields(); j++ {
			fields[st.Field(j)] = true
		}
		by := map[*types.Var][]access{}
		for _, a := range p.fieldAccesses(fields) {
			by[a.Field] = append(by[a.Field], a)
		}
		for j := 0; j < st.NumFields(); j++ {
			f := st.Field(j)
			cl := p.inferClass(f, by[f], nil)
			nw := 0
			var writers []string
			for _, a := range by[f] {
				if a.Write && !a.Fresh {
					nw++
					writers = append(writers, fnName(a.Fn)+a.Held.names())
				}
			}
			fmt.Printf("%-22s %-22s %-12s %-30s shared-writes=%d %v\n", specs[i+1], f.Name(), cl.Class, cl.Lock, nw, writers)
		}
	}
	return 0
}

// debugIgx dumps the inlined flow graph of pkg.Type.Method (development aid).
func debugIgx(repo, rel, typ, method string) int {
	p, err := loadProgram(repo, "")
	if err != nil {
		fmt.Println(err)
		return 1
	}
	fn := p.Method(rel, typ, method)
	if fn == nil {
		fmt.Println("no such method")
		return 1
	}
	g := p.igx(fn)
	for _, f := range g.Fns {
		fmt.Println("fn:", fnName(f))
	}
	ex := map[int]bool{}
	for _, e := range g.Exits {
		ex[e] = true
	}
	for i, in := range g.Nodes {
		mark := ""
		if ex[i] {
			mark = " EXIT"
		}
		fmt.Printf("%3d %-28s %v -> %v%s   [%s]\n", i, fnName(in.Parent()), in, g.Succ[i], mark, p.pos(in.Pos()))
	}
	return 0
}

func debugOwns(repo string) int {
	p, err := loadProgram(repo, "")
	if err != nil {
		fmt.Println(err)
		return 1
	}
	lc := p.lifecycle()
	ao := p.ctxMethod(lc, "ActorOf")
	g := p.igxSkip(ao, lc.roleFuncs(p))
	for _, f := range g.Fns {
		fmt.Println(fnName(f), g.owns(p, f))
	}
	st := lc.Ctx.Underlying().(*types.Struct)
	fields := map[*types.Var]bool{}
	for i := 0; i < st.NumFields(); i++ {
		if _, ok := st.Field(i).Type().Underlying().(*types.Map); ok {
			fields[st.Field(i)] = true
		}
	}
	for _, a := range p.fieldAccesses(fields) {
		fmt.Println(a.Field.Name(), a.Kind, fnName(a.Fn), a.Write)
	}
	return 0
}

func debugScopeNames(p *Program) []string {
	var out []string
	for f := range p.decodeHelperScope() {
		if _, in := p.codecScope()[f]; !in {
			out = append(out, fnName(f))
		}
	}
	sort.Strings(out)
	return out
}
