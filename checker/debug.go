package main

import (
	"fmt"
	"go/types"
	"sort"
)

// debugFields prints every access of every field of pkg.Type with lock sets (development aid).
func debugFields(repo, rel, name string) int {
	p, err := loadProgram(repo, "")
	if err != nil {
		fmt.Println(err)
		return 1
	}
	n := p.Named(rel, name)
	if n == nil {
		fmt.Println("no such type")
		return 1
	}
	st := n.Underlying().(*types.Struct)
	fields := map[*types.Var]bool{}
	for i := 0; i < st.NumFields(); i++ {
		fields[st.Field(i)] = true
	}
	acc := p.fieldAccesses(fields)
	sort.SliceStable(acc, func(i, j int) bool { return acc[i].Field.Name() < acc[j].Field.Name() })
	for _, a := range acc {
		w := "R"
		if a.Write {
			w = "W"
		}
		fmt.Printf("%-18s %s %-14s fresh=%-5v held=%-28s %s @ %s\n", a.Field.Name(), w, a.Kind, a.Fresh, a.Held.names(), fnName(a.Fn), p.pos(a.In.Pos()))
	}
	return 0
}
