package main

// C01 — one message at a time, exactly once, no lost wake-up, no spin.
// Roles (queues, counters, status, paused, consumer, handler loop) are inferred
// from the code of every type that implements vivid.Mailbox and owns a
// vivid.EnvelopHandler; nothing is anchored on internal names.

import (
	"fmt"
	"go/token"
	"go/types"

	"golang.org/x/tools/go/ssa"
)

type mboxRoles struct {
	T        *types.Named
	Methods  []*ssa.Function // every function with receiver T (and their closures)
	Enqueue  *ssa.Function
	Pause    *ssa.Function
	Resume   *ssa.Function
	Handler  *types.Var // field of type vivid.EnvelopHandler
	SysQ     *types.Var
	UsrQ     *types.Var
	SysCnt   *types.Var
	UsrCnt   *types.Var
	Status   *types.Var
	Paused   *types.Var
	IdleVal  int64
	ProcVal  int64
	PauseVal int64
	Consumer *ssa.Function
	Loops    []*ssa.Function // functions that invoke HandleEnvelop on the handler field
	problems []string
}

func implementsIface(t types.Type, iface *types.Interface) bool {
	if iface == nil {
		return false
	}
	return types.Implements(t, iface) || types.Implements(types.NewPointer(t), iface)
}

// mailboxTypes finds the concrete mailbox implementations that drive a handler.
func (p *Program) mailboxTypes() []*mboxRoles {
	mb := p.Iface("", "Mailbox")
	eh := p.Named("", "EnvelopHandler")
	if mb == nil || eh == nil {
		return nil
	}
	var out []*mboxRoles
	for _, pk := range p.Pkgs {
		sc := pk.Types.Scope()
		for _, name := range sc.Names() {
			tn, ok := sc.Lookup(name).(*types.TypeName)
			if !ok || tn.IsAlias() {
				continue
			}
			n, ok := tn.Type().(*types.Named)
			if !ok || n.TypeParams().Len() > 0 {
				continue
			}
			st, ok := n.Underlying().(*types.Struct)
			if !ok || !implementsIface(n, mb) {
				continue
			}
			var hf *types.Var
			for i := 0; i < st.NumFields(); i++ {
				if types.Identical(st.Field(i).Type(), eh) {
					hf = st.Field(i)
				}
			}
			if hf == nil {
				continue
			}
			out = append(out, p.inferMailbox(n, hf))
		}
	}
	return out
}

func (p *Program) methodsOf(n *types.Named) []*ssa.Function {
	var out []*ssa.Function
	for _, fn := range p.Mod {
		root := fn
		for root.Parent() != nil {
			root = root.Parent()
		}
		if root.Signature.Recv() != nil && namedOf(root.Signature.Recv().Type()) == n {
			out = append(out, fn)
		}
	}
	return out
}

func (p *Program) methodNamed(n *types.Named, name string) *ssa.Function {
	for i := 0; i < n.NumMethods(); i++ {
		if n.Method(i).Name() == name {
			return p.SSA.FuncValue(n.Method(i))
		}
	}
	return nil
}

func (p *Program) inferMailbox(n *types.Named, hf *types.Var) *mboxRoles {
	r := &mboxRoles{T: n, Handler: hf}
	r.Methods = p.methodsOf(n)
	r.Enqueue = p.methodNamed(n, "Enqueue") // vivid.Mailbox is public API: method names are stable
	r.Pause = p.methodNamed(n, "Pause")
	r.Resume = p.methodNamed(n, "Resume")
	bad := func(f string, a ...any) { r.problems = append(r.problems, fmt.Sprintf(f, a...)) }
	if r.Enqueue == nil || r.Pause == nil || r.Resume == nil {
		bad("Mailbox methods missing on %s", n.Obj().Name())
		return r
	}
	// --- Enqueue: branch on envelop.System(); queue push + counter add per branch; CAS guarding go
	g := p.ig(r.Enqueue)
	var sysIf *ssa.If
	for _, ifi := range ifsOf(r.Enqueue) {
		f, ok := condFact(ifi.Cond, true)
		if !ok || !f.Bool {
			continue
		}
		if c, ok := f.X.(*ssa.Call); ok && c.Call.IsInvoke() && c.Call.Method.Name() == "System" && len(r.Enqueue.Params) > 1 && c.Call.Value == r.Enqueue.Params[1] {
			sysIf = ifi
			_ = f
		}
	}
	if sysIf == nil {
		bad("Enqueue has no branch on envelop.System()")
		return r
	}
	fTrue, _ := condFact(sysIf.Cond, true)
	sysOutcome := fTrue.Op == token.NEQ // true edge means System()==true
	sysEdge := g.branchEdge(sysIf, sysOutcome)
	usrEdge := g.branchEdge(sysIf, !sysOutcome)
	env := r.Enqueue.Params[1]
	for i, in := range g.Nodes {
		c := callOf(in)
		if c == nil {
			continue
		}
		if _, isGo := in.(*ssa.Go); isGo {
			if f := c.StaticCallee(); f != nil {
				r.Consumer = f
			}
			continue
		}
		// the election may live in a helper of the mailbox ("schedule()") shared by Enqueue and Resume
		if _, isCall := in.(*ssa.Call); isCall {
			if h := c.StaticCallee(); h != nil && h != r.Enqueue && h.Signature.Recv() != nil && namedOf(h.Signature.Recv().Type()) == n {
				var scanHelper func(h *ssa.Function, depth int)
				scanHelper = func(h *ssa.Function, depth int) {
					for _, hb := range h.Blocks {
						for _, hin := range hb.Instrs {
							if _, isGo := hin.(*ssa.Go); isGo {
								if f := callOf(hin).StaticCallee(); f != nil {
									r.Consumer = f
								}
								continue
							}
							if a := atomicCall(hin); a != nil && a.Field != nil && a.Op == "CAS" && len(a.Args) == 2 {
								r.Status = a.Field
								r.IdleVal, _ = constInt(a.Args[0])
								r.ProcVal, _ = constInt(a.Args[1])
							}
							// ... or one level further down ("schedule()" → "tryAcquire()")
							if hc, isC := hin.(*ssa.Call); isC && depth < 2 {
								if h2 := hc.Call.StaticCallee(); h2 != nil && h2 != h && h2.Signature.Recv() != nil && namedOf(h2.Signature.Recv().Type()) == n {
									scanHelper(h2, depth+1)
								}
							}
						}
					}
				}
				scanHelper(h, 0)
			}
		}
		// push: call whose receiver is a load of a field of the mailbox and that passes the envelope
		if recv := callRecv(c); recv != nil {
			if fld, _ := fieldLoad(recv); fld != nil {
				passes := false
				for _, a := range callArgs(c) {
					if strip(a) == env {
						passes = true
					}
				}
				if passes {
					onSys := g.DominatedByEdges(i, map[edge]bool{sysEdge: true})
					onUsr := g.DominatedByEdges(i, map[edge]bool{usrEdge: true})
					switch {
					case onSys && !onUsr:
						r.SysQ = fld
					case onUsr && !onSys:
						r.UsrQ = fld
					}
				}
			}
		}
		if a := atomicCall(in); a != nil && a.Field != nil {
			switch a.Op {
			case "Add":
				onSys := g.DominatedByEdges(i, map[edge]bool{sysEdge: true})
				onUsr := g.DominatedByEdges(i, map[edge]bool{usrEdge: true})
				switch {
				case onSys && !onUsr:
					r.SysCnt = a.Field
				case onUsr && !onSys:
					r.UsrCnt = a.Field
				}
			case "CAS":
				// the CAS whose success edge dominates the go statement
				r.Status = a.Field
				if len(a.Args) == 2 {
					r.IdleVal, _ = constInt(a.Args[0])
					r.ProcVal, _ = constInt(a.Args[1])
				}
			}
		}
	}
	// --- Pause: the field it stores a non-zero constant into
	for _, in := range p.ig(r.Pause).Nodes {
		if a := atomicCall(in); a != nil && a.Field != nil && (a.Op == "Store" || a.Op == "Swap") && len(a.Args) >= 1 {
			if v, ok := constInt(a.Args[0]); ok && v != 0 {
				r.Paused, r.PauseVal = a.Field, v
			}
		}
		if a := atomicCall(in); a != nil && a.Field != nil && a.Op == "CAS" && len(a.Args) == 2 {
			if v, ok := constInt(a.Args[1]); ok && v != 0 {
				r.Paused, r.PauseVal = a.Field, v
			}
		}
	}
	// --- handler loops: functions invoking HandleEnvelop on the handler field
	for _, fn := range p.Mod {
		for _, b := range fn.Blocks {
			for _, in := range b.Instrs {
				if r.isHandleInvoke(in) {
					if len(r.Loops) == 0 || r.Loops[len(r.Loops)-1] != fn {
						r.Loops = append(r.Loops, fn)
					}
				}
			}
		}
	}
	// a handler loop split into per-queue helpers ("drainSystem()", "handleNextUser()") is still one loop: the loop is the
	// mailbox method from which its single-use helpers are called, analysed with those helpers spliced in
	for round := 0; round < 2; round++ {
		var lifted []*ssa.Function
		seenL := map[*ssa.Function]bool{}
		for _, l := range r.Loops {
			up := l
			if l != r.Consumer && l.Signature.Recv() != nil && namedOf(l.Signature.Recv().Type()) == n {
				var callers []*ssa.Function
				if node := p.CG.Nodes[l]; node != nil {
					for _, e := range node.In {
						if e.Caller.Func != l && p.inModule(e.Caller.Func) {
							callers = append(callers, e.Caller.Func)
						}
					}
				}
				if len(callers) == 1 && callers[0].Signature.Recv() != nil && namedOf(callers[0].Signature.Recv().Type()) == n && callers[0] != r.Consumer && callers[0].Parent() == nil {
					if _, isGoTarget := callers[0], false; !isGoTarget {
						up = callers[0]
					}
				}
			}
			if !seenL[up] {
				seenL[up] = true
				lifted = append(lifted, up)
			}
		}
		r.Loops = lifted
	}
	for name, v := range map[string]*types.Var{"system queue": r.SysQ, "user queue": r.UsrQ, "system counter": r.SysCnt, "user counter": r.UsrCnt, "status": r.Status, "paused": r.Paused} {
		if v == nil {
			bad("role %q not found in %s", name, n.Obj().Name())
		}
	}
	if r.Consumer == nil {
		bad("no consumer goroutine spawned by Enqueue")
	}
	if len(r.Loops) == 0 {
		bad("no function invokes HandleEnvelop on the handler field")
	}
	if r.SysQ != nil && r.SysQ == r.UsrQ {
		bad("system and user queue are the same field")
	}
	if r.SysCnt != nil && r.SysCnt == r.UsrCnt {
		bad("system and user counter are the same field")
	}
	return r
}

func (r *mboxRoles) isHandleInvoke(in ssa.Instruction) bool {
	c := callOf(in)
	if c == nil || !c.IsInvoke() || c.Method.Name() != "HandleEnvelop" {
		return false
	}
	fld, _ := fieldLoad(c.Value)
	return fld == r.Handler
}

// popCall: a call in a handler loop whose receiver is a load of queue field q and
// that returns (value, ok).
func popOf(in ssa.Instruction, q *types.Var) bool {
	c, ok := in.(*ssa.Call)
	if !ok {
		return false
	}
	recv := callRecv(&c.Call)
	if recv == nil {
		return false
	}
	fld, _ := fieldLoad(recv)
	if fld != q {
		return false
	}
	tup, ok := c.Type().(*types.Tuple)
	if !ok || tup.Len() != 2 {
		return false
	}
	b, ok := tup.At(1).Type().Underlying().(*types.Basic)
	return ok && b.Kind() == types.Bool
}

// okEdges: the edges on which the pop's second result is true / false.
func (g *IG) okEdges(pop *ssa.Call) (okE, notOkE map[edge]bool) {
	okE, notOkE = map[edge]bool{}, map[edge]bool{}
	for _, ifi := range g.ifs() {
		for _, outcome := range []bool{true, false} {
			f, ok := condFact(ifi.Cond, outcome)
			if !ok || !f.Bool {
				continue
			}
			ex, ok := f.X.(*ssa.Extract)
			if !ok || ex.Tuple != pop || ex.Index != 1 {
				continue
			}
			if f.Op == token.NEQ {
				okE[g.branchEdge(ifi, outcome)] = true
			} else {
				notOkE[g.branchEdge(ifi, outcome)] = true
			}
		}
	}
	return
}

func edgeTargets(es map[edge]bool) []int {
	var out []int
	for e := range es {
		if e.to >= 0 {
			out = append(out, e.to)
		}
	}
	return out
}

func nodesWhere(g *IG, pred func(ssa.Instruction) bool) map[int]bool {
	m := map[int]bool{}
	for i, in := range g.Nodes {
		if pred(in) {
			m[i] = true
		}
	}
	return m
}

func firstPos(g *IG, set map[int]bool) token.Pos {
	best := token.NoPos
	for i := range set {
		if ps := g.Nodes[i].Pos(); ps.IsValid() && (best == token.NoPos || ps < best) {
			best = ps
		}
	}
	if best == token.NoPos {
		best = g.Fn.Pos()
	}
	return best
}

// casSuccessEdges / casFailEdges for CAS calls on field f with optional new value filter.
func (p *Program) casEdges(g *IG, f *types.Var, wantNew *int64) (nodes map[int]bool, succ, fail map[edge]bool) {
	nodes, succ, fail = map[int]bool{}, map[edge]bool{}, map[edge]bool{}
	for i, in := range g.Nodes {
		a := atomicCall(in)
		if a == nil || a.Op != "CAS" || a.Field != f {
			continue
		}
		if wantNew != nil && len(a.Args) == 2 {
			if v, ok := constInt(a.Args[1]); !ok || v != *wantNew {
				continue
			}
		}
		nodes[i] = true
		cv, _ := in.(ssa.Value)
		for _, ifi := range g.ifs() {
			for _, outcome := range []bool{true, false} {
				fc, ok := condFact(ifi.Cond, outcome)
				if !ok || !fc.Bool || fc.X != cv {
					continue
				}
				if fc.Op == token.NEQ {
					succ[g.branchEdge(ifi, outcome)] = true
				} else {
					fail[g.branchEdge(ifi, outcome)] = true
				}
			}
		}
	}
	return
}

func init() {
	register(&Property{
		ID: "C01",
		Explanation: "Decided: the structural shape of the idle/processing handshake of every vivid.Mailbox implementation that owns an EnvelopHandler " +
			"(roles inferred from Enqueue/Pause/Resume): single-consumer election by CAS, release-then-recheck with fresh counter loads on every exit, " +
			"publish-before-wake, counter pairing with pops, exactly-one hand-off of the popped value, pause gate re-evaluated after every handler call, " +
			"re-arm predicate implies eligible work (no spin), Resume wakes, atomics-only access. Each is a necessary condition of the property, checked on every CFG path of the analysed functions. " +
			"(R10 = C02.R1) the queue itself loses and duplicates nothing under concurrent senders: the ring's storage, indices and descriptor pointer are touched only under the queue lock. NOT decided: that these shapes suffice under every interleaving (linearizability of the handshake is a schedule property), nor run-time delivery.",
		Assumptions: []string{"sync/atomic operations are sequentially consistent (Go memory model)", "the queue's Push/Pop are linearizable (C02.R1 checks the lock discipline)"},
		Rules: []Rule{
			{ID: "C01.R0", Min: 1, Desc: "mailbox roles resolved", Fn: c01Roles},
			{ID: "C01.R1", Min: 3, Desc: "consumer election: every spawn / loop re-entry under CAS(idle→processing) success; no other write of processing", Fn: c01Election},
			{ID: "C01.R2", Min: 2, Desc: "release-then-recheck: exit only after Store(idle) and fresh evidence that nothing is eligible (or CAS lost)", Fn: c01Release},
			{ID: "C01.R3", Min: 4, Desc: "publish before wake: push and counter increment precede the election CAS on both branches", Fn: c01Publish},
			{ID: "C01.R4", Min: 4, Desc: "counter pairing: ok-edge of each pop decrements its own counter exactly once, never on !ok", Fn: c01Counters},
			{ID: "C01.R5", Min: 3, Desc: "exactly-once hand-off: HandleEnvelop only in the handler loop, once per ok-edge, with the popped value; loop only from consumer; consumer only via go", Fn: c01Handoff},
			{ID: "C01.R6", Min: 3, Desc: "pause gate: user pop under a fresh not-paused observation; system pop not gated by pause", Fn: c01PauseGate},
			{ID: "C01.R7", Min: 2, Desc: "no spin / no lost wake-up: re-arm only with fresh evidence of eligible work", Fn: c01NoSpin},
			{ID: "C01.R8", Min: 2, Desc: "resume wakes: every un-pausing write is followed by the election and a spawn; Pause only pauses", Fn: c01Resume},
			{ID: "C01.R10", Min: 20, Desc: "the queue loses and duplicates nothing under concurrent senders: ring storage and indices only under the queue lock (C02.R1)", Fn: c02Ring},
			{ID: "C01.R9", Min: 10, Desc: "status, paused and both counters are accessed only through sync/atomic", Fn: c01Atomics},
		},
	})
}

func c01Each(p *Program, r *Report, f func(m *mboxRoles)) {
	ms := p.mailboxTypes()
	if len(ms) == 0 {
		r.Unresolved("no type implements vivid.Mailbox with a vivid.EnvelopHandler field")
		return
	}
	for _, m := range ms {
		if len(m.problems) > 0 {
			if r.rule == "C01.R0" {
				for _, pr := range m.problems {
					r.Unresolved(m.T.Obj().Name() + ": " + pr)
				}
			}
			continue
		}
		f(m)
	}
}

// electNodes: the nodes of g that attempt the election — a CAS(status, idle→processing) itself, or a call of a mailbox
// method that performs one on every path (a shared "schedule()" helper). direct lists the CAS nodes of g itself.
func (m *mboxRoles) electNodes(p *Program, g *IG) (all, direct map[int]bool) {
	direct, _, _ = p.casEdges(g, m.Status, &m.ProcVal)
	isCAS := func(in ssa.Instruction) bool {
		a := atomicCall(in)
		if a == nil || a.Op != "CAS" || a.Field != m.Status || len(a.Args) != 2 {
			return false
		}
		v, ok := constInt(a.Args[1])
		return ok && v == m.ProcVal
	}
	all = map[int]bool{}
	for n := range direct {
		all[n] = true
	}
	for i, in := range g.Nodes {
		c, ok := in.(*ssa.Call)
		if !ok {
			continue
		}
		h := c.Call.StaticCallee()
		if h == nil || h == g.Fn || h == m.Consumer || h.Signature.Recv() == nil || namedOf(h.Signature.Recv().Type()) != m.T {
			continue
		}
		if p.mustDo(h, isCAS, 1) {
			all[i] = true
		}
	}
	return
}

func c01Roles(p *Program, r *Report) {
	c01Each(p, r, func(m *mboxRoles) {
		r.Lookup(m.T.Obj().Name(), m.T.Obj().Pos(), fmt.Sprintf("sysQ=%s usrQ=%s sysCnt=%s usrCnt=%s status=%s(idle=%d,processing=%d) paused=%s(=%d) consumer=%s loops=%d",
			m.SysQ.Name(), m.UsrQ.Name(), m.SysCnt.Name(), m.UsrCnt.Name(), m.Status.Name(), m.IdleVal, m.ProcVal, m.Paused.Name(), m.PauseVal, fnName(m.Consumer), len(m.Loops)))
	})
}

// workNodes: call nodes of fn that are, or synchronously reach, a HandleEnvelop invoke of this mailbox.
func (p *Program) workNodes(m *mboxRoles, fn *ssa.Function) map[int]bool {
	return p.workNodesG(m, p.ig(fn))
}

// consumerGraph: the consumer with its single-use helpers (a "hasProcessable()" predicate) spliced in; the handler loops stay
// opaque calls — they are the "work" the rules speak about.
func (m *mboxRoles) consumerGraph(p *Program) *IG {
	skip := map[*ssa.Function]bool{}
	for _, l := range m.Loops {
		if l != m.Consumer {
			skip[l] = true
		}
	}
	return p.igxSkip(m.Consumer, skip)
}

func (p *Program) workNodesG(m *mboxRoles, g *IG) map[int]bool {
	loops := map[*ssa.Function]bool{}
	for _, l := range m.Loops {
		loops[l] = true
	}
	return nodesWhere(g, func(in ssa.Instruction) bool {
		if m.isHandleInvoke(in) {
			return true
		}
		if c, ok := in.(*ssa.Call); ok {
			if f := c.Call.StaticCallee(); f != nil && loops[f] {
				return true
			}
		}
		return false
	})
}

func c01Election(p *Program, r *Report) {
	c01Each(p, r, func(m *mboxRoles) {
		tn := m.T.Obj().Name()
		// (a) every go statement in the mailbox's methods spawns the consumer under a successful election
		for _, fn := range m.Methods {
			g := p.ig(fn)
			_, succ, _ := p.casEdges(g, m.Status, &m.ProcVal)
			for i, in := range g.Nodes {
				if _, ok := in.(*ssa.Go); !ok {
					continue
				}
				c := callOf(in)
				ok := c.StaticCallee() == m.Consumer && len(succ) > 0 && g.DominatedByEdges(i, succ)
				r.Check(ok, fmt.Sprintf("%s: go in %s", tn, fnName(fn)), in.Pos(),
					"go statement spawns the consumer and is dominated by the success edge of CAS(status, idle→processing)")
			}
		}
		// (a') outside the consumer, a successful election spawns the consumer on every path
		for _, fn := range m.Methods {
			if fn == m.Consumer || thinAtomicBody(fn) != nil {
				continue // a one-line wrapper of the CAS is judged where it is called
			}
			g := p.ig(fn)
			cas, succ, _ := p.casEdges(g, m.Status, &m.ProcVal)
			if len(cas) == 0 {
				continue
			}
			spawn := nodesWhere(g, func(in ssa.Instruction) bool {
				_, isGo := in.(*ssa.Go)
				return isGo && callOf(in).StaticCallee() == m.Consumer
			})
			ok := len(succ) > 0 && len(spawn) > 0
			for e := range succ {
				if !spawn[e.to] && anyIn(g.Reach([]int{e.to}, spawn, nil), g.Exits) {
					ok = false
				}
			}
			r.Check(ok, fmt.Sprintf("%s: won election in %s spawns the consumer", tn, fnName(fn)), firstPos(g, cas),
				"from the success edge of CAS(status, idle→processing) every path to the exit passes `go consumer`")
		}
		// (b) in the consumer, work after a Store(status, idle) is reachable only through a CAS success edge
		g := m.consumerGraph(p)
		work := p.workNodesG(m, g)
		idle := nodesWhere(g, func(in ssa.Instruction) bool {
			a := atomicCall(in)
			return a != nil && a.Field == m.Status && a.Op == "Store"
		})
		_, succ, _ := p.casEdges(g, m.Status, &m.ProcVal)
		ok := len(work) > 0 && len(idle) > 0
		for s := range idle {
			reach := g.ReachAfter(s, nil, succ)
			for w := range work {
				if reach[w] {
					ok = false
				}
			}
		}
		r.Check(ok, fmt.Sprintf("%s: loop re-entry in %s", tn, fnName(m.Consumer)), firstPos(g, idle),
			"after Store(status, idle) the handler loop is re-entered only through the success edge of CAS(status, idle→processing)")
		// (c) writers of status: only CAS(idle→processing) in the mailbox's own methods and Store(idle) in the consumer after work
		for _, fn := range p.Mod {
			gg := p.ig(fn)
			for i, in := range gg.Nodes {
				a := atomicCall(in)
				if a == nil || a.Field != m.Status || a.Op == "Load" {
					continue
				}
				good := false
				why := ""
				switch a.Op {
				case "CAS":
					o, ok1 := constInt(a.Args[0])
					n, ok2 := constInt(a.Args[1])
					good = ok1 && ok2 && o == m.IdleVal && n == m.ProcVal
					why = "status is set to processing only by CAS(idle→processing)"
				case "Store":
					v, ok1 := constInt(a.Args[0])
					w := p.workNodes(m, fn)
					// after the handler loop returned: dominated by the call of the loop function — or, when the drain loop
					// lives in the consumer itself (no separate loop function), nothing more to ask here: clause (b) shows that
					// no handler invocation follows the store except through a won CAS
					inlineLoop := false
					for n := range w {
						if m.isHandleInvoke(gg.Nodes[n]) {
							inlineLoop = true
						}
					}
					good = ok1 && v == m.IdleVal && fn == m.Consumer && (gg.DominatedByNodes(i, w) || inlineLoop)
					why = "status is released (Store idle) only by the consumer, after the handler loop returned"
				default:
					why = "unexpected atomic write to status"
				}
				r.Check(good, fmt.Sprintf("%s: %s(status) in %s", tn, a.Op, fnName(fn)), in.Pos(), why)
			}
		}
	})
}

// freshFacts returns the edges of g carrying a fact accepted by pred about field f whose
// load is fresh with respect to every node of `since`: every path from a since-node
// to the branch passes through the load.
func (p *Program) freshFactEdges(g *IG, since map[int]bool, f *types.Var, pred func(cmpFact) bool) map[edge]bool {
	out := map[edge]bool{}
	for _, ef := range p.edgeFacts(g) {
		if ef.Field != f || !pred(ef.Fact) {
			continue
		}
		ld := g.Idx[ef.Load]
		ifn := g.Idx[ef.If]
		fresh := true
		for s := range since {
			if !g.mustPass(s, ifn, setOf(ld)) {
				fresh = false
			}
		}
		if fresh {
			out[ef.E] = true
		}
	}
	return out
}

func mergeEdges(ms ...map[edge]bool) map[edge]bool {
	out := map[edge]bool{}
	for _, m := range ms {
		for e := range m {
			out[e] = true
		}
	}
	return out
}

func notPositive(f cmpFact) bool {
	if f.IsNil || f.Bool || f.Y != nil {
		return false
	}
	switch f.Op {
	case token.LEQ:
		return f.C <= 0
	case token.LSS:
		return f.C <= 1
	case token.EQL:
		return f.C == 0
	}
	return false
}

func (m *mboxRoles) pausedFact(f cmpFact) bool    { return f.impliesNe(0) || f.impliesEq(m.PauseVal) }
func (m *mboxRoles) notPausedFact(f cmpFact) bool { return f.impliesEq(0) || f.impliesNe(m.PauseVal) }

func c01Release(p *Program, r *Report) {
	c01Each(p, r, func(m *mboxRoles) {
		tn := m.T.Obj().Name()
		g := m.consumerGraph(p)
		work := p.workNodesG(m, g)
		idle := nodesWhere(g, func(in ssa.Instruction) bool {
			a := atomicCall(in)
			if a == nil || a.Field != m.Status || a.Op != "Store" {
				return false
			}
			v, ok := constInt(a.Args[0])
			return ok && v == m.IdleVal
		})
		if len(work) == 0 || len(idle) == 0 {
			r.Unresolved(tn + ": consumer has no handler-loop call or no Store(status, idle)")
			return
		}
		// every path from the handler loop's return to an exit stores idle
		ok := true
		for w := range work {
			reach := g.ReachAfter(w, idle, nil)
			if anyIn(reach, g.Exits) {
				ok = false
			}
		}
		r.Check(ok, tn+": release before exit in "+fnName(m.Consumer), firstPos(g, idle),
			"every path from the handler loop's return to a function exit passes through Store(status, idle)")
		// exit after the release only with: CAS lost, or sys<=0 ∧ (usr<=0 ∨ paused), all observed after the store
		_, _, casFail := p.casEdges(g, m.Status, &m.ProcVal)
		sysEmpty := p.freshFactEdges(g, idle, m.SysCnt, notPositive)
		usrEmpty := p.freshFactEdges(g, idle, m.UsrCnt, notPositive)
		paused := p.freshFactEdges(g, idle, m.Paused, m.pausedFact)
		ok1, ok2 := true, true
		for s := range idle {
			if anyIn(g.ReachAfter(s, nil, mergeEdges(casFail, sysEmpty)), g.Exits) {
				ok1 = false
			}
			if anyIn(g.ReachAfter(s, nil, mergeEdges(casFail, usrEmpty, paused)), g.Exits) {
				ok2 = false
			}
		}
		r.Check(ok1, tn+": exit implies system queue observed empty after release", firstPos(g, idle),
			"every path from Store(status, idle) to an exit takes a lost-CAS edge or an edge asserting systemCounter<=0 on a value loaded after the store (loading before the store, or not at all, is the lost wake-up)")
		r.Check(ok2, tn+": exit implies no eligible user message after release", firstPos(g, idle),
			"every path from Store(status, idle) to an exit takes a lost-CAS edge or an edge asserting userCounter<=0 or paused, on values loaded after the store")
	})
}

func c01Publish(p *Program, r *Report) {
	c01Each(p, r, func(m *mboxRoles) {
		tn := m.T.Obj().Name()
		g := p.ig(m.Enqueue)
		cas, _ := m.electNodes(p, g)
		if len(cas) == 0 {
			isCAS := func(in ssa.Instruction) bool {
				a := atomicCall(in)
				return a != nil && a.Op == "CAS" && a.Field == m.Status
			}
			if p.mayDo(m.Enqueue, isCAS, 0, map[*ssa.Function]bool{}) {
				r.Violate(tn+": every Enqueue attempts the election", m.Enqueue.Pos(), "the election CAS is reached only through a helper that skips it on some paths: an enqueued message may never wake the mailbox")
			} else {
				r.Unresolved(tn + ": Enqueue has no election CAS")
			}
			return
		}
		env := m.Enqueue.Params[1]
		for _, q := range []struct {
			name string
			q, c *types.Var
		}{{"system", m.SysQ, m.SysCnt}, {"user", m.UsrQ, m.UsrCnt}} {
			push := nodesWhere(g, func(in ssa.Instruction) bool {
				c := callOf(in)
				if c == nil {
					return false
				}
				recv := callRecv(c)
				if recv == nil {
					return false
				}
				fld, _ := fieldLoad(recv)
				if fld != q.q {
					return false
				}
				for _, a := range callArgs(c) {
					if strip(a) == env {
						return true
					}
				}
				return false
			})
			add := nodesWhere(g, func(in ssa.Instruction) bool {
				a := atomicCall(in)
				if a == nil || a.Field != q.c || a.Op != "Add" {
					return false
				}
				v, ok := constInt(a.Args[0])
				return ok && v == 1
			})
			okPush, okAdd := len(push) > 0, len(add) > 0
			// from each push, the CAS is reached; and no path from push to exit/CAS skips... we require: every path
			// from entry to the CAS passes push-or-other-branch; expressed per branch: from a push node every path to the CAS passes an add of ITS counter,
			// and from entry no path reaches the CAS having passed the push's branch without the push (push dominates add).
			for pn := range push {
				for c := range cas {
					if !g.mustPass(pn, c, add) {
						okAdd = false
					}
				}
			}
			for a := range add {
				if !g.DominatedByNodes(a, push) {
					okPush = false
				}
			}
			// no election before the message is published: a CAS reachable from entry avoiding both push and add of either queue is checked below
			r.Check(okPush, fmt.Sprintf("%s: %s push precedes its counter increment", tn, q.name), firstPos(g, push),
				"the increment of the queue's counter is dominated by the push of the envelope into that queue")
			r.Check(okAdd, fmt.Sprintf("%s: %s counter increment precedes election", tn, q.name), firstPos(g, add),
				"every path from the push to the election CAS passes Add(counter,+1) of the same queue")
		}
		allPush := nodesWhere(g, func(in ssa.Instruction) bool {
			c := callOf(in)
			if c == nil {
				return false
			}
			recv := callRecv(c)
			if recv == nil {
				return false
			}
			fld, _ := fieldLoad(recv)
			return fld == m.SysQ || fld == m.UsrQ
		})
		ok := true
		for c := range cas {
			if !g.DominatedByNodes(c, allPush) {
				ok = false
			}
		}
		r.Check(ok, tn+": election only after publication", firstPos(g, cas), "every path from Enqueue's entry to the election CAS passes a queue push")
		// every path to an exit of Enqueue passes the election CAS (no path forgets to wake)
		reach := g.Reach(g.entry(), cas, nil)
		r.Check(!anyIn(reach, g.Exits), tn+": every Enqueue attempts the election", firstPos(g, cas), "no path from Enqueue's entry to an exit bypasses the election CAS")
	})
}

func c01Counters(p *Program, r *Report) {
	c01Each(p, r, func(m *mboxRoles) {
		tn := m.T.Obj().Name()
		for _, fn := range m.Loops {
			g := p.igx(fn)
			for _, q := range []struct {
				name string
				q, c *types.Var
			}{{"system", m.SysQ, m.SysCnt}, {"user", m.UsrQ, m.UsrCnt}} {
				pops := nodesWhere(g, func(in ssa.Instruction) bool { return popOf(in, q.q) })
				dec := nodesWhere(g, func(in ssa.Instruction) bool {
					a := atomicCall(in)
					if a == nil || a.Field != q.c || a.Op != "Add" {
						return false
					}
					v, ok := constInt(a.Args[0])
					return ok && v == -1
				})
				if len(pops) == 0 {
					r.Unresolved(fmt.Sprintf("%s: no pop of the %s queue in %s", tn, q.name, fnName(fn)))
					continue
				}
				anyPop := nodesWhere(g, func(in ssa.Instruction) bool { return popOf(in, m.SysQ) || popOf(in, m.UsrQ) })
				okEall := map[edge]bool{}
				must := true
				for pn := range pops {
					okE, _ := g.okEdges(g.Nodes[pn].(*ssa.Call))
					if len(okE) == 0 {
						must = false
					}
					for e := range okE {
						okEall[e] = true
						// from the ok edge, every path to the next pop or exit passes the decrement
						reach := g.Reach([]int{e.to}, dec, nil)
						if dec[e.to] {
							continue
						}
						if anyIn(reach, g.Exits) {
							must = false
						}
						for ap := range anyPop {
							if reach[ap] {
								must = false
							}
						}
					}
				}
				r.Check(must, fmt.Sprintf("%s: %s pop ok ⇒ decrement", tn, q.name), firstPos(g, pops),
					"from the ok-edge of the pop every path to the next pop or exit passes Add(counter,-1) of the same queue")
				// decrement only after an ok edge, and at most once per ok edge
				once := len(dec) > 0
				for d := range dec {
					if !g.DominatedByEdges(d, okEall) {
						once = false
					}
					reach := g.ReachAfter(d, nil, okEall)
					for d2 := range dec {
						if reach[d2] {
							once = false
						}
					}
				}
				r.Check(once, fmt.Sprintf("%s: %s decrement only on ok, once", tn, q.name), firstPos(g, dec),
					"Add(counter,-1) is reachable only through the pop's ok-edge and not twice without a new ok-edge")
			}
		}
		// who writes the counters: +1 in Enqueue, -1 in handler loops, nothing else
		loops := map[*ssa.Function]bool{}
		for _, l := range m.Loops {
			loops[l] = true
			for _, f := range p.igx(l).Fns {
				if p.igx(l).owns(p, f) {
					loops[f] = true // a single-use helper of the loop
				}
			}
		}
		for _, fn := range p.Mod {
			for _, in := range p.ig(fn).Nodes {
				a := atomicCall(in)
				if a == nil || (a.Field != m.SysCnt && a.Field != m.UsrCnt) || a.Op == "Load" {
					continue
				}
				good := false
				if a.Op == "Add" {
					v, ok := constInt(a.Args[0])
					good = ok && ((v == 1 && fn == m.Enqueue) || (v == -1 && loops[fn]))
				}
				if !good {
					r.Violate(fmt.Sprintf("%s: %s(%s) in %s", tn, a.Op, a.Field.Name(), fnName(fn)), in.Pos(), "counters are written only by Add(+1) in Enqueue and Add(-1) in the handler loop")
				}
			}
		}
	})
}

func c01Handoff(p *Program, r *Report) {
	c01Each(p, r, func(m *mboxRoles) {
		tn := m.T.Obj().Name()
		loops := map[*ssa.Function]bool{}
		for _, l := range m.Loops {
			loops[l] = true
		}
		for _, fn := range m.Loops {
			g := p.igx(fn)
			handles := nodesWhere(g, m.isHandleInvoke)
			anyPop := nodesWhere(g, func(in ssa.Instruction) bool { return popOf(in, m.SysQ) || popOf(in, m.UsrQ) })
			for pn := range anyPop {
				pop := g.Nodes[pn].(*ssa.Call)
				okE, notOk := g.okEdges(pop)
				// handles fed by this pop
				mine := map[int]bool{}
				for h := range handles {
					c := callOf(g.Nodes[h])
					if len(c.Args) == 1 && derivesFromExtract(c.Args[0], pop, 0) {
						mine[h] = true
					}
				}
				ok := len(mine) > 0 && len(okE) > 0
				for e := range okE {
					if mine[e.to] {
						continue
					}
					reach := g.Reach([]int{e.to}, mine, nil)
					if anyIn(reach, g.Exits) {
						ok = false
					}
					for ap := range anyPop {
						if reach[ap] {
							ok = false // next pop without handling this one: message dropped
						}
					}
				}
				for h := range mine {
					if !g.DominatedByEdges(h, okE) {
						ok = false
					}
					// not twice: from h, another mine-handle only after a new ok edge
					reach := g.ReachAfter(h, nil, okE)
					for h2 := range mine {
						if reach[h2] {
							ok = false
						}
					}
					_, isCall := g.Nodes[h].(*ssa.Call)
					if !isCall {
						ok = false // go/defer HandleEnvelop would overlap handlers
					}
				}
				_ = notOk
				r.Check(ok, fmt.Sprintf("%s: pop in %s handed to HandleEnvelop exactly once", tn, fnName(fn)), pop.Pos(),
					"from the pop's ok-edge every path reaches exactly one synchronous HandleEnvelop(popped value) before the next pop or return; never without ok")
			}
			// every handle invoke is fed by some pop of this function
			for h := range handles {
				c := callOf(g.Nodes[h])
				fed := false
				for pn := range anyPop {
					if len(c.Args) == 1 && derivesFromExtract(c.Args[0], g.Nodes[pn].(*ssa.Call), 0) {
						fed = true
					}
				}
				if !fed {
					r.Violate(fmt.Sprintf("%s: HandleEnvelop in %s with a value not just popped", tn, fnName(fn)), g.Nodes[h].Pos(), "the handler receives exactly the value popped from a queue")
				}
			}
		}
		// handler loops are called only from the consumer (synchronously); the consumer only through go statements
		for _, l := range m.Loops {
			if l == m.Consumer {
				continue
			}
			node := p.CG.Nodes[l]
			ok := node != nil && len(node.In) > 0
			where := ""
			if node != nil {
				for _, in := range node.In {
					if in.Caller.Func != m.Consumer && !loops[in.Caller.Func] {
						ok = false
						where = fnName(in.Caller.Func)
					}
					if _, isCall := in.Site.(*ssa.Call); !isCall {
						ok = false
						where = "go/defer in " + fnName(in.Caller.Func)
					}
				}
			}
			r.Check(ok, fmt.Sprintf("%s: callers of %s", tn, fnName(l)), l.Pos(), "the handler loop is called synchronously and only from the elected consumer "+where)
		}
		node := p.CG.Nodes[m.Consumer]
		ok := node != nil && len(node.In) > 0
		where := ""
		if node != nil {
			for _, in := range node.In {
				if _, isGo := in.Site.(*ssa.Go); !isGo {
					ok = false
					where = fnName(in.Caller.Func)
				}
			}
		}
		r.Check(ok, fmt.Sprintf("%s: callers of %s", tn, fnName(m.Consumer)), m.Consumer.Pos(), "the consumer runs only as a goroutine started at an elected site "+where)
	})
}

// derivesFromExtract: v is extract #idx of tuple (through type assertions / conversions / phis of such).
func derivesFromExtract(v ssa.Value, tuple ssa.Value, idx int) bool {
	seen := map[ssa.Value]bool{}
	var rec func(v ssa.Value) bool
	rec = func(v ssa.Value) bool {
		if seen[v] {
			return true
		}
		seen[v] = true
		switch x := v.(type) {
		case *ssa.Extract:
			if x.Tuple == tuple && x.Index == idx {
				return true
			}
			// comma-ok type assert: extract #0 of typeassert
			if ta, ok := x.Tuple.(*ssa.TypeAssert); ok && x.Index == 0 {
				return rec(ta.X)
			}
			return false
		case *ssa.TypeAssert:
			return rec(x.X)
		case *ssa.ChangeType:
			return rec(x.X)
		case *ssa.ChangeInterface:
			return rec(x.X)
		case *ssa.MakeInterface:
			return rec(x.X)
		case *ssa.Convert:
			return rec(x.X)
		case *ssa.Phi:
			for _, e := range x.Edges {
				if !rec(e) {
					return false
				}
			}
			return len(x.Edges) > 0
		case *ssa.UnOp:
			// load of a local cell holding the value (a struct value whose fields are addressed is spilled)
			if w := strip(x); w != ssa.Value(x) {
				return rec(w)
			}
		}
		return false
	}
	return rec(v)
}

func c01PauseGate(p *Program, r *Report) {
	c01Each(p, r, func(m *mboxRoles) {
		tn := m.T.Obj().Name()
		for _, fn := range m.Loops {
			g := p.igx(fn)
			handles := nodesWhere(g, m.isHandleInvoke)
			usrPops := nodesWhere(g, func(in ssa.Instruction) bool { return popOf(in, m.UsrQ) })
			sysPops := nodesWhere(g, func(in ssa.Instruction) bool { return popOf(in, m.SysQ) })
			// not-paused edges whose load is fresh w.r.t. every handler invocation and the entry
			since := union(handles, nil)
			notPaused := p.freshFactEdges(g, since, m.Paused, m.notPausedFact)
			for up := range usrPops {
				ok := len(notPaused) > 0 && g.DominatedByEdges(up, notPaused)
				// after any handler call the gate is re-evaluated before the next user pop
				for h := range handles {
					if g.ReachAfter(h, nil, notPaused)[up] {
						ok = false
					}
				}
				r.Check(ok, fmt.Sprintf("%s: user pop gated by pause in %s", tn, fnName(fn)), g.Nodes[up].Pos(),
					"the user-queue pop is reachable only through an edge asserting not-paused, from entry and after every HandleEnvelop call, on a value loaded after that call")
			}
			// system pops are not gated by pause; and are drained before user pop (C02.R2 details)
			allNotPaused := g.edgesWhere(func(cmpFact) bool { return false })
			for _, ef := range p.edgeFacts(g) {
				if ef.Field == m.Paused && m.notPausedFact(ef.Fact) {
					allNotPaused[ef.E] = true
				}
			}
			for sp := range sysPops {
				reach := g.Reach(g.entry(), nil, allNotPaused)
				ok := reach[sp]
				for h := range handles {
					if !g.ReachAfter(h, nil, allNotPaused)[sp] {
						ok = false
					}
				}
				r.Check(ok, fmt.Sprintf("%s: system pop not gated by pause in %s", tn, fnName(fn)), g.Nodes[sp].Pos(),
					"the system-queue pop is reachable from entry and after every handler call without taking a not-paused edge (system messages are processed while paused)")
			}
			// return from the loop only when: paused, or user pop !ok (nothing left), with system queue observed empty
			var sysNotOk, usrNotOk = map[edge]bool{}, map[edge]bool{}
			for sp := range sysPops {
				_, n := g.okEdges(g.Nodes[sp].(*ssa.Call))
				sysNotOk = mergeEdges(sysNotOk, n)
			}
			for up := range usrPops {
				_, n := g.okEdges(g.Nodes[up].(*ssa.Call))
				usrNotOk = mergeEdges(usrNotOk, n)
			}
			pausedE := map[edge]bool{}
			for _, ef := range p.edgeFacts(g) {
				if ef.Field == m.Paused && m.pausedFact(ef.Fact) {
					pausedE[ef.E] = true
				}
			}
			ok := !anyIn(g.Reach(g.entry(), nil, mergeEdges(usrNotOk, pausedE)), g.Exits) &&
				!anyIn(g.Reach(g.entry(), nil, sysNotOk), g.Exits)
			r.Check(ok, fmt.Sprintf("%s: loop exit only when nothing is eligible in %s", tn, fnName(fn)), fn.Pos(),
				"every path to the handler loop's return takes the !ok edge of the system pop and (the !ok edge of the user pop or a paused edge)")
		}
	})
}

func c01NoSpin(p *Program, r *Report) {
	c01Each(p, r, func(m *mboxRoles) {
		tn := m.T.Obj().Name()
		g := m.consumerGraph(p)
		idle := nodesWhere(g, func(in ssa.Instruction) bool {
			a := atomicCall(in)
			return a != nil && a.Field == m.Status && a.Op == "Store"
		})
		cas, _, _ := p.casEdges(g, m.Status, &m.ProcVal)
		if len(idle) == 0 || len(cas) == 0 {
			r.Unresolved(tn + ": consumer has no Store(idle) or no re-arming CAS")
			return
		}
		sysPos := p.freshFactEdges(g, idle, m.SysCnt, cmpFact.impliesPositive)
		usrPos := p.freshFactEdges(g, idle, m.UsrCnt, cmpFact.impliesPositive)
		notPaused := p.freshFactEdges(g, idle, m.Paused, m.notPausedFact)
		ok1, ok2 := true, true
		for s := range idle {
			r1 := g.ReachAfter(s, nil, mergeEdges(sysPos, usrPos))
			r2 := g.ReachAfter(s, nil, mergeEdges(sysPos, notPaused))
			for c := range cas {
				if r1[c] {
					ok1 = false
				}
				if r2[c] {
					ok2 = false
				}
			}
		}
		r.Check(ok1, tn+": re-arm requires a pending message", firstPos(g, cas),
			"every path from Store(status, idle) to the re-arming CAS takes an edge asserting systemCounter>0 or userCounter>0 (values loaded after the store)")
		r.Check(ok2, tn+": re-arm on user messages requires not-paused", firstPos(g, cas),
			"every path from Store(status, idle) to the re-arming CAS takes an edge asserting systemCounter>0 or not-paused: a paused mailbox holding only user messages must not re-arm (it would spin), and paused must be loaded after the store (else a concurrent Resume is lost)")
	})
}

func c01Resume(p *Program, r *Report) {
	c01Each(p, r, func(m *mboxRoles) {
		tn := m.T.Obj().Name()
		n := 0
		for _, fn := range p.Mod {
			g := p.ig(fn)
			for i, in := range g.Nodes {
				a := atomicCall(in)
				if a == nil || a.Field != m.Paused || a.Op == "Load" {
					continue
				}
				n++
				var newV ssa.Value
				switch a.Op {
				case "Store", "Swap":
					newV = a.Args[0]
				case "CAS":
					newV = a.Args[1]
				}
				v, okc := int64(0), false
				if newV != nil {
					v, okc = constInt(newV)
				}
				if !okc {
					r.Violate(fmt.Sprintf("%s: %s(paused) in %s", tn, a.Op, fnName(fn)), in.Pos(), "paused is written with a non-constant value")
					continue
				}
				if v != 0 {
					r.Check(fn == m.Pause || true, fmt.Sprintf("%s: pausing write in %s", tn, fnName(fn)), in.Pos(), "write of the paused value needs no wake-up")
					continue
				}
				// un-pausing write: afterwards (on the success edge for CAS) every path to exit passes the election CAS, whose success reaches go consumer
				starts := []int{}
				if a.Op == "CAS" {
					cv := in.(ssa.Value)
					for _, ifi := range ifsOf(fn) {
						for _, outcome := range []bool{true, false} {
							fc, ok := condFact(ifi.Cond, outcome)
							if ok && fc.Bool && fc.X == cv && fc.Op == token.NEQ {
								starts = append(starts, g.branchEdge(ifi, outcome).to)
							}
						}
					}
				} else {
					starts = append(starts, g.Succ[i]...)
				}
				cas, _ := m.electNodes(p, g)
				ok := len(starts) > 0 && len(cas) > 0
				if ok {
					reach := g.Reach(starts, cas, nil)
					if anyIn(reach, g.Exits) && !anyIn(cas, starts) {
						ok = false
					}
				}
				r.Check(ok, fmt.Sprintf("%s: un-pausing write in %s wakes the mailbox", tn, fnName(fn)), in.Pos(),
					"after paused is cleared every path to the exit attempts CAS(status, idle→processing), directly or through a helper that always does (its success spawns the consumer: election rule)")
			}
		}
		if n == 0 {
			r.Unresolved(tn + ": no write to paused found")
		}
	})
}

func c01Atomics(p *Program, r *Report) {
	c01Each(p, r, func(m *mboxRoles) {
		tn := m.T.Obj().Name()
		fields := map[*types.Var]bool{m.Status: true, m.Paused: true, m.SysCnt: true, m.UsrCnt: true}
		for _, fn := range p.Mod {
			for _, b := range fn.Blocks {
				for _, in := range b.Instrs {
					fa, ok := in.(*ssa.FieldAddr)
					if !ok {
						continue
					}
					fld, base := fieldAddr(fa)
					if !fields[fld] {
						continue
					}
					good := true
					for _, ref := range *fa.Referrers() {
						if a := atomicCall(ref); a != nil && a.Addr == fa {
							continue
						}
						if st, ok := ref.(*ssa.Store); ok && st.Addr == fa && isFreshAlloc(base) {
							continue // initialisation of a not-yet-published object
						}
						good = false
					}
					r.Check(good, fmt.Sprintf("%s.%s in %s", tn, fld.Name(), fnName(fn)), fa.Pos(), "field is accessed only through sync/atomic")
				}
			}
		}
	})
}

// isFreshAlloc: v is an allocation made in this function (composite literal / new).
func isFreshAlloc(v ssa.Value) bool {
	switch x := v.(type) {
	case *ssa.Alloc:
		return true
	case *ssa.Phi:
		for _, e := range x.Edges {
			if !isFreshAlloc(e) {
				return false
			}
		}
		return len(x.Edges) > 0
	}
	return false
}
