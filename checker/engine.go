package main

// Engine: loads /repo's working tree (type-checked packages, SSA, call graph),
// runs the rules of one property, records one obligation per rule instance and
// writes evidence / replay files. Nothing of vivid is executed.

import (
	"encoding/json"
	"fmt"
	"go/token"
	"go/types"
	"os"
	"path/filepath"
	"runtime/debug"
	"sort"
	"strings"
	"time"

	"golang.org/x/tools/go/callgraph"
	"golang.org/x/tools/go/callgraph/cha"
	"golang.org/x/tools/go/callgraph/vta"
	"golang.org/x/tools/go/packages"
	"golang.org/x/tools/go/ssa"
	"golang.org/x/tools/go/ssa/ssautil"
)

const modPath = "github.com/kercylan98/vivid"

type Program struct {
	ctxG     *IG // graph context of provenance queries (withGraph)
	gstores  map[*ssa.Global][]ssa.Instruction
	edgeMemo map[[2]*ssa.BasicBlock]edgeTarget
	vifs     map[*ssa.Function][]*vIf
	RepoDir  string
	GOARCH   string
	Pkgs     []*packages.Package
	Fset     *token.FileSet
	SSA      *ssa.Program
	CG       *callgraph.Graph // VTA refined
	CHA      *callgraph.Graph
	All      map[*ssa.Function]bool // every function (incl. synthetic, instantiations)
	Mod      []*ssa.Function        // functions whose package is inside the module, sorted by position
	byPath   map[string]*packages.Package
	NPkgs    int
	NEdges   int
	LoadS    float64
	// tunables varied by the thorough tier
	InlineBound int
	UnrollMax   int
	// caches
	igCache   map[*ssa.Function]*IG
	lockCache map[*ssa.Function]*lockInfo
	heldEntry map[*ssa.Function]lockSet
}

func loadProgram(repo, goarch string) (*Program, error) {
	t0 := time.Now()
	env := append(os.Environ(), "GOWORK=off", "GOFLAGS=-mod=mod", "GOPROXY=off")
	if goarch != "" {
		env = append(env, "GOARCH="+goarch)
	}
	cfg := &packages.Config{
		Mode:  packages.LoadAllSyntax,
		Dir:   repo,
		Tests: false,
		Env:   env,
	}
	pkgs, err := packages.Load(cfg, modPath+"/...")
	if err != nil {
		return nil, fmt.Errorf("packages.Load: %w", err)
	}
	nerr := 0
	var firstErr string
	packages.Visit(pkgs, nil, func(p *packages.Package) {
		for _, e := range p.Errors {
			nerr++
			if firstErr == "" {
				firstErr = e.Error()
			}
		}
	})
	if nerr > 0 {
		return nil, fmt.Errorf("%d load/type errors, first: %s", nerr, firstErr)
	}
	if len(pkgs) < 10 {
		return nil, fmt.Errorf("only %d packages loaded from %s (expected the whole module)", len(pkgs), repo)
	}
	prog, _ := ssautil.AllPackages(pkgs, ssa.InstantiateGenerics)
	prog.Build()
	p := &Program{RepoDir: repo, GOARCH: goarch, Pkgs: pkgs, Fset: pkgs[0].Fset, SSA: prog,
		byPath: map[string]*packages.Package{}, NPkgs: len(pkgs), InlineBound: 4, UnrollMax: 2,
		igCache: map[*ssa.Function]*IG{}, lockCache: map[*ssa.Function]*lockInfo{}}
	for _, pk := range pkgs {
		p.byPath[pk.PkgPath] = pk
	}
	p.All = ssautil.AllFunctions(prog)
	p.CHA = cha.CallGraph(prog)
	p.CG = vta.CallGraph(p.All, p.CHA)
	for fn := range p.All {
		if p.inModule(fn) {
			p.Mod = append(p.Mod, fn)
		}
	}
	sort.Slice(p.Mod, func(i, j int) bool {
		a, b := p.Mod[i], p.Mod[j]
		if a.Pos() != b.Pos() {
			return a.Pos() < b.Pos()
		}
		return a.String() < b.String()
	})
	for _, n := range p.CG.Nodes {
		p.NEdges += len(n.Out)
	}
	p.LoadS = time.Since(t0).Seconds()
	theProgram = p
	return p, nil
}

func (p *Program) inModule(fn *ssa.Function) bool {
	if fn == nil {
		return false
	}
	pk := fnPkg(fn)
	if pk == nil {
		return false
	}
	return pk.Path() == modPath || strings.HasPrefix(pk.Path(), modPath+"/")
}

// fnPkg returns the types.Package a function belongs to (anonymous functions
// and instantiations inherit from their parent / origin).
func fnPkg(fn *ssa.Function) *types.Package {
	for f := fn; f != nil; f = f.Parent() {
		if f.Pkg != nil {
			return f.Pkg.Pkg
		}
		if o := f.Origin(); o != nil && o.Pkg != nil {
			return o.Pkg.Pkg
		}
		if f.Object() != nil && f.Object().Pkg() != nil {
			return f.Object().Pkg()
		}
	}
	return nil
}

func (p *Program) pos(pos token.Pos) string {
	if !pos.IsValid() {
		return "-"
	}
	ps := p.Fset.Position(pos)
	rel, err := filepath.Rel(p.RepoDir, ps.Filename)
	if err != nil || strings.HasPrefix(rel, "..") {
		rel = ps.Filename
	}
	return fmt.Sprintf("%s:%d", rel, ps.Line)
}

// ---- lookups ---------------------------------------------------------------

func (p *Program) tpkg(rel string) *types.Package {
	path := modPath
	if rel != "" && rel != "." {
		path = modPath + "/" + rel
	}
	if pk := p.byPath[path]; pk != nil {
		return pk.Types
	}
	return nil
}

func (p *Program) spkg(rel string) *ssa.Package {
	tp := p.tpkg(rel)
	if tp == nil {
		return nil
	}
	return p.SSA.Package(tp)
}

func (p *Program) Named(rel, name string) *types.Named {
	tp := p.tpkg(rel)
	if tp == nil {
		return nil
	}
	o := tp.Scope().Lookup(name)
	if o == nil {
		return nil
	}
	n, _ := o.Type().(*types.Named)
	return n
}

func (p *Program) Iface(rel, name string) *types.Interface {
	n := p.Named(rel, name)
	if n == nil {
		return nil
	}
	i, _ := n.Underlying().(*types.Interface)
	return i
}

func (p *Program) Func(rel, name string) *ssa.Function {
	sp := p.spkg(rel)
	if sp == nil {
		return nil
	}
	return sp.Func(name)
}

// Method returns the (generic origin of the) method recv.name declared in package rel.
func (p *Program) Method(rel, recv, name string) *ssa.Function {
	n := p.Named(rel, recv)
	if n == nil {
		return nil
	}
	for i := 0; i < n.NumMethods(); i++ {
		m := n.Method(i)
		if m.Name() == name {
			return p.SSA.FuncValue(m)
		}
	}
	return nil
}

func fieldVar(n *types.Named, name string) *types.Var {
	if n == nil {
		return nil
	}
	st, _ := n.Underlying().(*types.Struct)
	if st == nil {
		return nil
	}
	for i := 0; i < st.NumFields(); i++ {
		if st.Field(i).Name() == name {
			return st.Field(i)
		}
	}
	return nil
}

// anonClosure returns fn and all functions nested in it.
func withAnon(fn *ssa.Function) []*ssa.Function {
	if fn == nil {
		return nil
	}
	out := []*ssa.Function{fn}
	for _, a := range fn.AnonFuncs {
		out = append(out, withAnon(a)...)
	}
	return out
}

func fnName(fn *ssa.Function) string {
	if fn == nil {
		return "<nil>"
	}
	s := fn.String()
	s = strings.ReplaceAll(s, modPath+"/", "")
	s = strings.ReplaceAll(s, modPath, "vivid")
	return s
}

// ---- obligations / report ----------------------------------------------------

type Ob struct {
	Rule       string `json:"rule"`
	Key        string `json:"key"`
	Construct  string `json:"construct"`
	Pos        string `json:"pos"`
	Status     string `json:"status"` // discharged | violated | undecided | known
	Why        string `json:"why"`
	Nontrivial bool   `json:"nontrivial"`
}

type Report struct {
	Prop   string
	p      *Program
	Obs    []Ob
	rule   string // rule currently running
	seen   map[string]int
	Notes  []string
	Counts map[string]int
}

func newReport(prop string, p *Program) *Report {
	return &Report{Prop: prop, p: p, seen: map[string]int{}, Counts: map[string]int{}}
}

func (r *Report) add(construct string, pos token.Pos, status, why string, nontrivial bool) {
	key := r.rule + "|" + construct
	// keys identify rule+construct, never positions; duplicates of one construct get #n
	r.seen[key]++
	if n := r.seen[key]; n > 1 {
		key = fmt.Sprintf("%s#%d", key, n)
	}
	ps := "-"
	if r.p != nil {
		ps = r.p.pos(pos)
	}
	r.Obs = append(r.Obs, Ob{Rule: r.rule, Key: key, Construct: construct, Pos: ps, Status: status, Why: why, Nontrivial: nontrivial})
	r.Counts[r.rule]++
}

// only runs fn into a scratch report and keeps the obligations whose construct satisfies keep (plus unresolved anchors): a rule
// shared with another property for the sake of ONE of its checks is registered there with just that check.
func (r *Report) only(fn func(*Program, *Report), keep func(construct string) bool) {
	tmp := newReport(r.Prop, r.p)
	tmp.rule = r.rule
	fn(r.p, tmp)
	for _, o := range tmp.Obs {
		if !keep(o.Construct) && !strings.HasPrefix(o.Construct, "anchor:") {
			continue
		}
		key := r.rule + "|" + o.Construct
		r.seen[key]++
		if n := r.seen[key]; n > 1 {
			key = fmt.Sprintf("%s#%d", key, n)
		}
		o.Key = key
		r.Obs = append(r.Obs, o)
		r.Counts[r.rule]++
	}
}

// Check records one obligation; ok=true ⇒ discharged.
func (r *Report) Check(ok bool, construct string, pos token.Pos, why string) bool {
	st := "discharged"
	if !ok {
		st = "violated"
	}
	r.add(construct, pos, st, why, true)
	return ok
}

// Lookup records a trivially-discharged obligation (anchor found, table lookup).
func (r *Report) Lookup(construct string, pos token.Pos, why string) {
	r.add(construct, pos, "discharged", why, false)
}

func (r *Report) Violate(construct string, pos token.Pos, why string) {
	r.add(construct, pos, "violated", why, true)
}

func (r *Report) Undecided(construct string, pos token.Pos, why string) {
	r.add(construct, pos, "undecided", why, true)
}

// Unresolved: a role the rule could not locate in the tree. Always a failure:
// a rule that cannot find its subject must not pass vacuously.
func (r *Report) Unresolved(what string) {
	r.add("anchor:"+what, token.NoPos, "undecided", "unresolved anchor: "+what, true)
}

func (r *Report) Note(format string, a ...any) {
	r.Notes = append(r.Notes, fmt.Sprintf("[%s] ", r.rule)+fmt.Sprintf(format, a...))
}

// ---- rules -------------------------------------------------------------------

type Rule struct {
	ID   string
	Min  int // hand-confirmed minimum number of instances on the repaired tree
	Desc string
	Fn   func(p *Program, r *Report)
}

type Property struct {
	ID          string
	Explanation string // what is decided and what is not
	Assumptions []string
	Rules       []Rule
}

var properties = map[string]*Property{}

func register(pr *Property) { properties[pr.ID] = pr }

// ---- known findings -------------------------------------------------------------

type Finding struct {
	Property string `json:"property"`
	Rule     string `json:"rule"`
	Key      string `json:"key,omitempty"`
	Status   string `json:"status"` // known | fixed
	Commit   string `json:"commit,omitempty"`
	What     string `json:"what"`
}

func loadFindings(path string) ([]Finding, error) {
	b, err := os.ReadFile(path)
	if err != nil {
		if os.IsNotExist(err) {
			return nil, nil
		}
		return nil, err
	}
	var f []Finding
	if err := json.Unmarshal(b, &f); err != nil {
		return nil, err
	}
	return f, nil
}

// ---- running -------------------------------------------------------------------

type RunResult struct {
	Prop       string
	Obs        []Ob
	Notes      []string
	Violations []Ob
	Known      []Ob
	RuleCounts map[string]int
	Wall       float64
}

func runProperty(p *Program, pr *Property, findings []Finding) *RunResult {
	t0 := time.Now()
	rep := newReport(pr.ID, p)
	for _, rule := range pr.Rules {
		rep.rule = rule.ID
		func() {
			defer func() {
				if e := recover(); e != nil {
					rep.add("panic", token.NoPos, "undecided", fmt.Sprintf("rule panicked: %v\n%s", e, trimStack(debug.Stack())), true)
				}
			}()
			rule.Fn(p, rep)
		}()
		if n := rep.Counts[rule.ID]; n < rule.Min {
			rep.add("instance-count", token.NoPos, "undecided",
				fmt.Sprintf("rule matched %d instances, hand-confirmed minimum is %d: the rule lost its subject", n, rule.Min), true)
		}
	}
	res := &RunResult{Prop: pr.ID, Notes: rep.Notes, RuleCounts: rep.Counts}
	known := map[string]Finding{}
	for _, f := range findings {
		if f.Property == pr.ID && f.Status == "known" {
			known[f.Key] = f
		}
	}
	for i := range rep.Obs {
		o := &rep.Obs[i]
		if o.Status == "violated" || o.Status == "undecided" {
			if _, ok := known[o.Key]; ok && o.Status == "violated" {
				o.Status = "known"
				res.Known = append(res.Known, *o)
			} else {
				res.Violations = append(res.Violations, *o)
			}
		}
	}
	res.Obs = rep.Obs
	res.Wall = time.Since(t0).Seconds()
	return res
}

func trimStack(b []byte) string {
	lines := strings.Split(string(b), "\n")
	var keep []string
	for _, l := range lines {
		if strings.Contains(l, "/verif/checker/") || strings.Contains(l, "vcheck") {
			keep = append(keep, strings.TrimSpace(l))
		}
		if len(keep) > 8 {
			break
		}
	}
	return strings.Join(keep, " <- ")
}

func safeName(s string) string {
	var b strings.Builder
	for _, c := range s {
		switch {
		case c >= 'a' && c <= 'z', c >= 'A' && c <= 'Z', c >= '0' && c <= '9', c == '.', c == '-', c == '_':
			b.WriteRune(c)
		default:
			b.WriteByte('_')
		}
	}
	out := b.String()
	if len(out) > 150 {
		out = out[:150]
	}
	return out
}
