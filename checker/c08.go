package main

// C08 — supervision applies exactly the decided directive to exactly its targets.
// C09 — nobody stays paused; queued mail survives.

import (
	"fmt"
	"go/token"
	"go/types"
	"sort"
	"strings"

	"golang.org/x/tools/go/ssa"
)

func init() {
	register(&Property{
		ID: "C08",
		Explanation: "Decided: (R1) the supervising actor consults SupervisionStrategy.Supervise exactly once per failure, on its own strategy if set, else the system's; (R2) the one-for-one strategy returns the failing child, the one-for-all strategy the supervisor's children, and the supervision context's accessors return exactly those sets; " +
			"(R3) every message told while supervising goes to a target, a chained context's target, or the supervisor's parent; (R4) restart / stop / resume / escalate bodies are entered under their own predicate, each does what the directive says, and every decision value enters one of them (unknown ⇒ escalate); an escalation is told to the parent only where there is one — at the root it ends in the system default, the targets are stopped (F42); " +
			"(R5) a failure pauses the failing actor's mailbox before its parent is told, and the failure entry is reachable only from the recover block; (R6) no supervision for a failure while handling OnKill, nor OnKilled when the actor is not running or the notice names itself. " +
			"(R7) the targets recorded in the supervision context (which later resume broadcasts walk) are exactly the strategy's targets that the supervisor paused; (R8) the restart marker, which the termination pipeline trusts to choose between clean-up and re-initialisation, is stored only under the success edge of CAS(state, running→killing): a Restart reaching an actor that is already stopping leaves no trace and cannot revive it; (R9 = C05.R4) the restart step installs the new instance before resetting the behaviour stack to its OnReceive. (R7, addition) apply-decision records the handed targets on every path and before any tell, broadcast, pause or escalation; (R10 = C01.R6) the suspension is effective: a paused mailbox hands no user message over. (R11 = C01.R2) a decision sent to a suspended child is never stranded by the consumer's exit re-check; (R12 = C03.R2) a stopping actor runs no user message, so it cannot fail and be supervised again while it stops. (R13 = the removal-order check of C06.R6) the child table that target selection reads holds no entry of a dead child when that child's death handler runs. NOT decided: the run-time effect of each (decision × strategy × failure site) cell.",
		Rules: []Rule{
			{ID: "C08.R1", Min: 2, Desc: "strategy consulted exactly once; own else system", Fn: c08Consult},
			{ID: "C08.R2", Min: 4, Desc: "target selection of both strategies and the context accessors", Fn: c08Targets},
			{ID: "C08.R3", Min: 5, Desc: "recipients while supervising", Fn: c08Recipients},
			{ID: "C08.R4", Min: 5, Desc: "dispatch by decision, exhaustive", Fn: c08Dispatch},
			{ID: "C08.R5", Min: 3, Desc: "failure entry: pause before telling the parent; only from recover", Fn: c08FailureEntry},
			{ID: "C08.R6", Min: 3, Desc: "no supervision while stopping", Fn: c08NotWhileStopping},
			{ID: "C08.R7", Min: 2, Desc: "the recorded targets are exactly the targets that were paused", Fn: c08RecordedTargets},
			{ID: "C08.R13", Min: 1, Desc: "the child table the target selection reads is exact: a dead child's entry is removed before its death handler can re-spawn the name (C06.R6)", Fn: func(p *Program, r *Report) {
				r.only(c06ChainOrder, func(c string) bool { return strings.Contains(c, "child entry removed") })
			}},
			{ID: "C08.R8", Min: 1, Desc: "a restart is accepted only by a running actor: the restart marker is stored under the won CAS", Fn: c08RestartAccepted},
			{ID: "C08.R11", Min: 2, Desc: "a decision sent to a suspended child is never stranded: the consumer's exit re-check notices a pending system message whatever the pause flag says (C01.R2)", Fn: c01Release},
			{ID: "C08.R12", Min: 12, Desc: "a stopping actor runs no user message, so it cannot fail again and be supervised while it stops (C03.R2 guard truth table)", Fn: c03Guard},
			{ID: "C08.R10", Min: 3, Desc: "the suspension is effective: a paused mailbox hands no user message over (C01.R6 pause gate)", Fn: c01PauseGate},
			{ID: "C08.R9", Min: 5, Desc: "restart re-initialisation: new instance, behaviour stack reset to it, hooks, OnLaunch (C05.R4)", Fn: c05Restart},
		},
	})
	register(&Property{
		ID: "C09",
		Explanation: "Decided: (R1) every path of the restart step (success and failure) resumes the mailbox; (R2) the termination path resumes it; (R3) the resume decision and both graceful decisions broadcast the resume command to every target along the escalation chain, after the poison message; the broadcast visits every chained context and every target exactly once; " +
			"(R4) every decision value takes a branch (shared with C08.R4); (R5) zombie: behaviour replaced by the empty one, the restart-failure path tells nobody, a zombie passes the kill CAS, the zombie release path runs the termination cleanup; (R6) a paused mailbox neither spins nor misses the resume: the consumer exits only with the system queue observed empty after the release, re-arms only for eligible work, and Resume wakes (C01.R2/R7/R8). " +
			"(R10) the supervisor pauses its targets before it sends the directive; a target that ignores the directive (CAS running→killing lost) is not un-paused by the restart step or by its termination: a zombie resumes its own mailbox on the ignored-Restart path (F31, fixed); an actor that is already stopping neither forwards an ignored immediate Kill to its children nor resumes them on an ignored Restart, so a failed child whose failure was escalated by a stopping supervisor stays paused forever and Stop times out (F33, KNOWN FINDING, not repaired). " +
			"(R8) truth table of the restart step over the results of its hooks: whenever an executed hook reported failure the step marks the actor a zombie and never returns it to running, whatever the other hooks report; (R9 = C01.R6) user messages are popped only under a fresh not-paused observation after every handler call, so mail queued behind a failing message stays queued for the restarted / resumed incarnation. (R7, addition) apply-decision records its targets on every path before acting (an escalated failure is resumed by the level above only through this record); (R11 = C06.R5) a child spawned while the actor is dying is killed at once, so a restart that waits for the child count to reach zero completes. (R12 = C05.R7) a restart hook that panics counts as failed; (R13) in the command handler the pause / resume case calls the mailbox operation on every path — the command is obeyed whatever the actor's state; (R14 = C08.R4) each directive does what it says and an escalation travels as a system message. (R3, addition) the resume broadcast follows a restart directive ONLY in its graceful form: from the IsRestart edge no path avoiding the IsGraceful outcome reaches it — a plain restart keeps the target paused until its restart step resumes it in state running; an early resume lets a target that waits for its children in state killing pop and dead-letter its user mail. NOT decided: delivery order of the surviving queue at run time, concurrent sibling failures.",
		Rules: []Rule{
			{ID: "C09.R1", Min: 1, Desc: "restart step resumes on every path", Fn: c09RestartResumes},
			{ID: "C09.R2", Min: 2, Desc: "termination resumes; zombie resumes", Fn: c03Parked},
			{ID: "C09.R3", Min: 6, Desc: "resume broadcast along the escalation chain, after the poison message", Fn: c09Broadcast},
			{ID: "C09.R4", Min: 1, Desc: "every decision takes a branch", Fn: c08Exhaustive},
			{ID: "C09.R5", Min: 4, Desc: "zombie discipline", Fn: c09Zombie},
			{ID: "C09.R8", Min: 4, Desc: "a failed restart hook decides: zombie, whatever later hooks return", Fn: c09HookDecides},
			{ID: "C09.R10", Min: 3, Desc: "a directive that its target ignores strands nobody in a paused mailbox", Fn: c09IgnoredDirectives},
			{ID: "C09.R11", Min: 2, Desc: "a restart waits for every child: a child spawned while the actor is dying is killed at once (C06.R5)", Fn: c06SpawnWhileDying},
			{ID: "C09.R14", Min: 5, Desc: "each directive does what it says; an escalation travels as a system message, so a supervisor that is itself stopping still receives it (C08.R4)", Fn: c08Dispatch},
			{ID: "C09.R13", Min: 2, Desc: "a pause / resume command is obeyed unconditionally", Fn: c09CommandsObeyed},
			{ID: "C09.R12", Min: 1, Desc: "a restart hook that panics counts as failed: a recovered panic is never turned into success (C05.R7)", Fn: recoveredPanicsAreFailures},
			{ID: "C09.R9", Min: 3, Desc: "a paused mailbox hands no user message over (C01.R6 pause gate)", Fn: c01PauseGate},
			{ID: "C09.R7", Min: 2, Desc: "everything that was paused is recorded as a target (so the resume broadcast reaches it)", Fn: c08RecordedTargets},
			{ID: "C09.R6", Min: 7, Desc: "paused mailbox neither spins nor misses the resume (a pending system message — the resume command — always re-arms)", Fn: func(p *Program, r *Report) { c01Release(p, r); c01NoSpin(p, r); c01Resume(p, r) }},
		},
	})
}

type supRoles struct {
	OnSupervise *ssa.Function // context method invoking Supervise
	SupCtxT     *types.Named  // implementation of vivid.SupervisionContext
	Apply       *ssa.Function // method of SupCtxT taking the decision
	Broadcast   *ssa.Function // method of SupCtxT telling all targets along the chain
	NewSupCtx   *ssa.Function
	Targets     *types.Var
	SubLink     *types.Var
	problems    []string
}

var supCache = map[*Program]*supRoles{}

func (p *Program) supervision() *supRoles {
	if s, ok := supCache[p]; ok {
		return s
	}
	s := &supRoles{}
	supCache[p] = s
	lc := p.lifecycle()
	if len(lc.problems) > 0 {
		s.problems = append(s.problems, "lifecycle roles unresolved")
		return s
	}
	// the supervising routine: the function of the actor package that consults the strategy (a method of the context, of the
	// supervision context, or a plain function)
	for _, fn := range p.Mod {
		if fn.Parent() != nil || fnPkg(fn) == nil || fnPkg(fn) != lc.Ctx.Obj().Pkg() {
			continue
		}
		for _, b := range fn.Blocks {
			for _, in := range b.Instrs {
				if c := callOf(in); c != nil && c.IsInvoke() && c.Method.Name() == "Supervise" {
					s.OnSupervise = fn
				}
			}
		}
	}
	sc := p.Iface("", "SupervisionContext")
	dec := p.Named("", "SupervisionDecision")
	for _, pk := range p.Pkgs {
		scp := pk.Types.Scope()
		for _, name := range scp.Names() {
			tn, ok := scp.Lookup(name).(*types.TypeName)
			if !ok {
				continue
			}
			n, ok := tn.Type().(*types.Named)
			if !ok {
				continue
			}
			if _, isSt := n.Underlying().(*types.Struct); isSt && sc != nil && types.Implements(types.NewPointer(n), sc) {
				s.SupCtxT = n
			}
		}
	}
	if s.SupCtxT == nil || s.OnSupervise == nil || dec == nil {
		s.problems = append(s.problems, "supervision roles (Supervise call site, SupervisionContext implementation) not found")
		return s
	}
	for _, fn := range p.methodsOf(s.SupCtxT) {
		if fn.Parent() != nil {
			continue
		}
		hasDecision := false
		for _, prm := range fn.Params {
			if types.Identical(prm.Type(), dec) {
				hasDecision = true
			}
		}
		if hasDecision {
			s.Apply = fn
		}
	}
	if s.Apply != nil {
		// the fields apply-decision (or a helper of the same type it calls) assigns
		var scan []*ssa.Function
		scan = append(scan, s.Apply)
		for _, b := range s.Apply.Blocks {
			for _, in := range b.Instrs {
				if c := callOf(in); c != nil && c.StaticCallee() != nil && c.StaticCallee().Signature.Recv() != nil && namedOf(c.StaticCallee().Signature.Recv().Type()) == s.SupCtxT {
					scan = append(scan, c.StaticCallee())
				}
			}
		}
		for _, sf := range scan {
			for _, b := range sf.Blocks {
				for _, in := range b.Instrs {
					if st, ok := in.(*ssa.Store); ok {
						if f, _ := fieldAddr(st.Addr); f != nil && fieldVar(s.SupCtxT, f.Name()) == f {
							if _, isSl := f.Type().Underlying().(*types.Slice); isSl && sf == s.Apply {
								s.Targets = f
							}
							if namedOf(f.Type()) == s.SupCtxT {
								s.SubLink = f
							}
						}
					}
				}
			}
		}
	}
	if false {
		for _, b := range s.Apply.Blocks {
			for _, in := range b.Instrs {
				if st, ok := in.(*ssa.Store); ok {
					if f, _ := fieldAddr(st.Addr); f != nil && fieldVar(s.SupCtxT, f.Name()) == f {
						if _, isSl := f.Type().Underlying().(*types.Slice); isSl {
							s.Targets = f
						}
						if namedOf(f.Type()) == s.SupCtxT {
							s.SubLink = f
						}
					}
				}
			}
		}
	}
	// the broadcast: the method of the supervision context that tells while walking the chain link (reads SubLink); it may be
	// reached from apply-decision through a thin wrapper, and apply-decision may have other telling helpers
	if s.SubLink != nil {
		for _, fn := range p.methodsOf(s.SupCtxT) {
			if fn.Parent() != nil || fn == s.Apply || len(p.tellSites(fn)) == 0 {
				continue
			}
			reads := false
			for _, b := range fn.Blocks {
				for _, in := range b.Instrs {
					if u, ok := in.(*ssa.UnOp); ok && u.Op == token.MUL {
						if f, _ := fieldAddr(u.X); f == s.SubLink {
							reads = true
						}
					}
				}
			}
			if reads {
				s.Broadcast = fn
			}
		}
	}
	for _, fn := range p.Mod {
		res := fn.Signature.Results()
		if fn.Parent() == nil && fn.Signature.Recv() == nil && res.Len() == 1 && namedOf(res.At(0).Type()) == s.SupCtxT {
			s.NewSupCtx = fn
		}
	}
	if s.Apply == nil || s.Broadcast == nil || s.NewSupCtx == nil || s.Targets == nil || s.SubLink == nil {
		s.problems = append(s.problems, "supervision roles (apply-decision, broadcast, constructor, targets, chain link) not all found")
	}
	return s
}

func supOrFail(p *Program, r *Report) (*supRoles, *lifecycle) {
	lc := lcOrFail(p, r)
	if lc == nil {
		return nil, nil
	}
	s := p.supervision()
	if len(s.problems) > 0 {
		for _, pr := range s.problems {
			r.Unresolved(pr)
		}
		return nil, nil
	}
	return s, lc
}

func c08Consult(p *Program, r *Report) {
	s, _ := supOrFail(p, r)
	if s == nil {
		return
	}
	g := p.igx(s.OnSupervise) // the choice of the strategy may live in a helper
	defer p.withGraph(g)()
	sup := nodesWhere(g, func(in ssa.Instruction) bool {
		c := callOf(in)
		return c != nil && c.IsInvoke() && c.Method.Name() == "Supervise"
	})
	once := len(sup) == 1 && !anyIn(g.Reach(g.entry(), sup, g.nilArgEdges()), g.Exits)
	for n := range sup {
		if g.ReachAfter(n, nil, nil)[n] {
			once = false
		}
	}
	r.Check(once, "Supervise consulted exactly once", firstPos(g, sup), "every path through the supervising handler invokes SupervisionStrategy.Supervise exactly once")
	for n := range sup {
		c := callOf(g.Nodes[n])
		o := p.origins(c.Value)
		own := anyContains(o, "SupervisionStrategy<-field:"+p.lifecycle().pat(p.lifecycle().OptionsF))
		sys := anyContains(o, "System.options")
		// the candidates: the operands of the phi, or the return operands of the helper that chooses
		var leaves []ssa.Value
		var expand func(v ssa.Value, d int)
		expand = func(v ssa.Value, d int) {
			if d > 4 {
				return
			}
			if ph, isPhi := v.(*ssa.Phi); isPhi {
				for _, e := range ph.Edges {
					expand(e, d+1)
				}
				return
			}
			vs := g.values(v)
			if len(vs) == 1 && vs[0] == g.res(v) {
				leaves = append(leaves, vs[0])
				return
			}
			for _, w := range vs {
				expand(w, d+1)
			}
		}
		expand(c.Value, 0)
		good := own && sys && len(leaves) == 2
		if good {
			nilE := map[edge]bool{}
			for _, ifi := range g.ifs() {
				for _, outcome := range []bool{true, false} {
					f, ok := condFact(ifi.Cond, outcome)
					if ok && f.IsNil && f.Op == token.EQL && anyContains(p.origins(f.X), "Context.options") {
						nilE[g.branchEdge(ifi, outcome)] = true
					}
				}
			}
			found := false
			for _, e := range leaves {
				if anyContains(p.origins(e), "System.options") {
					if ld, ok := e.(ssa.Instruction); ok {
						found = len(nilE) > 0 && g.DominatedByEdges(g.Idx[ld], nilE)
					}
				}
			}
			good = found
		}
		r.Check(good, "own strategy, else the system's", g.Nodes[n].Pos(), "the consulted strategy is the actor's own option and the system default only on the own==nil edge ("+strings.Join(o, " | ")+")")
	}
	// the argument of Supervise is the received supervision context, and the decision is applied with the returned targets/decision
	for n := range sup {
		c := callOf(g.Nodes[n])
		okArg := len(c.Args) == 1 && len(s.OnSupervise.Params) > 1 && strip(c.Args[0]) == ssa.Value(s.OnSupervise.Params[1])
		applied := false
		for _, in := range g.Nodes {
			if ac := callOf(in); ac != nil && ac.StaticCallee() == s.Apply {
				applied = true
				for _, a := range ac.Args[2:] {
					if ex, ok := a.(*ssa.Extract); ok && ex.Tuple != ssa.Value(g.Nodes[n].(*ssa.Call)) {
						applied = false
					}
				}
			}
		}
		r.Check(okArg && applied, "decision applied with the strategy's own results", g.Nodes[n].Pos(), "Supervise receives the failure's context and apply-decision receives exactly the returned targets, decision and reason")
	}
}

func c08Targets(p *Program, r *Report) {
	s, lc := supOrFail(p, r)
	if s == nil {
		return
	}
	for _, spec := range []struct{ ctor, accessor string }{{"OneForOneStrategy", "Child"}, {"OneForAllStrategy", "Children"}} {
		ctor := p.Func("", spec.ctor)
		if ctor == nil {
			r.Unresolved("vivid." + spec.ctor)
			continue
		}
		// concrete type returned
		var impl *types.Named
		for _, b := range ctor.Blocks {
			for _, in := range b.Instrs {
				if ret, ok := in.(*ssa.Return); ok {
					if mi, ok := retOperand(ret, 0).(*ssa.MakeInterface); ok {
						impl = namedOf(mi.X.Type())
					}
				}
			}
		}
		if impl == nil {
			r.Unresolved("strategy type built by " + spec.ctor)
			continue
		}
		sup := p.methodNamed(impl, "Supervise")
		good := sup != nil
		desc := ""
		if sup != nil {
			for _, b := range sup.Blocks {
				for _, in := range b.Instrs {
					if ret, ok := in.(*ssa.Return); ok {
						c, isCall := strip(retOperand(ret, 0)).(*ssa.Call)
						// an element-for-element copy of the set (ActorRefs.Clone / DeepClone: equal references) is the same set
						for isCall && !c.Call.IsInvoke() && c.Call.StaticCallee() != nil && len(c.Call.Args) == 1 &&
							(c.Call.StaticCallee().Name() == "Clone" || c.Call.StaticCallee().Name() == "DeepClone") &&
							types.Identical(c.Call.Args[0].Type(), c.Type()) {
							c, isCall = strip(c.Call.Args[0]).(*ssa.Call)
						}
						if !isCall || !c.Call.IsInvoke() || c.Call.Method.Name() != spec.accessor || strip(c.Call.Value) != ssa.Value(sup.Params[1]) {
							good = false
						}
						// decision and reason come from MakeDecision
						d := p.origins(retOperand(ret, 1))
						desc = strings.Join(d, " | ")
						if !allContain(d, "MakeDecision") {
							good = false
						}
					}
				}
			}
		}
		r.Check(good, spec.ctor+" targets SupervisionContext."+spec.accessor+"()", ctor.Pos(), "Supervise returns ctx."+spec.accessor+"() as targets and the decision maker's decision ("+desc+")")
	}
	// accessors of the supervision context and where their fields come from
	child := p.methodNamed(s.SupCtxT, "Child")
	children := p.methodNamed(s.SupCtxT, "Children")
	retField := func(fn *ssa.Function) *types.Var {
		if fn == nil {
			return nil
		}
		for _, b := range fn.Blocks {
			for _, in := range b.Instrs {
				if ret, ok := in.(*ssa.Return); ok {
					f, _ := fieldLoad(strip(retOperand(ret, 0)))
					return f
				}
			}
		}
		return nil
	}
	cf, csf := retField(child), retField(children)
	okChild := cf != nil
	okChildren := csf != nil && csf != cf
	for _, a := range p.fieldAccesses(map[*types.Var]bool{cf: true, csf: true}) {
		if !a.Write {
			continue
		}
		st, ok := a.In.(*ssa.Store)
		if !ok {
			continue
		}
		o := p.origins(st.Val)
		if a.Field == cf {
			// the failing ref handed to the constructor
			if a.Fn != s.NewSupCtx || !allContain(o, "<-param:") {
				okChild = false
			}
		} else {
			if !allContain(o, "Children<-param:") {
				okChildren = false
			}
		}
	}
	// constructor callers pass the failing actor's own ref
	node := p.CG.Nodes[s.NewSupCtx]
	if node != nil {
		for _, e := range node.In {
			c := e.Site.Common()
			o := p.origins(c.Args[0])
			if !allContain(o, lc.pat(lc.RefF)) || anyContains(o, lc.pat(lc.ParentF)) {
				okChild = false
			}
		}
	}
	r.Check(okChild, "Child() is the failing actor", s.SupCtxT.Obj().Pos(), "Child() returns the field filled by the constructor from the failing context's own ref")
	r.Check(okChildren, "Children() is the supervisor's child snapshot", s.SupCtxT.Obj().Pos(), "Children() returns the field filled from the supervising context's Children()")
	_ = lc
}

func c08Recipients(p *Program, r *Report) {
	s, _ := supOrFail(p, r)
	if s == nil {
		return
	}
	n := 0
	for _, fn := range []*ssa.Function{s.OnSupervise, s.Apply, s.Broadcast} {
		kill := p.ctxMethod(p.lifecycle(), "Kill")
		g := p.ig(fn)
		if fn == s.Apply {
			g = p.applyGraph(s, p.lifecycle())
		}
		restore := p.withGraph(g)
		type send struct {
			in  ssa.Instruction
			rec ssa.Value
		}
		var sends []send
		for _, ts := range p.tellSitesG(g) {
			sends = append(sends, send{ts.In, ts.Recipient})
		}
		for _, in := range g.Nodes {
			if c := callOf(in); c != nil && c.StaticCallee() == kill && len(c.Args) > 1 {
				sends = append(sends, send{in, c.Args[1]})
			}
		}
		for _, sd := range sends {
			n++
			o := p.origins(sd.rec)
			good := len(o) > 0
			for _, ch := range o {
				isTarget := strings.HasPrefix(ch, "elem<-") && (strings.Contains(ch, "param:targets") || strings.Contains(ch, "."+s.Targets.Name()+"<-") || strings.Contains(ch, "#0<-call:") && strings.Contains(ch, "Supervise"))
				isParent := strings.HasPrefix(ch, "field:"+p.lifecycle().pat(p.lifecycle().ParentF))
				if !isTarget && !isParent {
					good = false
				}
			}
			r.Check(good, "recipient of send in "+fnName(fn), sd.in.Pos(), "recipient is an element of the decision's targets (or a chained context's targets) or the supervisor's parent: "+strings.Join(o, " | "))
		}
		restore()
	}
	if n == 0 {
		r.Unresolved("no send in the supervision code")
	}
}

// decisionEdges: branch edges of fn on which decision.<pred>() is true / false.
func decisionEdges(g *IG, pred string) (tr, fa map[edge]bool) {
	tr, fa = map[edge]bool{}, map[edge]bool{}
	for _, ifi := range g.ifs() {
		for _, outcome := range []bool{true, false} {
			f, ok := condFact(ifi.Cond, outcome)
			if !ok || !f.Bool {
				continue
			}
			c, ok := f.X.(*ssa.Call)
			if !ok || c.Call.StaticCallee() == nil || c.Call.StaticCallee().Name() != pred {
				continue
			}
			if f.Op == token.NEQ {
				tr[g.branchEdge(ifi, outcome)] = true
			} else {
				fa[g.branchEdge(ifi, outcome)] = true
			}
		}
	}
	return
}

func c08Dispatch(p *Program, r *Report) {
	s, lc := supOrFail(p, r)
	if s == nil {
		return
	}
	g := p.applyGraph(s, lc)
	defer p.withGraph(g)()
	kill := p.ctxMethod(lc, "Kill")
	restartTells, escalTells := map[int]bool{}, map[int]bool{}
	for _, ts := range p.tellSitesG(g) {
		switch {
		case hasField(strip(ts.Message).Type(), "Poison") && !isAllocOf(ts.Message, "OnKill"):
			restartTells[g.Idx[ts.In]] = true
		case namedOf(strip(ts.Message).Type()) == s.SupCtxT:
			escalTells[g.Idx[ts.In]] = true
		}
	}
	kills := nodesWhere(g, func(in ssa.Instruction) bool { c := callOf(in); return c != nil && c.StaticCallee() == kill })
	bcast, _ := p.eventNodes(g, func(in ssa.Instruction) bool { c := callOf(in); return c != nil && c.StaticCallee() == s.Broadcast })
	rT, _ := decisionEdges(g, "IsRestart")
	sT, _ := decisionEdges(g, "IsStop")
	uT, _ := decisionEdges(g, "IsResume")
	// restart
	ok, why := g.loopExactlyOnce(restartTells)
	for n := range restartTells {
		if !g.DominatedByEdges(n, rT) {
			ok = false
		}
	}
	r.Check(ok && len(rT) > 0, "restart decision sends a restart message to every target", firstPos(g, restartTells), "restart tells are dominated by the IsRestart edge, one per target "+why)
	// the escalation ends at the top: where the supervisor has no parent the targets are stopped (kills under the parent == nil edge)
	topE, hasParentE := map[edge]bool{}, map[edge]bool{}
	for _, ef := range p.edgeFacts(g) {
		if ef.Field == lc.ParentF && ef.Fact.IsNil {
			if ef.Fact.Op == token.EQL {
				topE[ef.E] = true
			} else {
				hasParentE[ef.E] = true
			}
		}
	}
	topKills := map[int]bool{}
	for n := range kills {
		if len(topE) > 0 && g.DominatedByEdges(n, topE) && !g.DominatedByEdges(n, sT) {
			topKills[n] = true
			delete(kills, n)
		}
	}
	ok, why = g.loopExactlyOnce(kills)
	for n := range kills {
		if !g.DominatedByEdges(n, sT) {
			ok = false
		}
		c := callOf(g.Nodes[n])
		if len(c.Args) > 2 && !anyContains(p.origins(c.Args[2]), "IsGraceful") {
			ok = false
		}
	}
	r.Check(ok && len(sT) > 0, "stop decision kills every target (poison iff graceful)", firstPos(g, kills), "Kill calls are dominated by the IsStop edge, one per target, poison = decision.IsGraceful() "+why)
	// resume: broadcast on the IsResume edge on every path
	ok = len(uT) > 0 && len(bcast) > 0
	for e := range uT {
		if !bcast[e.to] && anyIn(g.Reach([]int{e.to}, bcast, nil), g.Exits) {
			ok = false
		}
	}
	r.Check(ok, "resume decision broadcasts the resume command", firstPos(g, bcast), "from the IsResume edge every path to the exit passes the broadcast")
	// escalate: reached when none of the three holds; pause self, chained context, tell parent as system message
	pause := nodesWhere(g, func(in ssa.Instruction) bool {
		c := callOf(in)
		return c != nil && c.IsInvoke() && c.Method.Name() == "Pause"
	})
	ok = len(escalTells) == 1 && len(pause) > 0
	for n := range escalTells {
		if !g.DominatedByNodes(n, pause) {
			ok = false
		}
		for _, ts := range p.tellSitesG(g) {
			if g.Idx[ts.In] != n {
				continue
			}
			if b, isC := constBool(ts.System); !isC || !b {
				ok = false
			}
			if !allContain(p.origins(ts.Recipient), "field:"+lc.pat(lc.ParentF)) {
				ok = false
			}
			// the new context is linked to the current one
			c, isCall := strip(ts.Message).(*ssa.Call)
			if !isCall || c.Call.StaticCallee() != s.NewSupCtx {
				ok = false
			} else {
				linked := false
				for _, ref := range *c.Referrers() {
					if fa, isFA := ref.(*ssa.FieldAddr); isFA {
						if f, _ := fieldAddr(fa); f == s.SubLink {
							for _, u := range *fa.Referrers() {
								if st, isSt := u.(*ssa.Store); isSt && g.res(st.Val) == ssa.Value(s.Apply.Params[0]) {
									linked = true
								}
							}
						}
					}
				}
				if !linked {
					ok = false
				}
			}
		}
		// reachable with all three predicates false
		_, rF := decisionEdges(g, "IsRestart")
		_, sF := decisionEdges(g, "IsStop")
		_, uF := decisionEdges(g, "IsResume")
		if g.Reach(g.entry(), nil, mergeEdges(rT, sT, uT))[n] == false {
			ok = false
		}
		_, _, _ = rF, sF, uF
	}
	// … and only where there is a parent: the root's "parent" resolves to the root's own mailbox, an escalation told there is
	// supervised by the root again and again (F42). On the parent == nil edge every path stops the targets instead.
	okTop := len(hasParentE) > 0 && len(topE) > 0 && len(topKills) > 0
	for n := range escalTells {
		if !g.DominatedByEdges(n, hasParentE) {
			okTop = false
		}
	}
	if okTop {
		once, _ := g.loopExactlyOnce(topKills)
		okTop = once
		for e := range topE {
			// from the top edge no path reaches the escalation tell or the pause
			if anyOf(g.Reach([]int{e.to}, nil, nil), union(escalTells, pause)) {
				okTop = false
			}
		}
		for n := range topKills {
			c := callOf(g.Nodes[n])
			if len(c.Args) > 2 {
				if b, isC := constBool(c.Args[2]); !isC || b {
					okTop = false
				}
			}
		}
	}
	r.Check(okTop, "an escalation at the top ends in the system default: the targets are stopped", firstPos(g, topKills), "the escalation tell is dominated by the parent != nil edge; on the parent == nil edge every target is killed once (immediately), nothing is told to the (absent) parent and the root does not pause itself")
	r.Check(ok, "escalation pauses the supervisor and hands a chained context to its parent", firstPos(g, escalTells), "when the decision is none of restart/stop/resume: Pause() own mailbox, new supervision context linked to the current one, told to the parent as a system message")
	c08Exhaustive(p, r)
}

// c08Exhaustive: every path through apply-decision performs one of the directive effects.
func c08Exhaustive(p *Program, r *Report) {
	s, lc := supOrFail(p, r)
	if s == nil {
		return
	}
	g := p.applyGraph(s, lc)
	defer p.withGraph(g)()
	kill := p.ctxMethod(lc, "Kill")
	eff, _ := p.eventNodes(g, func(in ssa.Instruction) bool {
		c := callOf(in)
		return c != nil && (c.StaticCallee() == kill || c.StaticCallee() == s.Broadcast)
	})
	for _, ts := range p.tellSitesG(g) {
		eff[g.Idx[ts.In]] = true
	}
	// loops over an empty target list legitimately skip their tell; the loop test counts as entering the branch
	dT := map[edge]bool{}
	for _, pred := range []string{"IsRestart", "IsStop", "IsResume", "IsEscalate"} {
		t, _ := decisionEdges(g, pred)
		dT = mergeEdges(dT, t)
	}
	// the top-of-the-tree form of the escalation (no parent: stop the targets) is a body too
	for _, ef := range p.edgeFacts(g) {
		if ef.Field == lc.ParentF && ef.Fact.IsNil && ef.Fact.Op == token.EQL {
			dT[ef.E] = true
		}
	}
	reach := g.Reach(g.entry(), eff, mergeEdges(dT, g.nilArgEdges()))
	r.Check(!anyIn(reach, g.Exits), "every decision value takes a branch", s.Apply.Pos(),
		"no path through apply-decision reaches the exit without entering a directive body: a decision outside the known values is treated as escalate, otherwise the failing child would stay paused forever")
}

func c08FailureEntry(p *Program, r *Report) {
	s, lc := supOrFail(p, r)
	if s == nil {
		return
	}
	g := p.ig(lc.Failed)
	pause := nodesWhere(g, func(in ssa.Instruction) bool {
		c := callOf(in)
		return c != nil && c.IsInvoke() && c.Method.Name() == "Pause"
	})
	var tells []tellSite
	for _, ts := range p.tellSites(lc.Failed) {
		tells = append(tells, ts)
	}
	ok := len(tells) == 1 && len(pause) > 0
	for _, ts := range tells {
		n := g.Idx[ts.In]
		if !g.DominatedByNodes(n, pause) {
			ok = false
		}
		if b, isC := constBool(ts.System); !isC || !b {
			ok = false
		}
		if !allContain(p.origins(ts.Recipient), "field:"+lc.pat(lc.ParentF)) {
			ok = false
		}
		c, isCall := strip(ts.Message).(*ssa.Call)
		if !isCall || c.Call.StaticCallee() != s.NewSupCtx {
			ok = false
		}
		if anyIn(g.Reach(g.entry(), setOf(n), nil), g.Exits) {
			ok = false
		}
	}
	r.Check(ok, "failure pauses the mailbox, then tells the parent", lc.Failed.Pos(), "Mailbox.Pause() dominates the single tell(system=true, parent, new supervision context) which lies on every path")
	// the pause is on the actor's own mailbox
	okP := true
	for n := range pause {
		if !allContain(p.origins(callOf(g.Nodes[n]).Value), "field:Context."+lc.MailboxF.Name()+"<-param:") {
			okP = false
		}
	}
	r.Check(okP, "failure pauses its own mailbox", firstPos(g, pause), "the paused mailbox is the failing context's own")
	// callers: only the recover closure
	node := p.CG.Nodes[lc.Failed]
	okC := node != nil && len(node.In) > 0
	from := ""
	if node != nil {
		for _, e := range node.In {
			if cf := e.Caller.Func; cf.Synthetic != "" && (p.CG.Nodes[cf] == nil || len(p.CG.Nodes[cf].In) == 0) {
				continue // promoted-method wrapper nobody calls
			}
			if e.Caller.Func.Parent() != lc.ExecRecover {
				okC = false
				from = fnName(e.Caller.Func)
			}
		}
	}
	r.Check(okC, "failure entry only from the recover block", lc.Failed.Pos(), "the failure routine is called only from the deferred recover closure of the behaviour wrapper "+from)
}

func c08NotWhileStopping(p *Program, r *Report) {
	_, lc := supOrFail(p, r)
	if lc == nil {
		return
	}
	var cl *ssa.Function
	for _, a := range lc.ExecRecover.AnonFuncs {
		for _, b := range a.Blocks {
			for _, in := range b.Instrs {
				if c := callOf(in); c != nil && c.StaticCallee() == lc.Failed {
					cl = a
				}
			}
		}
	}
	if cl == nil {
		r.Unresolved("recover closure calling the failure routine")
		return
	}
	g := p.ig(cl)
	failed := nodesWhere(g, func(in ssa.Instruction) bool { c := callOf(in); return c != nil && c.StaticCallee() == lc.Failed })
	// recovered != nil dominates
	recE := map[edge]bool{}
	for _, ifi := range ifsOf(cl) {
		for _, outcome := range []bool{true, false} {
			f, ok := condFact(ifi.Cond, outcome)
			if ok && f.IsNil && f.Op == token.NEQ {
				if c, ok := strip(f.X).(*ssa.Call); ok {
					if b, ok := c.Call.Value.(*ssa.Builtin); ok && b.Name() == "recover" {
						recE[g.branchEdge(ifi, outcome)] = true
					}
				}
			}
		}
	}
	ok := len(recE) > 0
	for n := range failed {
		if !g.DominatedByEdges(n, recE) {
			ok = false
		}
	}
	r.Check(ok, "supervision only for a recovered panic", firstPos(g, failed), "the failure routine is dominated by the recover()!=nil edge")
	// type-switch edges
	caseEdges := func(name string) map[edge]bool {
		m := map[edge]bool{}
		for _, ifi := range ifsOf(cl) {
			for _, outcome := range []bool{true, false} {
				f, ok := condFact(ifi.Cond, outcome)
				if !ok || !f.Bool || f.Op != token.NEQ {
					continue
				}
				if ex, ok := f.X.(*ssa.Extract); ok && ex.Index == 1 {
					if ta, ok := ex.Tuple.(*ssa.TypeAssert); ok && typeIs(ta.AssertedType, modPath, name) {
						m[g.branchEdge(ifi, outcome)] = true
					}
				}
			}
		}
		return m
	}
	kE, kdE := caseEdges("OnKill"), caseEdges("OnKilled")
	ok = len(kE) > 0
	for e := range kE {
		reach := g.Reach([]int{e.to}, nil, nil)
		for n := range failed {
			if reach[n] {
				ok = false
			}
		}
	}
	r.Check(ok, "no supervision for a failure while handling OnKill", cl.Pos(), "from the OnKill case of the recover block the failure routine is unreachable")
	// OnKilled: only when state == running and the notice does not name self
	runE, otherE := map[edge]bool{}, map[edge]bool{}
	for _, ef := range p.edgeFacts(g) {
		if ef.Field == lc.State && (ef.Fact.impliesEq(lc.Running)) {
			runE[ef.E] = true
		}
	}
	for _, ifi := range ifsOf(cl) {
		for _, outcome := range []bool{true, false} {
			f, ok := condFact(ifi.Cond, outcome)
			if ok && f.Bool && f.Op == token.EQL {
				if c, ok := f.X.(*ssa.Call); ok && c.Call.IsInvoke() && c.Call.Method.Name() == "Equals" {
					otherE[g.branchEdge(ifi, outcome)] = true
				}
			}
		}
	}
	ok = len(kdE) > 0 && len(runE) > 0 && len(otherE) > 0
	for e := range kdE {
		for _, av := range []map[edge]bool{runE, otherE} {
			reach := g.Reach([]int{e.to}, nil, av)
			for n := range failed {
				if reach[n] {
					ok = false
				}
			}
		}
	}
	r.Check(ok, "OnKilled failures are supervised only when running and about another actor", cl.Pos(), "from the OnKilled case the failure routine is reachable only through the state==running edge and the Ref-does-not-equal-self edge")
}

// ---- C09 ---------------------------------------------------------------------------------------

func c09RestartResumes(p *Program, r *Report) {
	lc := lcOrFail(p, r)
	if lc == nil {
		return
	}
	g := p.igxSkip(lc.HandleRestart, lc.roleFuncs(p))
	resume := nodesWhere(g, func(in ssa.Instruction) bool {
		c := callOf(in)
		return c != nil && c.IsInvoke() && c.Method.Name() == "Resume" && anyContains(p.origins(c.Value), "Context."+lc.MailboxF.Name()+"<-")
	})
	av := p.assumeRestarting(lc, g)
	r.Check(len(resume) > 0 && !anyIn(g.Reach(g.entry(), resume, av), g.Exits), "restart step resumes the mailbox on every path", lc.HandleRestart.Pos(),
		"with continue ∧ restarting every path from the entry of the restart step to its exit — hooks succeeded or failed — passes Mailbox.Resume() of the actor's own mailbox")
}

func c09Broadcast(p *Program, r *Report) {
	s, lc := supOrFail(p, r)
	if s == nil {
		return
	}
	// (a) shape of the broadcast
	bg := p.ig(s.Broadcast)
	tells := map[int]bool{}
	goodT := true
	// what is told: the routine's own (system, message) parameters, or — in a routine specialised for one command — values
	// fixed before the loops; the same pair at every tell
	var bSys, bMsg ssa.Value
	for _, ts := range p.tellSites(s.Broadcast) {
		tells[bg.Idx[ts.In]] = true
		sv, mv := strip(ts.System), strip(ts.Message)
		if bSys == nil {
			bSys, bMsg = sv, mv
		} else if bSys != sv || bMsg != mv {
			goodT = false
		}
		for _, v := range []ssa.Value{sv, mv} {
			switch x := v.(type) {
			case *ssa.Parameter, *ssa.Const:
			case ssa.Instruction:
				if i, in := bg.Idx[x]; !in || bg.ReachAfter(i, nil, nil)[i] {
					goodT = false // recomputed inside a loop
				}
			default:
				goodT = false
			}
		}
		o := p.origins(ts.Recipient)
		if !allContain(o, "elem<-field:"+s.SupCtxT.Obj().Name()+"."+s.Targets.Name()+"<-") {
			goodT = false
		}
	}
	ok, why := bg.loopExactlyOnce(tells)
	r.Check(ok && goodT, "broadcast tells every target of a context once", firstPos(bg, tells), "inner loop: one tell(system, target, message) per element of the context's targets "+why)
	// outer loop: current := receiver; for current != nil { ...; current = current.sub }
	var cur *ssa.Phi
	for _, in := range bg.Nodes {
		if ph, isPhi := in.(*ssa.Phi); isPhi && namedOf(ph.Type()) == s.SupCtxT {
			fromRecv, fromLink := false, false
			for _, e := range ph.Edges {
				if strip(e) == ssa.Value(s.Broadcast.Params[0]) {
					fromRecv = true
				}
				if f, base := fieldLoad(strip(e)); f == s.SubLink && (base == ssa.Value(ph) || strip(base) == ssa.Value(ph)) {
					fromLink = true
				}
			}
			if fromRecv && fromLink {
				cur = ph
			}
		}
	}
	okOuter := cur != nil
	if cur != nil {
		// targets ranged belong to `cur`; loop continues while cur != nil
		for n := range tells {
			ts := callOf(bg.Nodes[n])
			o := p.origins(ts.Args[2])
			_ = o
		}
		nonNil := map[edge]bool{}
		for _, ifi := range ifsOf(s.Broadcast) {
			for _, outcome := range []bool{true, false} {
				f, okf := condFact(ifi.Cond, outcome)
				if okf && f.IsNil && f.Op == token.NEQ && f.X == ssa.Value(cur) {
					nonNil[bg.branchEdge(ifi, outcome)] = true
				}
			}
		}
		if len(nonNil) == 0 {
			okOuter = false
		}
		// exit only when cur == nil
		if anyIn(bg.Reach(bg.entry(), nil, func() map[edge]bool {
			m := map[edge]bool{}
			for _, ifi := range ifsOf(s.Broadcast) {
				for _, outcome := range []bool{true, false} {
					f, okf := condFact(ifi.Cond, outcome)
					if okf && f.IsNil && f.Op == token.EQL && f.X == ssa.Value(cur) {
						m[bg.branchEdge(ifi, outcome)] = true
					}
				}
			}
			return m
		}()), bg.Exits) {
			okOuter = false
		}
	}
	r.Check(okOuter, "broadcast walks the whole escalation chain", s.Broadcast.Pos(), "outer loop starts at the receiver, follows the sub-context link and exits only when the link is nil")
	// (b) in apply-decision
	g := p.applyGraph(s, lc)
	defer p.withGraph(g)()
	bcast, _ := p.eventNodes(g, func(in ssa.Instruction) bool {
		c := callOf(in)
		if c == nil || c.StaticCallee() != s.Broadcast {
			return false
		}
		// system=true, message = CommandResumeMailbox.Build() — passed by the caller or fixed inside the routine
		eff := func(v ssa.Value) ssa.Value {
			if prm, isP := v.(*ssa.Parameter); isP {
				for k, q := range s.Broadcast.Params {
					if q == prm && k < len(c.Args) {
						return c.Args[k]
					}
				}
			}
			return v
		}
		if bSys == nil || bMsg == nil {
			return false
		}
		if b, isC := constBool(eff(bSys)); !isC || !b {
			return false
		}
		m := eff(bMsg)
		return anyContains(p.origins(m), "Build") && resumeCommand(m)
	})
	kill := p.ctxMethod(lc, "Kill")
	gr := map[edge]bool{}
	for _, ifi := range g.ifs() {
		for _, outcome := range []bool{true, false} {
			f, okf := condFact(ifi.Cond, outcome)
			if okf && f.Bool && f.Op == token.NEQ {
				if c, isC := g.res(f.X).(*ssa.Call); isC && c.Call.StaticCallee() != nil && c.Call.StaticCallee().Name() == "IsGraceful" {
					gr[g.branchEdge(ifi, outcome)] = true
				}
			}
		}
	}
	rT, _ := decisionEdges(g, "IsRestart")
	sT, _ := decisionEdges(g, "IsStop")
	uT, _ := decisionEdges(g, "IsResume")
	// resume
	okR := len(uT) > 0
	for e := range uT {
		if !bcast[e.to] && anyIn(g.Reach([]int{e.to}, bcast, nil), g.Exits) {
			okR = false
		}
	}
	r.Check(okR && len(bcast) > 0, "resume decision resumes every target along the chain", firstPos(g, bcast), "on the IsResume edge every path broadcasts CommandResumeMailbox as a system message")
	for _, d := range []struct {
		name string
		e    map[edge]bool
		pre  func(in ssa.Instruction) bool
	}{
		{"graceful restart", rT, func(in ssa.Instruction) bool {
			for _, ts := range p.tellSitesG(g) {
				if ts.In == in && hasField(strip(ts.Message).Type(), "Poison") {
					return true
				}
			}
			return false
		}},
		{"graceful stop", sT, func(in ssa.Instruction) bool { c := callOf(in); return c != nil && c.StaticCallee() == kill }},
	} {
		okG := len(d.e) > 0 && len(gr) > 0
		pre := nodesWhere(g, d.pre)
		// graceful edges inside this directive's region
		for ge := range gr {
			if !g.DominatedByEdges(ge.from, d.e) {
				continue
			}
			if !bcast[ge.to] && anyIn(g.Reach([]int{ge.to}, bcast, nil), g.Exits) {
				okG = false
			}
			// the broadcast comes after the poison messages: no path from the broadcast back to a poison send
			for b := range bcast {
				if !g.Reach([]int{ge.to}, nil, nil)[b] {
					continue
				}
				reach := g.ReachAfter(b, nil, nil)
				for pn := range pre {
					if reach[pn] {
						okG = false
					}
				}
				// and the sends are reachable before it
				before := false
				for pn := range pre {
					if g.ReachAfter(pn, nil, nil)[b] {
						before = true
					}
				}
				if !before {
					okG = false
				}
			}
		}
		found := false
		for ge := range gr {
			if g.DominatedByEdges(ge.from, d.e) {
				found = true
			}
		}
		r.Check(okG && found, d.name+" resumes the paused targets after sending the poison message", firstPos(g, bcast), "on the IsGraceful edge of this directive every path broadcasts the resume command, and only after the poison messages were told (so they are queued behind the pending user mail and the mailbox runs again)")
	}
	// … and ONLY the graceful form: a plain restart travels as a system message and keeps the mailbox paused until the restart
	// step itself resumes it in state running. A target that has children answers the restart by waiting for them in state
	// killing; a resume command arriving then un-pauses the mailbox, and every user message (stream events for a subscriber
	// that keeps its subscriptions across the restart) is popped and dead-lettered instead of waiting for the new instance.
	okP := len(rT) > 0
	var starts []int
	for e := range rT {
		starts = append(starts, e.to)
	}
	// paths through the restart directive that avoid the graceful outcome must not reach the resume broadcast
	if okP && anyOf(g.Reach(starts, nil, gr), bcast) {
		okP = false
	}
	r.Check(okP, "plain restart is not followed by the resume broadcast", firstPos(g, bcast), "from the IsRestart edge no path that avoids the IsGraceful outcome reaches the broadcast of the resume command: the mailbox of a restarting target stays paused until its restart step resumes it")
}

// resumeCommand: v is <command constant>.Build() with the resume command.
func resumeCommand(v ssa.Value) bool {
	c, ok := strip(v).(*ssa.Call)
	if !ok || len(c.Call.Args) == 0 {
		return false
	}
	k, ok := c.Call.Args[0].(*ssa.Const)
	if !ok {
		return false
	}
	// the command type's String() would be the robust way; the constant's declared name is resolved through its type's method set
	n := namedOf(k.Type())
	if n == nil {
		return false
	}
	sc := n.Obj().Pkg().Scope()
	for _, name := range sc.Names() {
		if cst, ok := sc.Lookup(name).(*types.Const); ok && types.Identical(cst.Type(), k.Type()) && cst.Val().ExactString() == k.Value.ExactString() {
			return strings.Contains(strings.ToLower(name), "resume")
		}
	}
	return false
}

func c09Zombie(p *Program, r *Report) {
	lc := lcOrFail(p, r)
	if lc == nil {
		return
	}
	// (a) behaviour replaced by the empty one when zombie
	fn := lc.HandleEnvelop
	g := p.ig(fn)
	zT := map[edge]bool{}
	for _, ef := range p.edgeFacts(g) {
		if ef.Field == lc.Zombie && ef.Fact.Bool && ef.Fact.Op == token.NEQ {
			zT[ef.E] = true
		}
	}
	okA, nDisp := true, 0
	for _, in := range g.Nodes {
		c := callOf(in)
		if c == nil || c.StaticCallee() == nil {
			continue
		}
		for ai, a := range c.Args {
			if ai == 0 || !strings.HasSuffix(typeName(a.Type()), "Behavior") {
				continue
			}
			nDisp++
			ph, isPhi := a.(*ssa.Phi)
			if !isPhi {
				okA = false
				continue
			}
			hasEmpty := false
			for _, e := range ph.Edges {
				if u, isU := e.(*ssa.UnOp); isU && u.Op == token.MUL {
					if _, isG := u.X.(*ssa.Global); isG {
						// loaded on the zombie edge
						if g.DominatedByEdges(g.Idx[u], zT) && emptyFuncGlobal(p, u.X.(*ssa.Global)) {
							hasEmpty = true
						}
					}
				}
			}
			// with zombie==true the dispatch is reachable only through the load of the empty behaviour
			if !hasEmpty {
				okA = false
			} else {
				loads := map[int]bool{}
				for _, e := range ph.Edges {
					if u, isU := e.(*ssa.UnOp); isU && u.Op == token.MUL {
						if _, isG := u.X.(*ssa.Global); isG {
							loads[g.Idx[u]] = true
						}
					}
				}
				av := p.assumeAvoid(g, map[*types.Var]bool{lc.Zombie: true})
				if g.Reach(g.entry(), loads, av)[g.Idx[in]] {
					okA = false
				}
			}
		}
	}
	r.Check(okA && nDisp > 0 && len(zT) > 0, "zombie runs the empty behaviour", fn.Pos(), fmt.Sprintf("all %d behaviour dispatches of the envelope handler use a value that is the empty behaviour on the zombie edge", nDisp))
	// (b) restart-failure path tells nobody
	rg := p.igxSkip(lc.HandleRestart, lc.roleFuncs(p))
	zs := nodesWhere(rg, func(in ssa.Instruction) bool {
		st, ok := in.(*ssa.Store)
		if !ok {
			return false
		}
		f, _ := fieldAddr(st.Addr)
		return f == lc.Zombie
	})
	okB := len(zs) > 0
	for z := range zs {
		reach := rg.ReachAfter(z, nil, nil)
		for _, ts := range p.tellSites(lc.HandleRestart) {
			if reach[rg.Idx[ts.In]] {
				okB = false
			}
		}
		for n := range reach {
			if c := callOf(rg.Nodes[n]); c != nil && c.StaticCallee() == lc.RemoveRegistry {
				okB = false
			}
		}
	}
	r.Check(okB, "a failed restart sends no termination notice", firstPos(rg, zs), "after the zombie mark no tell and no deregistration is reachable in the restart step")
	// (c) a zombie passes the kill CAS
	kg := p.ig(lc.OnKill)
	_, succ, _ := p.casEdges(kg, lc.State, &lc.Killing)
	av := p.assumeAvoid(kg, map[*types.Var]bool{lc.Zombie: true})
	reach := kg.Reach(kg.entry(), nil, mergeEdges(succ, av))
	okC := false
	for i, in := range kg.Nodes {
		if c := callOf(in); c != nil && c.StaticCallee() == lc.DoKill && reach[i] {
			okC = true
		}
	}
	r.Check(okC, "an explicit Kill releases a zombie", lc.OnKill.Pos(), "with zombie==true the kill routine is reachable even when CAS(running→killing) fails (the zombie's state is no longer running)")
	// (d) zombie release path runs the termination cleanup with continue=true, restarting=false
	og := p.ig(lc.OnKilledFn)
	ozT := map[edge]bool{}
	for _, ef := range p.edgeFacts(og) {
		if ef.Field == lc.Zombie && ef.Fact.Bool && ef.Fact.Op == token.NEQ {
			ozT[ef.E] = true
		}
	}
	clean := nodesWhere(og, func(in ssa.Instruction) bool { c := callOf(in); return c != nil && c.StaticCallee() == lc.Cleanup })
	// the notice that releases a zombie is its own: edges of <message>.Ref.Equals(<own ref>)
	selfT, selfF := callEdges(og, func(c *ssa.Call) bool {
		name := ""
		if c.Call.IsInvoke() {
			name = c.Call.Method.Name()
		} else if c.Call.StaticCallee() != nil {
			name = c.Call.StaticCallee().Name()
		}
		if name != "Equals" {
			return false
		}
		recv, args := callRecv(&c.Call), callArgs(&c.Call)
		if recv == nil || len(args) == 0 {
			return false
		}
		return anyContains(p.origins(recv), "OnKilled.Ref<-") && allContain(p.origins(args[len(args)-1]), lc.pat(lc.RefF))
	})
	okD := len(ozT) > 0 && len(clean) > 0
	// the release is one-shot (C06.R1): the edge on which its set-once latch is already set is a release that already happened
	selfF = mergeEdges(selfF, p.latchSetEdges(lc, og))
	for e := range ozT {
		if !clean[e.to] && anyIn(og.Reach([]int{e.to}, clean, selfF), og.Exits) {
			okD = false
		}
	}
	for c := range clean {
		setC, setR := false, false
		for i, in := range og.Nodes {
			st, ok := in.(*ssa.Store)
			if !ok || !og.ReachAfter(i, nil, nil)[c] {
				continue
			}
			f, _ := fieldAddr(st.Addr)
			if b, isC := constBool(st.Val); isC {
				if f == lc.Continue && b {
					setC = true
				}
				if f == lc.Restarting && !b {
					setR = true
				}
			}
		}
		if !setC || !setR {
			okD = false
		}
	}
	r.Check(okD, "zombie release runs the termination cleanup", firstPos(og, clean), "on the zombie edge of the own-death handler every path (for the actor's own death notice) calls the cleanup step after setting continue=true and restarting=false")
	// (e) ... and only its own death notice releases it: the death of an actor it watched (or of a child) must not
	avZ := p.assumeAvoid(og, map[*types.Var]bool{lc.Zombie: true})
	zr := og.Reach(og.entry(), nil, avZ)
	okE := len(selfT) > 0
	var pos token.Pos = lc.OnKilledFn.Pos()
	for c := range clean {
		if !zr[c] {
			continue
		}
		// reachable with zombie==true without taking the own-ref edge?
		if og.Reach(og.entry(), nil, mergeEdges(avZ, selfT))[c] {
			okE = false
			pos = og.Nodes[c].Pos()
		}
	}
	r.Check(okE, "only its own death notice releases a zombie", pos, "with zombie==true the cleanup step is reachable only through the true edge of message.Ref.Equals(own ref): an OnKilled naming another actor (one it watched, a child) does not terminate a zombie nobody killed")
}

// emptyFuncGlobal: the package-level variable is initialised with a function literal that has an empty body.
func emptyFuncGlobal(p *Program, g *ssa.Global) bool {
	init := g.Pkg.Func("init")
	if init == nil {
		return false
	}
	for _, b := range init.Blocks {
		for _, in := range b.Instrs {
			st, ok := in.(*ssa.Store)
			if !ok || st.Addr != ssa.Value(g) {
				continue
			}
			var f *ssa.Function
			switch x := strip(st.Val).(type) {
			case *ssa.Function:
				f = x
			case *ssa.MakeClosure:
				f, _ = x.Fn.(*ssa.Function)
			}
			if f == nil {
				return false
			}
			n := 0
			for _, bb := range f.Blocks {
				n += len(bb.Instrs)
			}
			return n <= 1
		}
	}
	return false
}

// c08RecordedTargets: pause set == recorded set. The supervisor pauses the strategy's targets and hands the very same value
// to apply-decision, which is the only writer of the context's target list and stores exactly its parameter.
func c08RecordedTargets(p *Program, r *Report) {
	s, _ := supOrFail(p, r)
	if s == nil {
		return
	}
	// (a) writers of the target list
	okW, nW := true, 0
	where := ""
	var tparam ssa.Value
	for _, prm := range s.Apply.Params {
		if types.Identical(prm.Type(), s.Targets.Type()) {
			tparam = prm
		}
	}
	for _, a := range p.fieldAccesses(map[*types.Var]bool{s.Targets: true}) {
		if !a.Write || a.Fresh {
			continue
		}
		nW++
		st, isSt := a.In.(*ssa.Store)
		if a.Fn != s.Apply || !isSt || tparam == nil || strip(st.Val) != tparam {
			okW = false
			where = fnName(a.Fn) + " @ " + p.pos(a.In.Pos())
		}
	}
	r.Check(okW && nW > 0, "target list is written only with apply-decision's targets", s.Apply.Pos(), "every store to the supervision context's target list stores the targets parameter of apply-decision "+where)
	// (b) the supervisor pauses exactly the value it hands to apply-decision
	g := p.ig(s.OnSupervise)
	var applyArg ssa.Value
	for _, in := range g.Nodes {
		if c := callOf(in); c != nil && c.StaticCallee() == s.Apply {
			for i, prm := range s.Apply.Params {
				if prm == tparam && i < len(c.Args) {
					applyArg = c.Args[i]
				}
			}
		}
	}
	okP, nP := applyArg != nil, 0
	for _, ts := range p.tellSites(s.OnSupervise) {
		nP++
		// recipient = element of the same slice value
		ld, isU := strip(ts.Recipient).(*ssa.UnOp)
		if !isU {
			okP = false
			continue
		}
		ia, isIA := ld.X.(*ssa.IndexAddr)
		if !isIA || applyArg == nil || strip(ia.X) != strip(applyArg) {
			okP = false
		}
		if b, isC := constBool(ts.System); !isC || !b {
			okP = false
		}
	}
	pauses := map[int]bool{}
	for _, ts := range p.tellSites(s.OnSupervise) {
		pauses[g.Idx[ts.In]] = true
	}
	once, why := g.loopExactlyOnce(pauses)
	r.Check(okP && nP > 0 && once, "the paused set is the set handed to apply-decision", s.OnSupervise.Pos(), "the pause command is told (as a system message, once per element) to the elements of the very slice that apply-decision records as targets "+why)
	// (c) the record is made whatever the decision is, and before any effect of the decision: the resume broadcast of this or of
	// a higher level (after an escalation) walks the chain of contexts and reaches exactly what each of them recorded
	lc := p.lifecycle()
	ag := p.applyGraph(s, lc)
	rec := map[int]bool{}
	for i, in := range ag.Nodes {
		if st, isSt := in.(*ssa.Store); isSt && tparam != nil {
			if f, _ := fieldAddr(st.Addr); f == s.Targets && ag.res(st.Val) == tparam {
				rec[i] = true
			}
		}
	}
	okR := len(rec) > 0 && !anyIn(ag.Reach(ag.entry(), rec, ag.nilArgEdges()), ag.Exits)
	late := ""
	for i, in := range ag.Nodes {
		c := callOf(in)
		if c == nil {
			continue
		}
		y := c.StaticCallee()
		effect := y != nil && (y == s.Broadcast || y == s.NewSupCtx || y == p.tellFunc())
		if c.IsInvoke() && (c.Method.Name() == "Pause" || c.Method.Name() == "Kill") {
			effect = true
		}
		if effect && !rec[i] && !ag.DominatedByNodes(i, rec) {
			okR = false
			late = " (" + p.pos(in.Pos()) + " can run before the record)"
		}
	}
	r.Check(okR, "apply-decision records its targets on every path before acting", s.Apply.Pos(), "every path through apply-decision stores the handed targets into the supervision context, and no tell, broadcast, pause or escalation precedes that store: an escalated failure is resumed by the level above only through this record"+late)
}

// c08RestartAccepted: see the explanation (R8).
func c08RestartAccepted(p *Program, r *Report) {
	lc := lcOrFail(p, r)
	if lc == nil {
		return
	}
	n := 0
	for _, a := range p.fieldAccesses(map[*types.Var]bool{lc.RestartingF: true}) {
		st, ok := a.In.(*ssa.Store)
		if !ok || a.Fresh || isNilConst(st.Val) {
			continue
		}
		n++
		g := p.ig(a.Fn)
		_, succ, _ := p.casEdges(g, lc.State, &lc.Killing)
		r.Check(len(succ) > 0 && g.DominatedByEdges(a.Node, succ), "restart marker stored in "+fnName(a.Fn), st.Pos(),
			"the store of the restart message into the context is dominated by the success edge of CAS(state, running→killing): an actor that is already stopping (or dead) ignores a Restart completely")
	}
	if n == 0 {
		r.Unresolved("no store of a restart message into the context")
	}
}

// c09HookDecides: truth table of the restart step over the results of its hooks (see R8).
func c09HookDecides(p *Program, r *Report) {
	lc := lcOrFail(p, r)
	if lc == nil {
		return
	}
	fn := lc.HandleRestart
	// hooks: calls whose closure argument invokes an actor hook; identified as the calls of one same bool-returning module
	// function that are made from the restart step with a closure argument
	var hooks []*ssa.Call
	var hookBlocks []*ssa.BasicBlock
	for _, hf := range p.igxSkip(fn, lc.roleFuncs(p)).Fns { // the hook sequence may be extracted into a helper of the restart step
		hookBlocks = append(hookBlocks, hf.Blocks...)
	}
	for _, b := range hookBlocks {
		for _, in := range b.Instrs {
			c, ok := in.(*ssa.Call)
			if !ok || c.Call.StaticCallee() == nil || !p.inModule(c.Call.StaticCallee()) {
				continue
			}
			res := c.Call.StaticCallee().Signature.Results()
			if res.Len() != 1 || !isBool(res.At(0).Type()) {
				continue
			}
			hasClosure := false
			for _, a := range c.Call.Args {
				if _, isMC := strip(a).(*ssa.MakeClosure); isMC {
					hasClosure = true
				}
			}
			if hasClosure {
				hooks = append(hooks, c)
			}
		}
	}
	if len(hooks) < 2 {
		r.Unresolved("hook invocations of the restart step (bool-returning calls taking a closure)")
		return
	}
	name := map[ssa.Instruction]string{}
	for i, h := range hooks {
		name[h] = fmt.Sprintf("hook%d", i+1)
	}
	markerMirrored := lc.RestartingF != nil && p.flagMirrorsMarker(lc)
	spec := guardSpec{
		Atoms: func(in ssa.Instruction) (string, bool) {
			if u, ok := in.(*ssa.UnOp); ok && u.Op == token.MUL {
				if f, _ := fieldAddr(u.X); f == lc.Continue {
					return "continue", true
				}
				if f, _ := fieldAddr(u.X); f == lc.Restarting {
					return "restarting", true
				}
			}
			// a defensive nil test of the restart marker: with the restarting flag true the marker is non-nil (validated
			// correlation, see assumeRestarting)
			if bo, ok := in.(*ssa.BinOp); ok && (bo.Op == token.EQL || bo.Op == token.NEQ) && isNilConst(bo.Y) && markerMirrored {
				if f, _ := fieldLoad(bo.X); f == lc.RestartingF {
					if bo.Op == token.EQL {
						return "marker-nil", true
					}
					return "marker-set", true
				}
			}
			return "", false
		},
		Event:   func(in ssa.Instruction) string { return "" },
		Descend: true, // the zombie branch may be a helper of the handler
		Classify: func(in ssa.Instruction) string {
			if st, ok := in.(*ssa.Store); ok {
				if f, _ := fieldAddr(st.Addr); f == lc.Zombie {
					if b, isC := constBool(st.Val); isC && b {
						return "zombie"
					}
				}
			}
			if a := atomicCall(in); a != nil && a.Field == lc.State && a.Op == "Store" && len(a.Args) > 0 {
				if v, isC := constInt(a.Args[0]); isC && v == lc.Running {
					return "running"
				}
			}
			return ""
		},
	}
	// hook results are atoms too, and their execution is an event
	baseAtoms := spec.Atoms
	spec.Atoms = func(in ssa.Instruction) (string, bool) {
		if nm, ok := name[in]; ok {
			return nm, true
		}
		return baseAtoms(in)
	}
	// guardEval assigns atoms before events are recorded; record execution through a wrapper on Atoms
	for mask := 0; mask < 1<<len(hooks); mask++ {
		cell := map[string]gval{"continue": {known: true, isB: true, b: true}, "restarting": {known: true, isB: true, b: true}, "marker-nil": {known: true, isB: true, b: false}, "marker-set": {known: true, isB: true, b: true}}
		var failed []string
		for i := range hooks {
			ok := mask&(1<<i) != 0
			cell[fmt.Sprintf("hook%d", i+1)] = gval{known: true, isB: true, b: ok}
			if !ok {
				failed = append(failed, fmt.Sprintf("hook%d", i+1))
			}
		}
		var executed []map[string]bool
		var cur map[string]bool
		spec2 := spec
		spec2.Atoms = func(in ssa.Instruction) (string, bool) {
			nm, ok := spec.Atoms(in)
			if ok && strings.HasPrefix(nm, "hook") && cur != nil {
				cur[nm] = true
			}
			return nm, ok
		}
		_ = executed
		// evaluate once per path: guardEval forks internally, so execution is tracked per outcome by re-evaluating with the
		// failing hooks' execution made visible as events
		spec2.Event = func(in ssa.Instruction) string {
			if nm, ok := name[in]; ok {
				return "ran:" + nm
			}
			return ""
		}
		// Event is not called for atoms; make hook calls non-atoms for the event pass by pre-seeding their values through Bind
		outs := p.guardEvalHooks(fn, spec2, cell, name)
		good := len(outs) > 0
		var desc []string
		for _, o := range outs {
			desc = append(desc, o.Class+"["+strings.Join(o.Events, ",")+"]")
			ranFailed := false
			for _, e := range o.Events {
				for _, f := range failed {
					if e == "ran:"+f {
						ranFailed = true
					}
				}
			}
			if ranFailed && o.Class != "zombie" {
				good = false
			}
			if !ranFailed && o.Class != "running" && o.Class != "zombie" {
				good = false
			}
			if len(failed) == 0 && o.Class != "running" {
				good = false
			}
		}
		sort.Strings(desc)
		r.Check(good, fmt.Sprintf("restart step with failing hooks %v", failed), fn.Pos(), "whenever a hook that ran reported failure the step ends in the zombie branch and never stores state=running; with no failure it returns to running; evaluated: "+strings.Join(desc, " "))
	}
}

// guardEvalHooks: guardEval where the instructions of `hooks` are atoms (value from the cell) AND recorded as events.
func (p *Program) guardEvalHooks(fn *ssa.Function, spec guardSpec, cell map[string]gval, hooks map[ssa.Instruction]string) []guardOutcome {
	spec.AtomEvents = true
	return p.guardEval(fn, spec, cell)
}

// toChildrenTells: Kill / tell sites of g.Fn whose recipient derives from the child set.
func toChildrenTells(p *Program, lc *lifecycle, g *IG, children *types.Var) map[int]bool {
	out := map[int]bool{}
	kill := p.ctxMethod(lc, "Kill")
	for i, in := range g.Nodes {
		c := callOf(in)
		if c == nil {
			continue
		}
		var rcpt ssa.Value
		if c.StaticCallee() == kill && len(c.Args) > 1 {
			rcpt = c.Args[1]
		}
		for _, ts := range p.tellSites(g.Fn) {
			if ts.In == in {
				rcpt = ts.Recipient
			}
		}
		if rcpt == nil {
			continue
		}
		o := p.origins(rcpt)
		if anyContains(o, "Children") || (children != nil && anyContains(o, "."+children.Name()+"<-")) {
			out[i] = true
		}
	}
	return out
}

// c09IgnoredDirectives: see the explanation (R10).
func c09IgnoredDirectives(p *Program, r *Report) {
	lc := lcOrFail(p, r)
	if lc == nil {
		return
	}
	resumeSelf := func(g *IG) map[int]bool {
		return nodesWhere(g, func(in ssa.Instruction) bool {
			c := callOf(in)
			if c == nil || !c.IsInvoke() || c.Method.Name() != "Resume" {
				return false
			}
			f, _ := fieldLoad(c.Value)
			return f == lc.MailboxF
		})
	}
	// reaches the children: a Kill / tell whose recipient derives from the child table
	children := p.childrenField(lc)
	toChildren := func(g *IG) map[int]bool {
		per := toChildrenTells(p, lc, g, children)
		out := map[int]bool{}
		if len(per) == 0 {
			return out
		}
		// the node that obtains the child set (a loop over it may run zero times: no children, nothing stranded)
		for i, in := range g.Nodes {
			if c := callOf(in); c != nil && c.StaticCallee() != nil && c.StaticCallee().Name() == "Children" && c.StaticCallee().Signature.Recv() != nil && namedOf(c.StaticCallee().Signature.Recv().Type()) == lc.Ctx {
				out[i] = true
			}
			if u, ok := in.(*ssa.UnOp); ok && u.Op == token.MUL && children != nil {
				if f, _ := fieldAddr(u.X); f == children {
					out[i] = true
				}
			}
		}
		return out
	}
	// (a) ignored Restart, zombie: resumes itself
	rg := p.ig(lc.OnRestart)
	_, _, rfail := p.casEdges(rg, lc.State, &lc.Killing)
	if len(rfail) == 0 {
		r.Unresolved("CAS(running→killing) of the restart handler")
		return
	}
	res := resumeSelf(rg)
	avNotZ := p.assumeAvoid(rg, map[*types.Var]bool{lc.Zombie: true})
	okA := true
	for e := range rfail {
		if !res[e.to] && anyIn(rg.Reach([]int{e.to}, res, avNotZ), rg.Exits) {
			okA = false
		}
	}
	r.Check(okA, "ignored Restart: a zombie resumes its mailbox", lc.OnRestart.Pos(), "on the CAS-lost edge of the restart handler, with zombie==true, every path to the return calls Mailbox.Resume(): the supervisor paused the zombie before sending the Restart and nothing else will ever un-pause it")
	// (b) ignored Restart, already stopping: children un-paused
	tc := toChildren(rg)
	// assumed situation: not a zombie, a plain stop in progress (state observed killing, no restart marker): edges
	// contradicting it are not constrained — a dead actor has no children left, a restarting one is resumed by its restart step
	stopping := func(g *IG) map[edge]bool {
		av := p.assumeAvoid(g, map[*types.Var]bool{lc.Zombie: false})
		for _, ef := range p.edgeFacts(g) {
			switch {
			case ef.Field == lc.State && g.Idx[ef.Load] > 0 && contradicts(ef.Fact, lc.Killing):
				// only loads made after the lost CAS describe the state the ignored directive found
				av[ef.E] = true
			case ef.Field == lc.RestartingF && ef.Fact.IsNil && ef.Fact.Op == token.NEQ:
				av[ef.E] = true
			}
		}
		return av
	}
	avZ := stopping(rg)
	okB := true
	for e := range rfail {
		if !tc[e.to] && anyIn(rg.Reach([]int{e.to}, tc, avZ), rg.Exits) {
			okB = false
		}
	}
	r.Check(okB, "ignored Restart: a stopping actor un-pauses its children", lc.OnRestart.Pos(), "on the CAS-lost edge of the restart handler (actor already stopping) every path resumes / kills the children: a child paused for this supervision round still has its poison kill queued behind the pause")
	// (c) ignored Kill, already stopping: forwarded to the children
	kg := p.ig(lc.OnKill)
	_, _, kfail := p.casEdges(kg, lc.State, &lc.Killing)
	if len(kfail) == 0 {
		r.Unresolved("CAS(running→killing) of the kill handler")
		return
	}
	tk := toChildren(kg)
	avK := stopping(kg)
	// a graceful (poison) kill is not constrained: the graceful branches of the decision broadcast the resume command along
	// the whole escalation chain themselves
	for _, ef := range p.edgeFacts(kg) {
		if ef.Field.Name() == "Poison" && ef.Fact.Bool && ef.Fact.Op == token.NEQ {
			avK[ef.E] = true
		}
	}
	okC := true
	for e := range kfail {
		if !tk[e.to] && anyIn(kg.Reach([]int{e.to}, tk, avK), kg.Exits) {
			okC = false
		}
	}
	r.Check(okC, "ignored Kill: a stopping actor forwards it to its children", lc.OnKill.Pos(), "on the CAS-lost edge of the kill handler (actor already stopping) every path forwards the kill to / resumes the children: an immediate Stop decided for a supervisor that is already stopping gracefully must still reach a child paused behind its poison kill")
}

// applyGraph: the apply-decision function with its single-call helpers inlined (a directive's body extracted into a method
// stays part of the branch that calls it); role functions stay calls.
func (p *Program) applyGraph(s *supRoles, lc *lifecycle) *IG {
	skip := lc.roleFuncs(p)
	for _, f := range []*ssa.Function{s.Broadcast, s.NewSupCtx} {
		if f != nil {
			skip[f] = true
		}
	}
	return p.igxSkip(s.Apply, skip)
}

// tellSitesG: the tell sites of every function of the graph.
func (p *Program) tellSitesG(g *IG) []tellSite {
	var out []tellSite
	for _, f := range g.Fns {
		out = append(out, p.tellSites(f)...)
	}
	return out
}

// c09CommandsObeyed: the supervisor's Pause and Resume commands are the only thing that suspends and releases the targets of a
// decision (the resume broadcast at the end of a round reaches every target, zombies included). In the command handler, the
// case of each command calls the mailbox operation on every path — a condition in front of it (restart in progress, state)
// leaves a target paused that nobody will resume again.
func c09CommandsObeyed(p *Program, r *Report) {
	lc := lcOrFail(p, r)
	if lc == nil {
		return
	}
	var fn *ssa.Function
	for _, f := range p.methodsOf(lc.Ctx) {
		if f.Parent() != nil {
			continue
		}
		for _, prm := range f.Params {
			if strings.HasSuffix(typeName(prm.Type()), "NoneArgsCommandMessage") {
				fn = f
			}
		}
	}
	if fn == nil {
		r.Unresolved("command handler (context method taking the command message)")
		return
	}
	g := p.igx(fn)
	n := 0
	for _, opName := range []string{"Pause", "Resume"} {
		ops := nodesWhere(g, func(in ssa.Instruction) bool {
			c := callOf(in)
			if c == nil || !c.IsInvoke() || c.Method.Name() != opName {
				return false
			}
			f, _ := fieldLoad(strip(c.Value))
			return f == lc.MailboxF
		})
		if len(ops) == 0 {
			continue
		}
		// the case edges: comparisons of the message's command with a constant that dominate the operation
		var cases []edge
		for _, ef := range p.edgeFacts(g) {
			if ef.Fact.Op != token.EQL || ef.Fact.IsNil || ef.Fact.Bool || ef.Fact.Y != nil || ef.Field == nil || ef.Field.Name() != "Command" {
				continue
			}
			for o := range ops {
				if g.DominatedByEdges(o, map[edge]bool{ef.E: true}) {
					cases = append(cases, ef.E)
				}
			}
		}
		if len(cases) == 0 {
			r.Undecided("command case of "+opName, fn.Pos(), "the mailbox operation is not under a case edge comparing the message's command with a constant")
			continue
		}
		n++
		ok := true
		for _, e := range cases {
			if !ops[e.to] && anyIn(g.Reach([]int{e.to}, ops, nil), g.Exits) {
				ok = false
			}
		}
		r.Check(ok, "command case calls Mailbox."+opName+"() on every path", firstPos(g, ops), "from the case edge of the command every path to the exit passes the mailbox operation: the command is obeyed whatever the actor's state")
	}
	if n == 0 {
		r.Unresolved("no pause / resume case in the command handler")
	}
}

// latchSetEdges: the edges of g on which a set-once bool latch of the context (a field that g itself sets to true and that nothing in
// the module ever sets to anything else) is found already set.
func (p *Program) latchSetEdges(lc *lifecycle, g *IG) map[edge]bool {
	out := map[edge]bool{}
	mono := map[*types.Var]int{}
	for _, ef := range p.edgeFacts(g) {
		f := ef.Field
		if f == nil || f == lc.Zombie || !ef.Fact.Bool || ef.Fact.Op != token.NEQ || !isBool(f.Type()) || fieldVar(lc.Ctx, f.Name()) != f {
			continue
		}
		if mono[f] == 0 {
			mono[f] = 1
			setHere := false
			for _, a := range p.fieldAccesses(map[*types.Var]bool{f: true}) {
				if !a.Write || a.Fresh {
					continue
				}
				st, isSt := a.In.(*ssa.Store)
				b, isC := false, false
				if isSt {
					b, isC = constBool(st.Val)
				}
				if !isSt || !isC || !b {
					mono[f] = 2
				}
				if _, in := g.Idx[a.In]; in {
					setHere = true
				}
			}
			if !setHere {
				mono[f] = 2
			}
		}
		if mono[f] == 1 {
			out[ef.E] = true
		}
	}
	return out
}
