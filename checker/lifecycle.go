package main

// Lifecycle roles of the actor context: state field and its constants, the
// kill chain (recovered through the chain idiom) and its steps identified by
// their effects, the handler flags (continue / restarting).

import (
	"fmt"
	"go/token"
	"go/types"
	"strings"

	"golang.org/x/tools/go/ssa"
)

type lifecycle struct {
	Ctx            *types.Named
	Sys            *types.Named
	State          *types.Var
	Running        int64
	Killing        int64
	Killed         int64
	Zombie         *types.Var
	RestartingF    *types.Var // Context field holding the restart message (non-nil while restarting)
	MailboxF       *types.Var
	RefF           *types.Var // the actor's own reference (the field the Ref() accessor returns)
	ParentF        *types.Var // the parent's reference (the field the Parent() accessor returns)
	ActorF         *types.Var // field of type vivid.Actor
	EnvelopF       *types.Var // field of type vivid.Envelop (the message being handled)
	OptionsF       *types.Var // field of type *vivid.ActorOptions
	StackF         *types.Var // field of type *BehaviorStack
	HandleEnvelop  *ssa.Function
	OnKilledFn     *ssa.Function // runs the kill chain
	DoKill         *ssa.Function // forwards the kill to the children, runs the behaviour, then OnKilledFn
	OnKill         *ssa.Function
	OnRestart      *ssa.Function
	Chain          *chainRun
	HandlerT       *types.Named
	Continue       *types.Var // handler flag: proceed with termination
	Restarting     *types.Var // handler flag: this termination is a restart
	MarkKilled     *ssa.Function
	Cleanup        *ssa.Function
	SchedCleanup   *ssa.Function
	HandleRestart  *ssa.Function
	ChildDeath     *ssa.Function
	PrepareSelf    *ssa.Function
	ExecBehavior   *ssa.Function
	RemoveRegistry *ssa.Function // System method deleting the context from the registry
	AppendRegistry *ssa.Function
	ExecRecover    *ssa.Function // executeBehaviorWithRecovery
	Failed         *ssa.Function
	problems       []string
}

var lifecycleCache = map[*Program]*lifecycle{}

func (p *Program) lifecycle() *lifecycle {
	if lc, ok := lifecycleCache[p]; ok {
		return lc
	}
	lc := &lifecycle{}
	lifecycleCache[p] = lc
	bad := func(f string, a ...any) { lc.problems = append(lc.problems, fmt.Sprintf(f, a...)) }
	lc.Ctx = p.contextType()
	lc.Sys = p.systemType()
	if lc.Ctx == nil || lc.Sys == nil {
		bad("actor context / system type not found")
		return lc
	}
	lc.HandleEnvelop = p.methodNamed(lc.Ctx, "HandleEnvelop")
	// fields by role: what the public accessors return, or by (exported) type
	accessorField := func(name string) *types.Var {
		fn := p.methodNamed(lc.Ctx, name)
		if fn == nil {
			return nil
		}
		for _, b := range fn.Blocks {
			if ret, ok := b.Instrs[len(b.Instrs)-1].(*ssa.Return); ok && len(ret.Results) == 1 {
				v := ret.Results[0]
				for {
					switch x := v.(type) {
					case *ssa.MakeInterface:
						v = x.X
						continue
					case *ssa.ChangeInterface:
						v = x.X
						continue
					case *ssa.Phi: // `if c.parent == nil { return nil }; return c.parent`
						for _, e := range x.Edges {
							if f, _ := fieldLoad(e); f != nil {
								return f
							}
							if mi, ok := e.(*ssa.MakeInterface); ok {
								if f, _ := fieldLoad(mi.X); f != nil {
									return f
								}
							}
						}
					}
					break
				}
				if f, _ := fieldLoad(v); f != nil && fieldVar(lc.Ctx, f.Name()) == f {
					return f
				}
			}
		}
		return nil
	}
	lc.RefF, lc.ParentF = accessorField("Ref"), accessorField("Parent")
	{
		cst := lc.Ctx.Underlying().(*types.Struct)
		for i := 0; i < cst.NumFields(); i++ {
			f := cst.Field(i)
			n := namedOf(f.Type())
			if n == nil || n.Obj().Pkg() == nil {
				continue
			}
			root := n.Obj().Pkg().Path() == modPath
			switch {
			case root && n.Obj().Name() == "Actor":
				lc.ActorF = f
			case root && n.Obj().Name() == "Envelop":
				lc.EnvelopF = f
			case root && n.Obj().Name() == "ActorOptions":
				lc.OptionsF = f
			case n.Obj().Name() == "BehaviorStack":
				lc.StackF = f
			}
		}
	}
	for name, f := range map[string]*types.Var{"own reference": lc.RefF, "parent reference": lc.ParentF, "actor": lc.ActorF, "envelope": lc.EnvelopF, "options": lc.OptionsF, "behaviour stack": lc.StackF} {
		if f == nil {
			bad("context field by role: %s", name)
		}
	}
	st := lc.Ctx.Underlying().(*types.Struct)
	mb := p.Named("", "Mailbox")
	for i := 0; i < st.NumFields(); i++ {
		if mb != nil && types.Identical(st.Field(i).Type(), mb) {
			lc.MailboxF = st.Field(i)
		}
	}
	// state: the context field with CAS operations; constants from the CAS operands
	casCount := map[*types.Var]int{}
	methods := p.methodsOf(lc.Ctx)
	for _, fn := range p.Mod {
		for _, b := range fn.Blocks {
			for _, in := range b.Instrs {
				if a := atomicCall(in); a != nil && a.Op == "CAS" && a.Field != nil && fieldVar(lc.Ctx, a.Field.Name()) == a.Field {
					casCount[a.Field]++
				}
			}
		}
	}
	for f, n := range casCount {
		if n >= 2 {
			lc.State = f
		}
	}
	if lc.State == nil {
		bad("no CAS-managed state field on the context")
		return lc
	}
	lc.Running, lc.Killing, lc.Killed = 0, 1, 2
	// zombie: bool field of the context stored true in the restart step; restarting: pointer field nil-checked
	// kill chain: the context method that runs a void chain
	for _, fn := range methods {
		if fn.Parent() != nil {
			continue
		}
		for _, cr := range p.chainRuns(fn) {
			c := cr
			if len(c.Steps) >= 4 && c.Run.Call.StaticCallee() != nil && strings.Contains(c.Run.Call.StaticCallee().String(), "ChainsVoid") {
				lc.OnKilledFn = fn
				lc.Chain = &c
			}
		}
	}
	if lc.Chain == nil {
		bad("kill chain (void chain run by a context method) not found")
		return lc
	}
	for _, s := range lc.Chain.Steps {
		for _, f := range s.Funcs {
			if f.Signature.Recv() != nil {
				lc.HandlerT = namedOf(f.Signature.Recv().Type())
			}
			// the step itself and the helpers of the same handler it calls (a step may be split into helpers), depth 2
			scanFns := []*ssa.Function{f}
			for d, frontier := 0, []*ssa.Function{f}; d < 2 && f.Signature.Recv() != nil; d++ {
				var next []*ssa.Function
				for _, sf := range frontier {
					for _, b := range sf.Blocks {
						for _, in := range b.Instrs {
							c := callOf(in)
							if c == nil || c.StaticCallee() == nil || c.StaticCallee().Signature.Recv() == nil || len(c.StaticCallee().Blocks) == 0 {
								continue
							}
							y := c.StaticCallee()
							if namedOf(y.Signature.Recv().Type()) != namedOf(f.Signature.Recv().Type()) {
								continue
							}
							dup := false
							for _, q := range scanFns {
								if q == y {
									dup = true
								}
							}
							if !dup {
								scanFns = append(scanFns, y)
								next = append(next, y)
							}
						}
					}
				}
				frontier = next
			}
			has := func(pred func(in ssa.Instruction) bool) bool {
				for _, sf := range scanFns {
					for _, b := range sf.Blocks {
						for _, in := range b.Instrs {
							if pred(in) {
								return true
							}
						}
					}
				}
				return false
			}
			switch {
			case has(func(in ssa.Instruction) bool {
				a := atomicCall(in)
				if a == nil || a.Op != "CAS" || a.Field != lc.State {
					return false
				}
				v, ok := constInt(a.Args[1])
				return ok && v == lc.Killed
			}):
				lc.MarkKilled = f
			case has(func(in ssa.Instruction) bool {
				a := atomicCall(in)
				if a == nil || a.Op != "Store" || a.Field != lc.State {
					return false
				}
				v, ok := constInt(a.Args[0])
				return ok && v == lc.Running
			}):
				lc.HandleRestart = f
			case cleanupScore(f) >= 2:
				// the termination clean-up step is recognised by any two of its effects, so that deleting one of them
				// is reported as a missing effect (C06.R4) and not as a lost anchor
				lc.Cleanup = f
			case has(func(in ssa.Instruction) bool {
				c := callOf(in)
				return c != nil && c.StaticCallee() != nil && c.StaticCallee().Name() == "Clear" && c.StaticCallee().Signature.Recv() != nil
			}):
				lc.SchedCleanup = f
			case has(func(in ssa.Instruction) bool {
				// removes the dead child from the child table: directly (delete on a map field of the context) ...
				if cc, ok := in.(*ssa.Call); ok {
					if bi, ok := cc.Call.Value.(*ssa.Builtin); ok && bi.Name() == "delete" && len(cc.Call.Args) == 2 {
						if f, _ := fieldLoad(cc.Call.Args[0]); f != nil && fieldVar(lc.Ctx, f.Name()) == f {
							return true
						}
					}
				}
				c := callOf(in)
				if c == nil || c.StaticCallee() == nil {
					return false
				}
				// ... or through a helper of the context
				for _, b := range c.StaticCallee().Blocks {
					for _, in2 := range b.Instrs {
						if cc, ok := in2.(*ssa.Call); ok {
							if bi, ok := cc.Call.Value.(*ssa.Builtin); ok && bi.Name() == "delete" {
								return true
							}
						}
					}
				}
				return false
			}):
				lc.ChildDeath = f
			case has(func(in ssa.Instruction) bool {
				a, ok := in.(*ssa.Alloc)
				return ok && typeIs(a.Type().(*types.Pointer).Elem(), modPath, "OnKilled")
			}):
				lc.PrepareSelf = f
			default:
				lc.ExecBehavior = f
			}
		}
	}
	if lc.HandlerT != nil {
		hst, _ := lc.HandlerT.Underlying().(*types.Struct)
		// flags: bool fields of the handler; continue = the one stored in MarkKilled, restarting = the other one read by Cleanup
		if hst != nil && lc.MarkKilled != nil {
			for _, b := range lc.MarkKilled.Blocks {
				for _, in := range b.Instrs {
					if s, ok := in.(*ssa.Store); ok {
						if f, _ := fieldAddr(s.Addr); f != nil && isBool(f.Type()) && fieldVar(lc.HandlerT, f.Name()) == f {
							lc.Continue = f
						}
					}
				}
			}
		}
		// restarting flag: the other bool flag of the handler, read by the restart step (fallback: by the cleanup step)
		for _, src := range []*ssa.Function{lc.Cleanup, lc.HandleRestart} {
			if hst == nil || src == nil {
				continue
			}
			for _, ef := range p.edgeFacts(p.ig(src)) {
				if ef.Field != lc.Continue && isBool(ef.Field.Type()) && fieldVar(lc.HandlerT, ef.Field.Name()) == ef.Field {
					lc.Restarting = ef.Field
				}
			}
		}
	}
	// context fields: zombie (bool stored true in HandleRestart), restarting (pointer stored nil in HandleRestart)
	if lc.HandleRestart != nil {
		// the restart step or a helper of the same handler it calls (the zombie branch may be extracted)
		scan := []*ssa.Function{lc.HandleRestart}
		for _, b := range lc.HandleRestart.Blocks {
			for _, in := range b.Instrs {
				if c := callOf(in); c != nil && c.StaticCallee() != nil && c.StaticCallee().Signature.Recv() != nil && lc.HandleRestart.Signature.Recv() != nil &&
					namedOf(c.StaticCallee().Signature.Recv().Type()) == namedOf(lc.HandleRestart.Signature.Recv().Type()) {
					scan = append(scan, c.StaticCallee())
				}
			}
		}
		var all []ssa.Instruction
		for _, sf := range scan {
			for _, b := range sf.Blocks {
				all = append(all, b.Instrs...)
			}
		}
		for _, b := range []struct{ Instrs []ssa.Instruction }{{all}} {
			for _, in := range b.Instrs {
				if s, ok := in.(*ssa.Store); ok {
					f, _ := fieldAddr(s.Addr)
					if f == nil || fieldVar(lc.Ctx, f.Name()) != f {
						continue
					}
					if bv, ok := constBool(s.Val); ok && bv {
						lc.Zombie = f
					}
					if isNilConst(s.Val) {
						if _, isPtr := f.Type().Underlying().(*types.Pointer); isPtr {
							lc.RestartingF = f
						}
					}
				}
			}
		}
	}
	// doKill: the context method that calls OnKilledFn and ranges over children; onKill/onRestart: CAS(running→killing) then doKill
	for _, fn := range methods {
		if fn.Parent() != nil || fn == lc.HandleEnvelop {
			continue
		}
		callsOnKilled := false
		for _, b := range fn.Blocks {
			for _, in := range b.Instrs {
				if c := callOf(in); c != nil && c.StaticCallee() == lc.OnKilledFn {
					callsOnKilled = true
				}
			}
		}
		if callsOnKilled {
			lc.DoKill = fn
		}
	}
	for _, fn := range methods {
		if fn.Parent() != nil || lc.DoKill == nil {
			continue
		}
		callsDoKill, allocsOnKill := false, false
		for _, b := range fn.Blocks {
			for _, in := range b.Instrs {
				if c := callOf(in); c != nil && c.StaticCallee() == lc.DoKill {
					callsDoKill = true
				}
				if a, ok := in.(*ssa.Alloc); ok && typeIs(a.Type().(*types.Pointer).Elem(), modPath, "OnKill") {
					allocsOnKill = true
				}
			}
		}
		if callsDoKill && allocsOnKill {
			lc.OnRestart = fn
		} else if callsDoKill {
			lc.OnKill = fn
		}
	}
	// registry add/remove: System methods that Delete / LoadOrStore on the sync.Map with ctx.Ref().GetPath()
	for _, fn := range p.methodsOf(lc.Sys) {
		if fn.Parent() != nil || len(fn.Params) != 2 || namedOf(fn.Params[1].Type()) != lc.Ctx {
			continue
		}
		for _, b := range fn.Blocks {
			for _, in := range b.Instrs {
				switch calleeQual(callOf(in)) {
				case "(sync.Map).Delete":
					lc.RemoveRegistry = fn
				case "(sync.Map).LoadOrStore", "(sync.Map).Store":
					lc.AppendRegistry = fn
				}
			}
		}
	}
	// executeBehaviorWithRecovery: context method with a deferred closure that calls recover and a dynamic call of its Behavior parameter
	for _, fn := range methods {
		if fn.Parent() != nil || len(fn.AnonFuncs) == 0 || len(fn.Params) != 2 {
			continue
		}
		rec := false
		for _, a := range fn.AnonFuncs {
			for _, b := range a.Blocks {
				for _, in := range b.Instrs {
					if c, ok := in.(*ssa.Call); ok {
						if bi, ok := c.Call.Value.(*ssa.Builtin); ok && bi.Name() == "recover" {
							rec = true
						}
					}
				}
			}
		}
		dyn := false
		for _, b := range fn.Blocks {
			for _, in := range b.Instrs {
				if c, ok := in.(*ssa.Call); ok && c.Call.Value == ssa.Value(fn.Params[1]) {
					dyn = true
				}
			}
		}
		if rec && dyn {
			lc.ExecRecover = fn
		}
	}
	if lc.ExecRecover != nil {
		for _, a := range lc.ExecRecover.AnonFuncs {
			for _, b := range a.Blocks {
				for _, in := range b.Instrs {
					if c := callOf(in); c != nil && c.StaticCallee() != nil && c.StaticCallee().Signature.Recv() != nil &&
						namedOf(c.StaticCallee().Signature.Recv().Type()) == lc.Ctx && len(c.StaticCallee().Params) == 2 {
						// the call that receives the recovered value
						if _, isExtract := strip(c.Args[1]).(*ssa.Call); isExtract || true {
							cal := c.StaticCallee()
							pausing := false
							for _, bb := range cal.Blocks {
								for _, i2 := range bb.Instrs {
									if cc := callOf(i2); cc != nil && cc.IsInvoke() && cc.Method.Name() == "Pause" {
										pausing = true
									}
								}
							}
							fromRecover := false
							if rc, ok := strip(c.Args[1]).(*ssa.Call); ok {
								if bi, ok := rc.Call.Value.(*ssa.Builtin); ok && bi.Name() == "recover" {
									fromRecover = true
								}
							}
							if pausing || fromRecover {
								lc.Failed = cal
							}
						}
					}
				}
			}
		}
	}
	for name, v := range map[string]any{"HandleEnvelop": lc.HandleEnvelop, "mark-killed step": lc.MarkKilled, "cleanup step": lc.Cleanup,
		"restart step": lc.HandleRestart, "child-death step": lc.ChildDeath, "doKill": lc.DoKill, "onKill": lc.OnKill, "onRestart": lc.OnRestart,
		"registry remove": lc.RemoveRegistry, "registry append": lc.AppendRegistry, "recover wrapper": lc.ExecRecover, "failed": lc.Failed} {
		if f, _ := v.(*ssa.Function); f == nil {
			bad("lifecycle role %q not found", name)
		}
	}
	for name, v := range map[string]*types.Var{"continue flag": lc.Continue, "restarting flag": lc.Restarting, "zombie": lc.Zombie, "restarting field": lc.RestartingF, "mailbox field": lc.MailboxF} {
		if v == nil {
			bad("lifecycle role %q not found", name)
		}
	}
	return lc
}

func isBool(t types.Type) bool {
	b, ok := t.Underlying().(*types.Basic)
	return ok && b.Kind() == types.Bool
}

// assumeAvoid: the edges of g that contradict the assumed boolean values of the given fields
// (plain loads of the fields; `x != nil` style for pointer fields via nilAssume).
func (p *Program) assumeAvoid(g *IG, assume map[*types.Var]bool) map[edge]bool {
	out := map[edge]bool{}
	for _, ef := range p.edgeFacts(g) {
		want, ok := assume[ef.Field]
		if !ok {
			continue
		}
		if ef.Fact.Bool {
			isTrue := ef.Fact.Op == token.NEQ
			if isTrue != want {
				out[ef.E] = true
			}
		} else if ef.Fact.IsNil {
			// pointer field: "true" means non-nil
			nonNil := ef.Fact.Op == token.NEQ
			if nonNil != want {
				out[ef.E] = true
			}
		}
	}
	return out
}

// assumeRestarting: the edges excluded when a chain step is analysed under "continue ∧ restarting". Besides the two handler
// flags this covers the context's restart marker itself: the handler's restarting flag is computed as (marker != nil) earlier
// in the same chain run on the same goroutine, and the marker is cleared only inside the restart step — so a defensive
// `marker == nil` test in a later step cannot be taken while the flag is true. The correlation is validated, not assumed:
// every store of the flag is that comparison (or a constant false), and every nil store of the marker in the module lies in
// the restart step's own (spliced) graph or in a handler no chain step calls; inside g the test must not be reachable from
// such a store.
func (p *Program) assumeRestarting(lc *lifecycle, g *IG) map[edge]bool {
	out := p.assumeAvoid(g, map[*types.Var]bool{lc.Continue: true, lc.Restarting: true})
	if lc.RestartingF == nil || lc.Restarting == nil || lc.HandleRestart == nil || !p.flagMirrorsMarker(lc) {
		return out
	}
	clears := nodesWhere(g, func(in ssa.Instruction) bool {
		st, ok := in.(*ssa.Store)
		if !ok {
			return false
		}
		f, _ := fieldAddr(st.Addr)
		return f == lc.RestartingF
	})
	for _, ef := range p.edgeFacts(g) {
		if ef.Field != lc.RestartingF || !ef.Fact.IsNil || ef.Fact.Op != token.EQL {
			continue
		}
		after := false
		for c := range clears {
			if g.ReachAfter(c, nil, nil)[ef.E.from] {
				after = true
			}
		}
		if !after {
			out[ef.E] = true
		}
	}
	return out
}

var mirrorCache = map[*lifecycle]int{}

func (p *Program) flagMirrorsMarker(lc *lifecycle) bool {
	if v, ok := mirrorCache[lc]; ok {
		return v == 1
	}
	good := true
	nFlag := 0
	rg := p.igxSkip(lc.HandleRestart, lc.roleFuncs(p))
	for _, a := range p.fieldAccesses(map[*types.Var]bool{lc.Restarting: true, lc.RestartingF: true}) {
		if !a.Write {
			continue
		}
		st, isSt := a.In.(*ssa.Store)
		if !isSt {
			if a.Fresh {
				continue
			}
			good = false
			continue
		}
		f, _ := fieldAddr(st.Addr)
		switch f {
		case lc.Restarting:
			if b, isC := constBool(st.Val); isC && !b {
				continue
			}
			bo, isB := st.Val.(*ssa.BinOp)
			if !isB || bo.Op != token.NEQ || !isNilConst(bo.Y) {
				good = false
				continue
			}
			if lf, _ := fieldLoad(bo.X); lf != lc.RestartingF {
				good = false
			}
			nFlag++
		case lc.RestartingF:
			if isNilConst(st.Val) && !a.Fresh && !rg.owns(p, a.Fn) {
				// … or in a handler that no step of the chain calls (it cannot run between the step that computes the flag and
				// the restart step: the chain runs synchronously on the actor's goroutine)
				fnA := a.Fn
				called := false
				for _, stp := range lc.Chain.Steps {
					for _, sf := range stp.Funcs {
						if sf == fnA || p.mayDo(sf, func(in ssa.Instruction) bool { c := callOf(in); return c != nil && c.StaticCallee() == fnA }, 3, map[*ssa.Function]bool{}) {
							called = true
						}
					}
				}
				if called {
					good = false
				}
			}
		}
	}
	if nFlag == 0 {
		good = false
	}
	mirrorCache[lc] = map[bool]int{true: 1, false: 2}[good]
	return good
}

// effectOnPaths: for the cleanup step — is a call named `name` (method or function name) executed
// on every terminating non-restart path, and is it reachable when restarting?
func (lc *lifecycle) effectOnPaths(name string) (onTermination, onRestart bool) {
	p := lcProgram(lc)
	g := p.igx(lc.Cleanup) // an effect moved into a single-use helper of the cleanup step is still the step's own
	eff := nodesWhere(g, func(in ssa.Instruction) bool {
		c := callOf(in)
		if c == nil {
			return false
		}
		if c.IsInvoke() {
			return c.Method.Name() == name
		}
		return c.StaticCallee() != nil && c.StaticCallee().Name() == name
	})
	term := p.assumeAvoid(g, map[*types.Var]bool{lc.Continue: true, lc.Restarting: false})
	onTermination = len(eff) > 0 && !anyIn(g.Reach(g.entry(), eff, term), g.Exits)
	rs := p.assumeAvoid(g, map[*types.Var]bool{lc.Continue: true, lc.Restarting: true})
	reach := g.Reach(g.entry(), nil, rs)
	for e := range eff {
		if reach[e] {
			onRestart = true
		}
	}
	return
}

func lcProgram(lc *lifecycle) *Program {
	for p, l := range lifecycleCache {
		if l == lc {
			return p
		}
	}
	return nil
}

// cleanupScore counts the distinct termination effects a chain step performs, itself or through helpers on the same receiver
// type that it calls (a step split into `releaseIdentity()` + `notifyTermination()` is still the clean-up step).
func cleanupScore(f *ssa.Function) int {
	seen := map[string]bool{}
	visited := map[*ssa.Function]bool{}
	var scan func(g *ssa.Function, depth int)
	scan = func(g *ssa.Function, depth int) {
		if visited[g] || depth > 2 {
			return
		}
		visited[g] = true
		for _, b := range g.Blocks {
			for _, in := range b.Instrs {
				c := callOf(in)
				if c == nil {
					continue
				}
				if c.IsInvoke() {
					switch c.Method.Name() {
					case "UnsubscribeAll", "Publish", "Resume":
						seen[c.Method.Name()] = true
					}
					continue
				}
				cal := c.StaticCallee()
				if cal == nil {
					continue
				}
				for _, bb := range cal.Blocks {
					for _, i2 := range bb.Instrs {
						if calleeQual(callOf(i2)) == "(sync.Map).Delete" {
							seen["registry-delete"] = true
						}
					}
				}
				if len(cal.Params) == 4 && isBool(cal.Params[1].Type()) {
					seen["tell"] = true
				}
				// a helper of the same handler
				if f.Signature.Recv() != nil && cal.Signature.Recv() != nil && namedOf(cal.Signature.Recv().Type()) == namedOf(f.Signature.Recv().Type()) && namedOf(cal.Signature.Recv().Type()) != nil {
					scan(cal, depth+1)
				}
			}
		}
	}
	scan(f, 0)
	return len(seen)
}

// roleFuncs: the functions that rules identify by role; they stay opaque calls when a role function's graph is inlined.
func (lc *lifecycle) roleFuncs(p *Program) map[*ssa.Function]bool {
	m := map[*ssa.Function]bool{}
	for _, f := range []*ssa.Function{lc.HandleEnvelop, lc.OnKilledFn, lc.DoKill, lc.OnKill, lc.OnRestart, lc.MarkKilled, lc.Cleanup, lc.SchedCleanup, lc.HandleRestart,
		lc.ChildDeath, lc.PrepareSelf, lc.ExecBehavior, lc.RemoveRegistry, lc.AppendRegistry, lc.ExecRecover, lc.Failed, p.tellFunc()} {
		if f != nil {
			m[f] = true
		}
	}
	for _, name := range []string{"Kill", "Tell", "TellSelf", "Ask", "ActorOf", "Watch", "Unwatch", "Reply"} {
		if f := p.methodNamed(lc.Ctx, name); f != nil {
			m[f] = true
		}
	}
	// constructors of the context
	for _, fn := range p.Mod {
		if res := fn.Signature.Results(); res.Len() == 2 && namedOf(res.At(0).Type()) == lc.Ctx && fn.Parent() == nil {
			m[fn] = true
		}
	}
	return m
}

// pat: the provenance-chain segment of a context field, e.g. "Context.ref<-" (names taken from the program, not fixed).
func (lc *lifecycle) pat(f *types.Var) string {
	if f == nil {
		return "\x00unresolved-field\x00"
	}
	return lc.Ctx.Obj().Name() + "." + f.Name() + "<-"
}
