package main

// C03 — processed, stashed, or dead-lettered.

import (
	"fmt"
	"go/token"
	"go/types"
	"sort"
	"strings"

	"golang.org/x/tools/go/ssa"
)

func init() {
	register(&Property{
		ID: "C03",
		Explanation: "Decided: (R1) the mailbox lookup and the remoting mailbox factory never return nil; (R2) in the envelope handler every (state, system?, zombie?) cell in which the actor may not process the message leads to exactly one dead-letter emission wrapping the received envelope (root: drop) and to no behaviour dispatch; " +
			"(R2b) the early-return guard's truth table is exactly: killed∧¬zombie, or user∧state≠running∧¬zombie; (R3) a dead-letter emission is dominated by a condition that separates the root, so the root cannot feed itself; " +
			"(R4) the guard actor republishes a received dead letter exactly once on the event stream; (R5) both terminal paths of an actor whose mailbox may be paused resume it (parked mail drains to dead letters); " +
			"(R6) every failing exit of the remoting send reports the envelope, and the report emits one dead letter. " +
			"(R7) the mailbox cache inside a reference is written only with the mailbox of a context found registered at the reference's path, a dead-lettering mailbox, or the root's own for the root's path — never with the mailbox of an actor the reference does not name; (R10) when nothing is registered at a local path the lookup yields a mailbox whose Enqueue turns the envelope into a dead letter on every path (the root's own mailbox only for the root's own path). (R8 = C01.R2) a message accepted by Enqueue is never stranded in an idle mailbox; (R9) the registry removal routine, which deletes by path, is called only from the dying actor's own cleanup step with its own context. (R11 = C09.R7) whatever the supervisor paused is recorded as a target on every path of apply-decision, so the resume of this or a higher level reaches it and parked mail surfaces; (R12 = C02.R6) a stashed message leaves the stash only through Unstash. (R13 = C02.R4) Unstash re-enqueues exactly the prefix it removes; (R14) the ask routine enqueues its request envelope on every path, whatever became of its future; (R15 = the closer check of C04.R1) a completed ask is unregistered exactly once on every completing path (time-out included), so a late reply misses the registry and becomes a dead letter instead of vanishing in the closed future; (R16) every return of the lookup that yields the root's own mailbox is dominated by an edge on which the reference names the root, is nil, or the system context is done — never a fallback for an unroutable reference (F43: with remoting disabled a Kill addressed to another node killed the system). NOT decided: exactly-once accounting across racing sends and transitions; staleness of a correctly filled cache across name reuse.",
		Assumptions: []string{"the dead-letter emission is TellSelf(ves.DeathLetterEvent) on the system (root) context"},
		Rules: []Rule{
			{ID: "C03.R1", Min: 2, Desc: "mailbox lookup is total", Fn: c03Lookup},
			{ID: "C03.R2", Min: 12, Desc: "dead-letter branch and guard truth table", Fn: c03Guard},
			{ID: "C03.R3", Min: 1, Desc: "no self-feeding dead letters", Fn: c03SelfFeed},
			{ID: "C03.R4", Min: 1, Desc: "guard republishes dead letters once", Fn: c03Republish},
			{ID: "C03.R5", Min: 2, Desc: "parked mail surfaces: Resume on both terminal paths", Fn: c03Parked},
			{ID: "C03.R6", Min: 2, Desc: "remote send failure is reported as a dead letter", Fn: c03RemoteFailure},
			{ID: "C03.R8", Min: 2, Desc: "no accepted message is stranded in an idle mailbox (C01.R2 release-then-recheck)", Fn: c01Release},
			{ID: "C03.R9", Min: 1, Desc: "a path's registry entry is removed only by the termination of the actor registered there", Fn: c03RegistryOwner},
			{ID: "C03.R11", Min: 3, Desc: "everything the supervisor paused is recorded on every path, so the resume of this or a higher level reaches it (C09.R7)", Fn: c08RecordedTargets},
			{ID: "C03.R12", Min: 3, Desc: "a stashed message leaves the stash only through Unstash (C02.R6)", Fn: c02StashWriters},
			{ID: "C03.R13", Min: 2, Desc: "a stashed message leaves the stash only into the mailbox: Unstash re-enqueues exactly the prefix it removes and releases the array only when nothing remains (C02.R4)", Fn: c02Unstash},
			{ID: "C03.R14", Min: 1, Desc: "Ask sends its request on every path", Fn: c03AskSends},
			{ID: "C03.R10", Min: 1, Desc: "an unregistered local path resolves to a dead-lettering mailbox, never to another actor's", Fn: c03Unregistered},
			{ID: "C03.R15", Min: 1, Desc: "a completed ask is unregistered exactly once on every completing path, so a late reply misses the registry and is dead-lettered (the closer check of C04.R1)", Fn: func(p *Program, r *Report) {
				r.only(c04OneShot, func(c string) bool { return strings.Contains(c, "closer") })
			}},
			{ID: "C03.R16", Min: 2, Desc: "the mailbox lookup hands out the root's own mailbox only for the root (own path, nil reference, system context done)", Fn: c03RootMailboxOnlyForRoot},
			{ID: "C03.R7", Min: 1, Desc: "a reference caches only the mailbox of the actor registered at its path (or a dead-lettering one)", Fn: c03CacheSound},
		},
	})
}

func isDeathLetterValue(v ssa.Value) bool {
	t := strip(v).Type()
	if mi, ok := v.(*ssa.MakeInterface); ok {
		t = mi.X.Type()
	}
	return strings.HasSuffix(typeName(t), "ves.DeathLetterEvent")
}

// deathLetterEnvelope: the value stored into the Envelope field of the struct literal behind v.
func deathLetterEnvelope(v ssa.Value) ssa.Value {
	if mi, ok := v.(*ssa.MakeInterface); ok {
		v = mi.X
	}
	u, ok := v.(*ssa.UnOp)
	if !ok || u.Op != token.MUL {
		return nil
	}
	al, ok := u.X.(*ssa.Alloc)
	if !ok {
		return nil
	}
	val, _ := storedField(al, "Envelope")
	return val
}

func c03Lookup(p *Program, r *Report) {
	mb := p.Named("", "Mailbox")
	n := 0
	for _, fn := range p.Mod {
		if fn.Parent() != nil || fn.Signature.Recv() == nil {
			continue
		}
		res := fn.Signature.Results()
		if res.Len() != 1 {
			continue
		}
		isLookup := mb != nil && types.Identical(res.At(0).Type(), mb) && fn.Signature.Params().Len() == 1 && fn.Name() != "Mailbox"
		isFactory := fn.Name() == "GetOrCreate" && implementsIface(res.At(0).Type(), p.Iface("", "Mailbox"))
		if !isLookup && !isFactory {
			continue
		}
		n++
		ok := true
		var check func(v ssa.Value, depth int)
		check = func(v ssa.Value, depth int) {
			if depth > 4 {
				return
			}
			if isNilConst(v) {
				ok = false
			}
			if ph, isPhi := v.(*ssa.Phi); isPhi {
				for _, e := range ph.Edges {
					check(e, depth+1)
				}
			}
			if mi, isMI := v.(*ssa.MakeInterface); isMI {
				check(mi.X, depth+1)
			}
		}
		nret := 0
		for _, b := range fn.Blocks {
			for _, in := range b.Instrs {
				if ret, isRet := in.(*ssa.Return); isRet {
					nret++
					check(retOperand(ret, 0), 0)
				}
			}
		}
		r.Check(ok && nret > 0, "lookup "+fnName(fn)+" never yields nil", fn.Pos(), fmt.Sprintf("none of the %d returns yields the nil constant: an unknown, stale or remote-disabled address still resolves to some mailbox (which one: R10, C15.R3)", nret))
	}
	if n < 2 {
		r.Unresolved("mailbox lookup / remoting mailbox factory")
	}
}

func c03Guard(p *Program, r *Report) {
	lc := lcOrFail(p, r)
	if lc == nil {
		return
	}
	fn := lc.HandleEnvelop
	if len(fn.Params) < 2 {
		r.Unresolved("HandleEnvelop(envelop)")
		return
	}
	env := fn.Params[1]
	dl := map[ssa.Instruction]ssa.Value{}
	scanned := map[*ssa.Function]bool{}
	scan := func(f *ssa.Function) {
		if f == nil || scanned[f] {
			return
		}
		scanned[f] = true
		for _, ts := range p.tellSites(f) {
			if isDeathLetterValue(ts.Message) {
				dl[ts.In] = ts.Message
			}
		}
	}
	scan(fn)
	var spec guardSpec
	spec = guardSpec{
		Descend: true,
		Bind:    map[ssa.Value]ssa.Value{},
		Atoms: func(in ssa.Instruction) (string, bool) {
			if a := atomicCall(in); a != nil && a.Op == "Load" && a.Field == lc.State {
				return "state", true
			}
			if c, ok := in.(*ssa.Call); ok && c.Call.IsInvoke() && c.Call.Method.Name() == "System" && types.Identical(c.Call.Value.Type(), env.Type()) {
				return "system", true // System() of the envelope (also inside an extracted guard helper, where it is that helper's parameter)
			}
			if u, ok := in.(*ssa.UnOp); ok && u.Op == token.MUL {
				if f, _ := fieldAddr(u.X); f == lc.Zombie {
					return "zombie", true
				}
			}
			return "", false
		},
		Event: func(in ssa.Instruction) string {
			scan(in.Parent()) // an extracted reporting helper is scanned on first visit
			if m, ok := dl[in]; ok {
				if e := deathLetterEnvelope(m); e != nil && spec.resolve(e) == ssa.Value(env) {
					return "deadletter(envelope)"
				}
				return "deadletter(other)"
			}
			return ""
		},
		Classify: func(in ssa.Instruction) string {
			if st, ok := in.(*ssa.Store); ok {
				if f, _ := fieldAddr(st.Addr); f != nil && fieldVar(lc.Ctx, f.Name()) == f && spec.resolve(st.Val) == ssa.Value(env) {
					return "dispatch"
				}
			}
			if c := callOf(in); c != nil && c.StaticCallee() != nil {
				cal := c.StaticCallee()
				if cal == lc.ExecRecover || cal == lc.OnKill || cal == lc.OnRestart || cal == lc.OnKilledFn {
					return "dispatch"
				}
			}
			return ""
		},
	}
	names := map[int64]string{lc.Running: "running", lc.Killing: "killing", lc.Killed: "killed"}
	for _, st := range []int64{lc.Running, lc.Killing, lc.Killed} {
		for _, sys := range []bool{true, false} {
			for _, z := range []bool{true, false} {
				cell := map[string]gval{"state": {known: true, i: st}, "system": {known: true, isB: true, b: sys}, "zombie": {known: true, isB: true, b: z}}
				outs := p.guardEval(fn, spec, cell)
				var desc []string
				for _, o := range outs {
					desc = append(desc, o.Class+"["+strings.Join(o.Events, ",")+"]")
				}
				sort.Strings(desc)
				wantDispatch := z || st == lc.Running || (st == lc.Killing && sys)
				ok := len(outs) > 0
				for _, o := range outs {
					if wantDispatch {
						if o.Class != "dispatch" || len(o.Events) > 0 {
							ok = false
						}
					} else {
						// early return: no dispatch; either one dead letter wrapping the envelope, or (root) a silent drop
						if !strings.HasPrefix(o.Class, "return") {
							ok = false
						}
						if len(o.Events) > 1 || (len(o.Events) == 1 && o.Events[0] != "deadletter(envelope)") {
							ok = false
						}
					}
				}
				if !wantDispatch {
					// at least one outcome emits the dead letter (the non-root case)
					emits := false
					for _, o := range outs {
						if len(o.Events) == 1 {
							emits = true
						}
					}
					ok = ok && emits
				}
				want := "dispatch to the behaviour"
				if !wantDispatch {
					want = "return after exactly one dead letter wrapping the received envelope (root: drop), no dispatch"
				}
				r.Check(ok, fmt.Sprintf("HandleEnvelop cell state=%s system=%v zombie=%v", names[st], sys, z), fn.Pos(), fmt.Sprintf("expected: %s; evaluated outcomes: %s", want, strings.Join(desc, " ")))
			}
		}
	}
}

func c03SelfFeed(p *Program, r *Report) {
	lc := lcOrFail(p, r)
	if lc == nil {
		return
	}
	fn := lc.HandleEnvelop
	g := p.igx(fn) // an extracted single-call reporting helper stays part of the paths
	n := 0
	var sites []tellSite
	for _, f := range g.Fns {
		sites = append(sites, p.tellSites(f)...)
	}
	for _, ts := range sites {
		if !isDeathLetterValue(ts.Message) {
			continue
		}
		n++
		// dominated by an edge that separates the root: parent != nil
		sep := map[edge]bool{}
		for _, ef := range p.edgeFacts(g) {
			if ef.Field == lc.ParentF && ef.Fact.IsNil && ef.Fact.Op == token.NEQ {
				sep[ef.E] = true
			}
		}
		// also accepted: a type test excluding DeathLetterEvent payloads
		r.Check(len(sep) > 0 && g.DominatedByEdges(g.Idx[ts.In], sep), "dead-letter emission cannot target the emitting root", ts.In.Pos(),
			"the emission is dominated by a parent!=nil edge: the re-sent envelope is a user message and the branch changes neither state nor zombie, so without such a separation a stopped root would re-enter this branch for its own dead letters forever")
	}
	if n == 0 {
		r.Unresolved("no dead-letter emission in HandleEnvelop")
	}
}

func c03Republish(p *Program, r *Report) {
	n := 0
	for _, fn := range p.Mod {
		pk := fnPkg(fn)
		if pk == nil || !strings.HasSuffix(pk.Path(), "/internal/guard") {
			continue
		}
		g := p.ig(fn)
		for _, in := range g.Nodes {
			ta, ok := in.(*ssa.TypeAssert)
			if !ok || !strings.HasSuffix(typeName(ta.AssertedType), "ves.DeathLetterEvent") {
				continue
			}
			n++
			// ok edge
			okE := map[edge]bool{}
			var asserted ssa.Value = ta
			if ta.CommaOk {
				for _, ifi := range ifsOf(fn) {
					for _, outcome := range []bool{true, false} {
						f, ok := condFact(ifi.Cond, outcome)
						if ok && f.Bool && f.Op == token.NEQ {
							if ex, ok := f.X.(*ssa.Extract); ok && ex.Tuple == ssa.Value(ta) && ex.Index == 1 {
								okE[g.branchEdge(ifi, outcome)] = true
							}
						}
					}
				}
			}
			good := len(okE) > 0
			for e := range okE {
				// every path from the ok edge to the exit passes exactly one republishing call
				pubs := map[int]bool{}
				for i, in2 := range g.Nodes {
					c := callOf(in2)
					if c == nil {
						continue
					}
					if c.IsInvoke() && c.Method.Name() == "Publish" && len(c.Args) == 2 && derivesFromExtract(c.Args[1], ta, 0) {
						pubs[i] = true
					}
					if cal := c.StaticCallee(); cal != nil && p.inModule(cal) {
						for ai, a := range c.Args {
							if derivesFromExtract(a, ta, 0) && p.publishesParamOnce(cal, ai) {
								pubs[i] = true
							}
						}
					}
				}
				if len(pubs) == 0 || anyIn(g.Reach([]int{e.to}, pubs, nil), g.Exits) && !pubs[e.to] {
					good = false
				}
				for pn := range pubs {
					reach := g.ReachAfter(pn, nil, nil)
					for pn2 := range pubs {
						if reach[pn2] {
							good = false
						}
					}
				}
			}
			_ = asserted
			r.Check(good, "guard republishes a dead letter once in "+fnName(fn), ta.Pos(), "the DeathLetterEvent case leads on every path to exactly one EventStream.Publish of the received value")
		}
	}
	if n == 0 {
		r.Unresolved("guard actor's DeathLetterEvent case")
	}
}

// publishesParamOnce: every path through fn calls EventStream.Publish(…, param i) exactly once.
func (p *Program) publishesParamOnce(fn *ssa.Function, i int) bool {
	if i >= len(fn.Params) {
		return false
	}
	g := p.ig(fn)
	pubs := nodesWhere(g, func(in ssa.Instruction) bool {
		c := callOf(in)
		return c != nil && c.IsInvoke() && c.Method.Name() == "Publish" && len(c.Args) == 2 && strip(c.Args[1]) == ssa.Value(fn.Params[i])
	})
	if len(pubs) == 0 || anyIn(g.Reach(g.entry(), pubs, nil), g.Exits) {
		return false
	}
	for a := range pubs {
		reach := g.ReachAfter(a, nil, nil)
		for b := range pubs {
			if reach[b] {
				return false
			}
		}
	}
	return true
}

func c03Parked(p *Program, r *Report) {
	lc := lcOrFail(p, r)
	if lc == nil {
		return
	}
	term, _ := lc.effectOnPaths("Resume")
	r.Check(term, "terminated actor resumes its mailbox", lc.Cleanup.Pos(), "on every terminating path the cleanup step calls Mailbox.Resume(): mail parked behind a supervision pause drains to dead letters instead of being silently kept")
	// restart failure (zombie) path resumes
	g := p.igxSkip(lc.HandleRestart, lc.roleFuncs(p))
	zs := nodesWhere(g, func(in ssa.Instruction) bool {
		st, ok := in.(*ssa.Store)
		if !ok {
			return false
		}
		f, _ := fieldAddr(st.Addr)
		return f == lc.Zombie
	})
	resume := nodesWhere(g, func(in ssa.Instruction) bool {
		c := callOf(in)
		return c != nil && c.IsInvoke() && c.Method.Name() == "Resume"
	})
	ok := len(zs) > 0 && len(resume) > 0
	for z := range zs {
		if anyIn(g.ReachAfter(z, resume, nil), g.Exits) {
			ok = false
		}
	}
	r.Check(ok, "zombie resumes its mailbox", firstPos(g, zs), "after marking the actor a zombie every path to the exit calls Mailbox.Resume()")
}

func c03RemoteFailure(p *Program, r *Report) {
	// the remoting mailbox: implementation of vivid.Mailbox in the remoting package that holds a NetworkEnvelopHandler
	var enq *ssa.Function
	for _, fn := range p.Mod {
		pk := fnPkg(fn)
		if fn.Parent() == nil && fn.Name() == "Enqueue" && pk != nil && strings.HasSuffix(pk.Path(), "/internal/remoting") {
			enq = fn
		}
	}
	if enq == nil {
		r.Unresolved("remoting Mailbox.Enqueue")
		return
	}
	g := p.ig(enq)
	env := enq.Params[1]
	report := nodesWhere(g, func(in ssa.Instruction) bool {
		c := callOf(in)
		return c != nil && c.IsInvoke() && c.Method.Name() == "HandleFailedRemotingEnvelop" && len(c.Args) == 1 && strip(c.Args[0]) == ssa.Value(env)
	})
	// err of the send loop: Extract #1 of a call returning (bool, error)
	errE := map[edge]bool{}
	for _, ifi := range ifsOf(enq) {
		for _, outcome := range []bool{true, false} {
			f, ok := condFact(ifi.Cond, outcome)
			if !ok || !f.IsNil || f.Op != token.NEQ {
				continue
			}
			if ex, ok := f.X.(*ssa.Extract); ok {
				if _, isCall := ex.Tuple.(*ssa.Call); isCall && types.Identical(ex.Type(), types.Universe.Lookup("error").Type()) {
					errE[g.branchEdge(ifi, outcome)] = true
				}
			}
		}
	}
	ok := len(report) > 0 && len(errE) > 0
	for e := range errE {
		if !report[e.to] && anyIn(g.Reach([]int{e.to}, report, nil), g.Exits) {
			ok = false
		}
	}
	r.Check(ok, "failed remote send reports the envelope", firstPos(g, report), "every path from the send loop's err!=nil edge to the exit calls HandleFailedRemotingEnvelop(envelop)")
	// the send loop's closure returns an error on every failing exit (abort on encode failure, retry exhaustion): see C14.R2
	// implementation of the report emits one dead letter carrying the envelope
	n := 0
	for _, fn := range p.Mod {
		if fn.Name() != "HandleFailedRemotingEnvelop" || fn.Parent() != nil || len(fn.Blocks) == 0 || fn.Synthetic != "" {
			continue
		}
		n++
		fg := p.igx(fn) // the emission may live in a helper shared with the envelope handler
		emits := map[int]bool{}
		for _, ts := range p.tellSitesG(fg) {
			if isDeathLetterValue(ts.Message) {
				if e := deathLetterEnvelope(ts.Message); e != nil && fg.res(e) == ssa.Value(fn.Params[1]) {
					emits[fg.Idx[ts.In]] = true
				}
			}
		}
		good := len(emits) == 1 && !anyIn(fg.Reach(fg.entry(), emits, nil), fg.Exits)
		r.Check(good, "failure report emits one dead letter in "+fnName(fn), fn.Pos(), "every path through the report tells exactly one DeathLetterEvent wrapping the failed envelope to the root")
	}
	if n == 0 {
		r.Unresolved("implementation of HandleFailedRemotingEnvelop")
	}
}

func c03CacheSound(p *Program, r *Report) { cacheSound(p, r, false) }

// c19CacheOnlyFound: the strict form — a memoised MISS is a violation too. A reference is resolved before its actor is
// registered whenever something is sent to it from OnPrelaunch's window (a subscriber that subscribes in OnPrelaunch and an
// event published before ActorOf registers the context): pinning the dead-lettering mailbox then turns every later event for
// the subscriber — and the OnLaunch ActorOf sends through the very same reference — into a dead letter, for good. Dead-lettering
// satisfies C03 as stated, so C03.R7 stays relaxed; C19 (delivery to every current subscriber) and C05 (OnLaunch first) need
// the strict form.
func c19CacheOnlyFound(p *Program, r *Report) { cacheSound(p, r, true) }

func cacheSound(p *Program, r *Report, strict bool) {
	lc := lcOrFail(p, r)
	if lc == nil {
		return
	}
	refF := lc.RefF
	if refF == nil {
		r.Unresolved("context ref field")
		return
	}
	refT := namedOf(refF.Type())
	var cache *types.Var
	if st, ok := refT.Underlying().(*types.Struct); ok {
		for i := 0; i < st.NumFields(); i++ {
			if typeIs(st.Field(i).Type(), "sync/atomic", "Pointer") {
				cache = st.Field(i)
			}
		}
	}
	if cache == nil {
		r.Unresolved("mailbox cache (atomic.Pointer field) of the reference type")
		return
	}
	n := 0
	msg := "the mailbox memoised in a reference is the mailbox of the actor context found registered at the reference's path, a dead-lettering mailbox, or the root's own for the root's path — never the mailbox of an actor the reference does not name (mail through the reference would be consumed by that actor)"
	if strict {
		msg = "the mailbox memoised in a reference is the mailbox of the actor context found registered at the reference's path (or the root's own for the root's path) — never the result of a miss: a reference resolved before its actor is registered (sent to from the OnPrelaunch window) would dead-letter every later message, OnLaunch included, although the actor lives"
	}
	// evalSite judges one write: in function fn (graph g) at node i, of the mailbox value(s) given by cands
	evalSite := func(fn *ssa.Function, g *IG, i int, cands func(mc *mbClassifier) ([]mbCand, string)) (bool, string) {
		// edges on which a registry value was asserted to be an actor context
		ctxE := map[edge]bool{}
		var asserted []ssa.Value
		for _, ifi := range ifsOf(fn) {
			for _, outcome := range []bool{true, false} {
				fc, okf := condFact(ifi.Cond, outcome)
				if !okf || !fc.Bool || fc.Op != token.NEQ {
					continue
				}
				ex, isEx := fc.X.(*ssa.Extract)
				if !isEx || ex.Index != 1 {
					continue
				}
				ta, isTA := ex.Tuple.(*ssa.TypeAssert)
				if !isTA || namedOf(ta.AssertedType) != lc.Ctx || !anyContains(p.origins(ta.X), "(sync.Map).Load") {
					continue
				}
				ctxE[g.branchEdge(ifi, outcome)] = true
				asserted = append(asserted, ta)
			}
		}
		mc := &mbClassifier{p: p, g: g, lc: lc, ctxE: ctxE, asserted: asserted, ownPath: ownPathEdges(p, g), strict: strict}
		cs, why := cands(mc)
		good := len(cs) > 0 && why == ""
		for _, cd := range cs {
			if ok, what := mc.classify(cd.v, cd.at); !ok {
				good = false
				why += " (may hold " + what + ")"
			}
		}
		return good, why
	}
	// the values a local cell can hold at node i (every assignment that reaches i; the cell is assigned on every path)
	cellCands := func(g *IG, al *ssa.Alloc, i int) func(mc *mbClassifier) ([]mbCand, string) {
		return func(mc *mbClassifier) ([]mbCand, string) {
			stores := map[int]bool{}
			for _, ref := range *al.Referrers() {
				if st, isSt := ref.(*ssa.Store); isSt && st.Addr == ssa.Value(al) {
					stores[g.Idx[st]] = true
				}
			}
			why := ""
			if len(stores) == 0 || g.Reach(g.entry(), stores, nil)[i] {
				why = " (the cell may be unassigned at the write)"
			}
			var out []mbCand
			for sn := range stores {
				others := map[int]bool{}
				for o := range stores {
					if o != sn {
						others[o] = true
					}
				}
				if sn != i && !g.ReachAfter(sn, others, nil)[i] {
					continue // overwritten before the write
				}
				out = append(out, mbCand{g.Nodes[sn].(*ssa.Store).Val, sn})
			}
			return out, why
		}
	}
	for _, fn := range p.Mod {
		g := p.ig(fn)
		for i, in := range g.Nodes {
			c, ok := in.(*ssa.Call)
			if !ok || c.Call.StaticCallee() == nil || len(c.Call.Args) < 2 {
				continue
			}
			name := c.Call.StaticCallee().Name()
			if name != "CompareAndSwap" && name != "Store" && name != "Swap" {
				continue
			}
			if f, _ := fieldAddr(c.Call.Args[0]); f != cache {
				continue
			}
			n++
			newV := c.Call.Args[len(c.Call.Args)-1]
			al, isAl := strip(newV).(*ssa.Alloc)
			if !isAl {
				r.Check(false, "mailbox cache written in "+fnName(fn), c.Pos(), msg+" (the stored pointer is not a local cell)")
				continue
			}
			// a setter: the cell is the spilled parameter of a small method of the reference type — judge every call of it
			if prm, k := spilledParamIndex(al, fn); prm != nil {
				sites := 0
				for _, caller := range p.Mod {
					cg := p.ig(caller)
					for ci, cin := range cg.Nodes {
						cc, isC := cin.(*ssa.Call)
						if !isC || cc.Call.StaticCallee() != fn || k >= len(cc.Call.Args) {
							continue
						}
						sites++
						arg := cc.Call.Args[k]
						good, why := evalSite(caller, cg, ci, func(mc *mbClassifier) ([]mbCand, string) {
							return mc.valuesAt(arg, ci, nil), ""
						})
						r.Check(good, "mailbox cache written in "+fnName(caller)+" (through "+fn.Name()+")", cc.Pos(), msg+why)
					}
				}
				if sites == 0 {
					r.Lookup("mailbox cache setter "+fnName(fn), c.Pos(), "the setter has no caller in the module")
				}
				continue
			}
			good, why := evalSite(fn, g, i, cellCands(g, al, i))
			r.Check(good, "mailbox cache written in "+fnName(fn), c.Pos(), msg+why)
		}
	}
	if n == 0 {
		r.Unresolved("no write of the reference's mailbox cache")
	}
}

// c03RegistryOwner: the registry maps a path to the context whose mailbox receives the mail for that path; lookups that miss
// fall back to the root mailbox, where the guard swallows the message. The removal routine deletes by path, so a call from
// anywhere but the dying actor's own cleanup step (e.g. "roll back" after a rejected duplicate spawn) erases the entry of a
// live actor. Who-may-call: every call of the removal routine lies in the cleanup step (or a helper only it calls) and
// passes the handler's own context; the registry is deleted from nowhere else except the future bookkeeping.
func c03RegistryOwner(p *Program, r *Report) {
	lc := lcOrFail(p, r)
	if lc == nil {
		return
	}
	if lc.RemoveRegistry == nil {
		r.Unresolved("registry removal routine")
		return
	}
	cg := p.igx(lc.Cleanup)
	n := 0
	for fn := range p.All {
		if !p.inModule(fn) {
			continue
		}
		for _, b := range fn.Blocks {
			for _, in := range b.Instrs {
				c := callOf(in)
				if c == nil || c.StaticCallee() != lc.RemoveRegistry {
					continue
				}
				n++
				ok := cg.owns(p, fn)
				why := "the call lies in the kill chain's cleanup step"
				if ok && len(c.Args) > 1 {
					o := p.origins(c.Args[1])
					if !allContain(o, "field:"+lc.HandlerT.Obj().Name()+".") {
						ok = false
						why = "the removed context is not the dying actor's own (" + strings.Join(o, "|") + ")"
					}
				} else if !ok {
					why = "called outside the dying actor's cleanup step: the routine deletes by path, so this erases whatever actor is registered there"
				}
				r.Check(ok, "registry removal in "+fnName(fn), in.Pos(), why)
			}
		}
	}
	if n == 0 {
		r.Unresolved("no call of the registry removal routine")
	}
}

// c03Unregistered: "already terminated, never existed … however the sender obtained the reference": when nothing is
// registered at a local path, the lookup must not hand the envelope to some live actor's mailbox (that actor would treat it as
// its own: the guard ignores user messages, and a Kill would stop the root). On the registry's not-found edge every returned
// mailbox is either one whose Enqueue turns the envelope into a dead letter on every path, or the root's own under an edge
// asserting that the reference names the root's path.
func c03Unregistered(p *Program, r *Report) {
	lc := lcOrFail(p, r)
	if lc == nil {
		return
	}
	find := p.mailboxLookup(lc)
	if find == nil {
		r.Unresolved("mailbox lookup")
		return
	}
	g := p.igx(find)
	defer p.withGraph(g)()
	missing := map[edge]bool{}
	for _, ifi := range g.ifs() {
		for _, outcome := range []bool{true, false} {
			f, ok := condFact(ifi.Cond, outcome)
			if !ok || !f.Bool || f.Op != token.EQL {
				continue
			}
			ex, isEx := f.X.(*ssa.Extract)
			if !isEx || ex.Index != 1 {
				continue
			}
			if c, isC := ex.Tuple.(*ssa.Call); isC && calleeQual(&c.Call) == "(sync.Map).Load" {
				missing[g.branchEdge(ifi, outcome)] = true
			}
		}
	}
	if len(missing) == 0 {
		r.Unresolved("not-found edge of the registry lookup in the mailbox lookup")
		return
	}
	mc := &mbClassifier{p: p, g: g, lc: lc, ownPath: ownPathEdges(p, g)}
	n := 0
	for e := range missing {
		reach := g.Reach([]int{e.to}, nil, nil)
		for _, ex := range g.Exits {
			if !reach[ex] {
				continue
			}
			for _, rn := range g.effectiveReturns(ex, 0) {
				if !reach[rn] {
					continue
				}
				n++
				v := g.res(retOperand(g.Nodes[rn].(*ssa.Return), 0))
				good, what := true, ""
				for _, cand := range mc.valuesAt(v, rn, &e) {
					ok, w := mc.classify(cand.v, cand.at)
					if !ok {
						good = false
					}
					if what != "" {
						what += " / "
					}
					what += w
				}
				r.Check(good, "unregistered local path resolves to a dead-lettering mailbox", g.Nodes[rn].Pos(),
					"on the not-found edge of the registry lookup this return yields "+what+" — never the mailbox of an actor the envelope was not addressed to")
			}
		}
	}
	if n == 0 {
		r.Unresolved("no return reachable from the registry's not-found edge")
	}
}

// emitsDeadLetterFor: every entry→exit path of fn tells one DeathLetterEvent whose Envelope is fn's parameter #idx, directly or
// by handing the parameter to a module function that does.
func (p *Program) emitsDeadLetterFor(fn *ssa.Function, idx, depth int) bool {
	if fn == nil || depth > 2 || len(fn.Blocks) == 0 || idx >= len(fn.Params) {
		return false
	}
	g := p.igx(fn)
	prm := ssa.Value(fn.Params[idx])
	emits := map[int]bool{}
	for _, ts := range p.tellSitesG(g) {
		if isDeathLetterValue(ts.Message) {
			if e := deathLetterEnvelope(ts.Message); e != nil && g.res(e) == prm {
				emits[g.Idx[ts.In]] = true
			}
		}
	}
	for i, in := range g.Nodes {
		c := callOf(in)
		if c == nil {
			continue
		}
		var cands []*ssa.Function
		if y := c.StaticCallee(); y != nil && p.inModule(y) {
			cands = append(cands, y)
		} else if c.IsInvoke() {
			if n := p.CG.Nodes[in.Parent()]; n != nil {
				for _, e := range n.Out {
					if e.Site != nil && e.Site == in.(ssa.CallInstruction) && p.inModule(e.Callee.Func) {
						cands = append(cands, e.Callee.Func)
					}
				}
			}
		}
		if len(cands) == 0 {
			continue
		}
		args := c.Args
		off := 0
		if c.IsInvoke() {
			off = 1 // the implementation's parameter list starts with the receiver
		}
		for j, a := range args {
			if g.res(a) != prm {
				continue
			}
			all := true
			for _, y := range cands {
				if y == fn || !p.emitsDeadLetterFor(y, j+off, depth+1) {
					all = false
				}
			}
			if all {
				emits[i] = true
			}
		}
	}
	return len(emits) > 0 && !anyIn(g.Reach(g.entry(), emits, nil), g.Exits)
}

// ownPathEdges: edges asserting "the reference's path is the system's own path".
func ownPathEdges(p *Program, g *IG) map[edge]bool {
	out := map[edge]bool{}
	for _, ifi := range g.ifs() {
		for _, outcome := range []bool{true, false} {
			f, ok := condFact(ifi.Cond, outcome)
			if ok && f.Y != nil && f.Op == token.EQL && p.viaRefAccessor(p.lifecycle(), f.X, "GetPath") && p.viaRefAccessor(p.lifecycle(), f.Y, "GetPath") {
				out[g.branchEdge(ifi, outcome)] = true
			}
		}
	}
	return out
}

// mbClassifier judges what a mailbox value produced inside the mailbox lookup is.
type mbClassifier struct {
	strict   bool // a dead-lettering mailbox is not an acceptable memo
	p        *Program
	g        *IG
	lc       *lifecycle
	ctxE     map[edge]bool // edges asserting that the registry value is an actor context
	asserted []ssa.Value   // the asserted contexts
	ownPath  map[edge]bool
}

type mbCand struct {
	v  ssa.Value
	at int
}

// valuesAt: the values v may denote at node `at`: v itself, or — when v is a load of a local cell assigned in several places —
// the values of the assignments that can reach `at` without being overwritten (restricted, when via is given, to paths
// through that edge).
func (mc *mbClassifier) valuesAt(v ssa.Value, at int, via *edge) []mbCand {
	g := mc.g
	u, isU := v.(*ssa.UnOp)
	if mi, isMI := v.(*ssa.MakeInterface); isMI {
		u, isU = mi.X.(*ssa.UnOp)
	}
	if !isU || u.Op != token.MUL {
		return []mbCand{{v, at}}
	}
	al, isAl := u.X.(*ssa.Alloc)
	if !isAl || al.Referrers() == nil {
		return []mbCand{{v, at}}
	}
	if _, isIface := al.Type().Underlying().(*types.Pointer).Elem().Underlying().(*types.Interface); !isIface {
		return []mbCand{{v, at}} // a struct literal, not a variable of the mailbox interface type
	}
	stores := map[int]bool{}
	for _, ref := range *al.Referrers() {
		if st, isSt := ref.(*ssa.Store); isSt && st.Addr == ssa.Value(al) {
			stores[g.Idx[st]] = true
		}
	}
	var out []mbCand
	for sn := range stores {
		others := map[int]bool{}
		for o := range stores {
			if o != sn {
				others[o] = true
			}
		}
		after := g.ReachAfter(sn, others, nil)
		ok := after[at]
		if ok && via != nil {
			// the path entry → … → at passes the edge: the assignment lies behind the edge, or before it with no other assignment
			// between it and `at`
			behind := g.Reach([]int{via.to}, nil, nil)[sn]
			before := (after[via.from] || sn == via.from) && g.Reach([]int{via.to}, stores, nil)[at]
			ok = behind || before
		}
		if ok {
			out = append(out, mbCand{g.Nodes[sn].(*ssa.Store).Val, sn})
		}
	}
	sort.Slice(out, func(i, j int) bool { return out[i].at < out[j].at })
	if len(out) == 0 {
		return []mbCand{{v, at}}
	}
	return out
}

func (mc *mbClassifier) classify(v ssa.Value, at int) (bool, string) {
	p, g := mc.p, mc.g
	v = g.res(v)
	ct := v.Type()
	if mi, isMI := v.(*ssa.MakeInterface); isMI {
		ct = mi.X.Type()
		if _, isIface := ct.Underlying().(*types.Interface); isIface {
			v = g.res(mi.X)
		}
	}
	if _, isIface := ct.Underlying().(*types.Interface); !isIface {
		if t := namedOf(ct); t != nil {
			if enq := p.methodNamed(t, "Enqueue"); enq != nil && len(enq.Params) == 2 && p.emitsDeadLetterFor(enq, 1, 0) {
				if mc.strict {
					return false, "a " + t.Obj().Name() + " (dead-lettering): the miss would be pinned in the reference"
				}
				return true, "a " + t.Obj().Name() + ", whose Enqueue emits a dead letter wrapping the envelope on every path"
			}
		}
	}
	// the mailbox of the context found registered, under the edge asserting it
	if c, isC := v.(*ssa.Call); isC && callRecv(&c.Call) != nil && len(mc.ctxE) > 0 && g.DominatedByEdges(at, mc.ctxE) {
		for _, ta := range mc.asserted {
			if derivesFromExtract(callRecv(&c.Call), ta, 0) {
				return true, "the mailbox of the actor context registered at the path"
			}
		}
	}
	if len(mc.ownPath) > 0 && g.DominatedByEdges(at, mc.ownPath) {
		return true, "the root's mailbox, on the edge where the reference names the root's own path"
	}
	return false, strings.Join(p.origins(v), " | ")
}

// spilledParamIndex: al is the local cell of parameter #k of fn (stored once, with that parameter).
func spilledParamIndex(al *ssa.Alloc, fn *ssa.Function) (*ssa.Parameter, int) {
	if al.Referrers() == nil {
		return nil, -1
	}
	var prm *ssa.Parameter
	for _, ref := range *al.Referrers() {
		if st, ok := ref.(*ssa.Store); ok && st.Addr == ssa.Value(al) {
			q, isP := st.Val.(*ssa.Parameter)
			if !isP || prm != nil {
				return nil, -1
			}
			prm = q
		}
	}
	if prm == nil {
		return nil, -1
	}
	for k, q := range fn.Params {
		if q == prm {
			return prm, k
		}
	}
	return nil, -1
}

// c03AskSends: an Ask is a send like any other: whatever happens to its future (timed out before it was registered, asker
// dying), the request envelope — a user message addressed to the recipient — is enqueued on every path through the ask
// routine; returning early with the (already completed) future silently loses the message.
func c03AskSends(p *Program, r *Report) {
	f := futOrFail(p, r)
	if f == nil {
		return
	}
	g := p.igx(f.Ask)
	sends := nodesWhere(g, func(in ssa.Instruction) bool {
		c := callOf(in)
		return c != nil && c.IsInvoke() && c.Method.Name() == "Enqueue"
	})
	ok := len(sends) > 0 && !anyIn(g.Reach(g.entry(), sends, g.nilArgEdges()), g.Exits)
	r.Check(ok, "Ask enqueues its request on every path", f.Ask.Pos(), "no path through the ask routine returns without handing the request envelope to the recipient's mailbox: a request is processed, stashed or dead-lettered like any other user message, whatever became of its future")
}

// c03RootMailboxOnlyForRoot — the mailbox lookup hands out the root's own mailbox only for the root.
//
// Whatever is enqueued into the root's mailbox is handled by the root as its own mail: a user message is swallowed, a Kill
// terminates the root — the whole system. So every return of the lookup that yields the receiver's own Mailbox() is dominated by
// an edge on which the reference names the root (own-path equality), is absent (nil argument), or the system's context is
// already done (nothing is delivered any more). A fallback to the root's mailbox for "cannot route this" (remoting disabled)
// turns a Kill addressed to an actor on another node into a kill of this system (F43; same hazard as F2/F34).
func c03RootMailboxOnlyForRoot(p *Program, r *Report) {
	lc := lcOrFail(p, r)
	if lc == nil {
		return
	}
	find := p.mailboxLookup(lc)
	if find == nil {
		r.Unresolved("mailbox lookup")
		return
	}
	g := p.igx(find) // the lookup may be split into helpers for the remote and the local case
	defer p.withGraph(g)()
	allowed := mergeEdges(ownPathEdges(p, g), g.nilArgEdges())
	done, _ := callEdges(g, func(c *ssa.Call) bool {
		return c.Call.IsInvoke() && c.Call.Method.Name() == "Err" && typeIs(c.Call.Value.Type(), "context", "Context")
	})
	// Err() != nil is a nil test of a call result, not a bool: collect those edges too
	for _, ifi := range g.ifs() {
		for _, oc := range []bool{true, false} {
			f, ok := condFact(ifi.Cond, oc)
			if !ok || !f.IsNil || f.Op != token.NEQ {
				continue
			}
			if c, isC := strip(f.X).(*ssa.Call); isC && c.Call.IsInvoke() && c.Call.Method.Name() == "Err" && typeIs(c.Call.Value.Type(), "context", "Context") {
				done[g.branchEdge(ifi, oc)] = true
			}
		}
	}
	allowed = mergeEdges(allowed, done)
	n := 0
	var rets []int
	for _, ex := range g.Exits {
		rets = append(rets, g.effectiveReturns(ex, 0)...)
	}
	for _, ex := range rets {
		ret, ok := g.Nodes[ex].(*ssa.Return)
		if !ok || len(ret.Results) != 1 {
			continue
		}
		for _, v := range []ssa.Value{ret.Results[0]} {
			v = strip(v)
			if mi, isMI := v.(*ssa.MakeInterface); isMI {
				v = strip(mi.X)
			}
			c, isC := v.(*ssa.Call)
			if !isC || c.Call.StaticCallee() == nil || c.Call.StaticCallee().Name() != "Mailbox" {
				continue
			}
			// the receiver's own mailbox: Mailbox() called on the lookup's receiver (the system / its embedded root context)
			rc := callRecv(&c.Call)
			own := false
			for x := rc; x != nil; {
				x = strip(x)
				if g.res(x) == ssa.Value(find.Params[0]) || x == ssa.Value(find.Params[0]) {
					own = true
					break
				}
				if f, base := fieldLoad(x); f != nil && base != nil {
					x = base
					continue
				}
				if fa, isFA := x.(*ssa.FieldAddr); isFA {
					x = fa.X
					continue
				}
				break
			}
			if !own {
				continue
			}
			n++
			r.Check(len(allowed) > 0 && g.DominatedByEdges(ex, allowed), "the root's mailbox is handed out only for the root", ret.Pos(), "this return of the receiver's own Mailbox() is dominated by an edge on which the reference names the root (own path), is nil, or the system context is done — never a fallback for a reference that cannot be routed")
		}
	}
	if n == 0 {
		r.Unresolved("returns of the root's own mailbox in the mailbox lookup")
	}
}
