package main

// WIRE: wire-signature extraction. For a function that takes a *messages.Writer
// or *messages.Reader, the set of symbol sequences along its success paths
// (loops unrolled 0..UnrollMax times, error edges pruned, module helpers that
// take the same stream inlined). A symbol is a wire primitive (kind + width)
// with, where resolvable, the message field it is sourced from / stored into.

import (
	"fmt"
	"go/ast"
	"go/token"
	"go/types"
	"sort"
	"strings"

	"golang.org/x/tools/go/ssa"
)

type wsym struct {
	Kind  string // u8 i8 u16 i16 u32 i32 u64 i64 f32 f64 bool lp1 lp2 lp4 raw varint uvarint msg reflect(T) UNSUPPORTED(T) DYN SUBSTREAM REC
	Field string // attributed message field ("" = unknown)
	Pos   token.Pos
}

type wireSig struct {
	Seqs      [][]wsym
	Truncated bool
	Problems  []string
}

type codecTables struct {
	WriterT, ReaderT *types.Named
	WKind            map[string]string // type string (non-pointer and pointer forms) -> kind, from Writer.Write's type switch
	RKind            map[string]string // pointee type string -> kind, from Reader.Read's type switch
	WMethod          map[string]string // type string -> writer method called in the case body
	RMethod          map[string]string
	wTypes, rTypes   []types.Type
	wKinds, rKinds   []string
	problems         []string
	// internals by role (unexported names are not anchors)
	RBuf, RPos, RErr *types.Var    // Reader: the []byte field, the int cursor, the sticky error
	Check            *ssa.Function // Reader: unexported (int) bool bounds check
	ReadReflect      *ssa.Function // Reader: unexported (any) error fallback called by Read
	WBuf, WErr       *types.Var    // Writer: the []byte field, the sticky error
	Reserve          *ssa.Function // Writer: unexported (int) capacity reservation
	WriteReflect     *ssa.Function // Writer: unexported (any) error fallback called by Write
}

// internals resolves the codec's unexported fields and helpers by type / signature / call position.
func (p *Program) codecInternals(c *codecTables) {
	if c.ReaderT == nil || c.WriterT == nil {
		return
	}
	isBytes := func(t types.Type) bool {
		sl, ok := t.Underlying().(*types.Slice)
		if !ok {
			return false
		}
		b, ok := sl.Elem().Underlying().(*types.Basic)
		return ok && b.Kind() == types.Byte
	}
	isErr := func(t types.Type) bool { return types.Identical(t, types.Universe.Lookup("error").Type()) }
	isInt := func(t types.Type) bool { b, ok := t.Underlying().(*types.Basic); return ok && b.Kind() == types.Int }
	isAny := func(t types.Type) bool {
		i, ok := t.Underlying().(*types.Interface)
		return ok && i.NumMethods() == 0
	}
	rs := c.ReaderT.Underlying().(*types.Struct)
	for i := 0; i < rs.NumFields(); i++ {
		f := rs.Field(i)
		switch {
		case isBytes(f.Type()):
			c.RBuf = f
		case isInt(f.Type()):
			c.RPos = f
		case isErr(f.Type()):
			c.RErr = f
		}
	}
	ws := c.WriterT.Underlying().(*types.Struct)
	for i := 0; i < ws.NumFields(); i++ {
		f := ws.Field(i)
		switch {
		case isBytes(f.Type()):
			c.WBuf = f
		case isErr(f.Type()):
			c.WErr = f
		}
	}
	unexp := func(fn *ssa.Function) bool {
		return fn.Parent() == nil && !ast.IsExported(fn.Name()) && len(fn.Blocks) > 0
	}
	for _, fn := range p.methodsOf(c.ReaderT) {
		sig := fn.Signature
		if unexp(fn) && sig.Params().Len() == 1 && isInt(sig.Params().At(0).Type()) && sig.Results().Len() == 1 && isBool(sig.Results().At(0).Type()) {
			c.Check = fn
		}
	}
	for _, fn := range p.methodsOf(c.WriterT) {
		sig := fn.Signature
		if unexp(fn) && sig.Params().Len() == 1 && isInt(sig.Params().At(0).Type()) && sig.Results().Len() == 0 {
			c.Reserve = fn
		}
	}
	fallback := func(T *types.Named, entry string) *ssa.Function {
		e := p.methodNamed(T, entry)
		if e == nil {
			return nil
		}
		for _, b := range e.Blocks {
			for _, in := range b.Instrs {
				if cc := callOf(in); cc != nil && cc.StaticCallee() != nil && cc.StaticCallee() != e {
					y := cc.StaticCallee()
					if y.Signature.Recv() != nil && namedOf(y.Signature.Recv().Type()) == T && unexp(y) && y.Signature.Params().Len() == 1 && isAny(y.Signature.Params().At(0).Type()) &&
						y.Signature.Results().Len() == 1 && isErr(y.Signature.Results().At(0).Type()) {
						return y
					}
				}
			}
		}
		return nil
	}
	c.ReadReflect, c.WriteReflect = fallback(c.ReaderT, "Read"), fallback(c.WriterT, "Write")
	for name, v := range map[string]any{"Reader buffer": c.RBuf, "Reader cursor": c.RPos, "Reader sticky error": c.RErr, "Writer buffer": c.WBuf, "Writer sticky error": c.WErr} {
		if v.(*types.Var) == nil {
			c.problems = append(c.problems, "codec internal by role: "+name)
		}
	}
	for name, v := range map[string]*ssa.Function{"Reader bounds check": c.Check, "Reader reflective fallback": c.ReadReflect, "Writer capacity reservation": c.Reserve, "Writer reflective fallback": c.WriteReflect} {
		if v == nil {
			c.problems = append(c.problems, "codec internal by role: "+name)
		}
	}
}

var codecCache = map[*Program]*codecTables{}

func kindOfMethod(name string) string {
	if !strings.HasPrefix(name, "Write") && !strings.HasPrefix(name, "Read") && !strings.HasPrefix(name, "write") && name != "Skip" {
		return ""
	}
	n := strings.TrimSuffix(strings.TrimPrefix(strings.TrimPrefix(strings.TrimPrefix(name, "Write"), "Read"), "write"), "Ptr")
	switch n {
	case "Byte", "Uint8":
		return "u8"
	case "Int8":
		return "i8"
	case "Uint16":
		return "u16"
	case "Int16":
		return "i16"
	case "Uint32":
		return "u32"
	case "Int32":
		return "i32"
	case "Uint64":
		return "u64"
	case "Int64":
		return "i64"
	case "Float32":
		return "f32"
	case "Float64":
		return "f64"
	case "Bool":
		return "bool"
	case "Varint":
		return "varint"
	case "Uvarint":
		return "uvarint"
	case "String":
		return "lp4"
	case "ShortString":
		return "lp1"
	case "Bytes":
		return "raw"
	case "Message":
		return "msg"
	case "Skip":
		return "raw"
	}
	return ""
}

func (p *Program) codec() *codecTables {
	if c, ok := codecCache[p]; ok {
		return c
	}
	c := &codecTables{WKind: map[string]string{}, RKind: map[string]string{}, WMethod: map[string]string{}, RMethod: map[string]string{}}
	codecCache[p] = c
	c.WriterT, c.ReaderT = p.Named("internal/messages", "Writer"), p.Named("internal/messages", "Reader")
	if c.WriterT == nil || c.ReaderT == nil {
		c.problems = append(c.problems, "messages.Writer / messages.Reader")
		return c
	}
	parse := func(fn *ssa.Function, kinds, methods map[string]string, tlist *[]types.Type, klist *[]string) {
		if fn == nil {
			return
		}
		g := p.ig(fn)
		for _, in := range g.Nodes {
			ta, ok := in.(*ssa.TypeAssert)
			if !ok || !ta.CommaOk || strip(ta.X) != ssa.Value(fn.Params[1]) {
				continue
			}
			okE := map[edge]bool{}
			for _, ifi := range ifsOf(fn) {
				for _, outcome := range []bool{true, false} {
					f, okf := condFact(ifi.Cond, outcome)
					if okf && f.Bool && f.Op == token.NEQ {
						if ex, isEx := f.X.(*ssa.Extract); isEx && ex.Tuple == ssa.Value(ta) && ex.Index == 1 {
							okE[g.branchEdge(ifi, outcome)] = true
						}
					}
				}
			}
			// the first stream-method call reachable from the ok edge (before the next type test)
			meth := ""
			for e := range okE {
				for n := e.to; n >= 0 && n < len(g.Nodes); {
					if cc := callOf(g.Nodes[n]); cc != nil && cc.StaticCallee() != nil && cc.StaticCallee().Signature.Recv() != nil {
						rn := namedOf(cc.StaticCallee().Signature.Recv().Type())
						if rn == c.WriterT || rn == c.ReaderT {
							meth = cc.StaticCallee().Name()
							if meth == "WriteBytesWithLength" || meth == "ReadBytesWithLength" {
								for _, a := range cc.Args {
									if k, isK := constInt(a); isK {
										meth = fmt.Sprintf("%s(%d)", meth, k)
									}
								}
							}
							break
						}
					}
					if ifn, isIf := g.Nodes[n].(*ssa.If); isIf {
						// *[]byte nil test: follow the non-nil branch (whichever way the test is written); other tests: first branch
						k := 0
						if f, okf := condFact(ifn.Cond, true); okf && f.IsNil && f.Op == token.EQL {
							k = 1
						}
						n = g.Succ[n][k]
						continue
					}
					if len(g.Succ[n]) != 1 {
						break
					}
					n = g.Succ[n][0]
				}
			}
			ts := typeName(ta.AssertedType)
			kind := kindOfMethod(strings.SplitN(meth, "(", 2)[0])
			if strings.HasPrefix(meth, "WriteBytesWithLength(") || strings.HasPrefix(meth, "ReadBytesWithLength(") {
				kind = "lp" + strings.TrimSuffix(strings.SplitN(meth, "(", 2)[1], ")")
			}
			kinds[ts] = kind
			methods[ts] = meth
			*tlist = append(*tlist, ta.AssertedType)
			*klist = append(*klist, kind)
		}
	}
	p.codecInternals(c)
	parse(p.methodNamed(c.WriterT, "Write"), c.WKind, c.WMethod, &c.wTypes, &c.wKinds)
	parse(p.methodNamed(c.ReaderT, "Read"), c.RKind, c.RMethod, &c.rTypes, &c.rKinds)
	if len(c.WKind) < 10 || len(c.RKind) < 10 {
		c.problems = append(c.problems, fmt.Sprintf("codec type switches not recognised (writer cases=%d reader cases=%d)", len(c.WKind), len(c.RKind)))
	}
	return c
}

// symbolForType: the wire kind of a value of static type t passed to Write (writer=true) or of the pointee of a pointer passed to Read.
func (c *codecTables) symbolForType(t types.Type, writer bool) string {
	ts := typeName(t)
	if writer {
		for i, wt := range c.wTypes {
			if types.Identical(wt, t) && c.wKinds[i] != "" {
				return c.wKinds[i]
			}
		}
	} else {
		if pt, ok := t.(*types.Pointer); ok {
			for i, rt := range c.rTypes {
				if types.Identical(rt, pt) && c.rKinds[i] != "" {
					return c.rKinds[i]
				}
			}
			t = pt.Elem()
		} else {
			return "UNSUPPORTED(" + ts + ": not a pointer)"
		}
	}
	return c.reflectSymbol(t, 0)
}

// reflectSymbol: how the reflective fallback treats a type.
func (c *codecTables) reflectSymbol(t types.Type, depth int) string {
	if depth > 6 {
		return "UNSUPPORTED(" + typeName(t) + ": too deep)"
	}
	for {
		pt, ok := t.(*types.Pointer)
		if !ok {
			break
		}
		t = pt.Elem()
	}
	if _, named := t.(*types.Named); named {
		if _, isBasic := t.Underlying().(*types.Basic); isBasic {
			return "UNSUPPORTED(" + typeName(t) + ": named basic type is not matched by the codec's type switch)"
		}
	}
	switch u := t.Underlying().(type) {
	case *types.Basic:
		for i, wt := range c.wTypes {
			if types.Identical(wt, t) && c.wKinds[i] != "" {
				return c.wKinds[i]
			}
		}
		return "UNSUPPORTED(" + typeName(t) + ")"
	case *types.Slice:
		e := c.reflectSymbol(u.Elem(), depth+1)
		if strings.HasPrefix(e, "UNSUPPORTED") {
			return e
		}
		return "slice[" + e + "]"
	case *types.Array:
		e := c.reflectSymbol(u.Elem(), depth+1)
		if strings.HasPrefix(e, "UNSUPPORTED") {
			return e
		}
		return fmt.Sprintf("array%d[%s]", u.Len(), e)
	case *types.Struct:
		var parts []string
		for i := 0; i < u.NumFields(); i++ {
			if !u.Field(i).Exported() {
				continue
			}
			e := c.reflectSymbol(u.Field(i).Type(), depth+1)
			if strings.HasPrefix(e, "UNSUPPORTED") {
				return e
			}
			parts = append(parts, e)
		}
		if len(parts) == 0 {
			return "UNSUPPORTED(" + typeName(t) + ": struct without exported fields carries nothing)"
		}
		return "struct{" + strings.Join(parts, " ") + "}"
	}
	return "UNSUPPORTED(" + typeName(t) + ")"
}

// varargElems recovers the elements of a variadic ...interface{} argument.
func varargElems(v ssa.Value) ([]ssa.Value, bool) {
	sl, ok := v.(*ssa.Slice)
	if !ok {
		if c, isC := v.(*ssa.Const); isC && c.Value == nil {
			return nil, true
		}
		return nil, false
	}
	al, ok := sl.X.(*ssa.Alloc)
	if !ok {
		return nil, false
	}
	at, ok := al.Type().(*types.Pointer).Elem().Underlying().(*types.Array)
	if !ok {
		return nil, false
	}
	out := make([]ssa.Value, at.Len())
	for _, ref := range *al.Referrers() {
		ia, ok := ref.(*ssa.IndexAddr)
		if !ok {
			continue
		}
		idx, ok := constInt(ia.Index)
		if !ok || idx < 0 || idx >= at.Len() {
			return nil, false
		}
		for _, u := range *ia.Referrers() {
			if st, ok := u.(*ssa.Store); ok && st.Addr == ssa.Value(ia) {
				out[idx] = st.Val
			}
		}
	}
	for _, e := range out {
		if e == nil {
			return nil, false
		}
	}
	return out, true
}

// fieldOfSource: writer side — the message field a written value is loaded from (through conversions and simple accessor calls).
func (p *Program) fieldOfSource(v ssa.Value, depth int) string {
	if depth > 5 {
		return ""
	}
	if mi, ok := v.(*ssa.MakeInterface); ok {
		v = mi.X
	}
	switch x := v.(type) {
	case *ssa.Convert:
		return p.fieldOfSource(x.X, depth+1)
	case *ssa.ChangeType:
		return p.fieldOfSource(x.X, depth+1)
	case *ssa.UnOp:
		if x.Op == token.MUL {
			if f, _ := fieldAddr(x.X); f != nil {
				return ownerName(f) + "." + f.Name()
			}
			if al, ok := x.X.(*ssa.Alloc); ok {
				// local variable: single store or a phi-like set of stores from fields
				var names []string
				for _, r := range *al.Referrers() {
					if st, ok := r.(*ssa.Store); ok && st.Addr == ssa.Value(al) {
						if n := p.fieldOfSource(st.Val, depth+1); n != "" {
							names = append(names, n)
						}
					}
				}
				if len(names) >= 1 {
					return names[0]
				}
			}
		}
	case *ssa.Field:
		if st, ok := x.X.Type().Underlying().(*types.Struct); ok {
			return ownerName(st.Field(x.Field)) + "." + st.Field(x.Field).Name()
		}
	case *ssa.Call:
		// accessor on a field value: m.Time.UnixNano(), ref.GetAddress()
		if recv := callRecv(&x.Call); recv != nil {
			if n := p.fieldOfSource(recv, depth+1); n != "" {
				return n
			}
		}
		for _, a := range x.Call.Args {
			if n := p.fieldOfSource(a, depth+1); n != "" {
				return n
			}
		}
	case *ssa.Phi:
		for _, e := range x.Edges {
			if n := p.fieldOfSource(e, depth+1); n != "" {
				return n
			}
		}
	case *ssa.Extract:
		return p.fieldOfSource(x.Tuple, depth+1)
	}
	return ""
}

func shortMethod(c *ssa.CallCommon) string {
	if c.IsInvoke() {
		return c.Method.Name()
	}
	if f := c.StaticCallee(); f != nil {
		return f.Name()
	}
	return "?"
}

// fieldOfSink: reader side — the message field a decoded value ends up in. ptr is the pointer handed to Read.
func (p *Program) fieldOfSink(ptr ssa.Value) string {
	if mi, ok := ptr.(*ssa.MakeInterface); ok {
		ptr = mi.X
	}
	if f, _ := fieldAddr(ptr); f != nil {
		return ownerName(f) + "." + f.Name()
	}
	if al, ok := ptr.(*ssa.Alloc); ok {
		return p.sinkOfLocal(al, 0)
	}
	return ""
}

// sinkOfLocal: follow loads of a local variable into stores to struct fields (through conversions and constructor calls such as time.Unix(0, x)).
func (p *Program) sinkOfLocal(al *ssa.Alloc, depth int) string {
	for _, r := range *al.Referrers() {
		u, ok := r.(*ssa.UnOp)
		if !ok || u.Op != token.MUL {
			continue
		}
		if n := p.sinkOfValue(u, depth); n != "" {
			return n
		}
	}
	return ""
}

func (p *Program) sinkOfValue(v ssa.Value, depth int) string {
	if depth > 5 || v.Referrers() == nil {
		return ""
	}
	for _, r := range *v.Referrers() {
		switch x := r.(type) {
		case *ssa.Store:
			if x.Val == v {
				if f, _ := fieldAddr(x.Addr); f != nil {
					return ownerName(f) + "." + f.Name()
				}
				if al, ok := x.Addr.(*ssa.Alloc); ok {
					if n := p.sinkOfLocal(al, depth+1); n != "" {
						return n
					}
				}
			}
		case *ssa.Convert:
			if n := p.sinkOfValue(x, depth+1); n != "" {
				return n
			}
		case *ssa.ChangeType:
			if n := p.sinkOfValue(x, depth+1); n != "" {
				return n
			}
		case *ssa.MakeInterface:
			if n := p.sinkOfValue(x, depth+1); n != "" {
				return n
			}
		case *ssa.Call:
			if n := p.sinkOfValue(x, depth+1); n != "" {
				return n
			}
		case *ssa.Extract:
			if n := p.sinkOfValue(x, depth+1); n != "" {
				return n
			}
		case *ssa.Phi:
			if n := p.sinkOfValue(x, depth+1); n != "" {
				return n
			}
		case *ssa.Return:
			return ""
		}
	}
	return ""
}

// ---- signature extraction ---------------------------------------------------------------

type wireKey struct {
	fn  *ssa.Function
	idx int
}

var wireMemo = map[*Program]map[wireKey]*wireSig{}

// streamParam: index of the parameter of type *Writer / *Reader (-1 if none).
func (p *Program) streamParam(fn *ssa.Function) (int, bool) {
	c := p.codec()
	for i, prm := range fn.Params {
		n := namedOf(prm.Type())
		if n != nil && n == c.WriterT {
			return i, true
		}
		if n != nil && n == c.ReaderT {
			return i, false
		}
	}
	return -1, false
}

func (p *Program) wireSigOf(fn *ssa.Function, idx int) *wireSig {
	p.initMsgKinds()
	if wireMemo[p] == nil {
		wireMemo[p] = map[wireKey]*wireSig{}
	}
	k := wireKey{fn, idx}
	if s, ok := wireMemo[p][k]; ok {
		if s == nil {
			return &wireSig{Seqs: [][]wsym{{{Kind: "REC"}}}}
		}
		return s
	}
	wireMemo[p][k] = nil // recursion guard
	s := p.extractWire(fn, idx)
	wireMemo[p][k] = s
	return s
}

func isErrorType(t types.Type) bool {
	return types.Identical(t, types.Universe.Lookup("error").Type())
}

var wireDepth int

func (p *Program) extractWire(fn *ssa.Function, idx int) *wireSig {
	c := p.codec()
	sig := &wireSig{}
	if len(fn.Blocks) == 0 {
		sig.Problems = append(sig.Problems, "no body: "+fnName(fn))
		return sig
	}
	var stream ssa.Value
	if idx >= 0 {
		stream = fn.Params[idx]
	} else {
		// the stream is a local writer/reader obtained from the pool or a constructor (idx -1: writer, -2: reader)
		for _, b := range fn.Blocks {
			for _, in := range b.Instrs {
				if cc, ok := in.(*ssa.Call); ok && stream == nil {
					n := namedOf(cc.Type())
					if (idx == -1 && n == c.WriterT) || (idx == -2 && n == c.ReaderT) {
						if cal := cc.Call.StaticCallee(); cal != nil && cal.Signature.Recv() == nil {
							stream = cc
						}
					}
				}
			}
		}
		if stream == nil {
			// a wrapper (statistics, logging) around the function that owns the stream: follow the single same-package callee
			// that takes this function's parameters
			var inner *ssa.Function
			n := 0
			for _, b := range fn.Blocks {
				for _, in := range b.Instrs {
					cc, ok := in.(*ssa.Call)
					if !ok {
						continue
					}
					y := cc.Call.StaticCallee()
					if y == nil || y == fn || len(y.Blocks) == 0 || fnPkg(y) != fnPkg(fn) || len(cc.Call.Args) < len(fn.Params) {
						continue
					}
					passes := len(fn.Params) > 0
					for i, prm := range fn.Params {
						if strip(cc.Call.Args[i]) != ssa.Value(prm) {
							passes = false
						}
					}
					if passes {
						inner = y
						n++
					}
				}
			}
			if n == 1 && wireDepth < 2 {
				wireDepth++
				defer func() { wireDepth-- }()
				return p.extractWire(inner, idx)
			}
			sig.Problems = append(sig.Problems, "no local stream in "+fnName(fn))
			return sig
		}
	}
	isWriter := namedOf(stream.Type()) == c.WriterT
	// aliases of the stream: results of chained calls returning the same stream type
	alias := map[ssa.Value]bool{stream: true}
	for changed := true; changed; {
		changed = false
		for _, b := range fn.Blocks {
			for _, in := range b.Instrs {
				switch x := in.(type) {
				case *ssa.Call:
					if alias[x] {
						continue
					}
					if recv := callRecv(&x.Call); recv != nil && alias[strip(recv)] && namedOf(x.Type()) == namedOf(stream.Type()) && x.Type().String() == stream.Type().String() {
						alias[x] = true
						changed = true
					}
				case *ssa.Phi:
					if alias[x] {
						continue
					}
					all := len(x.Edges) > 0
					for _, e := range x.Edges {
						if !alias[strip(e)] {
							all = false
						}
					}
					if all {
						alias[x] = true
						changed = true
					}
				}
			}
		}
	}
	// error-state values: results of error type produced by stream calls / helper calls, and w.Err()
	errEdge := func(ifi *ssa.If, outcome bool) bool {
		f, ok := condFact(ifi.Cond, outcome)
		if !ok || !f.IsNil || f.Op != token.NEQ {
			return false
		}
		return isErrorType(f.X.Type())
	}
	symbolsOfCall := func(in ssa.Instruction) ([]wsym, bool) {
		cc := callOf(in)
		if cc == nil {
			return nil, false
		}
		if _, isDefer := in.(*ssa.Defer); isDefer {
			return nil, false
		}
		cal := cc.StaticCallee()
		if cal == nil {
			// dynamic call receiving the stream
			for _, a := range cc.Args {
				if alias[strip(a)] {
					return []wsym{{Kind: "DYN", Pos: in.Pos()}}, true
				}
			}
			return nil, false
		}
		recv := callRecv(cc)
		if recv != nil && alias[strip(recv)] && (namedOf(cal.Signature.Recv().Type()) == c.WriterT || namedOf(cal.Signature.Recv().Type()) == c.ReaderT) {
			name := cal.Name()
			args := cc.Args[1:]
			switch name {
			case "WriteFrom", "ReadInto":
				elems, ok := varargElems(args[0])
				if !ok {
					return []wsym{{Kind: "UNSUPPORTED(variadic argument list not recoverable)", Pos: in.Pos()}}, true
				}
				var out []wsym
				for _, e := range elems {
					out = append(out, p.symOfArg(e, isWriter, in.Pos()))
				}
				return out, true
			case "Write", "Read":
				return []wsym{p.symOfArg(args[0], isWriter, in.Pos())}, true
			case "WriteBytesWithLength", "ReadBytesWithLength":
				k := int64(-1)
				for _, a := range args {
					if _, isSl := a.Type().Underlying().(*types.Slice); isSl {
						continue
					}
					if n, ok := constInt(a); ok {
						k = n
					}
				}
				s := wsym{Kind: fmt.Sprintf("lp%d", k), Pos: in.Pos()}
				if isWriter && len(args) > 0 {
					s.Field = p.fieldOfSource(args[0], 0)
				} else if v, ok := in.(ssa.Value); ok {
					s.Field = p.sinkOfValue(v, 0)
				}
				return []wsym{s}, true
			case "Reset", "Seek":
				if !isWriter {
					return []wsym{{Kind: "SUBSTREAM", Pos: in.Pos()}}, true
				}
				return nil, true
			}
			if k := kindOfMethod(name); k != "" {
				s := wsym{Kind: k, Pos: in.Pos()}
				if isWriter && len(args) > 0 {
					s.Field = p.fieldOfSource(args[0], 0)
				} else if v, ok := in.(ssa.Value); ok && !isWriter {
					s.Field = p.sinkOfValue(v, 0)
				}
				return []wsym{s}, true
			}
			return nil, true // Bytes(), Err(), Len() ...
		}
		// module helper receiving the stream
		if p.inModule(cal) {
			for ai, a := range cc.Args {
				if alias[strip(a)] && ai < len(cal.Params) {
					sub := p.wireSigOf(cal, ai)
					_ = sub
					return []wsym{{Kind: "CALL:" + fnName(cal) + fmt.Sprintf("#%d", ai), Pos: in.Pos()}}, true
				}
			}
		}
		return nil, false
	}
	// path enumeration
	const maxPaths = 20000
	type frame struct {
		blk    *ssa.BasicBlock
		seq    []wsym
		visits map[*ssa.BasicBlock]int
	}
	var rec func(f frame)
	seen := map[string]bool{}
	rec = func(f frame) {
		if len(sig.Seqs) >= maxPaths {
			sig.Truncated = true
			return
		}
		f.visits[f.blk]++
		defer func() { f.visits[f.blk]-- }()
		if f.visits[f.blk] > p.UnrollMax+1 {
			return
		}
		seq := f.seq
		for _, in := range f.blk.Instrs {
			if syms, ok := symbolsOfCall(in); ok {
				for _, s := range syms {
					if strings.HasPrefix(s.Kind, "CALL:") {
						// inline the helper's sequences
						parts := strings.SplitN(strings.TrimPrefix(s.Kind, "CALL:"), "#", 2)
						_ = parts
					}
					seq = append(append([]wsym(nil), seq...), s)
				}
			}
			switch x := in.(type) {
			case *ssa.If:
				for k, succ := range f.blk.Succs {
					if errEdge(x, k == 0) {
						continue
					}
					rec(frame{succ, seq, f.visits})
				}
				return
			case *ssa.Jump:
				rec(frame{f.blk.Succs[0], seq, f.visits})
				return
			case *ssa.Return:
				// success exit: last result is not a definitely-non-nil error
				if n := len(x.Results); n > 0 && isErrorType(x.Results[n-1].Type()) {
					ev := retOperand(x, n-1)
					// a named result kept in a cell (a deferred closure reads it): what this return stored into it
					if definitelyError(ev) || definitelyError(sameBlockDef(x.Results[n-1])) {
						return
					}
				}
				for i, sy := range seq {
					if sy.Kind == "SUBSTREAM" {
						seq = seq[:i] // what follows is read from a different buffer
						break
					}
				}
				key := seqKey(seq)
				if !seen[key] {
					seen[key] = true
					sig.Seqs = append(sig.Seqs, seq)
				}
				return
			case *ssa.Panic:
				return
			}
		}
	}
	rec(frame{fn.Blocks[0], nil, map[*ssa.BasicBlock]int{}})
	// inline helper calls (cross product), bounded
	sig.Seqs = p.inlineCalls(sig, 0)
	return sig
}

func definitelyError(v ssa.Value) bool {
	v = strip(v)
	switch x := v.(type) {
	case *ssa.Call:
		q := calleeQual(&x.Call)
		if q == "fmt.Errorf" || q == "errors.New" {
			return true
		}
		if cal := x.Call.StaticCallee(); cal != nil && (cal.Name() == "With" || cal.Name() == "WithMessage") {
			return true
		}
	case *ssa.UnOp:
		if x.Op == token.MUL {
			if _, ok := x.X.(*ssa.Global); ok {
				return true // a package-level error value
			}
		}
	case *ssa.MakeInterface:
		return true
	}
	return false
}

func seqKey(seq []wsym) string {
	var b strings.Builder
	for _, s := range seq {
		b.WriteString(s.Kind)
		b.WriteByte('/')
		b.WriteString(s.Field)
		b.WriteByte(' ')
	}
	return b.String()
}

func kindsOf(seq []wsym) string {
	var parts []string
	for _, s := range seq {
		k := s.Kind
		if k == "msg" && msgKinds != "" {
			k = msgKinds // a nested message, spelled out: a caller may use the framing helper on one side and its parts on the other
		}
		parts = append(parts, k)
	}
	return strings.Join(parts, " ")
}

// msgKinds: what the message framing (Writer.WriteMessage / Reader.ReadMessage) puts on the wire, when both sides have one and
// the same success-path signature (that agreement is an obligation of its own, C12.R1 "message framing"); "" otherwise.
var msgKinds string
var msgKindsDone = map[*Program]bool{}

func (p *Program) initMsgKinds() {
	if msgKindsDone[p] {
		return
	}
	msgKindsDone[p] = true
	msgKinds = ""
	c := p.codec()
	if c == nil || c.WriterT == nil || c.ReaderT == nil {
		return
	}
	w, rd := p.methodNamed(c.WriterT, "WriteMessage"), p.methodNamed(c.ReaderT, "ReadMessage")
	if w == nil || rd == nil {
		return
	}
	one := func(sg *wireSig) string {
		k := ""
		for i, seq := range sg.Seqs {
			ks := kindsOf(seq)
			if i > 0 && ks != k {
				return ""
			}
			k = ks
		}
		if strings.Contains(k, "msg") || strings.Contains(k, "UNSUPPORTED") || strings.Contains(k, "REC") || strings.Contains(k, "CALL") {
			return ""
		}
		return k
	}
	a, b := one(p.wireSigOf(w, 0)), one(p.wireSigOf(rd, 0))
	if a != "" && a == b {
		msgKinds = a
	}
}

// inlineCalls replaces CALL symbols by the helper's sequences.
func (p *Program) inlineCalls(sig *wireSig, depth int) [][]wsym {
	var out [][]wsym
	seen := map[string]bool{}
	for _, seq := range sig.Seqs {
		variants := [][]wsym{{}}
		for _, s := range seq {
			if !strings.HasPrefix(s.Kind, "CALL:") {
				for i := range variants {
					variants[i] = append(variants[i], s)
				}
				continue
			}
			spec := strings.TrimPrefix(s.Kind, "CALL:")
			hash := strings.LastIndex(spec, "#")
			name, ai := spec[:hash], 0
			fmt.Sscanf(spec[hash+1:], "%d", &ai)
			var helper *ssa.Function
			for _, f := range p.Mod {
				if fnName(f) == name {
					helper = f
				}
			}
			if helper == nil {
				for i := range variants {
					variants[i] = append(variants[i], wsym{Kind: "UNSUPPORTED(helper " + name + " not found)"})
				}
				continue
			}
			sub := p.wireSigOf(helper, ai)
			if sub.Truncated {
				sig.Truncated = true
			}
			sig.Problems = append(sig.Problems, sub.Problems...)
			var next [][]wsym
			for _, v := range variants {
				for _, ss := range sub.Seqs {
					nv := append(append([]wsym(nil), v...), ss...)
					next = append(next, nv)
					if len(next) > 20000 {
						sig.Truncated = true
						break
					}
				}
			}
			if len(sub.Seqs) == 0 {
				next = nil // helper has no success path
			}
			variants = next
		}
		for _, v := range variants {
			k := seqKey(v)
			if !seen[k] {
				seen[k] = true
				out = append(out, v)
			}
		}
	}
	return out
}

func (p *Program) symOfArg(v ssa.Value, writer bool, pos token.Pos) wsym {
	c := p.codec()
	t := v.Type()
	var inner ssa.Value = v
	if mi, ok := v.(*ssa.MakeInterface); ok {
		t = mi.X.Type()
		inner = mi.X
	}
	s := wsym{Kind: c.symbolForType(t, writer), Pos: pos}
	if _, isIface := t.Underlying().(*types.Interface); isIface {
		s.Kind = "UNSUPPORTED(" + typeName(t) + ": interface-typed value; the reflective writer emits nothing for its unexported fields / the reader cannot allocate it)"
	}
	if writer {
		s.Field = p.fieldOfSource(inner, 0)
	} else {
		s.Field = p.fieldOfSink(inner)
	}
	return s
}

// normalise a kind for reader/writer comparison: string and []byte with a 4-byte length are the same bytes on the wire.
func normKind(k string) string {
	return k
}

func sigSet(s *wireSig) map[string][]wsym {
	m := map[string][]wsym{}
	for _, seq := range s.Seqs {
		m[kindsOf(seq)] = seq
	}
	return m
}

func sortedKeys(m map[string][]wsym) []string {
	var ks []string
	for k := range m {
		ks = append(ks, k)
	}
	sort.Strings(ks)
	return ks
}

// ---- registrations ------------------------------------------------------------------------

type wireReg struct {
	T      types.Type // registered type argument (pointer to message struct)
	Name   string
	Reader *ssa.Function
	Writer *ssa.Function
	Site   ssa.Instruction
	In     *ssa.Function
}

var regCache = map[*Program][]wireReg{}

func (p *Program) registrations() []wireReg {
	if r, ok := regCache[p]; ok {
		return r
	}
	var out []wireReg
	for _, fn := range p.Mod {
		for _, b := range fn.Blocks {
			for _, in := range b.Instrs {
				c, ok := in.(*ssa.Call)
				if !ok {
					continue
				}
				cal := c.Call.StaticCallee()
				if cal == nil || cal.Origin() == nil || cal.Origin().Name() != "RegisterInternalMessage" {
					continue
				}
				targs := cal.TypeArgs()
				if len(targs) != 1 || len(c.Call.Args) != 3 {
					continue
				}
				r := wireReg{T: targs[0], Site: in, In: fn}
				if k, ok := c.Call.Args[0].(*ssa.Const); ok && k.Value != nil {
					r.Name = strings.Trim(k.Value.ExactString(), "\"")
				}
				r.Reader = funcValue(c.Call.Args[1])
				r.Writer = funcValue(c.Call.Args[2])
				out = append(out, r)
			}
		}
	}
	sort.Slice(out, func(i, j int) bool { return out[i].Name < out[j].Name })
	regCache[p] = out
	return out
}

func funcValue(v ssa.Value) *ssa.Function {
	switch x := strip(v).(type) {
	case *ssa.Function:
		return x
	case *ssa.MakeClosure:
		f, _ := x.Fn.(*ssa.Function)
		return f
	}
	return nil
}

// streamOwner: fn itself when it creates the codec stream it works on; when fn is a wrapper (statistics, logging) that hands its
// parameters to a single same-package function, that function (depth <= 2).
func (p *Program) streamOwner(fn *ssa.Function) *ssa.Function {
	c := p.codec()
	for depth := 0; fn != nil && depth < 2; depth++ {
		owns := false
		for _, b := range fn.Blocks {
			for _, in := range b.Instrs {
				if cc, ok := in.(*ssa.Call); ok {
					if n := namedOf(cc.Type()); n != nil && (n == c.WriterT || n == c.ReaderT) {
						if cal := cc.Call.StaticCallee(); cal != nil && cal.Signature.Recv() == nil {
							owns = true
						}
					}
				}
			}
		}
		if owns {
			return fn
		}
		var inner *ssa.Function
		var innerCall *ssa.Call
		n := 0
		for _, b := range fn.Blocks {
			for _, in := range b.Instrs {
				cc, ok := in.(*ssa.Call)
				if !ok {
					continue
				}
				y := cc.Call.StaticCallee()
				if y == nil || y == fn || len(y.Blocks) == 0 || fnPkg(y) != fnPkg(fn) || len(cc.Call.Args) < len(fn.Params) || len(fn.Params) == 0 {
					continue
				}
				passes := true
				for i, prm := range fn.Params {
					if strip(cc.Call.Args[i]) != ssa.Value(prm) {
						passes = false
					}
				}
				if passes {
					inner = y
					innerCall = cc
					n++
				}
			}
		}
		if n != 1 {
			return fn
		}
		// ... and returns its results unchanged and in order (directly, or through named results assigned from the call)
		for _, b := range fn.Blocks {
			ret, isR := b.Instrs[len(b.Instrs)-1].(*ssa.Return)
			if !isR {
				continue
			}
			for i, res := range ret.Results {
				v := sameBlockDef(res)
				if len(ret.Results) == 1 && strip(v) == ssa.Value(innerCall) {
					continue
				}
				if !derivesFromExtract(v, innerCall, i) && !cellAssignedFromExtract(res, innerCall, i) {
					return fn
				}
			}
		}
		fn = inner
	}
	return fn
}

// cellAssignedFromExtract: v is a load of a local cell (a named result kept in memory because a deferred closure reads it) whose
// every store is result #idx of call.
func cellAssignedFromExtract(v ssa.Value, call *ssa.Call, idx int) bool {
	u, ok := v.(*ssa.UnOp)
	if !ok || u.Op != token.MUL {
		return false
	}
	al, ok := u.X.(*ssa.Alloc)
	if !ok || al.Referrers() == nil {
		return false
	}
	n := 0
	for _, ref := range *al.Referrers() {
		if st, isSt := ref.(*ssa.Store); isSt && st.Addr == ssa.Value(al) {
			n++
			if !derivesFromExtract(st.Val, call, idx) {
				return false
			}
		}
	}
	return n > 0
}
