package main

// C11 — remote delivery over a healthy link; C14 — remoting under connection
// faults; C15 — location transparency. Structural parts.

import (
	"fmt"
	"go/token"
	"go/types"
	"sort"
	"strings"

	"golang.org/x/tools/go/callgraph"
	"golang.org/x/tools/go/ssa"
)

func init() {
	register(&Property{
		ID: "C11",
		Explanation: "Decided: (R1) the frame writer emits a 4-byte big-endian length of exactly the payload followed by the payload; the reader reads 4 bytes with the same byte order and then exactly that many bytes into the buffer it decodes; (R2) no value with internal read-ahead (bufio) wraps the connection unless it is stored in the connection object, and frames are read only by exact-length reads; " +
			"(R3) every path through the frame reader re-arms exactly once, kills the connection actor, or is the clean-EOF exit, and a decoded frame is handed to HandleRemotingEnvelop exactly once before the re-arm; (R4) frames are written to the connection only under the connection's write lock (handshake: before publication); (R5) the four address strings, the system flag and the message keep their role from the sender's envelope through wire position, decode result and handler parameter to the rebuilt envelope, which is enqueued to the mailbox of the rebuilt receiver; " +
			"(R6) envelope and handshake reader/writer signatures agree (C12.R1). (R6) the central creates a mailbox for an address only on the miss edge of a lookup of the same key made in the same critical section as the insertion: two first senders to a fresh address cannot end up with two mailboxes, two connections and two independently read streams; (R7) the cached connection is cleared only on an edge where that connection failed (write error, Closed()): dropping a healthy connection (e.g. after an encode failure) opens a second stream while the first still has a backlog, and later messages overtake earlier ones. (R8) handshake lock-step: every Send of the own handshake is on the dialer's branch or dominated by the success edge of Wait, so the dialer cannot send frames into the acceptor's unframed handshake read; (R10 = C14.R10) every send attempt writes the encoder's complete frame. (R11 = C12.R9) the pooled Reader/Writer every frame is decoded/encoded with starts clean — cursor, sticky error and byte order are reset between release and hand-out — so a junk frame on one connection cannot make the decoding of a later, healthy frame fail. (R12) every deadline a handshake half arms in front of its read / write is cleared (directly or by a deferred call) on every path to its return: an absolute deadline left on the socket kills the frame reader in the middle of the connection's life, with frames already written by the peer still unread — lost without a report on a healthy link (F46). NOT decided: exactly-once and order at run time for all burst sizes and TCP segmentations.",
		Rules: []Rule{
			{ID: "C11.R1", Min: 4, Desc: "framing agreement", Fn: c11Framing},
			{ID: "C11.R2", Min: 2, Desc: "no read-ahead loss; exact-length reads", Fn: c11ReadAhead},
			{ID: "C11.R3", Min: 3, Desc: "re-arm discipline of the frame reader", Fn: c11Rearm},
			{ID: "C11.R4", Min: 2, Desc: "single writer per connection", Fn: c11SingleWriter},
			{ID: "C11.R5", Min: 12, Desc: "address / flag / message roles end to end", Fn: c11Roles},
			{ID: "C11.R6", Min: 1, Desc: "one outbound mailbox (one ordered stream) per address", Fn: c11OneMailbox},
			{ID: "C11.R7", Min: 1, Desc: "a healthy connection is never dropped", Fn: c11KeepHealthy},
			{ID: "C11.R10", Min: 1, Desc: "every send attempt writes the complete frame (C14.R10): a retry runs on a new connection, a frame tail would be parsed as frames", Fn: c14WholeFrame},
			{ID: "C11.R11", Min: 5, Desc: "pooled codec objects start clean: junk on one connection does not poison the decoding on a healthy one (C12.R9)", Fn: c12Pools},
			{ID: "C11.R12", Min: 2, Desc: "a deadline armed for the handshake does not outlive the handshake", Fn: c11DeadlinesBoundTheHandshake},
			{ID: "C11.R13", Min: 2, Desc: "what is delivered is what was decoded: both sides choose the payload format by the same test and the decoding side never succeeds without decoding (C12.R11)", Fn: codecChoice},
			{ID: "C11.R14", Min: 3, Desc: "a reply reaches the ask it answers: fresh reply address per ask, used consistently (C04.R6)", Fn: c04Address},
			{ID: "C11.R8", Min: 1, Desc: "handshake lock-step: the accepting side answers only after it has read the dialer's handshake", Fn: c11HandshakeOrder},
			{ID: "C11.R9", Min: 2, Desc: "envelope and handshake signatures agree", Fn: c11Wire},
		},
	})
	register(&Property{
		ID: "C14",
		Explanation: "Decided: (R1) which blocking primitives are synchronously reachable from Tell (effect analysis over the call graph): the remoting send path's dial, handshake, retry sleep, writes and wait are a KNOWN FINDING (Tell blocks while the peer is unreachable, contrary to the documented contract); any other blocking primitive is a violation; " +
			"(R2) every failing exit of the send loop is reported (C03.R6) and an encode failure aborts the loop with the error; (R3) once a non-zero frame length was read the reader never re-arms without consuming exactly that many bytes — paths that do not consume kill the connection actor; (R4) the retry limit is clamped to >= 0, the retry loop exits on it, nothing reachable from a retry iteration writes the attempt counter, a stopped system aborts; " +
			"(R5) a failed write / closed connection clears the cached connection before the retry, and non-EOF read errors kill the connection actor without re-arming; (R6) an undecodable frame re-arms the reader; (R7) because the clean-EOF exit leaves the old connection actor registered, the name under which a connection actor is spawned contains a per-socket component, so a re-dial to the same peer does not collide with it. (R8) the retry helper object, which carries the attempt counter and is reset whenever a send returns, is created fresh for every mailbox (the value stored into the mailbox's field is an allocation or a constructor result): the per-peer lock then protects it, and traffic to a healthy peer cannot reset the count of an unreachable one. (R4, addition) every return of the retry helper leaves the attempt counter reset (deferred reset registered on every path, or a reset on every path from an advance to a return); (R9 = C11.R3) the frame reader re-arms or terminates its connection on every path; (R10) the value handed to the connection's Write is the frame encoder's result on every attempt, never a re-slice or remainder. (R11) no error of the transport package is dropped implicitly (bare call statements over the syntax tree). (R12) sibling agreement: Handshake.Send and Handshake.Wait arm and clear the same number of deadlines, so the two directions of a connection are left in the same state. (R13) a connection that lost its reading side while the socket stays open (close handshake of a peer system restarted in-process, invalid frame length, supervision) makes a later write fail: the write deadline armed before the handshake write is never disarmed in the transport (or every data write arms its own), or the reader's death closes the socket (reader exits / the connection actor's termination handler) — otherwise later messages are neither delivered nor dead-lettered and no reconnect happens. (R14 = C12.R9) pooled codec objects start clean: the sticky error of a frame that failed to decode is not inherited by later frames. (R16 = C11.R12) handshake deadlines are cleared before the handshake half returns. (R15 = C11.R1/R2) frames are read with exact-length reads straight from the connection — no buffering reader whose read-ahead a restart of the connection actor would discard. NOT decided: 'what it receives is a subsequence' under arbitrary cut points, duplicates after an ambiguous write error, recovery timing.",
		Rules: []Rule{
			{ID: "C14.R1", Min: 4, Desc: "Tell effect analysis (blocking primitives)", Fn: c14TellBlocks},
			{ID: "C14.R2", Min: 3, Desc: "failure reported; encode failure aborts", Fn: c14Reported},
			{ID: "C14.R3", Min: 1, Desc: "frame consumption before re-arm", Fn: c14Consumption},
			{ID: "C14.R4", Min: 4, Desc: "bounded retry", Fn: c14Retry},
			{ID: "C14.R5", Min: 3, Desc: "broken connection dropped", Fn: c14Dropped},
			{ID: "C14.R6", Min: 1, Desc: "decode failure continues", Fn: c14DecodeContinues},
			{ID: "C14.R7", Min: 1, Desc: "a re-dialled connection can be registered", Fn: c14ConnName},
			{ID: "C14.R9", Min: 3, Desc: "the frame reader re-arms or terminates its connection on every path (C11.R3): a connection that stops reading swallows every later frame", Fn: c11Rearm},
			{ID: "C14.R10", Min: 1, Desc: "every send attempt writes the complete frame", Fn: c14WholeFrame},
			{ID: "C14.R11", Min: 1, Desc: "no error of the transport layer is dropped implicitly", Fn: func(p *Program, r *Report) {
				p.checkNoImplicitDrop(r, "the transport (internal/remoting)", "a failed write, deadline or close that goes unnoticed leaves the sender believing the frame was delivered, or a connection half-open", func(rel string) bool {
					return rel == "internal/remoting" || rel == "internal/remoting/serialize"
				})
			}},
			{ID: "C14.R12", Min: 1, Desc: "the two halves of the handshake treat their deadlines alike (sibling agreement)", Fn: c14HandshakeDeadlines},
			{ID: "C14.R13", Min: 1, Desc: "a connection that lost its reader makes a later write fail (armed write deadline, or the reader's death closes the socket)", Fn: c14HalfDeadNoticed},
			{ID: "C14.R14", Min: 5, Desc: "pooled codec objects start clean: a frame that failed to decode does not poison the decoding of later frames (C12.R9)", Fn: c12Pools},
			{ID: "C14.R15", Min: 4, Desc: "framing agreement and exact-length reads straight from the connection (C11.R1/R2): nothing read ahead can be lost when the connection actor restarts", Fn: func(p *Program, r *Report) { c11Framing(p, r); c11ReadAhead(p, r) }},
			{ID: "C14.R16", Min: 2, Desc: "a deadline armed for the handshake does not outlive the handshake (C11.R12): no reader dies on a healthy link with unread frames in the socket", Fn: c11DeadlinesBoundTheHandshake},
			{ID: "C14.R8", Min: 1, Desc: "retry state is per mailbox, never shared between peers", Fn: c14OwnBackoff},
		},
	})
	register(&Property{
		ID: "C15",
		Explanation: "Decided: (R1) no registered reader/writer passes a value to the codec that it cannot represent (interface-typed refs, named basic types, unexported-only structs ...); (R2) every message type told by an actor-context operation is registered for the wire, or is told only to references taken from the local parent/child/target tables or to the actor itself; " +
			"(R3) the mailbox lookup reaches the remoting mailbox for every non-local address whenever remoting is enabled and the system is not stopped; (R4) sender/receiver roles are preserved end to end so that Reply reaches the original sender (C11.R5); (R5) a nested message that the library itself may leave nil (the Message of a failure PipeResult) is guarded by a non-nil test in its writer, because a nil message can only take the user-codec path and fails without a codec (F30, fixed); (R6) the key under which Watch/Unwatch store a watcher depends on the watcher's address; R1 also rejects length prefixes narrower than 4 bytes for unbounded strings (long actor paths). (R8) a registered reader assigns an error-typed field of its message under an (in)equality test of the decoded code, never an ordering test (codes are signed, the catch-all code is negative); (R9 = C14.R4) a remote operation whose first attempt fails is retried within the full budget. (R10 = C12.R10) no error of the codec layer is dropped implicitly. (R11 = C12.R11) every hand-over of a message to the user's Codec, on the writing and on the reading side, of envelopes and of nested messages, is dominated by the same outcome of the same registry-membership test of the message's descriptor: with a Codec configured a registered type still travels in its registered format. (R12 = C14.R13) a connection whose reading side has died while the socket stays open makes a later write fail (armed write deadline never disarmed, or the reader's death closes the socket): otherwise every remote operation on a connection older than the handshake deadline is written into the void. (R13 = C12.R13) a registered reader never replaces decoded content by local content (an error reply keeps the detail attached with With / WithMessage across systems). (R14 = C14.R6) an undecodable frame re-arms the reader. NOT decided: the observable effect at the remote actor.",
		Rules: []Rule{
			{ID: "C15.R7", Min: 5, Desc: "pooled codec objects start clean: an encode failure of one message cannot poison the next remote operation (C12.R9)", Fn: c12Pools},
			{ID: "C15.R6", Min: 4, Desc: "watcher identity includes the address", Fn: c15WatcherIdentity},
			{ID: "C15.R9", Min: 4, Desc: "a remote operation whose first attempt fails is retried within the full budget: bounded retry, counter reset on every return (C14.R4)", Fn: c14Retry},
			{ID: "C15.R10", Min: 1, Desc: "no error of the codec layer is dropped implicitly (C12.R10)", Fn: func(p *Program, r *Report) {
				p.checkNoImplicitDrop(r, "the codec (messages, envelope and cluster serialisers, registered readers/writers)", "an encoding error that is not propagated yields a truncated or empty frame that is sent as if it were complete; a decoding error that is not propagated hands on a half-filled message", func(rel string) bool {
					return rel == "" || rel == "internal/messages" || rel == "internal/remoting/serialize" || rel == "internal/cluster"
				})
			}},
			{ID: "C15.R11", Min: 2, Desc: "writer and reader choose between the registered format and the user Codec by the same registry-membership test", Fn: codecChoice},
			{ID: "C15.R12", Min: 1, Desc: "remote operations on an aged connection: a connection that lost its reader makes a later write fail (C14.R13)", Fn: c14HalfDeadNoticed},
			{ID: "C15.R13", Min: 5, Desc: "a registered reader never overwrites what it has decoded (C12.R13): a remote reply carries the same content as a local one", Fn: c12DecodedKept},
			{ID: "C15.R14", Min: 1, Desc: "an undecodable frame does not end the reading of the connection: later remote operations from that peer still arrive (C14.R6)", Fn: c14DecodeContinues},
			{ID: "C15.R15", Min: 2, Desc: "a reference to another address is never answered with the root's own mailbox (C03.R16): a remote Kill cannot kill the local system", Fn: c03RootMailboxOnlyForRoot},
			{ID: "C15.R8", Min: 1, Desc: "an error carried by a message is reconstructed for every code other than the writer's no-error value", Fn: c15ErrorSentinel},
			{ID: "C15.R5", Min: 2, Desc: "optional nested payloads are encodable without a codec", Fn: c15OptionalPayload},
			{ID: "C15.R1", Min: 28, Desc: "wire-representable fields", Fn: c15Representable},
			{ID: "C15.R2", Min: 10, Desc: "told message types are registered or local-only", Fn: c15Registered},
			{ID: "C15.R3", Min: 2, Desc: "routing of non-local addresses", Fn: c15Routing},
			{ID: "C15.R4", Min: 12, Desc: "sender role preservation", Fn: c11Roles},
		},
	})
}

type remRoles struct {
	ConnT      *types.Named // tcp connection actor
	ConnF      *types.Var   // net.Conn field
	WriteLock  *types.Var
	ReadFn     *ssa.Function // frame reader (returns (bool, error))
	EncodeLen  *ssa.Function // builds prefix + payload
	MboxT      *types.Named  // remoting mailbox
	Enqueue    *ssa.Function
	SendLoop   *ssa.Function // closure passed to the retry helper
	Try        *ssa.Function
	ConnCache  *types.Var // Mailbox.connection
	problems   []string
	condEvents []ssa.Instruction // calls in the frame reader to helpers that re-arm / kill on some paths only
}

var remCache = map[*Program]*remRoles{}

func (p *Program) remoting() *remRoles {
	if r, ok := remCache[p]; ok {
		return r
	}
	r := &remRoles{}
	remCache[p] = r
	// connection actor: struct in the remoting package with a net.Conn field and an OnReceive method
	for _, pk := range p.Pkgs {
		if !strings.HasSuffix(pk.PkgPath, "/internal/remoting") {
			continue
		}
		sc := pk.Types.Scope()
		for _, name := range sc.Names() {
			tn, ok := sc.Lookup(name).(*types.TypeName)
			if !ok {
				continue
			}
			n, ok := tn.Type().(*types.Named)
			if !ok {
				continue
			}
			st, ok := n.Underlying().(*types.Struct)
			if !ok {
				continue
			}
			var connF, lockF *types.Var
			for i := 0; i < st.NumFields(); i++ {
				if typeIs(st.Field(i).Type(), "net", "Conn") {
					connF = st.Field(i)
				}
				if typeIs(st.Field(i).Type(), "sync", "RWMutex") || typeIs(st.Field(i).Type(), "sync", "Mutex") {
					lockF = st.Field(i)
				}
			}
			if connF != nil && p.methodNamed(n, "OnReceive") != nil {
				r.ConnT, r.ConnF, r.WriteLock = n, connF, lockF
			}
			if implementsIface(n, p.Iface("", "Mailbox")) {
				r.MboxT = n
				for i := 0; i < st.NumFields(); i++ {
					if namedOf(st.Field(i).Type()) != nil && r.ConnT != nil && namedOf(st.Field(i).Type()) == r.ConnT {
						r.ConnCache = st.Field(i)
					}
				}
			}
		}
	}
	if r.ConnT == nil || r.MboxT == nil {
		r.problems = append(r.problems, "remoting connection actor / mailbox types")
		return r
	}
	if r.ConnCache == nil {
		st := r.MboxT.Underlying().(*types.Struct)
		for i := 0; i < st.NumFields(); i++ {
			if namedOf(st.Field(i).Type()) == r.ConnT {
				r.ConnCache = st.Field(i)
			}
		}
	}
	for _, fn := range p.methodsOf(r.ConnT) {
		if fn.Parent() != nil {
			continue
		}
		for _, b := range fn.Blocks {
			for _, in := range b.Instrs {
				if calleeQual(callOf(in)) == "io.ReadFull" {
					r.ReadFn = fn
				}
			}
		}
	}
	r.Enqueue = p.methodNamed(r.MboxT, "Enqueue")
	for _, fn := range p.methodsOf(r.MboxT) {
		if fn.Parent() != nil {
			continue
		}
		for _, b := range fn.Blocks {
			for _, in := range b.Instrs {
				if strings.HasSuffix(calleeQual(callOf(in)), "binary.bigEndian).PutUint32") || strings.HasSuffix(calleeQual(callOf(in)), "PutUint32") {
					r.EncodeLen = fn
				}
			}
		}
	}
	if r.Enqueue != nil {
		for _, b := range r.Enqueue.Blocks {
			for _, in := range b.Instrs {
				c := callOf(in)
				if c == nil || c.StaticCallee() == nil {
					continue
				}
				for _, a := range c.Args {
					if mc, ok := strip(a).(*ssa.MakeClosure); ok {
						if f, ok := mc.Fn.(*ssa.Function); ok && f.Signature.Results().Len() == 2 {
							r.SendLoop, r.Try = p.unwrapThin(f), c.StaticCallee()
						}
					}
				}
			}
		}
	}
	for name, v := range map[string]*ssa.Function{"frame reader": r.ReadFn, "frame encoder": r.EncodeLen, "remoting Enqueue": r.Enqueue, "send loop closure": r.SendLoop, "retry helper": r.Try} {
		if v == nil {
			r.problems = append(r.problems, "remoting role "+name)
		}
	}
	if r.ConnCache == nil || r.WriteLock == nil {
		r.problems = append(r.problems, "remoting role connection cache / write lock")
	}
	return r
}

func remOrFail(p *Program, r *Report) *remRoles {
	rm := p.remoting()
	if len(rm.problems) > 0 {
		for _, pr := range rm.problems {
			r.Unresolved(pr)
		}
		return nil
	}
	return rm
}

func byteOrderOf(c *ssa.CallCommon) string {
	// binary.BigEndian.PutUint32(...) / .Uint32(...): receiver is a load of the package-level order value
	if recv := callRecv(c); recv != nil {
		if u, ok := strip(recv).(*ssa.UnOp); ok {
			if g, ok := u.X.(*ssa.Global); ok {
				return g.Name()
			}
		}
		if g, ok := strip(recv).(*ssa.Global); ok {
			return g.Name()
		}
	}
	return ""
}

func c11Framing(p *Program, r *Report) {
	rm := remOrFail(p, r)
	if rm == nil {
		return
	}
	// writer
	var put *ssa.Call
	for _, b := range rm.EncodeLen.Blocks {
		for _, in := range b.Instrs {
			if c, ok := in.(*ssa.Call); ok && strings.HasSuffix(calleeQual(&c.Call), "PutUint32") {
				put = c
			}
		}
	}
	okW, wOrder, desc := false, "", ""
	var payload ssa.Value
	if put != nil {
		wOrder = byteOrderOf(&put.Call)
		args := callArgs(&put.Call)
		if len(args) == 2 {
			// prefix buffer: make([]byte, 4); value: uint32(len(payload))
			pref := strip(args[0])
			plen := constSliceLen(pref)
			if cv, isCv := args[1].(*ssa.Convert); isCv {
				if lc, isL := cv.X.(*ssa.Call); isL {
					if b, isB := lc.Call.Value.(*ssa.Builtin); isB && b.Name() == "len" {
						payload = lc.Call.Args[0]
					}
				}
			}
			// result: append(prefix, payload...)
			appended := false
			for _, b := range rm.EncodeLen.Blocks {
				for _, in := range b.Instrs {
					if ret, isR := in.(*ssa.Return); isR {
						if ac, isC := strip(retOperand(ret, 0)).(*ssa.Call); isC {
							if bi, isB := ac.Call.Value.(*ssa.Builtin); isB && bi.Name() == "append" && strip(ac.Call.Args[0]) == pref && payload != nil && strip(ac.Call.Args[1]) == strip(payload) {
								appended = true
							}
						}
					}
				}
			}
			// ... or one buffer of 4+len(payload) bytes: prefix written at its start, payload copied to offset 4, the buffer returned
			if !appended && payload != nil {
				if mk, isMk := pref.(*ssa.MakeSlice); isMk {
					sized := false
					if add, isAdd := mk.Len.(*ssa.BinOp); isAdd && add.Op == token.ADD {
						for _, pair := range [][2]ssa.Value{{add.X, add.Y}, {add.Y, add.X}} {
							if k, isK := constInt(pair[0]); isK && k == 4 {
								if lc, isL := pair[1].(*ssa.Call); isL {
									if b, isB := lc.Call.Value.(*ssa.Builtin); isB && b.Name() == "len" && strip(lc.Call.Args[0]) == strip(payload) {
										sized = true
									}
								}
							}
						}
					}
					copied, returned := false, false
					for _, b := range rm.EncodeLen.Blocks {
						for _, in := range b.Instrs {
							if cc, isC := in.(*ssa.Call); isC {
								if bi, isB := cc.Call.Value.(*ssa.Builtin); isB && bi.Name() == "copy" && len(cc.Call.Args) == 2 && strip(cc.Call.Args[1]) == strip(payload) {
									if sl, isSl := cc.Call.Args[0].(*ssa.Slice); isSl && strip(sl.X) == ssa.Value(mk) && sl.High == nil {
										if lo, isK := constInt(sl.Low); isK && lo == 4 {
											copied = true
										}
									}
								}
							}
							if ret, isR := in.(*ssa.Return); isR && strip(retOperand(ret, 0)) == ssa.Value(mk) {
								returned = true
							}
						}
					}
					if sized && copied && returned {
						appended, plen = true, 4
					}
				}
			}
			fromEncode := payload != nil && anyContains(p.origins(payload), "EncodeEnvelopWithRemoting")
			okW = plen == 4 && payload != nil && appended && fromEncode
			desc = fmt.Sprintf("prefix=%d bytes order=%s payload-from-encoder=%v append(prefix,payload)=%v", plen, wOrder, fromEncode, appended)
		}
	}
	r.Check(okW, "frame writer: length prefix of exactly the payload", rm.EncodeLen.Pos(), "4-byte prefix = uint32(len(payload)) with a fixed byte order, result = prefix followed by the payload ("+desc+")")
	// reader
	g := p.igx(rm.ReadFn)
	var fulls []*ssa.Call
	var lenCall *ssa.Call
	for _, in := range g.Nodes {
		if c, ok := in.(*ssa.Call); ok {
			if calleeQual(&c.Call) == "io.ReadFull" {
				fulls = append(fulls, c)
			}
			if strings.HasSuffix(calleeQual(&c.Call), ").Uint32") && strings.Contains(calleeQual(&c.Call), "binary") {
				lenCall = c
			}
		}
	}
	okR := len(fulls) == 2 && lenCall != nil
	rOrder := ""
	if okR {
		rOrder = byteOrderOf(&lenCall.Call)
		// first read fills a 4-byte buffer which is the argument of Uint32
		b1 := strip(fulls[0].Call.Args[1])
		l1 := constSliceLen(b1)
		okR = l1 == 4 && strip(callArgs(&lenCall.Call)[0]) == b1
		// second read fills a buffer of exactly msgLen bytes
		b2, is2 := strip(fulls[1].Call.Args[1]).(*ssa.MakeSlice)
		if !is2 || !derivesFromValue(b2.Len, lenCall) {
			okR = false
		}
		// both read from the connection itself
		for _, f := range fulls {
			if !anyContains(p.origins(f.Call.Args[0]), "."+rm.ConnF.Name()+"<-") {
				okR = false
			}
		}
		// the decoded bytes are that buffer
		dec := false
		for _, in := range g.Nodes {
			if c := callOf(in); c != nil && c.StaticCallee() != nil && c.StaticCallee().Name() == "DecodeEnvelopWithRemoting" && is2 && g.res(c.Args[1]) == ssa.Value(b2) {
				dec = true
			}
		}
		okR = okR && dec
	}
	r.Check(okR, "frame reader: 4-byte length then exactly that many bytes", rm.ReadFn.Pos(), "io.ReadFull(conn, 4 bytes) → length → io.ReadFull(conn, make([]byte, length)) → decode that buffer")
	r.Check(wOrder != "" && wOrder == rOrder, "frame length byte order", rm.ReadFn.Pos(), fmt.Sprintf("writer uses binary.%s, reader uses binary.%s", wOrder, rOrder))
	// sender rejects what the receiver would reject
	capW, capR := false, false
	for _, fn := range []*ssa.Function{rm.EncodeLen, rm.ReadFn} {
		fg := p.ig(fn)
		for _, ifi := range ifsOf(fn) {
			f, ok := condFact(ifi.Cond, true)
			if ok && f.Op == token.GTR && f.Y == nil && !f.IsNil && f.C == 4*1024*1024 {
				if fn == rm.EncodeLen {
					capW = true
				} else {
					capR = true
				}
			}
			_ = fg
		}
	}
	r.Check(capW && capR, "frame limit enforced on both sides", rm.EncodeLen.Pos(), "the sender refuses payloads above the limit the receiver enforces (an oversize frame would otherwise kill the link)")
}

func derivesFromValue(v ssa.Value, src ssa.Value) bool {
	seen := map[ssa.Value]bool{}
	var rec func(v ssa.Value) bool
	rec = func(v ssa.Value) bool {
		if v == src {
			return true
		}
		if seen[v] {
			return false
		}
		seen[v] = true
		switch x := v.(type) {
		case *ssa.Convert:
			return rec(x.X)
		case *ssa.ChangeType:
			return rec(x.X)
		case *ssa.Phi:
			for _, e := range x.Edges {
				if !rec(e) {
					return false
				}
			}
			return len(x.Edges) > 0
		}
		return false
	}
	return rec(v)
}

func c11ReadAhead(p *Program, r *Report) {
	rm := remOrFail(p, r)
	if rm == nil {
		return
	}
	n := 0
	for _, fn := range p.Mod {
		pk := fnPkg(fn)
		if pk == nil || !strings.Contains(pk.Path(), "/internal/remoting") {
			continue
		}
		for _, b := range fn.Blocks {
			for _, in := range b.Instrs {
				c, ok := in.(*ssa.Call)
				if !ok {
					continue
				}
				q := calleeQual(&c.Call)
				if !strings.HasPrefix(q, "bufio.New") {
					continue
				}
				n++
				// allowed only when the buffered object is stored in a field (it then lives as long as the connection)
				stored := false
				for _, ref := range *c.Referrers() {
					if st, isSt := ref.(*ssa.Store); isSt && st.Val == ssa.Value(c) {
						if f, _ := fieldAddr(st.Addr); f != nil {
							stored = true
						}
					}
				}
				r.Check(stored, q+" in "+fnName(fn), c.Pos(), "a buffered reader over the connection must live in the connection object: a per-call bufio.Reader discards its read-ahead (the following frames) when the call returns")
			}
		}
	}
	if n == 0 {
		r.Lookup("no transient buffered reader over the connection", rm.ReadFn.Pos(), "no bufio constructor is called in the remoting packages (positive witness: c11-bufio-per-frame)")
	}
	// frames are read only through exact-length reads
	g := p.igx(rm.ReadFn)
	raw := 0
	for _, in := range g.Nodes {
		if c := callOf(in); c != nil && c.IsInvoke() && c.Method.Name() == "Read" && typeIs(c.Value.Type(), "net", "Conn") {
			raw++
		}
	}
	r.Check(raw == 0, "frame reader uses exact-length reads only", rm.ReadFn.Pos(), "the frame reader never calls conn.Read directly (a short read would split a frame)")
}

// rearmNodes / killNodes / eofEdges of the frame reader.
func (p *Program) readerEvents(rm *remRoles) (g *IG, rearm, kill map[int]bool, eof map[edge]bool) {
	g = p.igx(rm.ReadFn)
	isRearm := func(in ssa.Instruction) bool {
		c := callOf(in)
		if c == nil || !c.IsInvoke() || c.Method.Name() != "TellSelf" || len(c.Args) != 1 {
			return false
		}
		return anyContains(p.origins(c.Args[0]), "."+rm.ConnF.Name()+"<-")
	}
	isKill := func(in ssa.Instruction) bool {
		c := callOf(in)
		if c == nil || !c.IsInvoke() || c.Method.Name() != "Kill" || len(c.Args) < 2 {
			return false
		}
		rc, ok := strip(c.Args[0]).(*ssa.Call)
		return ok && rc.Call.IsInvoke() && rc.Call.Method.Name() == "Ref"
	}
	// through helpers: a call counts as the event when its callee performs it on every path; a callee that performs it
	// only on some paths is listed in rm.condEvents (the re-arm rule reports it as undecided)
	var rearmMay, killMay map[int]bool
	rearm, rearmMay = p.eventNodes(g, isRearm)
	kill, killMay = p.eventNodes(g, isKill)
	rm.condEvents = nil
	for n := range rearmMay {
		if !rearm[n] {
			rm.condEvents = append(rm.condEvents, g.Nodes[n])
		}
	}
	for n := range killMay {
		if !kill[n] {
			rm.condEvents = append(rm.condEvents, g.Nodes[n])
		}
	}
	eof, _ = callEdges(g, func(c *ssa.Call) bool {
		if calleeQual(&c.Call) != "errors.Is" {
			return false
		}
		return anyContains(p.origins(c.Call.Args[1]), "global:EOF")
	})
	return
}

func c11Rearm(p *Program, r *Report) {
	rm := remOrFail(p, r)
	if rm == nil {
		return
	}
	g, rearm, kill, eof := p.readerEvents(rm)
	if len(rearm) == 0 || len(kill) == 0 {
		r.Unresolved("re-arm (TellSelf(conn)) / self-kill sites of the frame reader")
		return
	}
	for _, in := range rm.condEvents {
		r.Undecided("frame reader calls a helper that re-arms or kills on some of its paths only", in.Pos(), "the helper is neither a certain nor an impossible re-arm/kill: not summarised")
	}
	// every path reaches an exit only through a re-arm, a kill or the EOF edge
	reach := g.Reach(g.entry(), union(rearm, kill), eof)
	r.Check(!anyIn(reach, g.Exits), "every exit of the frame reader re-arms, kills, or is the clean EOF exit", rm.ReadFn.Pos(), fmt.Sprintf("%d re-arm sites, %d kill sites, %d EOF edges; no path returns without one of them (a silent return stops reading while the connection stays open)", len(rearm), len(kill), len(eof)))
	// never twice, never re-arm after kill
	ok := true
	for a := range rearm {
		after := g.ReachAfter(a, nil, nil)
		for b := range rearm {
			if after[b] {
				ok = false
			}
		}
		for k := range kill {
			if after[k] {
				ok = false
			}
		}
	}
	for k := range kill {
		after := g.ReachAfter(k, nil, nil)
		for a := range rearm {
			if after[a] {
				ok = false
			}
		}
	}
	r.Check(ok, "at most one re-arm per frame, none after a kill", firstPos(g, rearm), "no path performs two TellSelf(conn) (two concurrent readers interleave bytes) or re-arms a connection it is killing")
	// a decoded frame is handed over exactly once, before the re-arm
	hand := nodesWhere(g, func(in ssa.Instruction) bool {
		c := callOf(in)
		return c != nil && c.IsInvoke() && c.Method.Name() == "HandleRemotingEnvelop"
	})
	var dec *ssa.Call
	for _, in := range g.Nodes {
		if c, isC := in.(*ssa.Call); isC && c.Call.StaticCallee() != nil && c.Call.StaticCallee().Name() == "DecodeEnvelopWithRemoting" {
			dec = c
		}
	}
	okH := len(hand) == 1 && dec != nil
	if okH {
		okE := g.edgesWhere(func(f cmpFact) bool {
			if !f.IsNil || f.Op != token.EQL {
				return false
			}
			ex, isEx := f.X.(*ssa.Extract)
			return isEx && ex.Tuple == ssa.Value(dec) && isErrorType(ex.Type())
		})
		for h := range hand {
			if len(okE) == 0 || !g.DominatedByEdges(h, okE) {
				okH = false
			}
			for e := range okE {
				if !hand[e.to] && anyIn(g.Reach([]int{e.to}, hand, nil), g.Exits) {
					okH = false
				}
			}
			if g.ReachAfter(h, nil, nil)[h] {
				okH = false
			}
			// the re-arm also lies on every success path; its order relative to the hand-over is irrelevant
			// (the connection actor handles one message at a time, the next read starts after this handler returns)
			for e := range okE {
				if !rearm[e.to] && anyIn(g.Reach([]int{e.to}, rearm, nil), g.Exits) {
					okH = false
				}
			}
		}
	}
	r.Check(okH, "a decoded frame is delivered exactly once and the reader re-arms", firstPos(g, hand), "HandleRemotingEnvelop is dominated by the decode's err==nil edge and lies on every such path exactly once, as does the re-arm")
}

func c11SingleWriter(p *Program, r *Report) {
	rm := remOrFail(p, r)
	if rm == nil {
		return
	}
	ctors := p.ctorFuncsOf(rm.ConnT)
	n := 0
	for _, fn := range p.Mod {
		pk := fnPkg(fn)
		if pk == nil || !strings.Contains(pk.Path(), "/internal/remoting") {
			continue
		}
		g := p.ig(fn)
		var li *lockInfo
		for i, in := range g.Nodes {
			c := callOf(in)
			if c == nil || !c.IsInvoke() || c.Method.Name() != "Write" || !typeIs(c.Value.Type(), "net", "Conn") {
				continue
			}
			n++
			if li == nil {
				li = p.held(fn)
			}
			// handshake: before the connection object is published (only reachable from the constructor)
			if p.onlyCalledFrom(fn, ctors) {
				r.Check(true, "conn.Write in "+fnName(fn), in.Pos(), "handshake write happens inside the connection's constructor, before any other goroutine can see the connection")
				continue
			}
			r.Check(li.at(i)[rm.WriteLock] == 2, "conn.Write in "+fnName(fn), in.Pos(), fmt.Sprintf("frame bytes are written with %s write-held (held=%s): concurrent senders cannot interleave partial frames", rm.WriteLock.Name(), li.at(i).names()))
		}
	}
	if n < 2 {
		r.Unresolved("writes to the connection")
	}
}

func c11Roles(p *Program, r *Report) {
	rm := remOrFail(p, r)
	if rm == nil {
		return
	}
	enc := p.streamOwner(p.Func("internal/remoting/serialize", "EncodeEnvelopWithRemoting"))
	dec := p.streamOwner(p.Func("internal/remoting/serialize", "DecodeEnvelopWithRemoting"))
	if enc == nil || dec == nil {
		r.Unresolved("envelope encoder/decoder")
		return
	}
	roles := []string{"name", "system", "senderAddr", "senderPath", "receiverAddr", "receiverPath"}
	// (a) encoder: the WriteFrom that follows the payload
	var wf *ssa.Call
	for _, b := range enc.Blocks {
		for _, in := range b.Instrs {
			if c, ok := in.(*ssa.Call); ok && c.Call.StaticCallee() != nil && c.Call.StaticCallee().Name() == "WriteFrom" {
				wf = c
			}
		}
	}
	var welems []ssa.Value
	if wf != nil {
		welems, _ = varargElems(wf.Call.Args[1])
	}
	wantW := []string{"MessageName", "call:(vivid.Envelop).System", "GetAddress<-call:(vivid.Envelop).Sender", "GetPath<-call:(vivid.Envelop).Sender", "GetAddress<-call:(vivid.Envelop).Receiver", "GetPath<-call:(vivid.Envelop).Receiver"}
	// the payload and its name may be written by the message framing helper (Writer.WriteMessage(envelop.Message(), codec)):
	// the trailer then starts at the system flag
	off := 0
	if len(welems) == 5 {
		framed := false
		for _, b := range enc.Blocks {
			for _, in := range b.Instrs {
				if c, ok := in.(*ssa.Call); ok && c.Call.StaticCallee() != nil && c.Call.StaticCallee().Name() == "WriteMessage" && len(c.Call.Args) >= 2 {
					if anyContains(p.origins(c.Call.Args[1]), "call:(vivid.Envelop).Message") {
						framed = true
					}
				}
			}
		}
		if framed {
			off = 1
			r.Check(true, "envelope writer position name", wf.Pos(), "payload and wire name are written by the message framing helper from envelop.Message() (its agreement with the reader is C12.R1)")
		}
	}
	if len(welems)+off != 6 {
		r.Violate("envelope writer positions", enc.Pos(), "the trailer WriteFrom of the envelope does not have 6 recoverable arguments")
	} else {
		wantW, roles := wantW[off:], roles[off:]
		for i, e := range welems {
			o := p.origins(e)
			// locals assigned under `if s := envelop.Sender(); s != nil`: keep only chains that are not the empty-string default
			var real []string
			for _, ch := range o {
				if !strings.HasPrefix(ch, "const:") {
					real = append(real, ch)
				}
			}
			r.Check(len(real) > 0 && allContain(real, wantW[i]), "envelope writer position "+roles[i], wf.Pos(), "wire position carries "+wantW[i]+" ("+strings.Join(o, " | ")+")")
		}
	}
	// (b) decoder: ReadInto positions → result indices
	var ri *ssa.Call
	for _, b := range dec.Blocks {
		for _, in := range b.Instrs {
			if c, ok := in.(*ssa.Call); ok && c.Call.StaticCallee() != nil && c.Call.StaticCallee().Name() == "ReadInto" && ri == nil {
				ri = c
			}
		}
	}
	resultOf := map[*ssa.Alloc]int{}
	for _, b := range dec.Blocks {
		for _, in := range b.Instrs {
			if ret, ok := in.(*ssa.Return); ok {
				for k, v := range ret.Results {
					if u, isU := v.(*ssa.UnOp); isU {
						if al, isAl := u.X.(*ssa.Alloc); isAl {
							resultOf[al] = k
						}
					}
				}
			}
		}
	}
	var relems []ssa.Value
	if ri != nil {
		relems, _ = varargElems(ri.Call.Args[1])
	}
	// wire order: payload, name, system, senderAddr, senderPath, receiverAddr, receiverPath → results 0..4 = system, sAddr, sPath, rAddr, rPath
	wantR := map[int]int{2: 0, 3: 1, 4: 2, 5: 3, 6: 4}
	if len(relems) != 7 {
		r.Violate("envelope reader positions", dec.Pos(), "the envelope ReadInto does not have 7 recoverable arguments")
	} else {
		for pos, res := range wantR {
			al, _ := strip(relems[pos]).(*ssa.Alloc)
			if mi, ok := relems[pos].(*ssa.MakeInterface); ok {
				al, _ = mi.X.(*ssa.Alloc)
			}
			got, ok := resultOf[al]
			r.Check(al != nil && ok && got == res, "envelope reader position "+roles[pos-1], ri.Pos(), fmt.Sprintf("wire position %d is decoded into result #%d (expected #%d)", pos, got, res))
		}
	}
	// (c) frame reader hands results to the handler in the same order
	g := p.igx(rm.ReadFn)
	var dcall *ssa.Call
	var hcall *ssa.CallCommon
	var hpos token.Pos
	for _, in := range g.Nodes {
		if c, ok := in.(*ssa.Call); ok {
			if y := c.Call.StaticCallee(); y != nil && (y == dec || p.streamOwner(y) == dec) {
				dcall = c
			}
			if c.Call.IsInvoke() && c.Call.Method.Name() == "HandleRemotingEnvelop" {
				hcall, hpos = &c.Call, c.Pos()
			}
		}
	}
	okC := dcall != nil && hcall != nil && len(hcall.Args) == 6
	if okC {
		for k := 0; k < 6; k++ {
			if !derivesFromExtract(hcall.Args[k], dcall, k) {
				okC = false
			}
		}
	}
	r.Check(okC, "frame reader passes decode results to the handler in order", hpos, "HandleRemotingEnvelop(system, senderAddr, senderPath, receiverAddr, receiverPath, message) receives decode results #0..#5 in this order")
	// (d) handler: rebuild refs and envelope
	n := 0
	for _, fn := range p.Mod {
		if fn.Name() != "HandleRemotingEnvelop" || fn.Parent() != nil || len(fn.Blocks) == 0 || fn.Synthetic != "" || len(fn.Params) != 7 {
			continue
		}
		n++
		hg := p.ig(fn)
		var refs []*ssa.Call
		var env, find *ssa.Call
		for _, in := range hg.Nodes {
			if c, ok := in.(*ssa.Call); ok && c.Call.StaticCallee() != nil {
				switch {
				case c.Call.StaticCallee().Name() == "NewRef":
					refs = append(refs, c)
				case c.Call.StaticCallee().Name() == "NewEnvelop":
					env = c
				case c.Call.StaticCallee().Signature.Results().Len() == 1 && types.Identical(c.Call.StaticCallee().Signature.Results().At(0).Type(), p.Named("", "Mailbox")):
					find = c
				}
			}
		}
		ok := len(refs) == 2 && env != nil && find != nil
		if ok {
			s, rc := refs[0], refs[1]
			ok = strip(s.Call.Args[0]) == ssa.Value(fn.Params[2]) && strip(s.Call.Args[1]) == ssa.Value(fn.Params[3]) &&
				strip(rc.Call.Args[0]) == ssa.Value(fn.Params[4]) && strip(rc.Call.Args[1]) == ssa.Value(fn.Params[5])
			ok = ok && strip(env.Call.Args[0]) == ssa.Value(fn.Params[1]) && derivesFromExtract(env.Call.Args[1], s, 0) && derivesFromExtract(env.Call.Args[2], rc, 0) && strip(env.Call.Args[3]) == ssa.Value(fn.Params[6])
			ok = ok && derivesFromExtract(find.Call.Args[len(find.Call.Args)-1], rc, 0)
			// the envelope is enqueued to the found mailbox
			enq := false
			for _, in := range hg.Nodes {
				if c := callOf(in); c != nil && c.IsInvoke() && c.Method.Name() == "Enqueue" && strip(c.Value) == ssa.Value(find) && len(c.Args) == 1 && strip(c.Args[0]) == ssa.Value(env) {
					enq = true
				}
			}
			ok = ok && enq
		}
		r.Check(ok, "handler rebuilds sender/receiver and enqueues to the receiver's mailbox", fn.Pos(), "sender=NewRef(senderAddr,senderPath), receiver=NewRef(receiverAddr,receiverPath), envelope(system, sender, receiver, message) enqueued to findMailbox(receiver)")
	}
	if n == 0 {
		r.Unresolved("implementation of HandleRemotingEnvelop")
	}
}

func c11Wire(p *Program, r *Report) {
	sub := newReport(r.Prop, p)
	sub.rule = r.rule
	c12Agreement(p, sub)
	for _, o := range sub.Obs {
		if strings.HasPrefix(o.Construct, "envelope") || strings.HasPrefix(o.Construct, "handshake") || strings.HasPrefix(o.Construct, "message framing") || o.Status != "discharged" && strings.HasPrefix(o.Construct, "anchor") {
			r.add(o.Construct, token.NoPos, o.Status, o.Why, o.Nontrivial)
			r.Obs[len(r.Obs)-1].Pos = o.Pos
		}
	}
}

// ---- C14 -------------------------------------------------------------------------------------

func c14TellBlocks(p *Program, r *Report) {
	tell := p.tellFunc()
	lc := lcOrFail(p, r)
	if tell == nil || lc == nil {
		r.Unresolved("tell primitive")
		return
	}
	roots := []*ssa.Function{tell, p.ctxMethod(lc, "Tell")}
	steps := p.closure(roots, cgOpts{ModuleOnly: true, MaxDepth: 4 * p.InlineBound, SkipFunc: func(fn *ssa.Function) bool {
		pk := fnPkg(fn)
		return pk != nil && (strings.HasSuffix(pk.Path(), "/pkg/log") || strings.HasSuffix(pk.Path(), "/pkg/metrics"))
	}, SkipEdge: func(e *callgraph.Edge) bool { return false }})
	var fns []*ssa.Function
	for f := range steps {
		fns = append(fns, f)
	}
	sort.Slice(fns, func(i, j int) bool { return fns[i].String() < fns[j].String() })
	n := 0
	// one obligation per (blocking primitive, package): function names are not part of the identity (a rename must not turn
	// a recorded finding into a new violation), a new kind of primitive or a new package is a new obligation
	type grp struct {
		pos   token.Pos
		where []string
		path  string
	}
	groups := map[string]*grp{}
	var order []string
	for _, fn := range fns {
		for _, bs := range p.blockingSites(fn) {
			n++
			if bs.Kind == "(sync.WaitGroup).Wait" && fn.Name() == "GetRemotingMailboxCentral" {
				r.Lookup(fmt.Sprintf("Tell reaches %s in %s", bs.Kind, fnName(fn)), bs.In.Pos(), "exception: one-time start-up barrier released unconditionally by the remoting server's OnLaunch")
				continue
			}
			pk := ""
			if fp := fnPkg(fn); fp != nil {
				pk = relPkg(fp)
			}
			construct := fmt.Sprintf("Tell reaches %s in package %s", bs.Kind, pk)
			g := groups[construct]
			if g == nil {
				g = &grp{pos: bs.In.Pos(), path: p.pathTo(steps, fn)}
				groups[construct] = g
				order = append(order, construct)
			}
			g.where = append(g.where, fnName(fn))
		}
	}
	for _, construct := range order {
		g := groups[construct]
		r.Violate(construct, g.pos, fmt.Sprintf("blocking primitive synchronously reachable from Tell (in %s; e.g. via %s): the caller's goroutine (an actor's mailbox) stalls while it blocks, although Tell is documented as never blocking", strings.Join(g.where, ", "), g.path))
	}
	r.Note("functions synchronously reachable from Tell: %d", len(steps))
	if n == 0 {
		r.Unresolved("no blocking primitive found on the remoting send path (the effect analysis lost its subject)")
	}
}

func c14Reported(p *Program, r *Report) {
	c03RemoteFailure(p, r)
	rm := remOrFail(p, r)
	if rm == nil {
		return
	}
	// encode failure aborts the loop with the error
	g := p.ig(rm.SendLoop)
	var enc *ssa.Call
	for _, in := range g.Nodes {
		if c, ok := in.(*ssa.Call); ok && c.Call.StaticCallee() == rm.EncodeLen {
			enc = c
		}
	}
	ok := enc != nil
	if ok {
		errE := g.edgesWhere(func(f cmpFact) bool {
			if !f.IsNil || f.Op != token.NEQ {
				return false
			}
			ex, isEx := f.X.(*ssa.Extract)
			return isEx && ex.Tuple == ssa.Value(enc) && ex.Index == 1
		})
		ok = len(errE) > 0
		for e := range errE {
			for n := range g.Reach([]int{e.to}, nil, nil) {
				if ret, isR := g.Nodes[n].(*ssa.Return); isR {
					ab, isC := constBool(retOperand(ret, 0))
					ev := retOperand(ret, 1)
					if !isC || !ab || ev == nil || !derivesFromExtract(ev, enc, 1) {
						ok = false
					}
				}
			}
		}
	}
	r.Check(ok, "encode failure aborts the retry loop with its error", rm.SendLoop.Pos(), "on the encode error edge the send closure returns (abort=true, err): retrying cannot help, and the non-nil error makes Enqueue report the envelope")
	// the retry helper returns the closure's error when it aborts
	tg := p.ig(rm.Try)
	okT := false
	for _, ex := range tg.Exits {
		ret := tg.Nodes[ex].(*ssa.Return)
		if len(ret.Results) == 2 {
			okT = true
		}
	}
	r.Check(okT, "retry helper propagates (abort, err)", rm.Try.Pos(), "Try returns the closure's abort flag and error")
}

func c14Consumption(p *Program, r *Report) {
	rm := remOrFail(p, r)
	if rm == nil {
		return
	}
	g, rearm, _, _ := p.readerEvents(rm)
	var lenNode = -1
	var fulls []int
	for i, in := range g.Nodes {
		if c, ok := in.(*ssa.Call); ok {
			if strings.HasSuffix(calleeQual(&c.Call), ").Uint32") && strings.Contains(calleeQual(&c.Call), "binary") {
				lenNode = i
			}
			if calleeQual(&c.Call) == "io.ReadFull" {
				fulls = append(fulls, i)
			}
		}
	}
	if lenNode < 0 || len(fulls) < 2 {
		r.Unresolved("length decode / body read of the frame reader")
		return
	}
	body := setOf(fulls[len(fulls)-1])
	// zero length is the close handshake: it kills, never re-arms
	ok := true
	for a := range rearm {
		if !g.mustPass(lenNode, a, body) {
			ok = false
		}
	}
	r.Check(ok, "no re-arm without consuming the announced frame body", g.Nodes[lenNode].Pos(), "every path from the decoded length to a re-arm passes the exact-length read of the body: skipping it (oversize / invalid length) would make the reader parse body bytes as the next frame")
}

func c14Retry(p *Program, r *Report) {
	rm := remOrFail(p, r)
	if rm == nil {
		return
	}
	// limit clamped
	g := p.ig(rm.Enqueue)
	okL := false
	for _, in := range g.Nodes {
		if c := callOf(in); c != nil && c.StaticCallee() == rm.Try {
			lim := callArgs(c)[0]
			if mc, ok := strip(lim).(*ssa.Call); ok && mc.Call.StaticCallee() != nil && strings.HasPrefix(mc.Call.StaticCallee().Name(), "Max") {
				for _, a := range mc.Call.Args {
					if v, isC := constInt(a); isC && v == 0 {
						okL = true
					}
				}
			}
		}
	}
	r.Check(okL, "retry limit clamped to >= 0", rm.Enqueue.Pos(), "the limit handed to the retry helper is Max(ReconnectLimit, 0): a negative configuration cannot make the loop unbounded")
	// loop exit on the limit
	tg := p.ig(rm.Try)
	fnCalls := nodesWhere(tg, func(in ssa.Instruction) bool {
		c, ok := in.(*ssa.Call)
		return ok && !c.Call.IsInvoke() && c.Call.StaticCallee() == nil && len(rm.Try.Params) > 2 && strip(c.Call.Value) == ssa.Value(rm.Try.Params[2])
	})
	limE := tg.edgesWhere(func(f cmpFact) bool {
		return f.Y != nil && (f.Op == token.GEQ || f.Op == token.GTR) && strip(f.Y) == ssa.Value(rm.Try.Params[1])
	})
	okX := len(fnCalls) > 0 && len(limE) > 0
	for c := range fnCalls {
		// a cycle back to the call must not be possible once the attempt counter reached the limit: the limit edge leads to a return
		for e := range limE {
			if tg.Reach([]int{e.to}, nil, nil)[c] {
				okX = false
			}
		}
		// and the limit test lies on every cycle
		var froms = map[int]bool{}
		for e := range limE {
			froms[e.from] = true
		}
		// limit < 0 means "unlimited" inside the helper; the caller clamps the limit (checked above), so those edges are not taken
		neg := tg.edgesWhere(func(f cmpFact) bool {
			return strip(f.X) == ssa.Value(rm.Try.Params[1]) && f.Y == nil && !f.IsNil && f.Op == token.LSS && f.C <= 0
		})
		if tg.ReachAfter(c, froms, neg)[c] {
			okX = false
		}
	}
	// Next() increments the counter
	inc := false
	if next := p.methodNamed(namedOf(rm.Try.Signature.Recv().Type()), "Next"); next != nil {
		for _, b := range next.Blocks {
			for _, in := range b.Instrs {
				if st, ok := in.(*ssa.Store); ok {
					if bo, isB := st.Val.(*ssa.BinOp); isB && bo.Op == token.ADD {
						if v, isC := constInt(bo.Y); isC && v == 1 {
							inc = true
						}
					}
				}
			}
		}
		calls := false
		for _, in := range tg.Nodes {
			if c := callOf(in); c != nil && c.StaticCallee() == next {
				calls = true
			}
		}
		inc = inc && calls
	}
	r.Check(okX && inc, "retry loop exits when the attempt counter reaches the limit", rm.Try.Pos(), "every iteration tests attempts >= limit (exit edge leaves the loop) and advances the counter through Next()")
	// ... and nothing the retried function reaches writes the counter (a Reset inside the loop body makes it unbounded)
	var counter *types.Var
	for _, ifi := range ifsOf(rm.Try) {
		if f, ok := condFact(ifi.Cond, true); ok && f.Y != nil && strip(f.Y) == ssa.Value(rm.Try.Params[1]) {
			if fld, _ := p.loadOfField(f.X); fld != nil {
				counter = fld
			}
		}
	}
	if counter == nil {
		r.Unresolved("attempt counter compared with the limit in the retry helper")
	} else {
		writers := map[*ssa.Function]ssa.Instruction{}
		for _, a := range p.fieldAccesses(map[*types.Var]bool{counter: true}) {
			if a.Write && !a.Fresh {
				writers[a.Fn] = a.In
			}
		}
		body := p.closure([]*ssa.Function{rm.SendLoop}, cgOpts{MaxDepth: 8, SkipEdge: func(e *callgraph.Edge) bool { return p.isMailboxEnqueueDispatch(e) }})
		bad := ""
		var badPos token.Pos
		for fn, in := range writers {
			if body[fn] != nil {
				bad = p.pathTo(body, fn)
				badPos = in.Pos()
			}
		}
		if bad == "" {
			badPos = rm.SendLoop.Pos()
		}
		r.Check(bad == "", "the attempt counter is not written inside a retry iteration", badPos, fmt.Sprintf("%d functions write %s.%s; none is reachable from the retried send function %s", len(writers), ownerName(counter), counter.Name(), bad))
	}
	// ... and every return of the helper leaves the counter at zero: the next message to the same peer gets the full budget again
	// (a counter left at the limit after an exhausted send makes every later send give up after its first failed attempt)
	if counter != nil {
		zeroes := func(in ssa.Instruction) bool {
			st, ok := in.(*ssa.Store)
			if !ok {
				return false
			}
			f, _ := fieldAddr(st.Addr)
			v, isC := constInt(st.Val)
			return f == counter && isC && v == 0
		}
		tg := p.ig(rm.Try)
		deferred := false
		zero := map[int]bool{}
		advance := map[int]bool{}
		for i, in := range tg.Nodes {
			if d, isD := in.(*ssa.Defer); isD {
				var target *ssa.Function
				if mc, isMC := d.Call.Value.(*ssa.MakeClosure); isMC {
					target, _ = mc.Fn.(*ssa.Function)
				} else {
					target = d.Call.StaticCallee()
				}
				// registered before the loop: on every path from the entry
				if target != nil && p.mustDo(target, zeroes, 0) && !anyIn(tg.Reach(tg.entry(), setOf(i), nil), tg.Exits) {
					deferred = true
				}
			}
			if zeroes(in) {
				zero[i] = true
			}
			if c, isC := in.(*ssa.Call); isC {
				if y := c.Call.StaticCallee(); y != nil && p.inModule(y) {
					if p.mustDo(y, zeroes, 0) {
						zero[i] = true
					} else if p.mayDo(y, func(in2 ssa.Instruction) bool {
						st, ok := in2.(*ssa.Store)
						if !ok {
							return false
						}
						f, _ := fieldAddr(st.Addr)
						return f == counter
					}, 0, map[*ssa.Function]bool{}) {
						advance[i] = true
					}
				}
			}
		}
		okZ := deferred
		if !okZ {
			okZ = len(advance) > 0
			for a := range advance {
				if anyIn(tg.ReachAfter(a, zero, nil), tg.Exits) {
					okZ = false
				}
			}
		}
		r.Check(okZ, "the retry helper returns with the attempt counter reset", rm.Try.Pos(), "a deferred reset registered on every path, or a reset on every path from an advance of the counter to a return: an exhausted send does not eat into the retry budget of the next message to that peer")
	}
	c14StopAborts(p, r)
}

func c14Dropped(p *Program, r *Report) {
	rm := remOrFail(p, r)
	if rm == nil {
		return
	}
	g := p.ig(rm.SendLoop)
	clear := nodesWhere(g, func(in ssa.Instruction) bool {
		st, ok := in.(*ssa.Store)
		if !ok || !isNilConst(st.Val) {
			return false
		}
		f, _ := fieldAddr(st.Addr)
		return f == rm.ConnCache
	})
	// write error edge
	var wr *ssa.Call
	for _, in := range g.Nodes {
		if c, ok := in.(*ssa.Call); ok && c.Call.StaticCallee() != nil && c.Call.StaticCallee().Name() == "Write" && namedOf(c.Call.StaticCallee().Signature.Recv().Type()) == rm.ConnT {
			wr = c
		}
	}
	ok := wr != nil && len(clear) > 0
	if ok {
		errE := g.edgesWhere(func(f cmpFact) bool {
			if !f.IsNil || f.Op != token.NEQ {
				return false
			}
			ex, isEx := f.X.(*ssa.Extract)
			return isEx && ex.Tuple == ssa.Value(wr) && ex.Index == 1
		})
		ok = len(errE) > 0
		for e := range errE {
			if !clear[e.to] && anyIn(g.Reach([]int{e.to}, clear, nil), g.Exits) {
				ok = false
			}
		}
	}
	r.Check(ok, "write failure drops the cached connection", rm.SendLoop.Pos(), "on the write error edge every path stores nil into the mailbox's connection before returning (the retry dials a fresh connection)")
	closedE, _ := callEdges(g, func(c *ssa.Call) bool {
		return c.Call.StaticCallee() != nil && c.Call.StaticCallee().Name() == "Closed"
	})
	okC := len(closedE) > 0
	for e := range closedE {
		if !clear[e.to] && anyIn(g.Reach([]int{e.to}, clear, nil), g.Exits) {
			okC = false
		}
	}
	r.Check(okC, "a closed connection is dropped before writing", rm.SendLoop.Pos(), "on the Closed() edge the cached connection is cleared and the attempt fails (retry)")
	// read errors other than EOF kill without re-arming
	rg, rearm, kill, eof := p.readerEvents(rm)
	okR := true
	nerr := 0
	for _, in := range rg.Nodes {
		c, isC := in.(*ssa.Call)
		if !isC || calleeQual(&c.Call) != "io.ReadFull" {
			continue
		}
		errE := rg.edgesWhere(func(f cmpFact) bool {
			if !f.IsNil || f.Op != token.NEQ {
				return false
			}
			ex, isEx := f.X.(*ssa.Extract)
			return isEx && ex.Tuple == ssa.Value(c) && ex.Index == 1
		})
		for e := range errE {
			nerr++
			reach := rg.Reach([]int{e.to}, nil, eof)
			for a := range rearm {
				if reach[a] {
					okR = false
				}
			}
			if !kill[e.to] && anyIn(rg.Reach([]int{e.to}, kill, eof), rg.Exits) {
				okR = false
			}
		}
	}
	r.Check(okR && nerr >= 2, "read errors kill the connection actor without re-arming", rm.ReadFn.Pos(), "from both read-error edges (other than clean EOF) every path kills the connection actor and none re-arms the reader")
}

func c14DecodeContinues(p *Program, r *Report) {
	rm := remOrFail(p, r)
	if rm == nil {
		return
	}
	g, rearm, kill, _ := p.readerEvents(rm)
	var dec *ssa.Call
	for _, in := range g.Nodes {
		if c, isC := in.(*ssa.Call); isC && c.Call.StaticCallee() != nil && c.Call.StaticCallee().Name() == "DecodeEnvelopWithRemoting" {
			dec = c
		}
	}
	if dec == nil {
		r.Unresolved("decode call of the frame reader")
		return
	}
	errE := g.edgesWhere(func(f cmpFact) bool {
		if !f.IsNil || f.Op != token.NEQ {
			return false
		}
		ex, isEx := f.X.(*ssa.Extract)
		return isEx && ex.Tuple == ssa.Value(dec) && isErrorType(ex.Type())
	})
	ok := len(errE) > 0
	for e := range errE {
		if !rearm[e.to] && anyIn(g.Reach([]int{e.to}, rearm, nil), g.Exits) {
			ok = false
		}
		reach := g.Reach([]int{e.to}, nil, nil)
		for k := range kill {
			if reach[k] {
				ok = false
			}
		}
	}
	r.Check(ok, "an undecodable frame does not stop later frames", dec.Pos(), "on the decode error edge every path re-arms the reader and none kills the connection (the frame was consumed completely, the stream is still in sync)")
}

// ---- C15 ---------------------------------------------------------------------------------------

func c15Representable(p *Program, r *Report) {
	pairs, problems := p.wirePairs()
	for _, pr := range problems {
		r.Unresolved(pr)
	}
	for _, pr := range pairs {
		if pr.W == nil || pr.R == nil || !strings.HasPrefix(pr.Name, "registered ") {
			continue
		}
		bad := ""
		for side, sg := range map[string]*wireSig{"writer": p.wireSigOf(pr.W, pr.WIdx), "reader": p.wireSigOf(pr.R, pr.RIdx)} {
			for _, seq := range sg.Seqs {
				for _, s := range seq {
					if strings.HasPrefix(s.Kind, "UNSUPPORTED") && bad == "" {
						bad = side + " @ " + p.pos(s.Pos) + ": " + s.Kind
					}
				}
			}
		}
		r.Check(bad == "", pr.Name+": every value is wire-representable", pr.Pos, map[bool]string{true: "all values handed to the codec have a type it encodes and decodes", false: bad}[bad == ""])
	}
	// actor paths and addresses are unbounded strings: a length prefix narrower than 4 bytes cannot carry every reference
	for _, sw := range p.shortLengthWrites() {
		r.Violate(fmt.Sprintf("%s: %s #%d with a %d-byte length prefix", fnName(sw.Fn), sw.What, sw.Ord, sw.Bytes), sw.In.Pos(),
			fmt.Sprintf("a built-in message writes an unbounded string with a %d-byte length prefix: references with long paths cannot be sent to a remote actor although the same operation works locally", sw.Bytes))
	}
}

// c15OptionalPayload: a registered message that nests another message hands it to Writer.WriteMessage. A nil nested
// message has no descriptor, so it takes the user-codec path and fails with "codec required" when no codec is
// configured (the property quantifies over both configurations). The nested field therefore needs a non-nil guard in the
// writer unless nil can only come from the user: every construction site of the message in the module fills the field from
// a caller-supplied message value. A field the library itself leaves at (or fills with) a possibly-zero value — an omitted
// field, a nil constant, a value of type-parameter type such as a future's unset result — is a violation.
func c15OptionalPayload(p *Program, r *Report) {
	c := p.codec()
	n := 0
	for _, rg := range p.registrations() {
		if rg.Writer == nil {
			continue
		}
		g := p.ig(rg.Writer)
		for i, in := range g.Nodes {
			cc := callOf(in)
			if cc == nil || cc.StaticCallee() == nil || cc.StaticCallee().Name() != "WriteMessage" || cc.StaticCallee().Signature.Recv() == nil || namedOf(cc.StaticCallee().Signature.Recv().Type()) != c.WriterT {
				continue
			}
			fld, _ := fieldLoad(cc.Args[1])
			if fld == nil {
				continue
			}
			n++
			construct := fmt.Sprintf("%s: nested message %s.%s", fnName(rg.Writer), ownerName(fld), fld.Name())
			guard := map[edge]bool{}
			for _, ef := range p.edgeFacts(g) {
				if ef.Field == fld && ef.Fact.IsNil && ef.Fact.Op == token.NEQ {
					guard[ef.E] = true
				}
			}
			if len(guard) > 0 && g.DominatedByEdges(i, guard) {
				r.Check(true, construct, in.Pos(), "WriteMessage is dominated by a non-nil test of the field: an absent payload is not handed to the codec path")
				continue
			}
			// construction sites of the owner struct in the module
			libNil := ""
			sites := 0
			for fn := range p.All {
				if !p.inModule(fn) || len(fn.Blocks) == 0 {
					continue
				}
				for _, b := range fn.Blocks {
					for _, cin := range b.Instrs {
						al, ok := cin.(*ssa.Alloc)
						if !ok || namedOf(al.Type()) == nil || namedOf(al.Type()).Obj() != fld.Pkg().Scope().Lookup(ownerName(fld)) {
							continue
						}
						if _, isStruct := al.Type().(*types.Pointer).Elem().Underlying().(*types.Struct); !isStruct {
							continue
						}
						sites++
						stored := false
						for _, ref := range *al.Referrers() {
							fa, ok := ref.(*ssa.FieldAddr)
							if !ok || fieldOfAddr(fa) != fld {
								continue
							}
							for _, r2 := range *fa.Referrers() {
								st, ok := r2.(*ssa.Store)
								if !ok || st.Addr != ssa.Value(fa) {
									continue
								}
								stored = true
								v := st.Val
								for {
									if mi, ok := v.(*ssa.MakeInterface); ok {
										v = mi.X
										continue
									}
									if ci, ok := v.(*ssa.ChangeInterface); ok {
										v = ci.X
										continue
									}
									break
								}
								for {
									if ct, ok := v.(*ssa.ChangeType); ok {
										v = ct.X
										continue
									}
									break
								}
								v = strip(v)
								_, isTP := v.Type().(*types.TypeParam)
								switch x := v.(type) {
								case *ssa.Parameter, *ssa.FreeVar:
									if isTP {
										libNil = "a value of type-parameter type (zero unless assigned) stored at " + p.pos(st.Pos())
									}
								case *ssa.Call:
									if !(x.Call.IsInvoke() && x.Call.Method.Name() == "Message") {
										libNil = "a computed value (" + shortCallee(&x.Call) + ") stored at " + p.pos(st.Pos())
									}
								case *ssa.UnOp:
									if f2, _ := fieldLoad(x); f2 == nil {
										libNil = "a computed value stored at " + p.pos(st.Pos())
									}
								default:
									if isNilConst(v) {
										libNil = "nil stored at " + p.pos(st.Pos())
									} else {
										libNil = fmt.Sprintf("a computed value (%T) stored at %s", v, p.pos(st.Pos()))
									}
								}
							}
						}
						if !stored {
							libNil = "field omitted in the literal at " + p.pos(al.Pos())
						}
					}
				}
			}
			if sites == 0 {
				r.Check(true, construct, in.Pos(), "no construction site in the module: the message is built by users only")
				continue
			}
			r.Check(libNil == "", construct, in.Pos(), fmt.Sprintf("not guarded by a non-nil test; %d construction sites in the module: %s", sites, map[bool]string{true: "each fills the field from a caller-supplied message (nil only if the user sends nil)", false: "the library itself can leave the payload nil (" + libNil + "), which cannot be encoded without a user codec"}[libNil == ""]))
		}
	}
	if n == 0 {
		r.Unresolved("no nested WriteMessage(field) in a registered writer")
	}
}

func fieldOfAddr(fa *ssa.FieldAddr) *types.Var {
	pt, ok := fa.X.Type().Underlying().(*types.Pointer)
	if !ok {
		return nil
	}
	st, ok := pt.Elem().Underlying().(*types.Struct)
	if !ok {
		return nil
	}
	return st.Field(fa.Field)
}

func c15Registered(p *Program, r *Report) {
	lc := lcOrFail(p, r)
	if lc == nil {
		return
	}
	reg := map[string]bool{}
	for _, rg := range p.registrations() {
		reg[typeName(rg.T)] = true
	}
	n := 0
	seen := map[string]bool{}
	for _, fn := range p.Mod {
		pk := fnPkg(fn)
		if pk == nil || !(strings.HasSuffix(pk.Path(), "/internal/actor") || strings.HasSuffix(pk.Path(), "/internal/future")) {
			continue
		}
		for _, ts := range p.tellSites(fn) {
			v := strip(ts.Message)
			t := v.Type()
			if _, isIface := t.Underlying().(*types.Interface); isIface {
				continue // user payload: encoded through the configured Codec
			}
			if _, isPtr := t.(*types.Pointer); !isPtr {
				if !strings.Contains(typeName(t), "ves.") {
					continue
				}
			}
			key := typeName(t) + " in " + fnName(fn)
			if seen[key] {
				continue
			}
			seen[key] = true
			n++
			if reg[typeName(t)] {
				r.Check(true, "told "+key, ts.In.Pos(), "message type is registered for the wire")
				continue
			}
			// local-only: recipient from the local tables or self
			var rec []string
			if ts.Self {
				rec = []string{"self"}
			} else {
				rec = p.origins(ts.Recipient)
			}
			local := len(rec) > 0
			for _, ch := range rec {
				if !(ch == "self" || strings.Contains(ch, lc.pat(lc.ParentF)) || strings.Contains(ch, lc.pat(lc.RefF)) || strings.Contains(ch, "param:targets") || strings.Contains(ch, ".targets<-") || strings.Contains(ch, "Supervise") || strings.Contains(ch, "Children")) {
					local = false
				}
			}
			if strings.Contains(typeName(t), "ves.") && ts.Via == "TellSelf" {
				local = true
			}
			r.Check(local, "told "+key, ts.In.Pos(), "unregistered (local-only) message type is told only to the actor itself or to references from the local parent/child/target tables: "+strings.Join(rec, " | "))
		}
	}
	if n == 0 {
		r.Unresolved("no tell of a concrete message type")
	}
}

// mailboxLookup: the system method that maps a reference to a mailbox — the one comparing the reference's address with the
// system's own (a helper extracted from its remote branch has the same signature).
func (p *Program) mailboxLookup(lc *lifecycle) *ssa.Function {
	var find *ssa.Function
	mb := p.Named("", "Mailbox")
	for _, fn := range p.methodsOf(lc.Sys) {
		res := fn.Signature.Results()
		if fn.Parent() == nil && res.Len() == 1 && mb != nil && types.Identical(res.At(0).Type(), mb) && fn.Signature.Params().Len() == 1 {
			has := false
			for _, ifi := range ifsOf(fn) {
				if f, ok := condFact(ifi.Cond, true); ok && f.Y != nil && p.viaRefAccessor(lc, f.X, "GetAddress") && p.viaRefAccessor(lc, f.Y, "GetAddress") {
					has = true
				}
			}
			if has || find == nil {
				find = fn
			}
		}
	}
	return find
}

func c15Routing(p *Program, r *Report) {
	lc := lcOrFail(p, r)
	if lc == nil {
		return
	}
	find := p.mailboxLookup(lc)
	if find == nil {
		r.Unresolved("mailbox lookup")
		return
	}
	g := p.igx(find)
	defer p.withGraph(g)()
	factory := nodesWhere(g, func(in ssa.Instruction) bool {
		c := callOf(in)
		return c != nil && p.isRemoteMailboxFactory(c.StaticCallee())
	})
	// edge: ref address != own address
	diff := map[edge]bool{}
	for _, ifi := range g.ifs() {
		for _, outcome := range []bool{true, false} {
			f, ok := condFact(ifi.Cond, outcome)
			if !ok || f.Y == nil || f.Op != token.NEQ {
				continue
			}
			if p.viaRefAccessor(lc, f.X, "GetAddress") && p.viaRefAccessor(lc, f.Y, "GetAddress") {
				diff[g.branchEdge(ifi, outcome)] = true
			}
		}
	}
	ok := len(factory) > 0 && len(diff) > 0
	for f := range factory {
		if !g.DominatedByEdges(f, diff) {
			ok = false
		}
	}
	r.Check(ok, "remoting mailbox is used exactly for non-local addresses", find.Pos(), "the remoting mailbox factory is called only on the edge where the reference's address differs from the system's own")
	// from the non-local edge, with remoting enabled and the system running, every return yields the factory's result
	stopped := g.edgesWhere(func(f cmpFact) bool {
		if !f.IsNil || f.Op != token.NEQ {
			return false
		}
		c, isC := strip(f.X).(*ssa.Call)
		return isC && c.Call.IsInvoke() && c.Call.Method.Name() == "Err"
	})
	disabled := map[edge]bool{}
	for _, ef := range p.edgeFacts(g) {
		if ef.Fact.IsNil && ef.Fact.Op == token.EQL && namedOf(ef.Field.Type()) != nil && strings.Contains(typeName(ef.Field.Type()), "ServerActor") {
			disabled[ef.E] = true
		}
	}
	ok2 := len(diff) > 0
	for e := range diff {
		reach := g.Reach([]int{e.to}, nil, mergeEdges(stopped, disabled))
		for _, ex := range g.Exits {
			if !reach[ex] {
				continue
			}
			// the returns that produce the value: the root's own, or — when it returns the result of a spliced-in helper —
			// that helper's returns, each judged only if reachable on this path
			for _, rn := range g.effectiveReturns(ex, 0) {
				if !reach[rn] {
					continue
				}
				v := g.res(retOperand(g.Nodes[rn].(*ssa.Return), 0))
				c, isC := v.(*ssa.Call)
				if !isC || !p.isRemoteMailboxFactory(c.Call.StaticCallee()) {
					ok2 = false
				}
			}
		}
	}
	r.Check(ok2 && len(stopped) > 0 && len(disabled) > 0, "non-local references are routed to the remoting mailbox", find.Pos(), "on the non-local edge, unless the system context is cancelled or remoting is disabled, every return is the remoting mailbox for the reference's address")
}

// constSliceLen: length of a slice created with a constant size (make([]byte, 4) compiles to new [4]byte + slice), -1 otherwise.
func constSliceLen(v ssa.Value) int64 {
	switch x := v.(type) {
	case *ssa.MakeSlice:
		if n, ok := constInt(x.Len); ok {
			return n
		}
	case *ssa.Slice:
		if al, ok := x.X.(*ssa.Alloc); ok && x.Low == nil {
			if at, ok := al.Type().(*types.Pointer).Elem().Underlying().(*types.Array); ok {
				if x.High == nil {
					return at.Len()
				}
				if h, ok := constInt(x.High); ok && h == at.Len() {
					return h
				}
			}
		}
	}
	return -1
}

// c11OneMailbox: per-sender order relies on one connection per peer, i.e. one mailbox per address.
func c11OneMailbox(p *Program, r *Report) {
	rm := remOrFail(p, r)
	if rm == nil {
		return
	}
	n := 0
	for _, fn := range p.Mod {
		pk := fnPkg(fn)
		if pk == nil || !strings.HasSuffix(pk.Path(), "/internal/remoting") || len(fn.Blocks) == 0 {
			continue
		}
		g := p.ig(fn)
		for i, in := range g.Nodes {
			mu, ok := in.(*ssa.MapUpdate)
			if !ok {
				continue
			}
			mt, isMap := mu.Map.Type().Underlying().(*types.Map)
			if !isMap || namedOf(mt.Elem()) != rm.MboxT {
				continue
			}
			tbl, _ := fieldLoad(mu.Map)
			if tbl == nil {
				continue
			}
			n++
			ok2 := false
			for li, in2 := range g.Nodes {
				lk, isL := in2.(*ssa.Lookup)
				if !isL || !lk.CommaOk {
					continue
				}
				if f, _ := fieldLoad(lk.X); f != tbl || !sameValue(lk.Index, mu.Key) {
					continue
				}
				_, missing := g.okEdgesLookup(lk)
				if len(missing) == 0 || !g.DominatedByEdges(i, missing) {
					continue
				}
				// same critical section: no lock operation between the lookup and the insertion
				same := true
				after := g.ReachAfter(li, nil, nil)
				for w, win := range g.Nodes {
					if _, isCall := win.(*ssa.Call); !isCall || !after[w] {
						continue
					}
					if op, _ := lockOp(win); op != "" && g.ReachAfter(w, nil, nil)[i] {
						same = false
					}
				}
				if same {
					ok2 = true
				}
			}
			r.Check(ok2, "mailbox inserted for an address in "+fnName(fn), mu.Pos(), "the insertion is dominated by the miss edge of a lookup of the same key, with no lock operation between that lookup and the insertion (check and insert form one critical section)")
		}
	}
	if n == 0 {
		r.Unresolved("insertion into the address → mailbox table")
	}
}

// c11KeepHealthy: see the property explanation (R7).
func c11KeepHealthy(p *Program, r *Report) {
	rm := remOrFail(p, r)
	if rm == nil {
		return
	}
	n := 0
	seen := map[*ssa.Function]bool{}
	var fns []*ssa.Function
	for _, root := range []*ssa.Function{rm.Enqueue, rm.SendLoop} {
		for _, f := range withAnon(root) {
			if !seen[f] {
				seen[f] = true
				fns = append(fns, f)
			}
		}
	}
	for _, fn := range fns {
		g := p.ig(fn)
		for i, in := range g.Nodes {
			st, ok := in.(*ssa.Store)
			if !ok || !isNilConst(st.Val) {
				continue
			}
			if f, _ := fieldAddr(st.Addr); f != rm.ConnCache {
				continue
			}
			n++
			fail := g.edgesWhere(func(f cmpFact) bool {
				if !f.IsNil || f.Op != token.NEQ {
					return false
				}
				ex, isEx := f.X.(*ssa.Extract)
				if !isEx {
					return false
				}
				c, isC := ex.Tuple.(*ssa.Call)
				return isC && c.Call.StaticCallee() != nil && c.Call.StaticCallee().Name() == "Write" && c.Call.StaticCallee().Signature.Recv() != nil && namedOf(c.Call.StaticCallee().Signature.Recv().Type()) == rm.ConnT
			})
			closedE, _ := callEdges(g, func(c *ssa.Call) bool {
				return c.Call.StaticCallee() != nil && c.Call.StaticCallee().Name() == "Closed"
			})
			all := mergeEdges(fail, closedE)
			r.Check(len(all) > 0 && g.DominatedByEdges(i, all), fmt.Sprintf("connection dropped in %s (#%d)", fnName(fn), n), st.Pos(), "the cached connection is cleared only on the error edge of a write to it or on its Closed() edge")
		}
	}
	if n == 0 {
		r.Unresolved("no site clearing the cached connection")
	}
}

// leafCalls: the calls a (string) value is built from, through concatenation, fmt.Sprintf arguments, conversions and phis.
func leafCalls(v ssa.Value) map[string]bool {
	leaves := map[string]bool{}
	seen := map[ssa.Value]bool{}
	bind := map[*ssa.Parameter]ssa.Value{}
	var walk func(v ssa.Value, d int)
	walk = func(v ssa.Value, d int) {
		if v == nil || seen[v] || d > 10 {
			return
		}
		seen[v] = true
		switch x := v.(type) {
		case *ssa.Parameter:
			if a, ok := bind[x]; ok {
				walk(a, d+1)
			}
		case *ssa.BinOp:
			walk(x.X, d+1)
			walk(x.Y, d+1)
		case *ssa.Phi:
			for _, e := range x.Edges {
				walk(e, d+1)
			}
		case *ssa.MakeInterface:
			walk(x.X, d+1)
		case *ssa.Convert:
			walk(x.X, d+1)
		case *ssa.ChangeType:
			walk(x.X, d+1)
		case *ssa.Extract:
			walk(x.Tuple, d+1)
		case *ssa.Call:
			if x.Call.IsInvoke() {
				leaves[x.Call.Method.Name()] = true
				walk(x.Call.Value, d+1)
			} else {
				leaves[calleeQual(&x.Call)] = true
				// a module helper that builds the value: what it returns, with its parameters standing for the arguments
				if y := x.Call.StaticCallee(); y != nil && len(y.Blocks) > 0 && theProgram != nil && theProgram.inModule(y) && d < 6 {
					for i, prm := range y.Params {
						if i < len(x.Call.Args) {
							bind[prm] = x.Call.Args[i]
						}
					}
					for _, b := range y.Blocks {
						if ret, ok := b.Instrs[len(b.Instrs)-1].(*ssa.Return); ok {
							for _, res := range ret.Results {
								walk(res, d+1)
							}
						}
					}
				}
			}
			for _, a := range x.Call.Args {
				if elems, ok := varargElems(a); ok {
					for _, e := range elems {
						walk(e, d+1)
					}
				} else {
					walk(a, d+1)
				}
			}
		}
	}
	walk(v, 0)
	return leaves
}

// c15WatcherIdentity: a watcher is identified by address and path. The key under which the watch/unwatch handlers store a
// watcher in the watched actor's table must depend on the watcher's address (GetAddress, or String() which formats both),
// otherwise a remote watcher whose path equals a local watcher's path is taken for "already watching" and never learns
// of the termination — Watch would behave differently for local and remote references.
func c15WatcherIdentity(p *Program, r *Report) {
	lc := lcOrFail(p, r)
	if lc == nil {
		return
	}
	n := 0
	for _, fn := range p.methodsOf(lc.Ctx) {
		handles := false
		for _, prm := range fn.Params {
			if t := typeName(prm.Type()); strings.HasSuffix(t, "messages.WatchMessage") || strings.HasSuffix(t, "messages.UnwatchMessage") {
				handles = true
			}
		}
		if !handles {
			continue
		}
		for _, b := range fn.Blocks {
			for _, in := range b.Instrs {
				var key ssa.Value
				var tbl ssa.Value
				kind := ""
				switch x := in.(type) {
				case *ssa.MapUpdate:
					key, tbl, kind = x.Key, x.Map, "store"
				case *ssa.Lookup:
					key, tbl, kind = x.Index, x.X, "lookup"
				case *ssa.Call:
					if bi, ok := x.Call.Value.(*ssa.Builtin); ok && bi.Name() == "delete" {
						key, tbl, kind = x.Call.Args[1], x.Call.Args[0], "delete"
					}
				}
				if key == nil {
					continue
				}
				f, _ := fieldLoad(tbl)
				if f == nil || fieldVar(lc.Ctx, f.Name()) != f {
					continue
				}
				if !strings.HasSuffix(typeName(f.Type().Underlying().(*types.Map).Elem()), "ActorRef") {
					continue
				}
				n++
				leaves := leafCalls(key)
				var ls []string
				for l := range leaves {
					ls = append(ls, l)
				}
				sort.Strings(ls)
				_, isStr := key.Type().Underlying().(*types.Basic)
				ok := !isStr || leaves["GetAddress"] || leaves["String"]
				r.Check(ok, fmt.Sprintf("watcher table %s key in %s", kind, fnName(fn)), in.Pos(), fmt.Sprintf("the key is built from %v and depends on the watcher's address: two watchers with the same path on different systems are distinct entries", ls))
			}
		}
	}
	if n == 0 {
		r.Unresolved("watcher table accesses in the Watch/Unwatch handlers")
	}
}

// c14ConnName: the connection actor of an outbound connection is spawned under a name. The frame reader's clean-EOF exit
// leaves the old connection actor registered (it neither re-arms nor kills), so a later re-dial to the same peer must not
// reuse its name: the name has to contain a component that differs per socket (the local ephemeral address, a uuid, a
// counter, a clock/random value). If the EOF exit killed the actor this would not be needed and the rule is vacuous.
func c14ConnName(p *Program, r *Report) {
	rm := remOrFail(p, r)
	if rm == nil {
		return
	}
	g, _, kill, eof := p.readerEvents(rm)
	eofKills := len(eof) > 0
	for e := range eof {
		if !kill[e.to] && anyIn(g.Reach([]int{e.to}, kill, nil), g.Exits) {
			eofKills = false
		}
	}
	n := 0
	for _, fn := range p.Mod {
		pk := fnPkg(fn)
		if pk == nil || !strings.HasSuffix(pk.Path(), "/internal/remoting") {
			continue
		}
		for _, b := range fn.Blocks {
			for _, in := range b.Instrs {
				c := callOf(in)
				if c == nil || !c.IsInvoke() || c.Method.Name() != "ActorOf" || len(c.Args) < 1 {
					continue
				}
				mi, ok := c.Args[0].(*ssa.MakeInterface)
				if !ok || namedOf(mi.X.Type()) != rm.ConnT {
					continue
				}
				n++
				var nameArg ssa.Value
				if len(c.Args) > 1 {
					if elems, ok := varargElems(c.Args[1]); ok {
						for _, e := range elems {
							if oc, ok := strip(e).(*ssa.Call); ok && oc.Call.StaticCallee() != nil && strings.Contains(oc.Call.StaticCallee().Name(), "ActorName") && len(oc.Call.Args) == 1 {
								nameArg = oc.Call.Args[0]
							}
						}
					}
				}
				construct := "connection actor name in " + fnName(fn)
				if nameArg == nil {
					r.Check(true, construct, in.Pos(), "the connection actor is spawned without an explicit name: the system generates a fresh one")
					continue
				}
				if eofKills {
					r.Check(true, construct, in.Pos(), "the frame reader's clean-EOF exit kills the connection actor: a stale registration cannot block a re-dial")
					continue
				}
				leaves := leafCalls(nameArg)
				unique := ""
				var ls []string
				for l := range leaves {
					ls = append(ls, l)
					ll := strings.ToLower(l)
					if l == "LocalAddr" || strings.Contains(ll, "uuid") || strings.Contains(ll, "rand") || strings.HasPrefix(l, "time.Now") || strings.Contains(l, "atomic") || strings.HasSuffix(l, ".Add") {
						unique = l
					}
				}
				sort.Strings(ls)
				r.Check(unique != "", construct, in.Pos(), fmt.Sprintf("the clean-EOF exit leaves the old connection actor registered; the name is built from %v and contains a per-socket component (%s), so a re-dial to the same peer gets a new name", ls, unique))
			}
		}
	}
	if n == 0 {
		r.Unresolved("spawn site of the connection actor")
	}
}

// c14OwnBackoff: see the explanation (R8).
func c14OwnBackoff(p *Program, r *Report) {
	rm := remOrFail(p, r)
	if rm == nil {
		return
	}
	if rm.Try == nil || rm.Try.Signature.Recv() == nil {
		r.Unresolved("retry helper type")
		return
	}
	helperT := namedOf(rm.Try.Signature.Recv().Type())
	var fld *types.Var
	st := rm.MboxT.Underlying().(*types.Struct)
	for i := 0; i < st.NumFields(); i++ {
		if namedOf(st.Field(i).Type()) == helperT {
			fld = st.Field(i)
		}
	}
	if fld == nil {
		r.Unresolved("retry helper field of the remoting mailbox")
		return
	}
	n := 0
	for _, a := range p.fieldAccesses(map[*types.Var]bool{fld: true}) {
		st, ok := a.In.(*ssa.Store)
		if !ok {
			continue
		}
		n++
		r.Check(p.freshValue(st.Val, 0), "retry helper stored in "+fnName(a.Fn), st.Pos(), "the value stored into the mailbox's retry-helper field is created for this mailbox (allocation / constructor result), not handed in from shared state")
	}
	if n == 0 {
		r.Unresolved("no store into the mailbox's retry-helper field")
	}
}

// c11HandshakeOrder: the handshake is read with one unframed Read into a fixed buffer; what keeps that Read from swallowing
// the first frames is the lock-step order — the dialer sends frames only after it has received the acceptor's answer, and the
// acceptor answers only after it has read the dialer's handshake. In the connection's handshake routine every Send is
// therefore either on the dialer's branch (an edge asserting the client flag) or dominated by the success edge of a Wait.
func c11HandshakeOrder(p *Program, r *Report) {
	send, wait := p.Method("internal/remoting", "Handshake", "Send"), p.Method("internal/remoting", "Handshake", "Wait")
	if send == nil || wait == nil {
		r.Unresolved("Handshake.Send / Handshake.Wait")
		return
	}
	n := 0
	for _, fn := range p.Mod {
		if fn == send || fn == wait || len(fn.Blocks) == 0 || fn.Parent() != nil {
			continue
		}
		has := map[*ssa.Function]bool{}
		for _, b := range fn.Blocks {
			for _, in := range b.Instrs {
				if c := callOf(in); c != nil && (c.StaticCallee() == send || c.StaticCallee() == wait) {
					has[c.StaticCallee()] = true
				}
			}
		}
		if !has[send] || !has[wait] {
			continue
		}
		n++
		g := p.igx(fn)
		sends := nodesWhere(g, func(in ssa.Instruction) bool { c := callOf(in); return c != nil && c.StaticCallee() == send })
		_, waitOK := map[edge]bool{}, map[edge]bool{}
		for _, ifi := range g.ifs() {
			for _, outcome := range []bool{true, false} {
				f, ok := condFact(ifi.Cond, outcome)
				if !ok || !f.IsNil || f.Op != token.EQL {
					continue
				}
				if c, isC := g.res(sameBlockDef(f.X)).(*ssa.Call); isC && c.Call.StaticCallee() == wait {
					waitOK[g.branchEdge(ifi, outcome)] = true
				}
			}
		}
		// the dialer's branch: an edge asserting a boolean field of the receiver (the client flag) to be true
		dialer := map[edge]bool{}
		for _, ef := range p.edgeFacts(g) {
			if b, isB := ef.Field.Type().Underlying().(*types.Basic); isB && b.Kind() == types.Bool && ef.Fact.Bool && ef.Fact.Op == token.NEQ {
				dialer[ef.E] = true
			}
		}
		ok := len(sends) > 0 && len(waitOK) > 0
		for s := range sends {
			if !g.DominatedByEdges(s, mergeEdges(waitOK, dialer)) {
				ok = false
			}
		}
		r.Check(ok, "handshake order in "+fnName(fn), fn.Pos(), "every Send of the own handshake is on the dialer's branch or dominated by the success edge of Wait: the accepting side never answers before it has consumed the dialer's handshake, so the dialer cannot send frames into the acceptor's unframed handshake read")
	}
	if n == 0 {
		r.Unresolved("no routine performing both Handshake.Send and Handshake.Wait")
	}
}

// c14WholeFrame: a retry of the send loop always runs on a freshly dialled connection, i.e. at the start of a new byte stream.
// Whatever is written there must be a complete frame: the value handed to the connection's Write is the frame encoder's result
// itself — never a re-slice of it (the unwritten tail of an earlier, partly written attempt), on any attempt.
func c14WholeFrame(p *Program, r *Report) {
	rm := remOrFail(p, r)
	if rm == nil {
		return
	}
	root := rm.SendLoop
	for root.Parent() != nil {
		root = root.Parent()
	}
	n := 0
	isEncoded := func(v ssa.Value) bool {
		v = strip(v)
		if isNilConst(v) {
			return true
		}
		ex, isEx := v.(*ssa.Extract)
		if !isEx || ex.Index != 0 {
			return false
		}
		c, isC := ex.Tuple.(*ssa.Call)
		return isC && c.Call.StaticCallee() != nil && p.inModule(c.Call.StaticCallee())
	}
	for _, fn := range withAnon(root) {
		for _, b := range fn.Blocks {
			for _, in := range b.Instrs {
				c, ok := in.(*ssa.Call)
				if !ok || c.Call.StaticCallee() == nil || c.Call.StaticCallee().Name() != "Write" || c.Call.StaticCallee().Signature.Recv() == nil || namedOf(c.Call.StaticCallee().Signature.Recv().Type()) != rm.ConnT {
					continue
				}
				n++
				arg := c.Call.Args[len(c.Call.Args)-1]
				good, why := false, ""
				if isEncoded(arg) {
					good = true
				} else if u, isU := arg.(*ssa.UnOp); isU && u.Op == token.MUL {
					// a variable shared between attempts (captured cell): every assignment of it anywhere in the routine
					cell := u.X
					var parentCell ssa.Value
					if fv, isFV := cell.(*ssa.FreeVar); isFV {
						parentCell = resolveFreeVarCell(fn, fv)
					}
					good = true
					stores := 0
					for _, f2 := range withAnon(root) {
						for _, b2 := range f2.Blocks {
							for _, in2 := range b2.Instrs {
								st, isSt := in2.(*ssa.Store)
								if !isSt {
									continue
								}
								same := st.Addr == cell || (parentCell != nil && st.Addr == parentCell)
								if fv2, isFV2 := st.Addr.(*ssa.FreeVar); isFV2 && parentCell != nil && resolveFreeVarCell(f2, fv2) == parentCell {
									same = true
								}
								if !same {
									continue
								}
								stores++
								if !isEncoded(st.Val) {
									good = false
									why = " (assigned at " + p.pos(st.Pos()) + " with something else than the encoder's result)"
								}
							}
						}
					}
					if stores == 0 {
						good = false
					}
				}
				r.Check(good, "send attempt writes the encoded frame", c.Pos(), "the argument of the connection's Write is the frame encoder's result on every attempt, never a re-slice or remainder"+why)
			}
		}
	}
	if n == 0 {
		r.Unresolved("no Write of the connection in the send routine")
	}
}

// resolveFreeVarCell: the cell (Alloc) in the enclosing function that the closure's free variable is bound to.
func resolveFreeVarCell(fn *ssa.Function, fv *ssa.FreeVar) ssa.Value {
	if fn.Parent() == nil {
		return nil
	}
	idx := -1
	for i, f := range fn.FreeVars {
		if f == fv {
			idx = i
		}
	}
	if idx < 0 {
		return nil
	}
	for _, b := range fn.Parent().Blocks {
		for _, in := range b.Instrs {
			if mc, ok := in.(*ssa.MakeClosure); ok && mc.Fn == ssa.Value(fn) && idx < len(mc.Bindings) {
				if inner, isFV := mc.Bindings[idx].(*ssa.FreeVar); isFV {
					return resolveFreeVarCell(fn.Parent(), inner)
				}
				return mc.Bindings[idx]
			}
		}
	}
	return nil
}

// c15ErrorSentinel: a message that carries an error ships it as (code, text); the writer emits the zero code exactly when there
// is no error, and error codes are signed — the catch-all code for unregistered errors is negative. The reader must therefore
// rebuild the error for every code different from the no-error value: the condition under which a registered reader assigns
// an error-typed field of the message is an (in)equality test of the decoded code, never an ordering test (code > 0 turns a
// failure with the catch-all code into a success on the remote side only).
func c15ErrorSentinel(p *Program, r *Report) {
	errT := types.Universe.Lookup("error").Type()
	n := 0
	for _, rg := range p.registrations() {
		if rg.Reader == nil || len(rg.Reader.Blocks) == 0 {
			continue
		}
		g := p.ig(rg.Reader)
		var stores []int
		for i, in := range g.Nodes {
			if st, ok := in.(*ssa.Store); ok {
				if f, _ := fieldAddr(st.Addr); f != nil && types.Identical(f.Type(), errT) && !isNilConst(strip(st.Val)) {
					stores = append(stores, i)
				}
			}
		}
		if len(stores) == 0 {
			continue
		}
		n++
		bad := ""
		for _, ifi := range g.ifs() {
			b, isB := ifi.Cond.(*ssa.BinOp)
			if !isB {
				continue
			}
			switch b.Op {
			case token.LSS, token.GTR, token.LEQ, token.GEQ:
			default:
				continue
			}
			xt, isBasic := b.X.Type().Underlying().(*types.Basic)
			if !isBasic || xt.Info()&types.IsInteger == 0 || xt.Info()&types.IsUnsigned != 0 {
				continue
			}
			if _, isK := b.Y.(*ssa.Const); !isK {
				continue
			}
			// a decoded value: a load of a local cell filled by the reader
			if u, isU := b.X.(*ssa.UnOp); !isU || u.Op != token.MUL {
				continue
			} else if _, isAl := u.X.(*ssa.Alloc); !isAl {
				continue
			}
			for _, outcome := range []bool{true, false} {
				e := g.branchEdge(ifi, outcome)
				for _, sn := range stores {
					if g.DominatedByEdges(sn, map[edge]bool{e: true}) {
						bad = p.pos(ifi.Cond.Pos())
					}
				}
			}
		}
		r.Check(bad == "", "error field decoded in "+fnName(rg.Reader), rg.Reader.Pos(), "the assignment of the message's error field is not governed by an ordering test of a decoded signed code (codes are signed; the catch-all code for unregistered errors is negative): every code other than the no-error value yields an error "+bad)
	}
	if n == 0 {
		r.Unresolved("no registered reader assigns an error-typed field")
	}
}

// c14StopAborts: the send closure gives up (abort=true) once the system context is cancelled — a send in its retry loop does
// not hold up Stop.
func c14StopAborts(p *Program, r *Report) {
	rm := remOrFail(p, r)
	if rm == nil {
		return
	}
	// stopped system aborts
	sg := p.ig(rm.SendLoop)
	okS := false
	errE := sg.edgesWhere(func(f cmpFact) bool {
		if !f.IsNil || f.Op != token.NEQ {
			return false
		}
		c, ok := strip(f.X).(*ssa.Call)
		return ok && c.Call.IsInvoke() && c.Call.Method.Name() == "Err"
	})
	for e := range errE {
		if e.from < 8 || true {
			for n := range sg.Reach([]int{e.to}, nil, nil) {
				if ret, isR := sg.Nodes[n].(*ssa.Return); isR {
					if ab, isC := constBool(retOperand(ret, 0)); isC && ab {
						okS = true
					}
				}
			}
		}
	}
	r.Check(okS, "a stopped system aborts the send", rm.SendLoop.Pos(), "the send closure returns abort=true when the system context is cancelled")
}

// viaRefAccessor: v is the result of the reference accessor of that name (GetAddress / GetPath of the ActorRef API) — the call
// itself, or, when the concrete accessor was spliced into the graph, the field it returns.
func (p *Program) viaRefAccessor(lc *lifecycle, v ssa.Value, name string) bool {
	o := p.origins(v)
	if anyContains(o, name) {
		return true
	}
	if lc == nil || lc.RefF == nil {
		return false
	}
	rt := namedOf(lc.RefF.Type())
	if rt == nil {
		return false
	}
	acc := p.methodNamed(rt, name)
	if acc == nil {
		return false
	}
	for _, b := range acc.Blocks {
		if ret, ok := b.Instrs[len(b.Instrs)-1].(*ssa.Return); ok && len(ret.Results) == 1 {
			if f, _ := fieldLoad(strip(ret.Results[0])); f != nil && anyContains(o, "field:"+ownerName(f)+"."+f.Name()+"<-") {
				return true
			}
		}
	}
	return false
}

// c14HandshakeDeadlines: Send and Wait are the two halves of one exchange on the same connection; each arms a deadline for
// its own direction. Whatever is done with these deadlines afterwards must be done for both directions: clearing only the read
// side leaves a connection whose reader lives on while every write after the stale write deadline fails — the sender then
// drops the connection without closing it, its reader actor stays blocked in Read, and Stop waits for it until its timeout.
// Cross-check of siblings: the number of deadline arms and of deadline clears agrees between the two halves.
func c14HandshakeDeadlines(p *Program, r *Report) {
	send, wait := p.Method("internal/remoting", "Handshake", "Send"), p.Method("internal/remoting", "Handshake", "Wait")
	if send == nil || wait == nil {
		r.Unresolved("Handshake.Send / Handshake.Wait")
		return
	}
	count := func(fn *ssa.Function) (arms, clears int) {
		for _, f := range withAnon(fn) {
			for _, b := range f.Blocks {
				for _, in := range b.Instrs {
					c := callOf(in)
					if c == nil || !c.IsInvoke() || !strings.HasSuffix(c.Method.Name(), "Deadline") || !strings.HasPrefix(c.Method.Name(), "Set") || len(c.Args) != 1 {
						continue
					}
					if anyContains(p.origins(c.Args[0]), "call:") {
						arms++
					} else {
						clears++
					}
				}
			}
		}
		return
	}
	sa, sc := count(send)
	wa, wc := count(wait)
	r.Check(sa == wa && sc == wc, "handshake deadlines are armed and cleared alike in both halves", send.Pos(), fmt.Sprintf("Send arms %d / clears %d deadline(s), Wait arms %d / clears %d: the two directions of the connection are left in the same state", sa, sc, wa, wc))
}
