package main

// C05 — lifecycle order per incarnation.

import (
	"fmt"
	"go/token"
	"go/types"
	"strings"

	"golang.org/x/tools/go/ssa"
)

func init() {
	register(&Property{
		ID: "C05",
		Explanation: "Decided: (R1) every OnLaunch is told as a system message to the ref of the context being launched (the freshly built child in ActorOf, the handler's own context on restart) and never to a parent; " +
			"(R2) ActorOf returns without registration or tell when construction fails, without tell on a name conflict, and otherwise registers, records the child and tells OnLaunch before any other message to the child; " +
			"(R3) the construction chain runs prelaunch before the mailbox and behaviour are installed and a failing step aborts construction; (R4) the restart success path replaces the actor through the provider, resets the behaviour stack to that actor's OnReceive, sets running before telling OnLaunch and resuming, and never touches registration, ref or mailbox; " +
			"(R5) no behaviour invocation is reachable for a killed non-zombie actor (guard truth table, shared with C03); (R6) the kill chain's partial order and OnKill-before-own-OnKilled in the kill routine. " +
			"(R2, addition) every event published by ActorOf after the registration is dominated by the OnLaunch tell: a subscriber reacting to the spawn announcement finds OnLaunch already queued. (R7) a deferred recover in a function that reports an outcome assigns that outcome (or panics again) on every path from the edge on which a panic was recovered; (R8) every behaviour run reachable from the envelope handler executes the value the handler chose (empty for a zombie), handed down unchanged; (R9) the restart step must not enqueue the new incarnation's OnLaunch behind pending system messages (F36, fixed): it hands OnLaunch to the context's own envelope handler. (R10 = C19.R8) a reference memoises only the mailbox of the context found registered at its path, never a miss: ActorOf sends OnLaunch through the context's own reference object, which user code can have had resolved from OnPrelaunch before the registration — a pinned miss would dead-letter OnLaunch and everything after it. (R11) every Push onto the behaviour stack in the actor package receives the caller's behaviour or a method value bound to a load of the actor field made in the same function — never a function value cached in another field, which after a provider restart still belongs to the previous instance. (R12) in the combination actor's error-returning hooks, from the err != nil edge of a component's hook no path reaches the next iteration of the loop over the components. NOT decided: the complete per-actor delivery order at run time.",
		Assumptions: []string{"chain steps are exactly the appended functions (chain idiom)"},
		Rules: []Rule{
			{ID: "C05.R1", Min: 2, Desc: "OnLaunch addressing", Fn: c05Launch},
			{ID: "C05.R2", Min: 4, Desc: "spawn order in ActorOf", Fn: c05Spawn},
			{ID: "C05.R3", Min: 3, Desc: "construction order", Fn: c05Construct},
			{ID: "C05.R4", Min: 5, Desc: "restart re-initialisation", Fn: c05Restart},
			{ID: "C05.R5", Min: 12, Desc: "nothing after death (guard truth table)", Fn: c03Guard},
			{ID: "C05.R9", Min: 1, Desc: "the OnLaunch of a restarted incarnation is handled before anything queued behind the restart", Fn: c05RestartLaunchFirst},
			{ID: "C05.R10", Min: 1, Desc: "the reference ActorOf sends OnLaunch through cannot have memoised a miss (C19.R8)", Fn: c19CacheOnlyFound},
			{ID: "C05.R11", Min: 3, Desc: "every base behaviour the library pushes is bound to the current actor instance (no cached method value survives a provider restart)", Fn: c05BaseBehaviourIsCurrent},
			{ID: "C05.R12", Min: 2, Desc: "the library's combination actor reports the first failing component of a hook", Fn: c05CombinationPropagates},
			{ID: "C05.R8", Min: 2, Desc: "every behaviour run made while handling an envelope uses the behaviour chosen at the top of the handler (the empty one for a zombie)", Fn: c05ChosenBehaviour},
			{ID: "C05.R7", Min: 1, Desc: "a recovered panic is never turned into success (a hook that panics fails the construction / restart step)", Fn: recoveredPanicsAreFailures},
			{ID: "C05.R6", Min: 5, Desc: "kill-chain order", Fn: c05KillChain},
		},
	})
}

func isAllocOf(v ssa.Value, name string) bool {
	a := allocOf(v)
	if a == nil {
		return false
	}
	return typeIs(a.Type().(*types.Pointer).Elem(), modPath, name)
}

// ctorCalls: calls in fn that build an actor context (result 0 is *Context).
func (p *Program) ctorCalls(lc *lifecycle, fn *ssa.Function) map[int]bool {
	return p.ctorCallsG(lc, p.ig(fn))
}

func (p *Program) ctorCallsG(lc *lifecycle, g *IG) map[int]bool {
	return nodesWhere(g, func(in ssa.Instruction) bool {
		c := callOf(in)
		if c == nil || c.StaticCallee() == nil {
			return false
		}
		res := c.StaticCallee().Signature.Results()
		return res.Len() == 2 && namedOf(res.At(0).Type()) == lc.Ctx
	})
}

func c05Launch(p *Program, r *Report) {
	lc := lcOrFail(p, r)
	if lc == nil {
		return
	}
	n := 0
	for _, fn := range p.Mod {
		for _, ts := range p.tellSites(fn) {
			if !isAllocOf(ts.Message, "OnLaunch") {
				continue
			}
			n++
			sys := false
			if ts.System != nil {
				b, ok := constBool(ts.System)
				sys = ok && b
			}
			rec := p.origins(ts.Recipient)
			good := sys && len(rec) > 0 && !anyContains(rec, "parent") && !anyContains(rec, "Sender")
			if len(p.ctorCalls(lc, fn)) > 0 {
				good = good && allContain(rec, "#0<-call:")
			} else {
				good = good && allContain(rec, "field:"+lc.pat(lc.RefF))
			}
			r.Check(good, "OnLaunch told in "+fnName(fn), ts.In.Pos(), "system message addressed to the launched context's own ref ("+strings.Join(rec, " | ")+"), never to a parent")
		}
	}
	// the synchronous form (a restart step handing OnLaunch to its own envelope handler)
	for _, fn := range p.Mod {
		for _, sl := range p.syncLaunches(lc, fn) {
			n++
			b, isC := constBool(sl.System)
			rec := p.origins(sl.Receiver)
			good := isC && b && len(rec) > 0 && allContain(rec, "field:"+lc.pat(lc.RefF)) && !anyContains(rec, "parent") && !anyContains(rec, "Sender")
			r.Check(good, "OnLaunch handled in "+fnName(fn), sl.In.Pos(), "a system envelope addressed to the launched context's own ref ("+strings.Join(rec, " | ")+"), handed to its own envelope handler")
		}
	}
	if n == 0 {
		r.Unresolved("no tell of OnLaunch")
	}
}

func c05Spawn(p *Program, r *Report) {
	lc := lcOrFail(p, r)
	if lc == nil {
		return
	}
	ao := p.ctxMethod(lc, "ActorOf")
	g := p.igxSkip(ao, lc.roleFuncs(p)) // bookkeeping helpers (an extracted addChild) stay part of ActorOf's paths; role functions stay calls
	ctor := p.ctorCallsG(lc, g)
	if len(ctor) == 0 {
		r.Unresolved("constructor call in ActorOf")
		return
	}
	var ctorCall *ssa.Call
	for n := range ctor {
		ctorCall = g.Nodes[n].(*ssa.Call)
	}
	reg := nodesWhere(g, func(in ssa.Instruction) bool {
		c := callOf(in)
		return c != nil && c.StaticCallee() == lc.AppendRegistry
	})
	tells := map[int]bool{}
	launch := map[int]bool{}
	var aoTells []tellSite
	for _, f := range g.Fns {
		aoTells = append(aoTells, p.tellSites(f)...)
	}
	for _, ts := range aoTells {
		tells[g.Idx[ts.In]] = true
		if isAllocOf(ts.Message, "OnLaunch") {
			launch[g.Idx[ts.In]] = true
		}
	}
	kill := p.ctxMethod(lc, "Kill")
	sends := union(tells, nodesWhere(g, func(in ssa.Instruction) bool { c := callOf(in); return c != nil && c.StaticCallee() == kill }))
	// error edges of the constructor
	errE, okE := map[edge]bool{}, map[edge]bool{}
	for _, ifi := range g.ifs() {
		for _, outcome := range []bool{true, false} {
			f, ok := condFact(ifi.Cond, outcome)
			if !ok || !f.IsNil {
				continue
			}
			if ex, ok := f.X.(*ssa.Extract); ok && ex.Tuple == ssa.Value(ctorCall) && ex.Index == 1 {
				if f.Op == token.NEQ {
					errE[g.branchEdge(ifi, outcome)] = true
				} else {
					okE[g.branchEdge(ifi, outcome)] = true
				}
			}
		}
	}
	good := len(errE) > 0 && len(reg) > 0
	for e := range errE {
		reach := g.Reach([]int{e.to}, nil, nil)
		for n := range reach {
			if reg[n] || sends[n] {
				good = false
			}
			if ret, ok := g.Nodes[n].(*ssa.Return); ok {
				if v := retOperand(ret, 1); v == nil || isNilConst(strip(v)) {
					good = false
				}
			}
		}
	}
	// the child must not be reachable through the registry before its OnLaunch is queued: a sender that resolves the path from
	// another goroutine (a reference created from the name, an event-stream subscription taken in OnPrelaunch) can enqueue a user
	// message in between; the consumer starts with an empty system queue and the behaviour sees that message BEFORE OnLaunch.
	// Accepted: the OnLaunch tell dominates the registration, or a Pause of the child's mailbox dominates the registration (and
	// the launch handling resumes it).
	{
		gated := len(reg) > 0 && len(launch) > 0
		pauses := nodesWhere(g, func(in ssa.Instruction) bool {
			c := callOf(in)
			return c != nil && c.IsInvoke() && c.Method.Name() == "Pause"
		})
		for rn := range reg {
			if !g.DominatedByNodes(rn, launch) && !(len(pauses) > 0 && g.DominatedByNodes(rn, pauses)) {
				gated = false
			}
		}
		r.Check(gated, "child reachable through the registry before OnLaunch is queued", firstPos(g, reg), "the registration of the new context is dominated by the OnLaunch tell or by a Pause of its mailbox: no sender resolving the path concurrently can have a user message handled before OnLaunch")
	}
	r.Check(good, "construction failure returns without registration or tell", ctorCall.Pos(), "the err!=nil edge of the context constructor leads only to `return nil, err`: a prelaunch failure means the actor never receives anything")
	// conflict edge of the registration
	var regCall *ssa.Call
	for n := range reg {
		regCall, _ = g.Nodes[n].(*ssa.Call)
	}
	conflict, fresh := map[edge]bool{}, map[edge]bool{}
	if regCall != nil {
		for _, ifi := range g.ifs() {
			for _, outcome := range []bool{true, false} {
				f, ok := condFact(ifi.Cond, outcome)
				if ok && f.Bool && f.X == ssa.Value(regCall) {
					if f.Op == token.NEQ {
						conflict[g.branchEdge(ifi, outcome)] = true
					} else {
						fresh[g.branchEdge(ifi, outcome)] = true
					}
				}
			}
		}
	}
	good = len(conflict) > 0
	for e := range conflict {
		for n := range g.Reach([]int{e.to}, nil, nil) {
			if sends[n] {
				good = false
			}
			if ret, ok := g.Nodes[n].(*ssa.Return); ok {
				if v := retOperand(ret, 1); v == nil || isNilConst(strip(v)) {
					good = false
				}
			}
		}
	}
	r.Check(good, "name conflict returns an error without telling anything", firstPos(g, reg), "the 'already registered' edge leads only to an error return")
	// order: registration → child table insert → OnLaunch → other sends
	children := p.childrenField(lc)
	ins := map[int]bool{}
	for _, a := range p.fieldAccesses(map[*types.Var]bool{children: true}) {
		if a.Kind == "map-update" && g.owns(p, a.Fn) {
			if n, in := g.Idx[a.In]; in {
				ins[n] = true
			}
		}
	}
	good = len(launch) == 1 && len(ins) > 0
	for l := range launch {
		if !g.DominatedByNodes(l, reg) || !g.DominatedByNodes(l, ins) || !g.DominatedByEdges(l, fresh) || !g.DominatedByEdges(l, okE) {
			good = false
		}
	}
	for i := range ins {
		if !g.DominatedByNodes(i, reg) {
			good = false
		}
	}
	r.Check(good, "registration, child-table insert, then OnLaunch", firstPos(g, launch), "the OnLaunch tell is dominated by the successful registration and by the insertion into the parent's child table")
	good = true
	for s := range sends {
		if launch[s] {
			continue
		}
		if !g.DominatedByNodes(s, launch) {
			good = false
		}
	}
	// success return only after the launch
	for _, ex := range g.Exits {
		ret := g.Nodes[ex].(*ssa.Return)
		if v := retOperand(ret, 1); v != nil && isNilConst(strip(v)) && !g.DominatedByNodes(ex, launch) {
			good = false
		}
	}
	// the child's reference is announced on the event stream only after the launch: a subscriber that reacts to the announcement
	// by messaging the new actor must find OnLaunch already queued
	for i, in := range g.Nodes {
		if c := callOf(in); c != nil && c.IsInvoke() && c.Method.Name() == "Publish" && !g.DominatedByNodes(i, launch) {
			anyAfterReg := false
			for rn := range reg {
				if g.ReachAfter(rn, nil, nil)[i] {
					anyAfterReg = true
				}
			}
			if anyAfterReg {
				good = false
			}
		}
	}
	r.Check(good, "OnLaunch is the first message told to the child", firstPos(g, launch), "every other send in ActorOf, every event published after the registration and the success return are dominated by the OnLaunch tell")
}

func c05Construct(p *Program, r *Report) {
	lc := lcOrFail(p, r)
	if lc == nil {
		return
	}
	// the constructor: function returning (*Context, error) that runs a chain
	var ctor *ssa.Function
	var cr *chainRun
	for _, fn := range p.Mod {
		res := fn.Signature.Results()
		if fn.Parent() != nil || res.Len() != 2 || namedOf(res.At(0).Type()) != lc.Ctx {
			continue
		}
		for _, c := range p.chainRuns(fn) {
			cc := c
			ctor, cr = fn, &cc
		}
	}
	if ctor == nil {
		r.Unresolved("context constructor with an initialisation chain")
		return
	}
	pre, mbox, beh := -1, -1, -1
	for i, s := range cr.Steps {
		for _, f := range s.Funcs {
			for _, b := range f.Blocks {
				for _, in := range b.Instrs {
					if c := callOf(in); c != nil && c.IsInvoke() && c.Method.Name() == "OnPrelaunch" {
						pre = i
					}
					if st, ok := in.(*ssa.Store); ok {
						if fl, _ := fieldAddr(st.Addr); fl == lc.MailboxF {
							mbox = i
						}
					}
					if c := callOf(in); c != nil && c.StaticCallee() != nil && c.StaticCallee().Name() == "Push" {
						beh = i
					}
				}
			}
		}
	}
	r.Check(pre >= 0 && mbox > pre && beh > pre, "prelaunch precedes mailbox and behaviour installation", cr.Run.Pos(), fmt.Sprintf("construction chain order: prelaunch=%d mailbox=%d behaviour=%d", pre, mbox, beh))
	// a failing step aborts: chain.Run returns the first error (checked in the chain package) and the constructor returns it
	g := p.ig(ctor)
	errE := map[edge]bool{}
	for _, ifi := range ifsOf(ctor) {
		for _, outcome := range []bool{true, false} {
			f, ok := condFact(ifi.Cond, outcome)
			if ok && f.IsNil && f.Op == token.NEQ && f.X == ssa.Value(cr.Run) {
				errE[g.branchEdge(ifi, outcome)] = true
			}
		}
	}
	good := len(errE) > 0
	for _, ex := range g.Exits {
		ret := g.Nodes[ex].(*ssa.Return)
		v0 := retOperand(ret, 0)
		viaErr := !g.Reach(g.entry(), nil, errE)[ex]
		if viaErr && (v0 == nil || !isNilConst(strip(v0))) {
			good = false // returns a context although the chain failed
		}
		if !viaErr {
			if v1 := retOperand(ret, 1); v1 == nil || !isNilConst(strip(v1)) {
				_ = v1
			}
		}
	}
	r.Check(good, "failed construction returns no context", cr.Run.Pos(), "on the chain's error edge the constructor returns (nil, err)")
	// the chain runner stops at the first error
	run := cr.Run.Call.StaticCallee()
	rg := p.ig(run)
	stops := false
	for _, ifi := range ifsOf(run) {
		f, ok := condFact(ifi.Cond, true)
		if ok && f.IsNil && f.Op == token.NEQ {
			e := rg.branchEdge(ifi, true)
			onlyRet := true
			for n := range rg.Reach([]int{e.to}, nil, nil) {
				switch rg.Nodes[n].(type) {
				case *ssa.Call, *ssa.Next:
					onlyRet = false
				}
			}
			if onlyRet {
				stops = true
			}
		}
	}
	r.Check(stops, "chain runner aborts at the first failing step", run.Pos(), "in the chain's Run the err!=nil edge of a step leads straight to the return (no later step runs)")
}

func c05Restart(p *Program, r *Report) {
	lc := lcOrFail(p, r)
	if lc == nil {
		return
	}
	fn := lc.HandleRestart
	g := p.igxSkip(fn, lc.roleFuncs(p)) // the step may be split into helpers of the handler
	// success path nodes: state←running store
	run := nodesWhere(g, func(in ssa.Instruction) bool {
		a := atomicCall(in)
		return a != nil && a.Field == lc.State && a.Op == "Store"
	})
	launch := map[int]bool{}
	for _, ts := range p.tellSitesG(g) {
		if isAllocOf(ts.Message, "OnLaunch") {
			launch[g.Idx[ts.In]] = true
		}
	}
	resume := nodesWhere(g, func(in ssa.Instruction) bool {
		c := callOf(in)
		return c != nil && c.IsInvoke() && c.Method.Name() == "Resume"
	})
	syncForm := false
	for _, f := range g.Fns {
		for _, sl := range p.syncLaunches(lc, f) {
			launch[g.Idx[sl.In]] = true
			syncForm = true
		}
	}
	good := len(run) > 0 && len(launch) > 0
	for l := range launch {
		if !g.DominatedByNodes(l, run) {
			good = false
		}
		// handled synchronously: the mailbox is resumed BEFORE, so that a failure inside OnLaunch (which pauses the mailbox again
		// until the supervisor decides) is not undone by a later Resume
		if syncForm {
			if !g.DominatedByNodes(l, resume) || anyOf(g.ReachAfter(l, nil, nil), resume) {
				good = false
			}
			continue
		}
		// a resume follows the launch on every path
		if anyIn(g.ReachAfter(l, resume, nil), g.Exits) {
			good = false
		}
	}
	r.Check(good, "running before OnLaunch before Resume", firstPos(g, launch), "on the restart success path state←running dominates the OnLaunch tell, and every path from it to the exit resumes the mailbox")
	// provider: actor field replaced by Provide() under provider != nil
	actorF := lc.ActorF
	var actorStore map[int]bool = nodesWhere(g, func(in ssa.Instruction) bool {
		st, ok := in.(*ssa.Store)
		if !ok {
			return false
		}
		f, _ := fieldAddr(st.Addr)
		if f == nil || fieldVar(lc.Ctx, f.Name()) != f {
			return false
		}
		c, ok := strip(st.Val).(*ssa.Call)
		return ok && c.Call.IsInvoke() && c.Call.Method.Name() == "Provide"
	})
	if actorF == nil {
		for n := range actorStore {
			actorF, _ = fieldAddr(g.Nodes[n].(*ssa.Store).Addr)
		}
	}
	provNil := map[edge]bool{}
	for _, ifi := range g.ifs() {
		for _, outcome := range []bool{true, false} {
			f, ok := condFact(ifi.Cond, outcome)
			if ok && f.IsNil && f.Op == token.EQL && anyContains(p.origins(f.X), ".Provider<-") {
				provNil[g.branchEdge(ifi, outcome)] = true
			}
		}
	}
	av := p.assumeRestarting(lc, g)
	good = len(actorStore) > 0 && len(provNil) > 0 && !anyIn(g.Reach(g.entry(), actorStore, mergeEdges(av, provNil)), g.Exits)
	r.Check(good, "provider supplies a fresh actor instance", firstPos(g, actorStore), "with a provider configured every restarting path stores Provider.Provide() into the context's actor field")
	// behaviour stack reset: Clear then Push(actor.OnReceive) with actor loaded after the provider store
	clear := nodesWhere(g, func(in ssa.Instruction) bool {
		c := callOf(in)
		return c != nil && c.StaticCallee() != nil && c.StaticCallee().Name() == "Clear"
	})
	push := nodesWhere(g, func(in ssa.Instruction) bool {
		c := callOf(in)
		return c != nil && c.StaticCallee() != nil && c.StaticCallee().Name() == "Push"
	})
	good = len(clear) > 0 && len(push) == 1
	for pn := range push {
		c := callOf(g.Nodes[pn])
		if !g.DominatedByNodes(pn, clear) {
			good = false
		}
		// argument: bound method OnReceive of the actor field, loaded after the provider store
		arg := strip(c.Args[len(c.Args)-1])
		mc, ok := arg.(*ssa.MakeClosure)
		if !ok || !strings.Contains(mc.Fn.Name(), "OnReceive") || len(mc.Bindings) != 1 {
			good = false
		} else {
			f, _ := fieldLoad(strip(mc.Bindings[0]))
			if actorF == nil || f != actorF {
				good = false
			} else if ld, ok := mc.Bindings[0].(ssa.Instruction); ok {
				for s := range actorStore {
					if g.ReachAfter(g.Idx[ld], nil, nil)[s] && !g.ReachAfter(s, nil, nil)[g.Idx[ld]] {
						good = false // actor read before the provider replaced it
					}
				}
			}
		}
		for l := range launch {
			if !g.DominatedByNodes(l, setOf(pn)) {
				good = false
			}
		}
		if anyIn(g.Reach(g.entry(), setOf(pn), av), g.Exits) {
			good = false
		}
	}
	r.Check(good, "behaviour stack reset to the (new) actor's OnReceive", firstPos(g, push), "Clear then exactly one Push(actor.OnReceive) with the actor read after the provider store, on every restarting path and before OnLaunch")
	// restart never deregisters nor rewrites ref/mailbox
	steps := p.closure([]*ssa.Function{fn}, cgOpts{ModuleOnly: true, MaxDepth: 2, SkipFunc: func(f *ssa.Function) bool { return f == p.tellFunc() }})
	_, dereg := steps[lc.RemoveRegistry]
	r.Check(!dereg, "restart keeps the registration", fn.Pos(), "the registry-removal routine is not reachable from the restart step")
	bad := ""
	refF := lc.RefF
	for _, a := range p.fieldAccesses(map[*types.Var]bool{lc.MailboxF: true, refF: true}) {
		if a.Write && !a.Fresh && a.Fn == fn {
			bad = a.Field.Name()
		}
	}
	r.Check(bad == "" && refF != nil, "restart keeps reference and mailbox", fn.Pos(), "the restart step writes neither the context's ref nor its mailbox "+bad)
}

func c05KillChain(p *Program, r *Report) {
	lc := lcOrFail(p, r)
	if lc == nil {
		return
	}
	idx := func(f *ssa.Function) int { return lc.Chain.indexOf(f) }
	type pair struct {
		a, b   *ssa.Function
		an, bn string
	}
	for _, pr := range []pair{
		{lc.ChildDeath, lc.MarkKilled, "child-death", "killed-gate"},
		{lc.MarkKilled, lc.PrepareSelf, "killed-gate", "prepare-self-message"},
		{lc.PrepareSelf, lc.ExecBehavior, "prepare-self-message", "behaviour(OnKilled)"},
		{lc.ExecBehavior, lc.Cleanup, "behaviour(OnKilled)", "cleanup"},
		{lc.SchedCleanup, lc.HandleRestart, "scheduler-cleanup", "restart"},
		{lc.Cleanup, lc.HandleRestart, "cleanup", "restart"},
	} {
		a, b := -1, -1
		if pr.a != nil {
			a = idx(pr.a)
		}
		if pr.b != nil {
			b = idx(pr.b)
		}
		r.Check(a >= 0 && b >= 0 && a < b, pr.an+" before "+pr.bn, lc.OnKilledFn.Pos(), fmt.Sprintf("kill chain positions %d < %d", a, b))
	}
	last := lc.HandleRestart != nil && idx(lc.HandleRestart) == len(lc.Chain.Steps)-1
	r.Check(last, "restart is the last step", lc.OnKilledFn.Pos(), "the re-initialisation runs after every termination step")
	// in the kill routine the OnKill behaviour run precedes the own-OnKilled handling
	g := p.ig(lc.DoKill)
	beh := nodesWhere(g, func(in ssa.Instruction) bool {
		c := callOf(in)
		if c == nil || c.StaticCallee() == nil {
			return false
		}
		return c.StaticCallee() == lc.ExecRecover || strings.Contains(c.StaticCallee().Name(), "recoverExec")
	})
	fin := nodesWhere(g, func(in ssa.Instruction) bool { c := callOf(in); return c != nil && c.StaticCallee() == lc.OnKilledFn })
	ok := len(beh) > 0 && len(fin) > 0
	for f := range fin {
		if !g.DominatedByNodes(f, beh) {
			ok = false
		}
	}
	r.Check(ok, "OnKill behaviour precedes own OnKilled", firstPos(g, fin), "in the kill routine the kill chain is started only after the behaviour ran for OnKill")
}

// c05ChosenBehaviour: the envelope handler picks the behaviour once — the top of the stack, or the empty behaviour when the
// actor is a zombie ("sees nothing after the OnKilled that names itself"; a zombie runs no user code) — and every handler
// it dispatches to runs THAT value. A handler that looks at the stack again bypasses the zombie substitution (and, after a
// failed restart with a provider, reaches a fresh instance that never saw OnLaunch).
func c05ChosenBehaviour(p *Program, r *Report) {
	lc := lcOrFail(p, r)
	if lc == nil {
		return
	}
	if lc.ExecRecover == nil {
		r.Unresolved("recover wrapper")
		return
	}
	g := p.igx(lc.HandleEnvelop)
	// the chosen behaviour: a phi of the handler merging the stack's top with a fixed (empty) behaviour
	var chosen *ssa.Phi
	for _, in := range g.Nodes {
		ph, ok := in.(*ssa.Phi)
		if !ok || ph.Parent() != lc.HandleEnvelop {
			continue
		}
		if _, isSig := ph.Type().Underlying().(*types.Signature); !isSig {
			continue
		}
		hasCall, hasFixed := false, false
		for _, e := range ph.Edges {
			switch x := strip(e).(type) {
			case *ssa.Call:
				hasCall = true
			case *ssa.Function, *ssa.MakeClosure, *ssa.Global:
				hasFixed = true
			case *ssa.UnOp:
				if _, isG := x.X.(*ssa.Global); isG {
					hasFixed = true
				}
			case *ssa.ChangeType:
				hasFixed = true
			}
		}
		if hasCall && hasFixed {
			chosen = ph
		}
	}
	if chosen == nil {
		r.Unresolved("the behaviour chosen by the envelope handler (stack top, or the empty behaviour for a zombie)")
		return
	}
	n := 0
	for _, in := range g.Nodes {
		c, ok := in.(*ssa.Call)
		if !ok || c.Call.StaticCallee() != lc.ExecRecover || len(c.Call.Args) < 2 {
			continue
		}
		n++
		v := g.res(c.Call.Args[1])
		r.Check(v == ssa.Value(chosen), "behaviour run in "+fnName(in.Parent())+" uses the handler's choice", c.Pos(), "the behaviour executed is the value the envelope handler chose for this envelope (empty for a zombie), handed down unchanged — not a fresh look at the behaviour stack ("+strings.Join(p.origins(v), " | ")+")")
	}
	if n == 0 {
		r.Unresolved("no behaviour run reachable from the envelope handler")
	}
}

// c05RestartLaunchFirst: "in every incarnation an actor's behaviour sees OnLaunch before any other message". A restart runs on
// the actor's own goroutine while further system messages (a Kill, another Restart) may already sit in its system queue.
// An OnLaunch that the restart step ENQUEUES lands behind them: the new incarnation then sees OnKill / OnKilled first and its
// OnLaunch ends as a dead letter (F36). The step must hand OnLaunch to the envelope handler directly.
func c05RestartLaunchFirst(p *Program, r *Report) {
	lc := lcOrFail(p, r)
	if lc == nil {
		return
	}
	g := p.igxSkip(lc.HandleRestart, lc.roleFuncs(p))
	n := 0
	for _, ts := range p.tellSitesG(g) {
		if !strings.HasSuffix(typeName(strip(ts.Message).Type()), "OnLaunch") {
			continue
		}
		n++
		r.Violate("restart OnLaunch is enqueued", ts.In.Pos(), "the restart step sends the new incarnation's OnLaunch through the mailbox: system messages already queued behind the restart (Kill, Restart) are handled by the new incarnation before its OnLaunch")
	}
	for _, in := range g.Nodes {
		if c := callOf(in); c != nil && c.StaticCallee() == lc.HandleEnvelop {
			n++
			r.Check(true, "restart OnLaunch is handled synchronously", in.Pos(), "the restart step hands the envelope to the envelope handler directly, on the actor's own goroutine")
		}
	}
	if n == 0 {
		r.Unresolved("delivery of OnLaunch in the restart step")
	}
}

// syncLaunches: direct calls of the envelope handler in fn with a freshly built envelope whose message is OnLaunch (the
// synchronous form of a launch, used by a restart step that must not queue OnLaunch behind pending system messages);
// returns the call instructions with the envelope constructor's (system, receiver) arguments.
type syncLaunch struct {
	In       ssa.Instruction
	System   ssa.Value
	Receiver ssa.Value
}

func (p *Program) syncLaunches(lc *lifecycle, fn *ssa.Function) []syncLaunch {
	var out []syncLaunch
	for _, b := range fn.Blocks {
		for _, in := range b.Instrs {
			c := callOf(in)
			if c == nil || c.StaticCallee() != lc.HandleEnvelop || len(c.Args) < 2 {
				continue
			}
			env := c.Args[1]
			if mi, ok := env.(*ssa.MakeInterface); ok {
				env = mi.X
			}
			ec, ok := strip(env).(*ssa.Call)
			if !ok || len(ec.Call.Args) < 4 {
				continue
			}
			msg := ec.Call.Args[len(ec.Call.Args)-1]
			if !isAllocOf(msg, "OnLaunch") {
				continue
			}
			out = append(out, syncLaunch{In: in, System: ec.Call.Args[0], Receiver: ec.Call.Args[2]})
		}
	}
	return out
}
