package main

// PROV: value provenance — backward slice of a value to parameters, field
// loads, call results and constants, rendered as a set of origin chains.

import (
	"fmt"
	"go/token"
	"go/types"
	"sort"
	"strings"

	"golang.org/x/tools/go/ssa"
)

// origins returns the set of provenance chains of v. Each chain is a string like
// "field:Context.ref<-field:killedHandler.ctx<-param:h" or "call:(*Context).Ref<-call:NewContext#0".
func (p *Program) origins(v ssa.Value) []string {
	set := map[string]bool{}
	seen := map[ssa.Value]bool{}
	localBind := map[ssa.Value]ssa.Value{}
	var rec func(v ssa.Value, depth int) []string
	rec = func(v ssa.Value, depth int) []string {
		v = strip(v)
		if depth > 12 || seen[v] {
			return []string{"…"}
		}
		seen[v] = true
		defer delete(seen, v)
		switch x := v.(type) {
		case *ssa.Parameter:
			if a, ok := localBind[x]; ok {
				return rec(a, depth+1)
			}
			if p.ctxG != nil {
				if a, ok := p.ctxG.Bind[x]; ok {
					return rec(a, depth+1)
				}
			}
			return []string{"param:" + x.Name()}
		case *ssa.FreeVar:
			if p.ctxG != nil {
				if a, ok := p.ctxG.Bind[x]; ok {
					return rec(a, depth+1)
				}
			}
			return []string{"freevar:" + x.Name()}
		case *ssa.Const:
			if x.Value == nil {
				return []string{"const:nil"}
			}
			return []string{"const:" + x.Value.ExactString()}
		case *ssa.Global:
			return []string{"global:" + x.Name()}
		case *ssa.Alloc:
			// a by-value struct parameter spilled into a local cell (`*t0 = v` in the entry block, then only field reads)
			if sv := spilledParam(x); sv != nil {
				return rec(sv, depth+1)
			}
			return []string{"alloc:" + typeName(x.Type())}
		case *ssa.UnOp:
			if x.Op == token.MUL {
				if f, base := fieldAddr(x.X); f != nil {
					var out []string
					for _, b := range rec(base, depth+1) {
						out = append(out, "field:"+ownerName(f)+"."+f.Name()+"<-"+b)
					}
					return out
				}
				if g, ok := x.X.(*ssa.Global); ok {
					return []string{"global:" + g.Name()}
				}
				if ia, ok := x.X.(*ssa.IndexAddr); ok {
					var out []string
					for _, b := range rec(ia.X, depth+1) {
						out = append(out, "elem<-"+b)
					}
					return out
				}
				return rec(x.X, depth+1)
			}
			return rec(x.X, depth+1)
		case *ssa.Field:
			st, _ := x.X.Type().Underlying().(*types.Struct)
			var out []string
			for _, b := range rec(x.X, depth+1) {
				out = append(out, "field:"+st.Field(x.Field).Name()+"<-"+b)
			}
			return out
		case *ssa.Extract:
			// a tuple-returning pure projection helper of the module (no stores, a handful of instructions): the k-th result is
			// what its returns yield with the parameters bound to this call's arguments
			if c, isC := x.Tuple.(*ssa.Call); isC {
				if y := c.Call.StaticCallee(); y != nil && p.inModule(y) && pureProjection(y) && len(c.Call.Args) == len(y.Params) {
					saved := map[ssa.Value]ssa.Value{}
					for i, prm := range y.Params {
						if old, had := localBind[prm]; had {
							saved[prm] = old
						}
						localBind[prm] = c.Call.Args[i]
					}
					var out []string
					for _, b := range y.Blocks {
						if ret, ok := b.Instrs[len(b.Instrs)-1].(*ssa.Return); ok && x.Index < len(ret.Results) {
							out = append(out, rec(retOperand(ret, x.Index), depth+1)...)
						}
					}
					for _, prm := range y.Params {
						if old, had := saved[prm]; had {
							localBind[prm] = old
						} else {
							delete(localBind, prm)
						}
					}
					if len(out) > 0 {
						return out
					}
				}
			}
			var out []string
			for _, b := range rec(x.Tuple, depth+1) {
				out = append(out, fmt.Sprintf("#%d<-%s", x.Index, b))
			}
			return out
		case *ssa.TypeAssert:
			return rec(x.X, depth+1)
		case *ssa.Phi:
			var out []string
			for _, e := range x.Edges {
				out = append(out, rec(e, depth+1)...)
			}
			return out
		case *ssa.Call:
			if p.ctxG != nil {
				if y := p.ctxG.Inlined[x]; y != nil && y.Signature.Results().Len() == 1 {
					var out []string
					for _, b := range y.Blocks {
						if ret, ok := b.Instrs[len(b.Instrs)-1].(*ssa.Return); ok {
							out = append(out, rec(retOperand(ret, 0), depth+1)...)
						}
					}
					if len(out) > 0 {
						return out
					}
				}
			}
			q := shortCallee(&x.Call)
			if recv := callRecv(&x.Call); recv != nil {
				var out []string
				for _, b := range rec(recv, depth+1) {
					out = append(out, "call:"+q+"<-"+b)
				}
				return out
			}
			return []string{"call:" + q}
		case *ssa.Lookup:
			var out []string
			for _, b := range rec(x.X, depth+1) {
				out = append(out, "lookup<-"+b)
			}
			return out
		case *ssa.Next:
			var out []string
			for _, b := range rec(x.Iter, depth+1) {
				out = append(out, "next<-"+b)
			}
			return out
		case *ssa.Range:
			var out []string
			for _, b := range rec(x.X, depth+1) {
				out = append(out, "range<-"+b)
			}
			return out
		case *ssa.Index:
			var out []string
			for _, b := range rec(x.X, depth+1) {
				out = append(out, "elem<-"+b)
			}
			return out
		case *ssa.MakeClosure:
			return []string{"closure:" + x.Fn.Name()}
		case *ssa.BinOp:
			return []string{"binop:" + x.Op.String()}
		case *ssa.Slice:
			return rec(x.X, depth+1)
		}
		return []string{fmt.Sprintf("?%T", v)}
	}
	for _, s := range rec(v, 0) {
		set[s] = true
	}
	var out []string
	for s := range set {
		out = append(out, s)
	}
	sort.Strings(out)
	return out
}

func ownerName(f *types.Var) string {
	// best effort: the struct type declaring f, found through its package scope
	if f.Pkg() == nil {
		return "?"
	}
	sc := f.Pkg().Scope()
	for _, n := range sc.Names() {
		tn, ok := sc.Lookup(n).(*types.TypeName)
		if !ok {
			continue
		}
		st, ok := tn.Type().Underlying().(*types.Struct)
		if !ok {
			continue
		}
		for i := 0; i < st.NumFields(); i++ {
			if st.Field(i).Origin() == f {
				return tn.Name()
			}
		}
	}
	return "?"
}

func allContain(chains []string, sub string) bool {
	if len(chains) == 0 {
		return false
	}
	for _, c := range chains {
		if !strings.Contains(c, sub) {
			return false
		}
	}
	return true
}

func anyContains(chains []string, sub string) bool {
	for _, c := range chains {
		if strings.Contains(c, sub) {
			return true
		}
	}
	return false
}

// loopExactlyOnce: `nodes` (call sites) lie in a loop; every iteration executes exactly one of
// them and the loop is not left early: from the body entry every path back to the loop test
// passes one node; from a node, neither another node nor a function exit is reachable without
// passing the loop test again.
func (g *IG) loopExactlyOnce(nodes map[int]bool) (bool, string) {
	return g.loopExactlyOnceA(nodes, nil)
}

// loopExactlyOnceA: as loopExactlyOnce, with the edges of avoid assumed infeasible.
func (g *IG) loopExactlyOnceA(nodes map[int]bool, avoid map[edge]bool) (bool, string) {
	if len(nodes) == 0 {
		return false, "no such call"
	}
	why := "the call is not inside a loop"
	// a nil test of the iterated element itself: nothing can be told to a nil element, skipping it is not "leaving out" an
	// element (the tables iterated here never hold nil; a defensive `if elem == nil { continue }` changes nothing)
	nilElem := map[*ssa.If]bool{}
	avoid2 := map[edge]bool{}
	for e := range avoid {
		avoid2[e] = true
	}
	for _, ifi := range g.ifs() {
		for _, outcome := range []bool{true, false} {
			f, ok := condFact(ifi.Cond, outcome)
			if !ok || !f.IsNil {
				continue
			}
			if ex, isEx := strip(f.X).(*ssa.Extract); isEx {
				if _, isNext := ex.Tuple.(*ssa.Next); isNext {
					nilElem[ifi] = true
					if f.Op == token.EQL {
						avoid2[g.branchEdge(ifi, outcome)] = true
					}
				}
			}
		}
	}
	avoid = avoid2
	for _, ifi := range g.ifs() {
		if nilElem[ifi] {
			continue
		}
		hn := g.Idx[ifi]
		for _, outcome := range []bool{true, false} {
			e := g.branchEdge(ifi, outcome)
			if e.to < 0 {
				continue
			}
			cand := true
			for n := range nodes {
				if !g.DominatedByEdges(n, map[edge]bool{e: true}) {
					cand = false
				}
				if !g.ReachAfter(n, nil, nil)[hn] {
					cand = false // not a loop around this test
				}
			}
			if !cand {
				continue
			}
			// candidate loop test (for nested loops the innermost one passes): every iteration executes one
			fail := ""
			if !nodes[e.to] {
				reach := g.Reach([]int{e.to}, nodes, avoid)
				if reach[hn] || anyIn(reach, g.Exits) {
					fail = "an iteration can complete (or the function can return) without the call"
				}
			}
			for n := range nodes {
				reach := g.ReachAfter(n, setOf(hn), avoid)
				for m := range nodes {
					if reach[m] {
						fail = "the call can execute twice in one iteration"
					}
				}
				if anyIn(reach, g.Exits) {
					fail = "the loop is left early after the call"
				}
			}
			if fail == "" {
				return true, ""
			}
			why = fail
		}
	}
	return false, why
}

// spilledParam: a is the local cell of a struct-typed parameter: stored exactly once, with the parameter, and otherwise only
// read (loads, field addresses that are themselves only loaded).
func spilledParam(a *ssa.Alloc) ssa.Value {
	if a.Heap || a.Referrers() == nil {
		return nil
	}
	if _, isSt := a.Type().Underlying().(*types.Pointer).Elem().Underlying().(*types.Struct); !isSt {
		return nil
	}
	var val ssa.Value
	for _, ref := range *a.Referrers() {
		switch x := ref.(type) {
		case *ssa.Store:
			if x.Addr != ssa.Value(a) || val != nil {
				return nil
			}
			if _, isP := x.Val.(*ssa.Parameter); !isP {
				return nil
			}
			val = x.Val
		case *ssa.UnOp:
		case *ssa.FieldAddr:
			if x.Referrers() == nil {
				return nil
			}
			for _, r2 := range *x.Referrers() {
				if u, isU := r2.(*ssa.UnOp); !isU || u.Op != token.MUL {
					return nil
				}
			}
		case *ssa.DebugRef:
		default:
			return nil
		}
	}
	return val
}

// pureProjection: a small module function without effects (no stores, map updates, sends, go/defer, no calls other than
// interface / accessor calls on its parameters) returning at least two results.
func pureProjection(fn *ssa.Function) bool {
	if fn.Signature.Results().Len() < 2 || len(fn.Blocks) == 0 || len(fn.Blocks) > 4 {
		return false
	}
	n := 0
	for _, b := range fn.Blocks {
		for _, in := range b.Instrs {
			n++
			switch in.(type) {
			case *ssa.Store, *ssa.MapUpdate, *ssa.Send, *ssa.Go, *ssa.Defer, *ssa.Panic, *ssa.RunDefers:
				return false
			case *ssa.Call:
				c := in.(*ssa.Call)
				if !c.Call.IsInvoke() {
					return false
				}
				if _, isP := strip(c.Call.Value).(*ssa.Parameter); !isP {
					return false
				}
			}
		}
	}
	return n <= 16
}
