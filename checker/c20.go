package main

// C20 — scheduler.

import (
	"fmt"
	"go/token"
	"go/types"
	"strings"

	"golang.org/x/tools/go/ssa"
)

func init() {
	register(&Property{
		ID: "C20",
		Explanation: "Decided: (R1) the scheduler-cleanup step is in the kill chain, runs on termination and on restart, and Clear deletes every recorded job; (R2) the job key is own path + ':' + reference at schedule, the recorded key is the one scheduled, Cancel deletes the key recorded for that reference; the key table is touched only by the actor scheduler's own methods; " +
			"(R3) a cron parse error returns the converted error and schedules nothing; Cancel of an unknown reference returns not-found without touching the job scheduler; (R4) the job function tells a SchedulerMessage carrying the caller's message through Tell/TellSelf (the mailbox) and the receiver runs its behaviour on exactly that message; " +
			"(R2, addition) an entry is removed from the reference→key table only together with the engine's deletion of a key taken from that table, or under an equality test of the entry recorded under the same reference — never keyed by the reference alone at some later time (a re-armed reference would lose its bookkeeping: Cancel not-found for a live job, the job outlives its actor); (R4, addition) no branch of the job callback is taken on equal paths alone: the owner's self-delivery shortcut tests the whole reference; (R5) an error from the underlying Schedule reaches the caller and the key is recorded only on success. (R6) the shared engine is constructed with neither blocking execution nor a worker limit: a job function that blocks (a Tell to an unreachable peer, C14.R1) delays no other actor's job. (R7) the context the shared engine is started with is not the first result of a context.With* call whose cancel function the module calls and then waits (the stop routine cancels the system's derived context right after sending the graceful kill and then waits for the tree): actors the poison has not reached yet are still running and their jobs must keep firing. NOT decided: 'not before the delay', counts per interval, cancellation racing the firing instant (go-quartz internals + wall clock).",
		Assumptions: []string{"go-quartz: ScheduleJob/DeleteJob are non-blocking and fallible; a deleted job does not fire (summary, not analysed)"},
		Rules: []Rule{
			{ID: "C20.R1", Min: 3, Desc: "jobs die with the actor", Fn: c20Die},
			{ID: "C20.R2", Min: 4, Desc: "key discipline", Fn: c20Keys},
			{ID: "C20.R3", Min: 2, Desc: "rejection schedules nothing", Fn: c20Reject},
			{ID: "C20.R4", Min: 3, Desc: "delivery path carries the original message through the mailbox", Fn: c20Delivery},
			{ID: "C20.R7", Min: 1, Desc: "the shared timer loop is not bound to a context the system cancels before its actors have terminated", Fn: c20TimerLoopOutlivesActors},
			{ID: "C20.R6", Min: 1, Desc: "due jobs are dispatched without waiting for running ones (no blocking execution, no worker limit)", Fn: c20Dispatch},
			{ID: "C20.R5", Min: 2, Desc: "scheduler errors are not dropped", Fn: c20Errors},
		},
	})
}

type schedRoles struct {
	T        *types.Named  // actor-level scheduler implementing vivid.Scheduler
	Keys     *types.Var    // reference -> job key
	Inner    *types.Var    // underlying scheduler
	Schedule *ssa.Function // internal helper that registers a job
	KeyCall  *ssa.Call     // quartz.NewJobKey(…) evaluated by the schedule helper (inline or through a helper)
	JobFn    *ssa.Function // the function handed to the quartz job
	TellFn   *ssa.Function // job callback target
	MsgT     *types.Named  // SchedulerMessage
	problems []string
}

var schedCache = map[*Program]*schedRoles{}

func (p *Program) schedRoles() *schedRoles {
	if s, ok := schedCache[p]; ok {
		return s
	}
	s := &schedRoles{}
	schedCache[p] = s
	si := p.Iface("", "Scheduler")
	for _, pk := range p.Pkgs {
		sc := pk.Types.Scope()
		for _, name := range sc.Names() {
			tn, ok := sc.Lookup(name).(*types.TypeName)
			if !ok {
				continue
			}
			n, ok := tn.Type().(*types.Named)
			if !ok {
				continue
			}
			if _, isSt := n.Underlying().(*types.Struct); isSt && si != nil && types.Implements(types.NewPointer(n), si) {
				s.T = n
			}
		}
	}
	if s.T == nil {
		s.problems = append(s.problems, "implementation of vivid.Scheduler")
		return s
	}
	st := s.T.Underlying().(*types.Struct)
	for i := 0; i < st.NumFields(); i++ {
		f := st.Field(i)
		if _, ok := f.Type().Underlying().(*types.Map); ok {
			s.Keys = f
		}
		if n := namedOf(f.Type()); n != nil && n.Obj().Name() == "Scheduler" && n != s.T {
			s.Inner = f
		}
	}
	for _, fn := range p.methodsOf(s.T) {
		if fn.Parent() != nil {
			continue
		}
		for _, b := range fn.Blocks {
			for _, in := range b.Instrs {
				c := callOf(in)
				if c == nil || c.StaticCallee() == nil {
					continue
				}
				if c.StaticCallee().Name() == "Schedule" && c.StaticCallee().Signature.Recv() != nil {
					s.Schedule = fn
				}
			}
		}
	}
	if s.Schedule != nil {
		// the helper with its single-use helpers spliced in: the key may be built inline or by a helper, the job function may be
		// created by a helper
		g := p.igx(s.Schedule)
		for _, in := range g.Nodes {
			c, isC := in.(*ssa.Call)
			if !isC {
				continue
			}
			q := calleeQual(&c.Call)
			if strings.HasSuffix(q, "quartz.NewJobKey") {
				s.KeyCall = c
			}
			if strings.Contains(q, "job.NewFunctionJob") && len(c.Call.Args) > 0 {
				v := c.Call.Args[0]
				for {
					if ct, isCT := v.(*ssa.ChangeType); isCT {
						v = ct.X
						continue
					}
					break
				}
				if mc, isMC := v.(*ssa.MakeClosure); isMC {
					s.JobFn, _ = mc.Fn.(*ssa.Function)
				}
			}
		}
		if s.JobFn != nil {
			for _, b := range s.JobFn.Blocks {
				for _, in := range b.Instrs {
					if c := callOf(in); c != nil && c.StaticCallee() != nil && c.StaticCallee().Signature.Recv() != nil && namedOf(c.StaticCallee().Signature.Recv().Type()) == s.T {
						s.TellFn = c.StaticCallee()
					}
				}
			}
		}
	}
	if s.TellFn != nil {
		for _, b := range s.TellFn.Blocks {
			for _, in := range b.Instrs {
				if a, ok := in.(*ssa.Alloc); ok {
					if n := namedOf(a.Type()); n != nil && hasField(n, "Message") {
						s.MsgT = n
					}
				}
			}
		}
	}
	for name, v := range map[string]any{"key table": s.Keys, "underlying scheduler": s.Inner} {
		if vv, _ := v.(*types.Var); vv == nil {
			s.problems = append(s.problems, "scheduler role "+name)
		}
	}
	for name, v := range map[string]*ssa.Function{"schedule helper": s.Schedule, "job function": s.JobFn, "job callback": s.TellFn} {
		if v == nil {
			s.problems = append(s.problems, "scheduler role "+name)
		}
	}
	if s.KeyCall == nil {
		s.problems = append(s.problems, "scheduler role key builder")
	}
	if s.MsgT == nil {
		s.problems = append(s.problems, "scheduler message type")
	}
	return s
}

func schedOrFail(p *Program, r *Report) *schedRoles {
	s := p.schedRoles()
	if len(s.problems) > 0 {
		for _, pr := range s.problems {
			r.Unresolved(pr)
		}
		return nil
	}
	return s
}

func c20Die(p *Program, r *Report) {
	s := schedOrFail(p, r)
	lc := lcOrFail(p, r)
	if s == nil || lc == nil {
		return
	}
	if lc.SchedCleanup == nil {
		r.Violate("kill chain clears the scheduler", lc.OnKilledFn.Pos(), "no step of the kill chain calls the actor scheduler's Clear after the OnKilled behaviour: a job armed while the actor is stopping (from its OnKill handler, a child's death notice, its own OnKilled) is never removed and keeps firing for the dead actor")
		return
	}
	sg := p.ig(lc.SchedCleanup)
	clear := nodesWhere(sg, func(in ssa.Instruction) bool {
		c := callOf(in)
		return c != nil && c.StaticCallee() != nil && c.StaticCallee().Name() == "Clear" && c.StaticCallee().Signature.Recv() != nil && namedOf(c.StaticCallee().Signature.Recv().Type()) == s.T
	})
	for _, restarting := range []bool{false, true} {
		av := p.assumeAvoid(sg, map[*types.Var]bool{lc.Continue: true, lc.Restarting: restarting})
		r.Check(lc.Chain.indexOf(lc.SchedCleanup) >= 0 && len(clear) > 0 && !anyIn(sg.Reach(sg.entry(), clear, av), sg.Exits), fmt.Sprintf("kill chain clears the scheduler (restarting=%v)", restarting), lc.SchedCleanup.Pos(),
			"the scheduler-cleanup step is part of the kill chain and calls the actor scheduler's Clear on every path once the killed mark is won")
	}
	// the clearing step runs after the dying behaviour had its last word: a job armed while handling the own OnKilled is cleared too
	ci, bi := lc.Chain.indexOf(lc.SchedCleanup), lc.Chain.indexOf(lc.ExecBehavior)
	r.Check(ci >= 0 && bi >= 0 && ci > bi, "scheduler cleanup runs after the OnKilled behaviour", lc.OnKilledFn.Pos(), fmt.Sprintf("in the kill chain the scheduler-cleanup step (position %d) comes after the step that runs the actor's behaviour on its own OnKilled (position %d): no job scheduled by the dying incarnation survives it", ci, bi))
	// Clear deletes every recorded key
	clr := p.methodNamed(s.T, "Clear")
	if clr == nil {
		r.Unresolved("Scheduler.Clear")
		return
	}
	g := p.igx(clr) // a per-entry removal helper shared with Cancel stays part of the loop body
	defer p.withGraph(g)()
	del := nodesWhere(g, func(in ssa.Instruction) bool {
		c := callOf(in)
		return c != nil && c.StaticCallee() != nil && c.StaticCallee().Name() == "DeleteJob"
	})
	tbl := "field:" + s.T.Obj().Name() + "." + s.Keys.Name()
	// a lookup of the table with the key currently iterated from the same table cannot miss: its not-found edge is infeasible
	infeasible := map[edge]bool{}
	for _, in := range g.Nodes {
		if lk, isL := in.(*ssa.Lookup); isL && lk.CommaOk {
			if f, _ := fieldLoad(lk.X); f == s.Keys && anyContains(p.origins(lk.Index), "next<-range<-"+tbl) {
				_, missing := g.okEdgesLookup(lk)
				for e := range missing {
					infeasible[e] = true
				}
			}
		}
	}
	ok, why := g.loopExactlyOnceA(del, infeasible)
	for n := range del {
		c := callOf(g.Nodes[n])
		o := p.origins(c.Args[1])
		// the iterated value itself, or the table entry looked up with the iterated key
		direct := anyContains(o, "next<-range<-"+tbl)
		viaKey := false
		if lk := lookupOf(c.Args[1]); lk != nil {
			if f, _ := fieldLoad(lk.X); f == s.Keys && anyContains(p.origins(lk.Index), "next<-range<-"+tbl) {
				viaKey = true
			}
		}
		if !direct && !viaKey {
			ok = false
			why = "the deleted key is not the iterated table entry"
		}
	}
	r.Check(ok, "Clear deletes every recorded job", firstPos(g, del), "one DeleteJob(recorded key) per entry of the key table, loop never left early "+why)
}

// lookupOf: v is (the value of) a map lookup.
func lookupOf(v ssa.Value) *ssa.Lookup {
	switch x := strip(v).(type) {
	case *ssa.Lookup:
		return x
	case *ssa.Extract:
		lk, _ := x.Tuple.(*ssa.Lookup)
		return lk
	}
	return nil
}

func c20Keys(p *Program, r *Report) {
	s := schedOrFail(p, r)
	if s == nil {
		return
	}
	// key builder: ctx.Ref().GetPath() + ":" + reference, with ctx the scheduler's own context and reference the option's
	g := p.igx(s.Schedule)
	defer p.withGraph(g)()
	ok := false
	desc := ""
	keyCall := s.KeyCall
	// arg = (path + ":") + reference
	if outer, isB := keyCall.Call.Args[0].(*ssa.BinOp); isB && outer.Op == token.ADD {
		if inner, isB2 := outer.X.(*ssa.BinOp); isB2 && inner.Op == token.ADD {
			sep, isC := inner.Y.(*ssa.Const)
			po := p.origins(inner.X)
			ro := p.origins(outer.Y)
			desc = strings.Join(po, "|") + " + sep + " + strings.Join(ro, "|")
			ok = isC && sep.Value != nil && strings.Contains(sep.Value.ExactString(), ":") && allContain(po, "GetPath<-call:") && allContain(po, "Ref<-") &&
				allContain(po, "field:"+s.T.Obj().Name()+".ctx<-param:") && allContain(ro, ".Reference<-param:")
		}
	}
	r.Check(ok, "job key = owner path + ':' + reference", keyCall.Pos(), "the quartz key is built from the owning actor's path and the caller's reference ("+desc+"): equal references on different actors do not collide")
	sameKey := func(v ssa.Value) bool {
		vs := g.values(v)
		for _, x := range vs {
			if x != ssa.Value(keyCall) {
				return false
			}
		}
		return len(vs) > 0
	}
	okRec := false
	for _, a := range p.fieldAccesses(map[*types.Var]bool{s.Keys: true}) {
		if g.owns(p, a.Fn) && a.Kind == "map-update" {
			mu := a.In.(*ssa.MapUpdate)
			okRec = sameKey(mu.Value) && allContain(p.origins(mu.Key), ".Reference<-param:")
			// the job detail scheduled uses the same key
			used := false
			for _, in := range g.Nodes {
				if c := callOf(in); c != nil && strings.HasSuffix(calleeQual(c), "quartz.NewJobDetail") && sameKey(c.Args[1]) {
					used = true
				}
			}
			okRec = okRec && used
		}
	}
	r.Check(okRec, "recorded key is the scheduled key", s.Schedule.Pos(), "jobKeys[opts.Reference] stores exactly the key passed to NewJobDetail")
	// Cancel: looks up the reference, deletes that entry and that job
	can := p.methodNamed(s.T, "Cancel")
	okC := can != nil
	if can != nil {
		cg := p.igx(can)
		var lk *ssa.Lookup
		for _, in := range cg.Nodes {
			if l, isL := in.(*ssa.Lookup); isL && l.CommaOk {
				if f, _ := fieldLoad(l.X); f == s.Keys && cg.res(l.Index) == ssa.Value(can.Params[1]) {
					lk = l
				}
			}
		}
		okC = lk != nil
		dels := map[int]bool{}
		for i, in := range cg.Nodes {
			if c := callOf(in); c != nil && c.StaticCallee() != nil && c.StaticCallee().Name() == "DeleteJob" {
				dels[i] = true
				if !derivesFromExtract(c.Args[1], lk, 0) {
					okC = false
				}
			}
		}
		// on the found edge every path deletes the quartz job and the table entry
		if lk != nil {
			found, _ := cg.okEdgesLookup(lk)
			forget := map[int]bool{}
			for _, a := range p.fieldAccesses(map[*types.Var]bool{s.Keys: true}) {
				if a.Kind == "delete" {
					if n, in := cg.Idx[a.In]; in {
						forget[n] = true
					}
				}
			}
			if len(found) == 0 || len(dels) == 0 || len(forget) == 0 {
				okC = false
			}
			for e := range found {
				if !dels[e.to] && anyIn(cg.Reach([]int{e.to}, dels, nil), cg.Exits) {
					okC = false
				}
				if !forget[e.to] && anyIn(cg.Reach([]int{e.to}, forget, nil), cg.Exits) {
					okC = false
				}
			}
		}
	}
	pos := token.NoPos
	if can != nil {
		pos = can.Pos()
	}
	r.Check(okC, "Cancel deletes the job recorded for the reference", pos, "the key handed to DeleteJob is the table entry looked up with the caller's reference")
	// who touches the key table
	okW := true
	for _, a := range p.fieldAccesses(map[*types.Var]bool{s.Keys: true}) {
		if a.Fresh || !a.Write {
			continue // reading the table (a count for a log line) changes nothing; unsynchronised readers are C10's subject
		}
		root := a.Fn
		for root.Parent() != nil {
			root = root.Parent()
		}
		if root.Signature.Recv() == nil || namedOf(root.Signature.Recv().Type()) != s.T {
			okW = false
		}
	}
	r.Check(okW, "key table written only by the actor scheduler's methods", s.T.Obj().Pos(), "no function outside the actor scheduler inserts into, deletes from or replaces the reference→key table")
	// an entry leaves the table only together with its job: the table is keyed by the caller's reference, and a reference can be
	// re-armed as soon as its job left the engine's queue. A removal that is not tied to the job it was recorded for — keyed by
	// the reference alone, run when a late delivery arrives — forgets the NEW job armed under the same reference: Cancel
	// answers not-found for a live job, Clear / death / restart leave it running. Accepted: every path through the removal
	// also deletes, in the engine, a key that comes from this table; or the removal is dominated by an (in)equality test of the
	// entry looked up under the same reference (an identity / generation check).
	for _, a := range p.fieldAccesses(map[*types.Var]bool{s.Keys: true}) {
		if a.Kind != "delete" {
			continue
		}
		root := a.Fn
		for root.Parent() != nil {
			root = root.Parent()
		}
		g := p.igx(root)
		di, in := g.Idx[a.In]
		if !in {
			g = p.ig(a.Fn)
			di, in = g.Idx[a.In]
		}
		if !in {
			r.Undecided("removal from the key table in "+fnName(a.Fn), a.In.Pos(), "the removal is not a node of its function's graph")
			continue
		}
		engineDel := map[int]bool{}
		for i, nd := range g.Nodes {
			if c := callOf(nd); c != nil && c.StaticCallee() != nil && c.StaticCallee().Name() == "DeleteJob" && len(c.Args) >= 2 {
				fromTable := false
				for _, v := range g.values(c.Args[1]) {
					v = strip(v)
					if ex, isEx := v.(*ssa.Extract); isEx {
						switch t := ex.Tuple.(type) {
						case *ssa.Lookup:
							if f, _ := fieldLoad(t.X); f == s.Keys {
								fromTable = true
							}
						case *ssa.Next:
							if rg, isR := t.Iter.(*ssa.Range); isR {
								if f, _ := fieldLoad(rg.X); f == s.Keys {
									fromTable = true
								}
							}
						}
					}
					if lk, isL := v.(*ssa.Lookup); isL {
						if f, _ := fieldLoad(lk.X); f == s.Keys {
							fromTable = true
						}
					}
				}
				if fromTable {
					engineDel[i] = true
				}
			}
		}
		paired := len(engineDel) > 0 && (g.DominatedByNodes(di, engineDel) || !anyIn(g.Reach([]int{di}, engineDel, nil), g.Exits))
		// identity test on the looked-up entry
		ident := false
		dc := a.In.(*ssa.Call)
		idEdges := map[edge]bool{}
		for _, ifi := range g.ifs() {
			for _, oc := range []bool{true, false} {
				f, ok := condFact(ifi.Cond, oc)
				if !ok || f.Y == nil || (f.Op != token.EQL && f.Op != token.NEQ) {
					continue
				}
				for _, side := range []ssa.Value{f.X, f.Y} {
					v := strip(side)
					if ex, isEx := v.(*ssa.Extract); isEx && ex.Index == 0 {
						v = ex.Tuple
					}
					if lk, isL := v.(*ssa.Lookup); isL {
						if fl, _ := fieldLoad(lk.X); fl == s.Keys && sameValue(g.res(lk.Index), g.res(dc.Call.Args[1])) && f.Op == token.EQL {
							idEdges[g.branchEdge(ifi, oc)] = true
						}
					}
				}
			}
		}
		if len(idEdges) > 0 && g.DominatedByEdges(di, idEdges) {
			ident = true
		}
		r.Check(paired || ident, "an entry leaves the key table only together with its job: "+fnName(a.Fn), a.In.Pos(), "every path through the removal also deletes in the engine a key taken from this table, or the removal is dominated by an equality test of the entry recorded under the same reference")
	}
}

func c20Reject(p *Program, r *Report) {
	s := schedOrFail(p, r)
	if s == nil {
		return
	}
	cron := p.methodNamed(s.T, "Cron")
	if cron == nil {
		r.Unresolved("Scheduler.Cron")
		return
	}
	g := p.ig(cron)
	var parse *ssa.Call
	for _, in := range g.Nodes {
		if c, ok := in.(*ssa.Call); ok && strings.Contains(calleeQual(&c.Call), "quartz.NewCronTrigger") {
			parse = c
		}
	}
	sched := nodesWhere(g, func(in ssa.Instruction) bool { c := callOf(in); return c != nil && c.StaticCallee() == s.Schedule })
	ok := parse != nil && len(sched) > 0
	if ok {
		// schedule call dominated by an err==nil edge where err derives from the parse error (possibly converted)
		okE := map[edge]bool{}
		for _, ifi := range ifsOf(cron) {
			for _, outcome := range []bool{true, false} {
				f, okf := condFact(ifi.Cond, outcome)
				if okf && f.IsNil && f.Op == token.EQL {
					o := p.origins(f.X)
					if anyContains(o, "NewCronTrigger") || derivesFromExtract(f.X, parse, 1) || errDerivedFrom(f.X, parse) {
						okE[g.branchEdge(ifi, outcome)] = true
					}
				}
			}
		}
		for n := range sched {
			if len(okE) == 0 || !g.DominatedByEdges(n, okE) {
				ok = false
			}
		}
		// on the error edge the return value is the converted error
		for _, ex := range g.Exits {
			if !g.DominatedByEdges(ex, okE) {
				ret := g.Nodes[ex].(*ssa.Return)
				v := retOperand(ret, 0)
				if v == nil || isNilConst(strip(v)) {
					ok = false
				}
			}
		}
	}
	r.Check(ok, "cron parse error schedules nothing", cron.Pos(), "the schedule helper is dominated by the parse-error==nil edge; the error edge returns the (converted) error")
	// conversion maps quartz.ErrCronParse to vivid.ErrorCronParse
	conv := false
	for _, fn := range p.Mod {
		for _, b := range fn.Blocks {
			for _, in := range b.Instrs {
				if c := callOf(in); c != nil && calleeQual(c) == "errors.Is" {
					if u, okU := strip(c.Args[1]).(*ssa.UnOp); okU {
						if gl, okG := u.X.(*ssa.Global); okG && gl.Name() == "ErrCronParse" {
							conv = true
						}
					}
				}
			}
		}
	}
	r.Check(conv, "cron parse error is recognised", cron.Pos(), "the error conversion table tests errors.Is(err, quartz.ErrCronParse)")
	// Cancel unknown ⇒ ErrorNotFound, no DeleteJob
	can := p.methodNamed(s.T, "Cancel")
	if can == nil {
		r.Unresolved("Scheduler.Cancel")
		return
	}
	cg := p.igx(can)
	defer p.withGraph(cg)()
	notFound := map[edge]bool{}
	for _, ifi := range cg.ifs() {
		for _, outcome := range []bool{true, false} {
			f, okf := condFact(ifi.Cond, outcome)
			if okf && f.Bool && f.Op == token.EQL {
				if ex, isEx := f.X.(*ssa.Extract); isEx && ex.Index == 1 {
					if lk, isL := ex.Tuple.(*ssa.Lookup); isL {
						if fl, _ := fieldLoad(lk.X); fl == s.Keys {
							notFound[cg.branchEdge(ifi, outcome)] = true
						}
					}
				}
			}
		}
	}
	okN := len(notFound) > 0
	for e := range notFound {
		for n := range cg.Reach([]int{e.to}, nil, nil) {
			if c := callOf(cg.Nodes[n]); c != nil && c.StaticCallee() != nil && c.StaticCallee().Name() == "DeleteJob" {
				okN = false
			}
			if ret, isR := cg.Nodes[n].(*ssa.Return); isR {
				if !anyContains(p.origins(retOperand(ret, 0)), "global:ErrorNotFound") {
					okN = false
				}
			}
		}
	}
	r.Check(okN, "Cancel of an unknown reference returns not-found", can.Pos(), "the not-found edge of the table lookup returns vivid.ErrorNotFound without calling DeleteJob")
}

// errDerivedFrom: v is (a call taking) the error result of call.
func errDerivedFrom(v ssa.Value, call *ssa.Call) bool {
	v = strip(v)
	if derivesFromExtract(v, call, 1) {
		return true
	}
	if c, ok := v.(*ssa.Call); ok {
		for _, a := range c.Call.Args {
			if derivesFromExtract(a, call, 1) {
				return true
			}
		}
	}
	if ph, ok := v.(*ssa.Phi); ok {
		for _, e := range ph.Edges {
			if !errDerivedFrom(e, call) {
				return false
			}
		}
		return true
	}
	return false
}

func c20Delivery(p *Program, r *Report) {
	s := schedOrFail(p, r)
	lc := lcOrFail(p, r)
	if s == nil || lc == nil {
		return
	}
	// the callback may short-cut a delivery to the owner itself — but "itself" is a reference test (address AND path): a branch of
	// the callback taken on equal PATHS alone sends a job addressed to the same-named actor on another node into the owner's own
	// mailbox at every firing (symmetric deployments run the same named service on every node).
	tg := p.ig(s.TellFn)
	func() {
		defer p.withGraph(tg)()
		pathOnly := ownPathEdges(p, tg)
		addr := map[edge]bool{}
		for _, ifi := range tg.ifs() {
			for _, oc := range []bool{true, false} {
				f, ok := condFact(ifi.Cond, oc)
				if ok && f.Y != nil && f.Op == token.EQL && p.viaRefAccessor(lc, f.X, "GetAddress") && p.viaRefAccessor(lc, f.Y, "GetAddress") {
					addr[tg.branchEdge(ifi, oc)] = true
				}
			}
		}
		okP := true
		var posP = s.TellFn.Pos()
		for e := range pathOnly {
			if len(addr) == 0 || !tg.DominatedByEdges(e.from, addr) {
				okP = false
				posP = tg.Nodes[e.from].Pos()
			}
		}
		r.Check(okP, "the job callback tests \"the receiver is the owner\" on the whole reference", posP, "no branch of the delivery callback is taken on equal paths alone (a path comparison is dominated by an address comparison, or the test is Equals): a job for the same-named actor on another node is not delivered to the owner")
	}()
	// job closure calls the callback with the schedule helper's receiver/message params
	okJ := false
	sg := p.igx(s.Schedule)
	for _, b := range s.JobFn.Blocks {
		for _, in := range b.Instrs {
			if c := callOf(in); c != nil && c.StaticCallee() == s.TellFn {
				// free variables bound to the helper's parameters receiver (1) and message (2)
				okJ = true
				for ai, want := range map[int]int{1: 1, 2: 2} {
					if fv := resolveFreeVar(s.JobFn, c.Args[ai]); fv == nil || sg.res(fv) != ssa.Value(s.Schedule.Params[want]) {
						okJ = false
					}
				}
			}
		}
	}
	r.Check(okJ, "job function delivers the caller's receiver and message", s.Schedule.Pos(), "the quartz job closure calls the delivery routine with the receiver and message the caller passed to Once/Loop/Cron")
	// callback: builds SchedulerMessage{Message: message param} and sends via Tell/TellSelf on every path
	g := p.ig(s.TellFn)
	sends := map[int]bool{}
	okS := true
	for _, ts := range p.tellSites(s.TellFn) {
		sends[g.Idx[ts.In]] = true
		a := allocOf(ts.Message)
		if a == nil || namedOf(a.Type()) != s.MsgT {
			okS = false
			continue
		}
		v, set := storedField(a, "Message")
		if !set || strip(v) != ssa.Value(s.TellFn.Params[2]) {
			okS = false
		}
		if ts.Via != "Tell" && ts.Via != "TellSelf" {
			okS = false
		}
		if ts.Via == "Tell" && strip(ts.Recipient) != ssa.Value(s.TellFn.Params[1]) {
			okS = false
		}
	}
	okS = okS && len(sends) > 0 && !anyIn(g.Reach(g.entry(), sends, nil), g.Exits)
	for a := range sends {
		reach := g.ReachAfter(a, nil, nil)
		for b := range sends {
			if reach[b] {
				okS = false
			}
		}
	}
	r.Check(okS, "delivery goes through the mailbox exactly once carrying the original message", s.TellFn.Pos(), "every path of the delivery routine performs exactly one Tell/TellSelf of a SchedulerMessage whose Message is the scheduled value (Tell to the given receiver)")
	// receiver side: the handler for SchedulerMessage replaces the envelope's message by message.Message and runs the behaviour
	// the store `envelope = replaced(envelope, m.Message)` with m a *SchedulerMessage (a handler's parameter, or the value
	// of the type-switch case when the handler is written inline), followed on every path by exactly one behaviour run
	okR := false
	pos := token.NoPos
	for _, fn := range p.methodsOf(lc.Ctx) {
		if fn.Parent() != nil {
			continue
		}
		og := p.ig(fn)
		for si, in := range og.Nodes {
			st, isSt := in.(*ssa.Store)
			if !isSt {
				continue
			}
			if f, _ := fieldAddr(st.Addr); f == nil || f != lc.EnvelopF {
				continue
			}
			c, isC := strip(st.Val).(*ssa.Call)
			if !isC {
				continue
			}
			unwraps := false
			for _, a := range c.Call.Args {
				if fl, base := fieldLoad(strip(a)); fl != nil && fl.Name() == "Message" && base != nil && namedOf(base.Type()) == s.MsgT {
					unwraps = true
				}
			}
			if !unwraps {
				continue
			}
			pos = st.Pos()
			run := nodesWhere(og, func(in2 ssa.Instruction) bool {
				c2 := callOf(in2)
				return c2 != nil && c2.StaticCallee() == lc.ExecRecover
			})
			// the region in which the scheduled message is being handled: the whole handler when it is a parameter, the
			// type-switch case otherwise (nodes dominated by the ok edge of the assertion to *SchedulerMessage)
			inRegion := func(n int) bool { return true }
			hasParam := false
			for _, prm := range fn.Params {
				if namedOf(prm.Type()) == s.MsgT {
					hasParam = true
				}
			}
			if !hasParam {
				okE := map[edge]bool{}
				for _, ifi := range og.ifs() {
					for _, outcome := range []bool{true, false} {
						f, okf := condFact(ifi.Cond, outcome)
						if okf && f.Bool && f.Op == token.NEQ {
							if ex, isEx := f.X.(*ssa.Extract); isEx && ex.Index == 1 {
								if ta, isTA := ex.Tuple.(*ssa.TypeAssert); isTA && namedOf(ta.AssertedType) == s.MsgT {
									okE[og.branchEdge(ifi, outcome)] = true
								}
							}
						}
					}
				}
				inRegion = func(n int) bool { return len(okE) > 0 && og.DominatedByEdges(n, okE) }
			}
			after := og.ReachAfter(si, nil, nil)
			runAfter := map[int]bool{}
			good0 := true
			for n := range run {
				if after[n] {
					runAfter[n] = true
				}
				// every behaviour run made while handling the scheduled message sees the unwrapped message
				if inRegion(n) && !og.DominatedByNodes(n, setOf(si)) {
					good0 = false
				}
			}
			good := good0 && len(runAfter) > 0 && !anyIn(og.ReachAfter(si, runAfter, nil), og.Exits)
			for a := range runAfter {
				ra := og.ReachAfter(a, nil, nil)
				for b := range runAfter {
					if ra[b] {
						good = false
					}
				}
			}
			if good {
				okR = true
			}
		}
	}
	r.Check(okR, "receiver unwraps the scheduled message before running the behaviour", pos, "the SchedulerMessage handler installs message.Message as the current message and then runs the behaviour exactly once")
}

func c20Errors(p *Program, r *Report) {
	s := schedOrFail(p, r)
	if s == nil {
		return
	}
	g := p.ig(s.Schedule)
	var sch *ssa.Call
	for _, in := range g.Nodes {
		if c, ok := in.(*ssa.Call); ok && c.Call.StaticCallee() != nil && c.Call.StaticCallee().Name() == "Schedule" {
			sch = c
		}
	}
	if sch == nil {
		r.Unresolved("underlying Schedule call")
		return
	}
	errE, okE := map[edge]bool{}, map[edge]bool{}
	for _, ifi := range ifsOf(s.Schedule) {
		for _, outcome := range []bool{true, false} {
			f, ok := condFact(ifi.Cond, outcome)
			if ok && f.IsNil && strip(f.X) == ssa.Value(sch) {
				if f.Op == token.NEQ {
					errE[g.branchEdge(ifi, outcome)] = true
				} else {
					okE[g.branchEdge(ifi, outcome)] = true
				}
			}
		}
	}
	good := len(errE) > 0
	for e := range errE {
		for n := range g.Reach([]int{e.to}, nil, nil) {
			if ret, isR := g.Nodes[n].(*ssa.Return); isR {
				v := retOperand(ret, 0)
				if v == nil || isNilConst(strip(v)) || !errDerivedFromValue(v, sch) {
					good = false
				}
			}
		}
	}
	r.Check(good, "a failed Schedule is reported to the caller", sch.Pos(), "the err!=nil edge of the underlying Schedule returns that error (converted): a second Once with a live reference is not accepted silently")
	rec := true
	n := 0
	for _, a := range p.fieldAccesses(map[*types.Var]bool{s.Keys: true}) {
		if g.owns(p, a.Fn) && a.Kind == "map-update" {
			n++
			if !g.DominatedByEdges(a.Node, okE) {
				rec = false
			}
		}
	}
	r.Check(rec && n > 0 && len(okE) > 0, "key recorded only on success", s.Schedule.Pos(), "the reference→key entry is written only on the err==nil edge of the underlying Schedule")
	// public entry points return the helper's result
	for _, name := range []string{"Once", "Loop", "Cron"} {
		fn := p.methodNamed(s.T, name)
		if fn == nil {
			continue
		}
		fg := p.ig(fn)
		okP := false
		for _, ex := range fg.Exits {
			ret := fg.Nodes[ex].(*ssa.Return)
			if c, isC := strip(retOperand(ret, 0)).(*ssa.Call); isC && c.Call.StaticCallee() == s.Schedule {
				okP = true
			}
		}
		r.Check(okP, name+" returns the schedule helper's error", fn.Pos(), "the public entry point returns what the helper returned")
	}
}

func errDerivedFromValue(v ssa.Value, src ssa.Value) bool {
	v = strip(v)
	if v == src {
		return true
	}
	if c, ok := v.(*ssa.Call); ok {
		for _, a := range c.Call.Args {
			if strip(a) == src {
				return true
			}
		}
	}
	if ph, ok := v.(*ssa.Phi); ok {
		for _, e := range ph.Edges {
			if !errDerivedFromValue(e, src) {
				return false
			}
		}
		return true
	}
	return false
}

// okEdgesLookup: edges on which a comma-ok map lookup found / did not find the key.
func (g *IG) okEdgesLookup(lk *ssa.Lookup) (found, missing map[edge]bool) {
	found, missing = map[edge]bool{}, map[edge]bool{}
	for _, ifi := range g.ifs() {
		for _, outcome := range []bool{true, false} {
			f, ok := condFact(ifi.Cond, outcome)
			if !ok || !f.Bool {
				continue
			}
			ex, ok := f.X.(*ssa.Extract)
			if !ok || ex.Tuple != ssa.Value(lk) || ex.Index != 1 {
				continue
			}
			if f.Op == token.NEQ {
				found[g.branchEdge(ifi, outcome)] = true
			} else {
				missing[g.branchEdge(ifi, outcome)] = true
			}
		}
	}
	return
}

// c20Dispatch: one scheduler (one timer loop) serves every actor of the system, and the job function is a Tell, which can block on
// an unreachable remote peer (C14.R1, known finding). If the loop runs job functions inline (blocking execution) or feeds a
// bounded worker pool, one actor's delivery to a dead peer stalls the loop; jobs of other actors that fall due meanwhile are
// late, and the engine drops a Once that is late beyond its outdated threshold — delivered zero times. Every construction of
// the engine in the module passes neither option.
func c20Dispatch(p *Program, r *Report) {
	n := 0
	for _, fn := range p.Mod {
		for _, b := range fn.Blocks {
			for _, in := range b.Instrs {
				c := callOf(in)
				if c == nil || !strings.HasSuffix(calleeQual(c), "quartz.NewStdScheduler") {
					continue
				}
				n++
				bad := ""
				// the variadic options: elements stored into the argument's backing array
				for _, b2 := range fn.Blocks {
					for _, in2 := range b2.Instrs {
						if oc := callOf(in2); oc != nil {
							q := calleeQual(oc)
							if strings.HasSuffix(q, "quartz.WithBlockingExecution") || strings.HasSuffix(q, "quartz.WithWorkerLimit") {
								bad = q
							}
						}
					}
				}
				r.Check(bad == "", "scheduler engine constructed in "+fnName(fn), in.Pos(), "the engine is built without blocking execution and without a worker limit: a job function that blocks (a Tell to an unreachable peer) delays no other actor's job "+bad)
			}
		}
	}
	if n == 0 {
		r.Unresolved("no construction of the quartz scheduler in the module")
	}
}
