package main

import (
	"fmt"
	"go/token"
	"go/types"
	"sort"

	"golang.org/x/tools/go/ssa"
)

// codecChoice — the writer hands a message to the user's Codec exactly when the reader will.
//
// A message body travels in one of two formats: the registered reader/writer pair of its type, or the bytes of the user's
// Codec. The name written next to the body is all the reader has, and it chooses by registry membership of that name (a bool
// method of the descriptor). The writer must choose by the same test of the same descriptor method with the same outcome —
// a writer that chooses by anything else ("is a Codec configured?") produces, for a registered type, Codec bytes under a
// registered name (the reader runs the binary reader over them) or an encode failure for a type the Codec never knew.
//
// Decided on the un-spliced graph of every module function that invokes Encode or Decode of a Codec-shaped interface
// (Encode(any) ([]byte, error) / Decode([]byte) (any, error)): the invoke is dominated by ONE outcome edge of a branch on
// a bool method of a module pointer-to-struct type, and all sites use the same method with the same outcome.
func codecChoice(p *Program, r *Report) {
	type site struct {
		fn      *ssa.Function
		in      ssa.Instruction
		method  string
		disc    *types.Func
		outcome bool
		ok      bool
	}
	var sites []site
	var fns []*ssa.Function
	for fn := range p.All {
		if p.inModule(fn) && len(fn.Blocks) > 0 {
			fns = append(fns, fn)
		}
	}
	sort.Slice(fns, func(i, j int) bool { return fns[i].Pos() < fns[j].Pos() })
	for _, fn := range fns {
		var g *IG
		for _, b := range fn.Blocks {
			for _, in := range b.Instrs {
				cc := callOf(in)
				if cc == nil || !cc.IsInvoke() || !codecShaped(cc.Value.Type()) || (cc.Method.Name() != "Encode" && cc.Method.Name() != "Decode") {
					continue
				}
				if g == nil {
					g = p.ig(fn)
				}
				s := site{fn: fn, in: in, method: cc.Method.Name()}
				ni, has := g.Idx[in]
				if has {
					for _, ifi := range g.ifs() {
						cond := ifi.Cond
						pol := true
						for {
							if u, isU := cond.(*ssa.UnOp); isU && u.Op.String() == "!" {
								cond, pol = u.X, !pol
								continue
							}
							break
						}
						dc, isCall := cond.(*ssa.Call)
						if !isCall {
							continue
						}
						y := dc.Call.StaticCallee()
						if y == nil || !p.inModule(y) || y.Signature.Recv() == nil || y.Signature.Params().Len() != 0 {
							continue
						}
						if bt, isB := y.Signature.Results().At(0).Type().Underlying().(*types.Basic); y.Signature.Results().Len() != 1 || !isB || bt.Kind() != types.Bool {
							continue
						}
						if _, isPtr := y.Signature.Recv().Type().(*types.Pointer); !isPtr {
							continue
						}
						fo, _ := y.Object().(*types.Func)
						for _, oc := range []bool{true, false} {
							if g.DominatedByEdges(ni, map[edge]bool{g.branchEdge(ifi, oc): true}) {
								s.disc, s.outcome, s.ok = fo, oc == pol, true
							}
						}
					}
				}
				sites = append(sites, s)
			}
		}
	}
	var ref *site
	for i := range sites {
		if sites[i].ok {
			ref = &sites[i]
			break
		}
	}
	for _, s := range sites {
		construct := fmt.Sprintf("%s: Codec.%s", fnName(s.fn), s.method)
		if !s.ok {
			r.Violate(construct, s.in.Pos(), "the message is handed to the user's Codec on a path that no single outcome of a registry-membership test of its descriptor dominates: the other side chooses the format by that test alone, so a registered type can leave in Codec format under a registered name (or fail to encode), and the reader runs the registered reader over it")
			continue
		}
		same := ref != nil && s.disc == ref.disc && s.outcome == ref.outcome
		r.Check(same, construct, s.in.Pos(), fmt.Sprintf("dominated by %s() == %v — the same descriptor test with the same outcome at every Codec call site of the module (reference: %s)", s.disc.Name(), s.outcome, fnName(ref.fn)))
	}
	if len(sites) == 0 {
		r.Unresolved("no Encode/Decode invoke of a Codec-shaped interface in the module")
	}
	// the decoding side never succeeds without decoding: in every function that hands a payload to Codec.Decode, every path to a
	// return passes a decode (the Codec's, or the registered reader's through the module's deserialising helper) or leaves with an
	// error — an assignment of a non-nil value to an error cell, or a return whose error operand is not the nil constant. A
	// shortcut for "nothing to decode" (an empty payload) delivers a nil message as if it had been sent: a message whose Codec
	// encoding is the empty byte string arrives as nil, an Ask answered with it completes with (nil, nil).
	errT := types.Universe.Lookup("error").Type()
	seenFn := map[*ssa.Function]bool{}
	for _, st := range sites {
		if st.method != "Decode" || seenFn[st.fn] {
			continue
		}
		seenFn[st.fn] = true
		g := p.ig(st.fn)
		stop := map[int]bool{}
		for i, in := range g.Nodes {
			if c := callOf(in); c != nil {
				if c.IsInvoke() && codecShaped(c.Value.Type()) && c.Method.Name() == "Decode" {
					stop[i] = true
				}
				if y := c.StaticCallee(); y != nil && p.inModule(y) && y.Signature.Results().Len() == 2 && types.Identical(y.Signature.Results().At(1).Type(), errT) {
					for _, prm := range y.Params {
						if codecShaped(prm.Type()) {
							stop[i] = true // a deserialising helper that is handed the codec
						}
					}
				}
			}
			if sto, ok := in.(*ssa.Store); ok && types.Identical(sto.Val.Type(), errT) && definitelyError(sto.Val) {
				stop[i] = true
			}
			if ret, ok := in.(*ssa.Return); ok {
				for _, rv := range ret.Results {
					if types.Identical(rv.Type(), errT) && definitelyError(rv) {
						stop[i] = true
					}
				}
			}
		}
		// a failed read of the wire fields leaves through its own error: the edge err != nil of a call result is an error exit
		errE := map[edge]bool{}
		for _, ifi := range g.ifs() {
			for _, oc := range []bool{true, false} {
				f, ok := condFact(ifi.Cond, oc)
				if ok && f.IsNil && f.Op == token.NEQ && types.Identical(f.X.Type(), errT) {
					errE[g.branchEdge(ifi, oc)] = true
				}
			}
		}
		reach := g.Reach(g.entry(), stop, errE)
		leak := false
		for _, ex := range g.Exits {
			if reach[ex] && !stop[ex] {
				leak = true
			}
		}
		r.Check(!leak, fmt.Sprintf("%s never succeeds without decoding", fnName(st.fn)), st.fn.Pos(), "every path to a return passes a decode of the payload or leaves with an error: no shortcut delivers a nil message for a payload that was not decoded")
	}
}

// codecShaped: an interface with Encode(any) ([]byte, error) and Decode([]byte) (any, error)
func codecShaped(t types.Type) bool {
	it, ok := t.Underlying().(*types.Interface)
	if !ok {
		return false
	}
	has := map[string]bool{}
	for i := 0; i < it.NumMethods(); i++ {
		m := it.Method(i)
		sg := m.Type().(*types.Signature)
		if sg.Params().Len() != 1 || sg.Results().Len() != 2 {
			continue
		}
		has[m.Name()] = true
	}
	return has["Encode"] && has["Decode"]
}
