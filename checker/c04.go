package main

// C04 — every Ask completes exactly once.

import (
	"fmt"
	"go/token"
	"go/types"
	"strings"

	"golang.org/x/tools/go/callgraph"
	"golang.org/x/tools/go/ssa"
)

func init() {
	register(&Property{
		ID: "C04",
		Explanation: "Decided: (R1) in the future's completing function every effect (result stores, close(done), timer stop, closer, forwarder flush) is dominated by the success edge of closed.CompareAndSwap(false,true), nobody else writes the result, and on that path close(done) and the closer are reached on every path; " +
			"(R2) the result is written before done is closed and every read outside the completing function is dominated by a receive on done; (R3) the closer deregisters exactly the agent ref that was registered, and registration precedes the request's enqueue; " +
			"(R4) a completion source armed before the registration is compensated by a completion re-check after it that deregisters; (R5) the kill routine completes the dying actor's pending asks with the actor-dead error on every path; " +
			"(R6) the reply address contains a fresh UUID and is the sender of the request envelope and the registry key; (R7) forwarders/timer under the future's mutex, the agent table under its lock (no escape of the inner map). " +
			"(R8) a forwarder is appended only after observing 'not completed' while holding the mutex under which the completing function takes the forwarder list, in one critical section. (R5, addition) the per-asker bucket of the agent table is dropped as a whole only on an edge asserting it is empty, so no registered ask is hidden from the death sweep. (R5, addition) the death sweep's closing loop is never left early, and the dying actor's pending asks are completed before its OnKill handler runs; (R10) no map of the module is keyed by a reference value: references are identified by (address, path), not by pointer. (R6, addition) on every path the agent ref handed to the future registry is the result of the agent-ref constructor called in the ask routine itself: no reply address of an earlier (possibly timed-out) ask is re-used. NOT decided: 'no earlier than its timeout' (clock), that Result/Wait return (they block on done; R1 shows done is closed on every completing path); timeout<=0 arms no timer by design.",
		Rules: []Rule{
			{ID: "C04.R10", Min: 1, Desc: "references are identified by (address, path), never by pointer identity: no map is keyed by a reference value", Fn: c04RefIdentity},
			{ID: "C04.R1", Min: 8, Desc: "one-shot completion", Fn: c04OneShot},
			{ID: "C04.R2", Min: 4, Desc: "safe publication of the result", Fn: c04Publication},
			{ID: "C04.R3", Min: 2, Desc: "registration pairing and order", Fn: c04Registration},
			{ID: "C04.R4", Min: 1, Desc: "register-before-arm or re-check", Fn: c04Arm},
			{ID: "C04.R5", Min: 1, Desc: "asker death completes pending asks", Fn: c04AskerDeath},
			{ID: "C04.R6", Min: 3, Desc: "fresh reply address used consistently", Fn: c04Address},
			{ID: "C04.R7", Min: 20, Desc: "future and agent-table locking", Fn: c04Locks},
			{ID: "C04.R8", Min: 1, Desc: "forwarder registration decided under the flush lock", Fn: c04ForwarderRace},
		},
	})
}

type futRoles struct {
	T        *types.Named
	Closed   *types.Var
	Done     *types.Var
	Msg      *types.Var
	Err      *types.Var
	Timer    *types.Var
	Closer   *types.Var
	Fwd      *types.Var
	Mu       *types.Var
	CloseFn  *ssa.Function // the completing function (contains the CAS)
	New      *ssa.Function // constructor arming the timer
	Ask      *ssa.Function // context method building the future
	Append   *ssa.Function // System.appendFuture
	Remove   *ssa.Function // System.removeFuture
	RemoveBy *ssa.Function // System.removeFuturesByAgentPath
	AgentT   *types.Named
	problems []string
}

var futCache = map[*Program]*futRoles{}

func (p *Program) futureRoles() *futRoles {
	if f, ok := futCache[p]; ok {
		return f
	}
	f := &futRoles{}
	futCache[p] = f
	bad := func(s string) { f.problems = append(f.problems, s) }
	// the generic type implementing vivid.Future[T] and vivid.Mailbox
	fp := p.tpkg("internal/future")
	if fp == nil {
		bad("future package")
		return f
	}
	for _, name := range fp.Scope().Names() {
		if tn, ok := fp.Scope().Lookup(name).(*types.TypeName); ok {
			if n, ok := tn.Type().(*types.Named); ok && n.TypeParams().Len() == 1 {
				if _, isSt := n.Underlying().(*types.Struct); isSt {
					f.T = n
				}
			}
		}
	}
	if f.T == nil {
		bad("generic future type")
		return f
	}
	st := f.T.Underlying().(*types.Struct)
	for i := 0; i < st.NumFields(); i++ {
		fl := st.Field(i)
		switch {
		case typeIs(fl.Type(), "sync/atomic", "Bool"):
			f.Closed = fl
		case typeIs(fl.Type(), "sync", "Mutex"):
			f.Mu = fl
		case typeIs(fl.Type(), "time", "Timer"):
			f.Timer = fl
		}
		if _, ok := fl.Type().Underlying().(*types.Chan); ok {
			f.Done = fl
		}
		if _, ok := fl.Type().(*types.TypeParam); ok {
			f.Msg = fl
		}
		if types.Identical(fl.Type(), types.Universe.Lookup("error").Type()) {
			f.Err = fl
		}
		if sig, ok := fl.Type().Underlying().(*types.Signature); ok && sig.Params().Len() == 0 && sig.Results().Len() == 0 {
			f.Closer = fl
		}
		if strings.HasSuffix(typeName(fl.Type()), "ActorRefs") {
			f.Fwd = fl
		}
	}
	for i := 0; i < f.T.NumMethods(); i++ {
		fn := p.SSA.FuncValue(f.T.Method(i))
		if fn == nil {
			continue
		}
		for _, b := range fn.Blocks {
			for _, in := range b.Instrs {
				if a := atomicCall(in); a != nil && a.Op == "CAS" && a.Field == f.Closed {
					f.CloseFn = fn
				}
			}
		}
	}
	for _, name := range fp.Scope().Names() {
		if fo, ok := fp.Scope().Lookup(name).(*types.Func); ok {
			fn := p.SSA.FuncValue(fo)
			if fn == nil {
				continue
			}
			for _, b := range fn.Blocks {
				for _, in := range b.Instrs {
					if calleeQual(callOf(in)) == "time.AfterFunc" {
						f.New = fn
					}
				}
			}
		}
	}
	lc := p.lifecycle()
	if lc.Sys != nil {
		for _, fn := range p.methodsOf(lc.Sys) {
			if fn.Parent() != nil {
				continue
			}
			hasFut, hasAgent := false, false
			for _, prm := range fn.Params[1:] {
				if n := namedOf(prm.Type()); n != nil {
					if n == f.T {
						hasFut = true
					}
					if n.Obj().Name() == "AgentRef" {
						hasAgent = true
						f.AgentT = n
					}
				}
			}
			callsClose := false
			for _, b := range fn.Blocks {
				for _, in := range b.Instrs {
					if c := callOf(in); c != nil && c.StaticCallee() != nil && c.StaticCallee().Name() == "Close" && c.StaticCallee().Origin() != nil && namedOf(c.StaticCallee().Origin().Signature.Recv().Type()) == f.T {
						callsClose = true
					}
				}
			}
			switch {
			case hasFut && hasAgent:
				f.Append = fn
			case hasAgent && len(fn.Params) == 2:
				f.Remove = fn
			case callsClose:
				f.RemoveBy = fn
			}
		}
	}
	if lc.Ctx != nil {
		for _, fn := range p.methodsOf(lc.Ctx) {
			if fn.Parent() != nil {
				continue
			}
			for _, b := range fn.Blocks {
				for _, in := range b.Instrs {
					if c := callOf(in); c != nil && c.StaticCallee() == f.Append {
						f.Ask = fn
					}
				}
			}
		}
	}
	for name, v := range map[string]any{"closed": f.Closed, "done": f.Done, "message": f.Msg, "err": f.Err, "timer": f.Timer, "closer": f.Closer, "forwarders": f.Fwd, "mu": f.Mu} {
		if vv, _ := v.(*types.Var); vv == nil {
			bad("future field role " + name)
		}
	}
	for name, v := range map[string]*ssa.Function{"completing function": f.CloseFn, "constructor": f.New, "ask": f.Ask, "appendFuture": f.Append, "removeFuture": f.Remove, "removeFuturesByAgentPath": f.RemoveBy} {
		if v == nil {
			bad("future role " + name)
		}
	}
	return f
}

func futOrFail(p *Program, r *Report) *futRoles {
	f := p.futureRoles()
	if len(f.problems) > 0 {
		for _, pr := range f.problems {
			r.Unresolved(pr)
		}
		return nil
	}
	return f
}

func c04OneShot(p *Program, r *Report) {
	f := futOrFail(p, r)
	if f == nil {
		return
	}
	fn := f.CloseFn
	g := p.igx(fn)
	cas := map[int]bool{}
	succ := map[edge]bool{}
	for i, in := range g.Nodes {
		a := atomicCall(in)
		if a == nil || a.Op != "CAS" || a.Field != f.Closed {
			continue
		}
		o, ok1 := constBool(a.Args[0])
		n, ok2 := constBool(a.Args[1])
		if ok1 && ok2 && !o && n {
			cas[i] = true
			cv := in.(ssa.Value)
			for _, ifi := range g.ifs() {
				for _, outcome := range []bool{true, false} {
					fc, ok := condFact(ifi.Cond, outcome)
					if ok && fc.Bool && fc.X == cv && fc.Op == token.NEQ {
						succ[g.branchEdge(ifi, outcome)] = true
					}
				}
			}
		}
	}
	if len(cas) != 1 || len(succ) == 0 {
		r.Violate("completion CAS", fn.Pos(), "the completing function does not contain exactly one closed.CompareAndSwap(false,true) with a branch on its result")
		return
	}
	// effects
	type eff struct {
		name string
		n    map[int]bool
		must bool
		opt  map[edge]bool // edges assumed away for the must check (e.g. closer == nil)
	}
	isStoreTo := func(fl *types.Var) func(ssa.Instruction) bool {
		return func(in ssa.Instruction) bool {
			st, ok := in.(*ssa.Store)
			if !ok {
				return false
			}
			x, _ := fieldAddr(st.Addr)
			return x == fl
		}
	}
	closerNil := map[edge]bool{}
	for _, ef := range p.edgeFacts(g) {
		if ef.Field == f.Closer && ef.Fact.IsNil && ef.Fact.Op == token.EQL {
			closerNil[ef.E] = true
		}
	}
	effs := []eff{
		{name: "store result message", n: nodesWhere(g, isStoreTo(f.Msg))},
		{name: "store result error", n: nodesWhere(g, isStoreTo(f.Err))},
		{name: "close(done)", must: true, n: nodesWhere(g, func(in ssa.Instruction) bool {
			c, ok := in.(*ssa.Call)
			if !ok {
				return false
			}
			b, ok := c.Call.Value.(*ssa.Builtin)
			if !ok || b.Name() != "close" {
				return false
			}
			x, _ := fieldLoad(c.Call.Args[0])
			return x == f.Done
		})},
		{name: "timer.Stop", n: nodesWhere(g, func(in ssa.Instruction) bool { return calleeQual(callOf(in)) == "(time.Timer).Stop" })},
		{name: "closer()", must: true, opt: closerNil, n: nodesWhere(g, func(in ssa.Instruction) bool {
			c, ok := in.(*ssa.Call)
			if !ok || c.Call.IsInvoke() || c.Call.StaticCallee() != nil {
				return false
			}
			x, _ := fieldLoad(c.Call.Value)
			return x == f.Closer
		})},
		{name: "forwarder flush", must: true, n: nodesWhere(g, func(in ssa.Instruction) bool {
			c := callOf(in)
			if c == nil || c.StaticCallee() == nil || len(c.Args) < 2 {
				return false
			}
			for _, a := range c.Args[1:] {
				for _, v := range g.values(a) {
					if x, _ := fieldLoad(v); x == f.Fwd {
						return true
					}
				}
			}
			return false
		})},
	}
	// a flush counted at a call whose callee is itself spliced in is not counted again inside that callee (the callee's
	// parameter resolves to the same value: instantiation wrappers, forwarding helpers)
	for ei := range effs {
		if effs[ei].name != "forwarder flush" {
			continue
		}
		inner := map[*ssa.Function]bool{}
		for n := range effs[ei].n {
			if c, ok := g.Nodes[n].(*ssa.Call); ok {
				for y := g.Inlined[c]; y != nil; {
					inner[y] = true
					var next *ssa.Function
					for c2, y2 := range g.Inlined {
						if c2.Parent() == y && effs[ei].n[g.Idx[c2]] {
							next = y2
						}
					}
					if next == nil || inner[next] {
						break
					}
					y = next
				}
			}
		}
		for n := range effs[ei].n {
			if inner[g.Nodes[n].Parent()] {
				delete(effs[ei].n, n)
			}
		}
	}
	for _, h := range g.Fns[1:] {
		if !g.owns(p, h) {
			for _, e := range effs {
				for n := range e.n {
					if g.Nodes[n].Parent() == h {
						r.Violate("completion effect: "+e.name+" in shared helper "+fnName(h), g.Nodes[n].Pos(), "the helper performing this completion effect is also called from outside the completing function, i.e. not under the completion CAS")
					}
				}
			}
		}
	}
	for _, e := range effs {
		if len(e.n) == 0 {
			r.Violate("completion effect: "+e.name, fn.Pos(), "effect not found in the completing function")
			continue
		}
		ok := true
		for n := range e.n {
			if !g.DominatedByEdges(n, succ) {
				ok = false
			}
		}
		why := "dominated by the success edge of the completion CAS (a second completion attempt returns without effect)"
		if e.must && ok {
			for se := range succ {
				if !e.n[se.to] && anyIn(g.Reach([]int{se.to}, e.n, e.opt), g.Exits) {
					ok = false
				}
			}
			for n := range e.n {
				reach := g.ReachAfter(n, nil, nil)
				for m := range e.n {
					if reach[m] {
						ok = false
					}
				}
			}
			why += "; reached exactly once on every completing path"
		}
		r.Check(ok, "completion effect: "+e.name, firstPos(g, e.n), why)
	}
	// nobody else writes the result fields / closes done
	seen := map[string]bool{}
	for _, a := range p.fieldAccesses(map[*types.Var]bool{f.Msg: true, f.Err: true, f.Done: true}) {
		if !a.Write || a.Fresh {
			continue
		}
		fo := a.Fn
		if o := fo.Origin(); o != nil {
			fo = o
		}
		k := p.pos(a.In.Pos())
		if seen[k] {
			continue
		}
		seen[k] = true
		r.Check(g.owns(p, fo), fmt.Sprintf("writer of %s: %s", a.Field.Name(), fnName(fo)), a.In.Pos(), "the result fields are written only by the completing function (or a helper called from it alone)")
	}
	// the CAS is the only write of closed
	for _, a := range p.fieldAccesses(map[*types.Var]bool{f.Closed: true}) {
		if !strings.HasPrefix(a.Kind, "method:") || a.Fresh {
			continue
		}
		if strings.HasSuffix(a.Kind, ".Store") || strings.HasSuffix(a.Kind, ".Swap") {
			r.Violate("closed written by "+a.Kind+" in "+fnName(a.Fn), a.In.Pos(), "the completion flag is set only by CompareAndSwap(false,true)")
		}
	}
}

func c04Publication(p *Program, r *Report) {
	f := futOrFail(p, r)
	if f == nil {
		return
	}
	g := p.igx(f.CloseFn)
	closeDone := nodesWhere(g, func(in ssa.Instruction) bool {
		c, ok := in.(*ssa.Call)
		if !ok {
			return false
		}
		b, ok := c.Call.Value.(*ssa.Builtin)
		if !ok || b.Name() != "close" {
			return false
		}
		x, _ := fieldLoad(c.Call.Args[0])
		return x == f.Done
	})
	ok := len(closeDone) > 0
	for c := range closeDone {
		reach := g.ReachAfter(c, nil, nil)
		for n := range reach {
			if st, isSt := g.Nodes[n].(*ssa.Store); isSt {
				if x, _ := fieldAddr(st.Addr); x == f.Msg || x == f.Err {
					ok = false
				}
			}
		}
	}
	r.Check(ok, "result written before done is closed", firstPos(g, closeDone), "no store to the result fields is reachable after close(done) in the completing function")
	// readers elsewhere
	seen := map[string]bool{}
	for _, a := range p.fieldAccesses(map[*types.Var]bool{f.Msg: true, f.Err: true}) {
		if a.Write || a.Fresh || a.Kind != "load" {
			continue
		}
		fo := a.Fn
		if o := fo.Origin(); o != nil {
			fo = o
		}
		if g.owns(p, fo) {
			continue // the completing function reads its own writes; instantiations duplicate the generic body (deduplicated by position below)
		}
		k := p.pos(a.In.Pos())
		if seen[k] {
			continue
		}
		seen[k] = true
		rg := p.ig(a.Fn)
		recv := nodesWhere(rg, func(in ssa.Instruction) bool {
			u, ok := in.(*ssa.UnOp)
			if !ok || u.Op != token.ARROW {
				return false
			}
			x, _ := fieldLoad(u.X)
			return x == f.Done
		})
		r.Check(len(recv) > 0 && rg.DominatedByNodes(a.Node, recv), fmt.Sprintf("read of %s in %s after <-done", a.Field.Name(), fnName(a.Fn)), a.In.Pos(),
			"the read is dominated by a receive on the done channel (the close happens-before the receive): seeing closed==true is not enough, the flag is set before the result is written")
	}
}

func c04Registration(p *Program, r *Report) {
	f := futOrFail(p, r)
	if f == nil {
		return
	}
	g := p.ig(f.Ask)
	var app *ssa.Call
	for _, in := range g.Nodes {
		if c, ok := in.(*ssa.Call); ok && c.Call.StaticCallee() == f.Append {
			app = c
		}
	}
	if app == nil {
		r.Unresolved("registration call in ask")
		return
	}
	agent := strip(app.Call.Args[1])
	// closer closure passed to the constructor removes the same agent ref
	good := false
	for _, a := range f.Ask.AnonFuncs {
		for _, b := range a.Blocks {
			for _, in := range b.Instrs {
				if c := callOf(in); c != nil && c.StaticCallee() == f.Remove {
					// argument is a free variable bound to `agent`
					fv, ok := strip(c.Args[1]).(*ssa.FreeVar)
					if !ok {
						if u, isU := c.Args[1].(*ssa.UnOp); isU {
							fv, ok = u.X.(*ssa.FreeVar)
						}
					}
					if ok {
						for _, in2 := range g.Nodes {
							if mc, isMC := in2.(*ssa.MakeClosure); isMC && mc.Fn == a {
								for bi, bnd := range mc.Bindings {
									if a.FreeVars[bi] == fv && (strip(bnd) == agent || sameCell(bnd, app.Call.Args[1])) {
										good = true
									}
								}
							}
						}
					}
				}
			}
		}
	}
	r.Check(good, "closer deregisters the registered agent ref", app.Pos(), "the closer given to the future calls the deregistration with the very agent ref that is registered")
	// registration precedes the enqueue of the request
	enq := nodesWhere(g, func(in ssa.Instruction) bool {
		c := callOf(in)
		return c != nil && c.IsInvoke() && c.Method.Name() == "Enqueue"
	})
	ok := len(enq) > 0
	for e := range enq {
		if !g.DominatedByNodes(e, setOf(g.Idx[app])) {
			ok = false
		}
	}
	r.Check(ok, "registration precedes the request", firstPos(g, enq), "the request envelope is enqueued only after the future is registered under its reply address (a fast reply always finds it)")
}

// sameCell: both values are loads of the same local variable cell.
func sameCell(a, b ssa.Value) bool {
	ua, ok1 := a.(*ssa.UnOp)
	ub, ok2 := b.(*ssa.UnOp)
	if ok1 && ok2 && ua.X == ub.X {
		return true
	}
	if al, ok := a.(*ssa.Alloc); ok && ok2 && ub.X == ssa.Value(al) {
		return true
	}
	return false
}

func c04Arm(p *Program, r *Report) {
	f := futOrFail(p, r)
	if f == nil {
		return
	}
	g := p.ig(f.Ask)
	var app, ctor *ssa.Call
	for _, in := range g.Nodes {
		if c, ok := in.(*ssa.Call); ok {
			if c.Call.StaticCallee() == f.Append {
				app = c
			}
			if cal := c.Call.StaticCallee(); cal != nil && (cal == f.New || cal.Origin() == f.New) {
				ctor = c
			}
		}
	}
	if app == nil || ctor == nil {
		r.Unresolved("constructor / registration calls in ask")
		return
	}
	if g.DominatedByNodes(g.Idx[ctor], setOf(g.Idx[app])) {
		r.Check(true, "timer armed after registration", ctor.Pos(), "the future (and its timeout timer) is created after the registration")
		return
	}
	// armed first: need a re-check after registration: if future.IsClosed() { deregister(agent) }
	closedE := map[edge]bool{}
	for _, ifi := range ifsOf(f.Ask) {
		for _, outcome := range []bool{true, false} {
			fc, ok := condFact(ifi.Cond, outcome)
			if !ok || !fc.Bool || fc.Op != token.NEQ {
				continue
			}
			c, ok := fc.X.(*ssa.Call)
			if !ok || c.Call.StaticCallee() == nil || callRecv(&c.Call) == nil || strip(callRecv(&c.Call)) != ssa.Value(ctor) {
				continue
			}
			// the callee observes the closed flag
			obs := false
			for _, b := range c.Call.StaticCallee().Blocks {
				for _, in := range b.Instrs {
					if cc := callOf(in); cc != nil && strings.HasSuffix(calleeQual(cc), "(sync/atomic.Bool).Load") {
						obs = true
					}
				}
			}
			if obs && g.DominatedByNodes(g.Idx[ifi], setOf(g.Idx[app])) {
				closedE[g.branchEdge(ifi, outcome)] = true
			}
		}
	}
	ok := len(closedE) > 0
	rem := nodesWhere(g, func(in ssa.Instruction) bool { c := callOf(in); return c != nil && c.StaticCallee() == f.Remove })
	for e := range closedE {
		if !rem[e.to] && anyIn(g.Reach([]int{e.to}, rem, nil), g.Exits) {
			ok = false
		}
		// the re-check lies on every path from the registration to the exit
		if anyIn(g.ReachAfter(g.Idx[app], setOf(e.from), nil), g.Exits) {
			ok = false
		}
	}
	for n := range rem {
		c := callOf(g.Nodes[n])
		if strip(c.Args[1]) != strip(app.Call.Args[1]) && !sameCell(c.Args[1], app.Call.Args[1]) {
			ok = false
		}
	}
	r.Check(ok, "completion re-checked after registration", app.Pos(), "the timeout timer is armed before the registration, so every path after it tests the future's completion flag and deregisters the same agent ref when already completed (else a timeout firing in between leaks the registration forever)")
}

func c04AskerDeath(p *Program, r *Report) {
	f := futOrFail(p, r)
	lc := lcOrFail(p, r)
	if f == nil || lc == nil {
		return
	}
	g := p.ig(lc.DoKill)
	calls := nodesWhere(g, func(in ssa.Instruction) bool { c := callOf(in); return c != nil && c.StaticCallee() == f.RemoveBy })
	// required for a termination; a restart is not the asker's death, so paths with a restart in progress are not constrained
	av := p.assumeAvoid(g, map[*types.Var]bool{lc.RestartingF: false})
	ok := len(calls) > 0 && !anyIn(g.Reach(g.entry(), calls, av), g.Exits)
	desc := ""
	for n := range calls {
		c := callOf(g.Nodes[n])
		o := p.origins(c.Args[1])
		e := p.origins(c.Args[2])
		desc = strings.Join(o, "|") + " ; " + strings.Join(e, "|")
		if !allContain(o, lc.pat(lc.RefF)) || !allContain(e, "global:ErrorActorDeaded") {
			ok = false
		}
	}
	// ... and before the dying actor's own OnKill handler runs: a handler that waits on one of its earlier asks gets the
	// "actor dead" completion instead of blocking its own termination (and with it the stop of the whole system)
	if lc.ExecRecover != nil {
		runs := nodesWhere(g, func(in ssa.Instruction) bool { c := callOf(in); return c != nil && c.StaticCallee() == lc.ExecRecover })
		okOrder := true
		for rn := range runs {
			if !g.DominatedByNodes(rn, calls) {
				// a run on a path on which the asks are not completed at all (restart in progress) is not constrained
				if !anyIn(g.Reach(g.entry(), calls, av), setKeys(map[int]bool{rn: true})) {
					continue
				}
				okOrder = false
			}
		}
		r.Check(okOrder && len(calls) > 0, "pending asks are completed before the OnKill handler runs", firstPos(g, calls), "every run of the user's behaviour in the kill routine is dominated by the completion of the dying actor's pending asks")
	}
	r.Check(ok, "kill routine completes the dying actor's pending asks", firstPos(g, calls), "on every terminating path the kill routine closes the futures registered for its own path with ErrorActorDeaded ("+desc+")")
	// … and never after the actor's path has been released: the sweep is keyed by the asker's PATH. Once the registry entry is gone
	// and the parent has been told, the parent may re-create the actor under the same name; a sweep that runs after that completes
	// the asks of the living successor with "actor dead" and its real replies become dead letters. So in the step that releases
	// the path no sweep is reachable after the release, and no later step of the chain sweeps at all.
	if lc.Cleanup != nil && lc.RemoveRegistry != nil {
		cg := p.igxSkip(lc.Cleanup, map[*ssa.Function]bool{f.RemoveBy: true, lc.RemoveRegistry: true})
		rel := nodesWhere(cg, func(in ssa.Instruction) bool {
			c := callOf(in)
			return c != nil && c.StaticCallee() == lc.RemoveRegistry
		})
		late := false
		var latePos token.Pos
		for rn := range rel {
			after := cg.ReachAfter(rn, nil, nil)
			for i, in := range cg.Nodes {
				if c := callOf(in); c != nil && c.StaticCallee() == f.RemoveBy && after[i] {
					late, latePos = true, in.Pos()
				}
			}
		}
		past := false
		for _, st := range lc.Chain.Steps {
			for _, sf := range st.Funcs {
				if sf == lc.Cleanup {
					past = true
					continue
				}
				if past && p.mayDo(sf, func(in ssa.Instruction) bool { c := callOf(in); return c != nil && c.StaticCallee() == f.RemoveBy }, 2, map[*ssa.Function]bool{}) {
					late, latePos = true, sf.Pos()
				}
			}
		}
		if latePos == token.NoPos {
			latePos = lc.Cleanup.Pos()
		}
		r.Check(len(rel) > 0 && !late, "no sweep of pending asks after the path was released", latePos, "the sweep is keyed by the asker's path: in the step that removes the registry entry no sweep is reachable after the removal, and no later step of the kill chain sweeps — a same-name successor's asks are never completed by its predecessor")
	}
	// the routine closes every future found for that path
	rg := p.ig(f.RemoveBy)
	cl := nodesWhere(rg, func(in ssa.Instruction) bool {
		c := callOf(in)
		return c != nil && c.StaticCallee() != nil && c.StaticCallee().Name() == "Close"
	})
	okc := len(cl) > 0
	for n := range cl {
		c := callOf(rg.Nodes[n])
		if strip(c.Args[1]) != ssa.Value(f.RemoveBy.Params[2]) {
			okc = false
		}
	}
	r.Check(okc, "pending asks are closed with the given error", firstPos(rg, cl), "the bulk-completion routine calls Close(err) with its error parameter")
	// ... and only the asks of that asker: the routine reads the agent table exclusively through table[path] with its own
	// path parameter (exact key) — never by iterating the whole table and matching paths some other way
	var table *types.Var
	st := lc.Sys.Underlying().(*types.Struct)
	for i := 0; i < st.NumFields(); i++ {
		if m, ok := st.Field(i).Type().Underlying().(*types.Map); ok {
			if _, inner := m.Elem().Underlying().(*types.Map); inner {
				table = st.Field(i)
			}
		}
	}
	if table == nil || len(f.RemoveBy.Params) < 2 {
		r.Unresolved("agent table of the system / path parameter of the bulk-completion routine")
		return
	}
	exact, uses := true, 0
	var badPos token.Pos
	for _, in := range rg.Nodes {
		u, isLoad := in.(*ssa.UnOp)
		if !isLoad || u.Op != token.MUL {
			continue
		}
		if fl, _ := fieldAddr(u.X); fl != table {
			continue
		}
		for _, ref := range *u.Referrers() {
			uses++
			lk, isLk := ref.(*ssa.Lookup)
			if !isLk || strip(lk.Index) != ssa.Value(f.RemoveBy.Params[1]) {
				exact = false
				badPos = ref.Pos()
			}
		}
	}
	if badPos == token.NoPos {
		badPos = f.RemoveBy.Pos()
	}
	// the per-asker bucket of that table is dropped as a whole only when it is empty: dropping it while another ask of the same
	// asker is registered hides that ask from the death sweep
	nd := 0
	for _, fn := range p.methodsOf(lc.Sys) {
		if fn.Parent() == nil && len(fn.Blocks) > 0 {
			nd += p.wholeEntryDeletes(r, fn, table, "an ask still registered in the bucket would be hidden from the sweep that completes it when its asker dies")
		}
	}
	if nd == 0 {
		r.Unresolved("no whole-bucket delete of the agent table")
	}
	// the sweep visits every ask of its snapshot: the loop that closes them is never left early (an entry that has completed
	// on its own in the meantime is skipped, it does not end the sweep)
	for i, in := range rg.Nodes {
		c := callOf(in)
		if c == nil || c.StaticCallee() == nil || c.StaticCallee().Name() != "Close" {
			continue
		}
		// the loop test: a branch that dominates the Close through one edge and is reachable again from it
		var body *edge
		for _, ifi := range rg.ifs() {
			for _, outcome := range []bool{true, false} {
				e := rg.branchEdge(ifi, outcome)
				if e.to >= 0 && rg.DominatedByEdges(i, map[edge]bool{e: true}) && rg.ReachAfter(i, nil, nil)[e.from] {
					if body == nil || e.from < body.from {
						ee := e
						body = &ee
					}
				}
			}
		}
		if body == nil {
			r.Undecided("sweep loop", in.Pos(), "the Close of the pending asks is not inside a recognisable loop")
			continue
		}
		early := anyIn(rg.Reach([]int{body.to}, setOf(body.from), nil), rg.Exits)
		r.Check(!early, "the death sweep is never left early", in.Pos(), "from the loop body no path reaches the function's exit without going through the loop test again: every ask of the snapshot is visited")
	}
	r.Check(exact && uses > 0, "only the dying actor's asks are completed", badPos, fmt.Sprintf("all %d uses of the agent table in the bulk-completion routine are lookups with the routine's own path parameter: asks of other (living) actors are never swept", uses))
}

func c04Address(p *Program, r *Report) {
	f := futOrFail(p, r)
	if f == nil {
		return
	}
	// NewAgentRef: path contains uuid.NewString()
	var newAgent *ssa.Function
	for _, fn := range p.Mod {
		res := fn.Signature.Results()
		if fn.Parent() == nil && res.Len() >= 1 && namedOf(res.At(0).Type()) == f.AgentT && f.AgentT != nil && fn.Signature.Recv() == nil {
			newAgent = fn
		}
	}
	if newAgent == nil {
		r.Unresolved("agent ref constructor")
		return
	}
	fresh := false
	for _, b := range newAgent.Blocks {
		for _, in := range b.Instrs {
			if c := callOf(in); c != nil && c.StaticCallee() != nil && c.StaticCallee().Name() == "Child" {
				if bo, ok := c.Args[1].(*ssa.BinOp); ok && bo.Op == token.ADD {
					for _, side := range []ssa.Value{bo.X, bo.Y} {
						if cc, ok := side.(*ssa.Call); ok && strings.HasSuffix(calleeQual(&cc.Call), "uuid.NewString") {
							fresh = true
						}
					}
				}
			}
		}
	}
	// the agent ref's OWN reference field: the one the constructor fills with the result of Child(marker+uuid) (by role)
	var ownF *types.Var
	for _, b := range newAgent.Blocks {
		for _, in := range b.Instrs {
			st, ok := in.(*ssa.Store)
			if !ok {
				continue
			}
			fl, _ := fieldAddr(st.Addr)
			if fl == nil {
				continue
			}
			v := strip(st.Val)
			if ex, isEx := v.(*ssa.Extract); isEx {
				v = ex.Tuple
			}
			if c, isC := v.(*ssa.Call); isC && c.Call.StaticCallee() != nil && c.Call.StaticCallee().Name() == "Child" {
				ownF = fl
			}
		}
	}
	if ownF == nil {
		r.Unresolved("own-reference field of the agent ref (filled from Child(...) in its constructor)")
		return
	}
	ownPat := "GetPath<-field:" + ownerName(ownF) + "." + ownF.Name() + "<-param:"
	r.Check(fresh, "reply address is fresh", newAgent.Pos(), "the agent ref's path is the asker's path extended by marker + uuid.NewString(): a reply can never reach the future of a different request")
	// ask: sender of the request envelope is agent.ref; registry key is agent.ref.GetPath()
	g := p.ig(f.Ask)
	var app *ssa.Call
	for _, in := range g.Nodes {
		if c, ok := in.(*ssa.Call); ok && c.Call.StaticCallee() == f.Append {
			app = c
		}
	}
	// … and every ask gets one of its own: the agent ref registered for the new future is, on every path, the result of the
	// constructor called in the ask routine itself — never one kept from an earlier ask (a recycled address lets the late reply to
	// a timed-out request complete the NEXT request's future).
	if app != nil && len(app.Call.Args) > 1 {
		own := true
		vals := g.values(app.Call.Args[1])
		for _, v := range vals {
			v = strip(v)
			if ex, isEx := v.(*ssa.Extract); isEx {
				v = ex.Tuple
			}
			c, isC := v.(*ssa.Call)
			if !isC || c.Call.StaticCallee() != newAgent || c.Parent() != f.Ask {
				own = false
			}
		}
		r.Check(own && len(vals) > 0, "every ask registers a reply address created for it", app.Pos(), "on every path the agent ref handed to the future registry is the result of the agent-ref constructor called in the ask routine: no address of an earlier (possibly timed-out) ask is re-used")
	}
	okS := false
	for _, in := range g.Nodes {
		if c := callOf(in); c != nil && c.StaticCallee() != nil && c.StaticCallee().Name() == "NewEnvelop" && app != nil {
			fl, base := fieldLoad(strip(c.Args[1]))
			if fl == ownF && (strip(base) == strip(app.Call.Args[1]) || sameCell(base, app.Call.Args[1])) {
				okS = true
			}
		}
	}
	r.Check(okS, "request carries the agent ref as sender", f.Ask.Pos(), "the envelope's sender is the ref of the very agent that is registered")
	okK := false
	for _, b := range f.Append.Blocks {
		for _, in := range b.Instrs {
			if c := callOf(in); c != nil && calleeQual(c) == "(sync.Map).Store" {
				o := p.origins(c.Args[1])
				v := strip(c.Args[2])
				okK = allContain(o, ownPat) && v == ssa.Value(f.Append.Params[2])
			}
		}
	}
	r.Check(okK, "future registered under the agent ref's path", f.Append.Pos(), "the registry key is agentRef.ref.GetPath() and the value is the future")
	// removal uses the same key
	okR := false
	for _, b := range f.Remove.Blocks {
		for _, in := range b.Instrs {
			if c := callOf(in); c != nil && calleeQual(c) == "(sync.Map).Delete" {
				okR = allContain(p.origins(c.Args[1]), ownPat)
			}
		}
	}
	r.Check(okR, "deregistration deletes the same key", f.Remove.Pos(), "the registry entry deleted is agentRef.ref.GetPath()")
}

func c04Locks(p *Program, r *Report) {
	f := futOrFail(p, r)
	lc := lcOrFail(p, r)
	if f == nil || lc == nil {
		return
	}
	lk := "internal/future:" + f.T.Obj().Name() + "." + f.Mu.Name()
	p.checkFieldTableDedup(r, "internal/future", f.T.Obj().Name(), map[string]fieldClass{
		f.Fwd.Name():   {Class: "guarded", Lock: lk},
		f.Timer.Name(): {Class: "guarded", Lock: lk},
	}, map[string]bool{f.Fwd.Name(): true, f.Timer.Name(): true})
	// agent table
	var table *types.Var
	st := lc.Sys.Underlying().(*types.Struct)
	for i := 0; i < st.NumFields(); i++ {
		if m, ok := st.Field(i).Type().Underlying().(*types.Map); ok {
			if _, inner := m.Elem().Underlying().(*types.Map); inner {
				table = st.Field(i)
			}
		}
	}
	if table == nil {
		r.Unresolved("agent table of the system")
		return
	}
	var lock *types.Var
	for _, a := range p.fieldAccesses(map[*types.Var]bool{table: true}) {
		if a.Fn == f.Append {
			for l := range a.Held {
				lock = l
			}
		}
	}
	if lock == nil {
		r.Violate("agent table lock", table.Pos(), "the registration does not hold any mutex while touching the agent table")
		return
	}
	p.checkFieldTableDedup(r, relPkg(lc.Sys.Obj().Pkg()), lc.Sys.Obj().Name(), map[string]fieldClass{table.Name(): {Class: "guarded", Lock: ownerStruct(p, lock)}}, map[string]bool{table.Name(): true})
}

// checkFieldTableDedup evaluates only the listed fields and reports each source position once
// (methods of generic types appear once per instantiation).
func (p *Program) checkFieldTableDedup(r *Report, rel, typ string, table map[string]fieldClass, only map[string]bool) {
	sub := newReport(r.Prop, p)
	sub.rule = r.rule
	p.checkFieldTable(sub, rel, typ, table, nil)
	seen := map[string]bool{}
	for _, o := range sub.Obs {
		keep := false
		for name := range only {
			if strings.HasPrefix(o.Construct, typ+"."+name+" ") || o.Construct == typ+"."+name || strings.HasPrefix(o.Construct, "anchor:") {
				keep = true
			}
		}
		if !keep {
			continue
		}
		k := o.Pos + "|" + o.Status + "|" + strings.SplitN(o.Construct, " in ", 2)[0]
		if seen[k] {
			continue
		}
		seen[k] = true
		r.add(o.Construct, token.NoPos, o.Status, o.Why, o.Nontrivial)
		r.Obs[len(r.Obs)-1].Pos = o.Pos
	}
}

var _ = callgraph.Edge{}

func c04ForwarderRace(p *Program, r *Report) {
	f := futOrFail(p, r)
	if f == nil {
		return
	}
	n := 0
	seen := map[string]bool{}
	for _, a := range p.fieldAccesses(map[*types.Var]bool{f.Fwd: true}) {
		st, ok := a.In.(*ssa.Store)
		if !ok || !a.Write || a.Fresh || isNilConst(st.Val) {
			continue
		}
		fo := a.Fn
		if o := fo.Origin(); o != nil {
			fo = o
		}
		if fo == f.CloseFn {
			continue
		}
		k := p.pos(a.In.Pos())
		if seen[k] {
			continue
		}
		seen[k] = true
		n++
		g := p.ig(a.Fn)
		li := p.held(a.Fn)
		// loads of the completion flag made with mu held, whose "not closed" edge dominates the store, with no unlock in between
		ok2 := false
		for _, ifi := range ifsOf(a.Fn) {
			for _, outcome := range []bool{true, false} {
				fc, okf := condFact(ifi.Cond, outcome)
				if !okf || !fc.Bool || fc.Op != token.EQL {
					continue
				}
				c, isC := fc.X.(*ssa.Call)
				if !isC || !strings.HasSuffix(calleeQual(&c.Call), "(sync/atomic.Bool).Load") {
					continue
				}
				if fl, _ := fieldAddr(c.Call.Args[0]); fl != f.Closed {
					continue
				}
				ld := g.Idx[c]
				if li.at(ld)[f.Mu] != 2 {
					continue
				}
				e := g.branchEdge(ifi, outcome)
				if !g.DominatedByEdges(a.Node, map[edge]bool{e: true}) {
					continue
				}
				// same critical section: no path from the load to the append passes an unlock of the mutex
				unlocks := nodesWhere(g, func(in ssa.Instruction) bool { op, lf := lockOp(in); return lf == f.Mu && op == "Unlock" })
				same := true
				fromLoad := g.ReachAfter(ld, setOf(a.Node), nil)
				for u := range unlocks {
					if fromLoad[u] && g.ReachAfter(u, nil, nil)[a.Node] {
						same = false
					}
				}
				if same {
					ok2 = true
				}
			}
		}
		r.Check(ok2, "forwarder appended in "+fnName(a.Fn), a.In.Pos(), "the append is dominated by the not-completed edge of a closed.Load() executed with the future's mutex held, in the same critical section as the append: the completing function sets closed before it takes the forwarder list under that mutex, so a forwarder is either flushed by it or sent directly — never lost")
	}
	if n == 0 {
		r.Unresolved("no forwarder registration found")
	}
}

func setKeys(m map[int]bool) []int {
	var out []int
	for k := range m {
		out = append(out, k)
	}
	return out
}

// c04RefIdentity: an ActorRef is a value that is cloned, parsed from strings and rebuilt from the wire; two references are
// the same when address and path agree (Equals). Anything that collects or de-duplicates references must key them by that
// pair. A map keyed by the reference value itself compares pointers: the forwarder list of a future would keep the same
// actor twice (it then receives the result twice), a set of targets would tell one actor twice.
func c04RefIdentity(p *Program, r *Report) {
	refI := p.Iface("", "ActorRef")
	if refI == nil {
		r.Unresolved("ActorRef interface")
		return
	}
	n, bad := 0, 0
	for _, fn := range p.Mod {
		for _, b := range fn.Blocks {
			for _, in := range b.Instrs {
				mm, ok := in.(*ssa.MakeMap)
				if !ok {
					continue
				}
				n++
				kt := mm.Type().Underlying().(*types.Map).Key()
				isRef := false
				if it, isI := kt.Underlying().(*types.Interface); isI && it.NumMethods() > 0 && types.Implements(kt, refI) {
					isRef = true
				}
				if pt, isP := kt.(*types.Pointer); isP && types.Implements(pt, refI) {
					isRef = true
				}
				if isRef {
					bad++
					r.Violate("map keyed by a reference in "+fnName(fn), mm.Pos(), "the key type "+typeName(kt)+" compares references by pointer identity; equal references obtained in different ways (Clone, ParseRef, decoded from the wire) are distinct keys")
				}
			}
		}
	}
	r.Check(bad == 0, "no map of the module is keyed by a reference value", 0, "examined "+itoa(n)+" map constructions: collections of references key them by address and path")
}
