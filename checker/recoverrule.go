package main

// A recovered panic is never turned into success: a deferred closure that calls recover() inside a function reporting its
// outcome (an error or a success flag) writes that outcome on every path from the edge on which a panic was recovered — or
// panics again. A closure that only logs (or assigns a shadowed variable) makes the function return its zero outcome:
// "no error" / whatever the flag was.

import (
	"go/token"
	"go/types"

	"golang.org/x/tools/go/ssa"
)

func recoveredPanicsAreFailures(p *Program, r *Report) {
	errT := types.Universe.Lookup("error").Type()
	n := 0
	for _, fn := range p.Mod {
		par := fn.Parent()
		if par == nil || len(fn.Blocks) == 0 {
			continue
		}
		hasRecover := false
		for _, b := range fn.Blocks {
			for _, in := range b.Instrs {
				if c, ok := in.(*ssa.Call); ok {
					if bi, isB := c.Call.Value.(*ssa.Builtin); isB && bi.Name() == "recover" {
						hasRecover = true
					}
				}
			}
		}
		if !hasRecover {
			continue
		}
		// the parent reports an outcome
		res := par.Signature.Results()
		reports := false
		for i := 0; i < res.Len(); i++ {
			t := res.At(i).Type()
			if types.Identical(t, errT) || isBool(t) {
				reports = true
			}
		}
		if !reports {
			continue
		}
		// deferred in the parent, with which bindings?
		var mc *ssa.MakeClosure
		for _, b := range par.Blocks {
			for _, in := range b.Instrs {
				if d, ok := in.(*ssa.Defer); ok {
					if m, isMC := d.Call.Value.(*ssa.MakeClosure); isMC && m.Fn == ssa.Value(fn) {
						mc = m
					}
				}
			}
		}
		if mc == nil {
			continue
		}
		n++
		// the parent's result cells: local cells loaded by its returns
		cells := map[ssa.Value]bool{}
		for _, b := range par.Blocks {
			if ret, ok := b.Instrs[len(b.Instrs)-1].(*ssa.Return); ok {
				for _, rv := range ret.Results {
					if u, isU := rv.(*ssa.UnOp); isU && u.Op == token.MUL {
						if al, isAl := u.X.(*ssa.Alloc); isAl {
							if t := al.Type().Underlying().(*types.Pointer).Elem(); types.Identical(t, errT) || isBool(t) {
								cells[al] = true
							}
						}
					}
				}
			}
		}
		outcomeFV := map[ssa.Value]bool{}
		for i, fv := range fn.FreeVars {
			if i < len(mc.Bindings) && cells[mc.Bindings[i]] {
				outcomeFV[fv] = true
			}
		}
		g := p.ig(fn)
		writes := nodesWhere(g, func(in ssa.Instruction) bool {
			if _, isP := in.(*ssa.Panic); isP {
				return true
			}
			st, ok := in.(*ssa.Store)
			return ok && outcomeFV[st.Addr]
		})
		recovered := g.edgesWhere(func(f cmpFact) bool {
			if !f.IsNil || f.Op != token.NEQ {
				return false
			}
			c, ok := strip(f.X).(*ssa.Call)
			if !ok {
				return false
			}
			bi, isB := c.Call.Value.(*ssa.Builtin)
			return isB && bi.Name() == "recover"
		})
		ok := len(recovered) > 0 && len(writes) > 0
		for e := range recovered {
			if !writes[e.to] && anyIn(g.Reach([]int{e.to}, writes, nil), g.Exits) {
				ok = false
			}
		}
		r.Check(ok, "recovered panic in "+fnName(par)+" is reported as a failure", fn.Pos(), "from the edge on which recover() returned a value, every path of the deferred closure assigns the enclosing function's own outcome (its named error / success result) or panics again: a recovered panic never lets the function return its zero outcome")
	}
	if n == 0 {
		r.Unresolved("no deferred recover in a function that reports an outcome")
	}
}
