package main

import (
	"go/token"
	"go/types"

	"golang.org/x/tools/go/ssa"
)

// c18TimeoutNeverSilentlyZero — the failure detector's timeout is zero only when detection is switched off.
//
// The detection round skips every member whose timeout is not positive. The timeout function may therefore answer zero only
// on the edge on which a configured timeout, loaded directly from the options, is itself not positive (detection disabled);
// every other return yields a value that is positive by construction: an option field under its own "> 0" edge, or the base
// timeout (times a positive constant) outside its "<= 0" edge. A zero that comes from a derived value (a phi of the base and
// an unset optional override) switches detection off for a whole class of members — e.g. all members of other datacenters —
// which then stay in the view for ever after a crash.
func c18TimeoutNeverSilentlyZero(p *Program, r *Report) {
	fd := p.Named("internal/cluster", "FailureDetector")
	if fd == nil {
		r.Unresolved("FailureDetector")
		return
	}
	fn := p.methodNamed(fd, "TimeoutFor")
	if fn == nil {
		r.Unresolved("FailureDetector.TimeoutFor")
		return
	}
	g := p.igx(fn)
	facts := p.edgeFacts(g)
	nonPos := func(f *types.Var) map[edge]bool {
		out := map[edge]bool{}
		for _, ef := range facts {
			if ef.Field == f && !ef.Fact.IsNil && !ef.Fact.Bool && ef.Fact.Y == nil && ((ef.Fact.Op == token.LEQ && ef.Fact.C == 0) || (ef.Fact.Op == token.LSS && ef.Fact.C <= 1) || (ef.Fact.Op == token.EQL && ef.Fact.C == 0)) {
				out[ef.E] = true
			}
		}
		return out
	}
	pos := func(f *types.Var) map[edge]bool {
		out := map[edge]bool{}
		for _, ef := range facts {
			if ef.Field == f && ef.Fact.impliesPositive() {
				out[ef.E] = true
			}
		}
		return out
	}
	anyNonPos := map[edge]bool{}
	for _, ef := range facts {
		if ef.Field != nil {
			for e := range nonPos(ef.Field) {
				anyNonPos[e] = true
			}
		}
	}
	n := 0
	for _, ex := range g.Exits {
		ret, ok := g.Nodes[ex].(*ssa.Return)
		if !ok || len(ret.Results) != 1 {
			continue
		}
		for _, v := range g.values(ret.Results[0]) {
			n++
			v = strip(v)
			if k, isK := constInt(v); isK {
				if k > 0 {
					r.Check(true, "timeout returned by TimeoutFor", ret.Pos(), "a positive constant")
					continue
				}
				r.Check(len(anyNonPos) > 0 && g.DominatedByEdges(ex, anyNonPos), "timeout returned by TimeoutFor: zero", ret.Pos(), "zero is returned only on the edge on which a timeout loaded directly from the options is not positive (detection switched off) — not for a value derived from several options")
				continue
			}
			// positive by construction
			src := v
			if bo, isB := v.(*ssa.BinOp); isB && bo.Op == token.MUL {
				if k, isK := constInt(bo.Y); isK && k > 0 {
					src = strip(bo.X)
				} else if k, isK := constInt(bo.X); isK && k > 0 {
					src = strip(bo.Y)
				}
			}
			f, _ := fieldLoad(src)
			okV := false
			if f != nil {
				// under its own > 0 edge, or every path to the return avoided its <= 0 edge (the <= 0 edge leads elsewhere)
				if pe := pos(f); len(pe) > 0 && g.DominatedByEdges(ex, pe) {
					okV = true
				}
				if np := nonPos(f); len(np) > 0 {
					// the return is unreachable through the non-positive edge
					through := false
					for e := range np {
						if e.to == ex || g.Reach([]int{e.to}, nil, nil)[ex] {
							through = true
						}
					}
					if !through {
						okV = true
					}
				}
			}
			r.Check(okV, "timeout returned by TimeoutFor", ret.Pos(), "the returned value is an option loaded directly (times a positive constant) that is positive on every path to this return: under its own > 0 edge, or not reachable through its <= 0 edge")
		}
	}
	if n == 0 {
		r.Unresolved("returns of TimeoutFor")
	}
}
