package main

// C06 — kill terminates the subtree, children first, once each.

import (
	"fmt"
	"go/token"
	"go/types"
	"strings"

	"golang.org/x/tools/go/ssa"
)

func init() {
	register(&Property{
		ID: "C06",
		Explanation: "Decided: (R1) the actor state is written only by CAS(running→killing), CAS(killing→killed) and the restart step's Store(running), the kill routine is entered only behind the won first CAS or for a zombie, and the zombie's release — which skips that CAS — is dominated by a latch of its own (a won CAS, or the not-yet edge of a bool field set before the clean-up and never reset: F39), and a non-poison kill that loses the CAS to a restart in progress clears the restart marker on every path, so the pending kill chain ends as a termination (F40); the kill routine is entered only after a won CAS(running→killing) or for a zombie; " +
			"(R2) the kill routine forwards Kill (same poison flag) to every child, one call per iteration, never leaving the loop early; (R3) the killed mark is taken only on the 'no children left' edge and every later step of the kill chain does nothing unless the mark was won; " +
			"(R4) on the terminating path unsubscribe-all, registry removal, one OnKilled to every watcher and to the parent, ActorKilledEvent and scheduler clear each happen exactly once, and none of the first five is reachable on the restart path; the registry removal precedes every termination notice; " +
			"(R5) ActorOf refuses when the parent is killed and kills the new child when the parent is killing, and that decision is taken on a state read after the child is in the parent's table (F37: a sample from the entry goes stale when the root's ActorOf races its stop); (R6) a child's death is recorded before the killed gate is evaluated. " +
			"(R10) the handler that records watchers stores the sender on every path, except on the edge where the sender is the parent (notified separately), where the reference stored under the key IS the sender's own reference object (the key being already recorded does not exempt: the key is address@path and the stored reference may be a dead namesake's, F38), or after telling the sender directly; " +
			"(R9 = C20.R1) the scheduler-cleanup step deletes every recorded job, the loop is never left early. (R6, addition) inside the child-death step the dead child's table entry is removed before the user's handler for that death runs (a same-name re-spawn in the handler must not be deleted afterwards), and a delete from the path-keyed child table is dominated by the identity (==) of the entry looked up and the notice's reference, so neither the death of a namesake on another system (F41) nor the late notice of a predecessor whose name was re-used (F45) removes a live child. (R10, additions) see F38; the watcher table as a whole is replaced only by its lazy creation or on a path of a kill-chain step that a restart cannot take. (R11 = the graceful-stop and chain-walk checks of C09.R3) a graceful stop decided after an escalation resumes every actor suspended along the chain. (R5 of C04, shared as C07.R10) the path-keyed sweep of pending asks never runs after the path was released. NOT decided: cross-actor ordering of termination reports at run time, concurrent kills racing spawns.",
		Assumptions: []string{"the kill chain steps are exactly the functions appended in the context's kill-chain builder (chain idiom)"},
		Rules: []Rule{
			{ID: "C06.R1", Min: 5, Desc: "one-shot kill entry; state writers", Fn: c06OneShot},
			{ID: "C06.R2", Min: 2, Desc: "kill forwarded to all children with the same poison flag", Fn: c06Forward},
			{ID: "C06.R3", Min: 6, Desc: "killed gate: no children left; later steps gated by the won mark", Fn: c06Gate},
			{ID: "C06.R4", Min: 10, Desc: "cleanup completeness: each effect exactly once on termination, none on restart", Fn: c06Cleanup},
			{ID: "C06.R11", Min: 2, Desc: "a graceful stop decided after an escalation resumes every actor suspended along the chain, so the poison can reach the failed actor and the subtree terminates (the graceful-stop and chain-walk checks of C09.R3)", Fn: func(p *Program, r *Report) {
				r.only(c09Broadcast, func(c string) bool { return strings.Contains(c, "graceful stop") || strings.Contains(c, "broadcast ") })
			}},
			{ID: "C06.R5", Min: 3, Desc: "spawn while dying", Fn: c06SpawnWhileDying},
			{ID: "C06.R6", Min: 1, Desc: "child death recorded before the killed gate", Fn: c06ChainOrder},
			{ID: "C06.R8", Min: 4, Desc: "every spawned child is in the parent's child table before it runs, so the kill fan-out reaches it (C05.R2)", Fn: func(p *Program, r *Report) {
				r.only(c05Spawn, func(c string) bool { return !strings.Contains(c, "reachable through the registry") })
			}},
			{ID: "C06.R9", Min: 2, Desc: "scheduler jobs of a dead actor are all deleted (C20.R1)", Fn: c20Die},
			{ID: "C06.R10", Min: 1, Desc: "the watch handler registers every watcher other than the parent", Fn: c06WatchRegisters},
			{ID: "C06.R7", Min: 8, Desc: "subscription indexes stay consistent, so unsubscribe-all on termination finds every subscription (C19.R2)", Fn: c19Indexes},
		},
	})
}

func lcOrFail(p *Program, r *Report) *lifecycle {
	lc := p.lifecycle()
	if len(lc.problems) > 0 {
		for _, pr := range lc.problems {
			r.Unresolved(pr)
		}
		return nil
	}
	return lc
}

func c06OneShot(p *Program, r *Report) {
	lc := lcOrFail(p, r)
	if lc == nil {
		return
	}
	// (a) every write of state
	for _, a := range p.fieldAccesses(map[*types.Var]bool{lc.State: true}) {
		if !a.Write || a.Fresh {
			continue
		}
		construct := fmt.Sprintf("%s(state) in %s", a.Kind, fnName(a.Fn))
		at := atomicCall(a.In)
		if at == nil {
			r.Violate(construct, a.In.Pos(), "the actor state is written without sync/atomic")
			continue
		}
		ok, why := false, ""
		switch at.Op {
		case "CAS":
			o, ok1 := constInt(at.Args[0])
			n, ok2 := constInt(at.Args[1])
			ok = ok1 && ok2 && ((o == lc.Running && n == lc.Killing) || (o == lc.Killing && n == lc.Killed && lc.MarkKilled != nil && p.igxSkip(lc.MarkKilled, lc.roleFuncs(p)).owns(p, a.Fn)))
			why = "state moves running→killing and killing→killed only by compare-and-swap (one-shot: a second kill, or a restart racing a kill, loses the CAS)"
		case "Store":
			v, ok1 := constInt(at.Args[0])
			ok = ok1 && v == lc.Running && lc.HandleRestart != nil && p.igxSkip(lc.HandleRestart, lc.roleFuncs(p)).owns(p, a.Fn)
			why = "the only plain store is state←running in the restart step"
		}
		r.Check(ok, construct, a.In.Pos(), why)
	}
	// (b) the kill routine is entered only after winning CAS(running→killing) or for a zombie
	for _, fn := range p.methodsOf(lc.Ctx) {
		g := p.ig(fn)
		for i, in := range g.Nodes {
			c := callOf(in)
			if c == nil || c.StaticCallee() != lc.DoKill {
				continue
			}
			_, succ, _ := p.casEdges(g, lc.State, &lc.Killing)
			zomb := map[edge]bool{}
			for _, ef := range p.edgeFacts(g) {
				if ef.Field == lc.Zombie && ef.Fact.Bool && ef.Fact.Op == token.NEQ {
					zomb[ef.E] = true
				}
			}
			r.Check(len(succ) > 0 && g.DominatedByEdges(i, mergeEdges(succ, zomb)), "kill routine entered from "+fnName(fn), in.Pos(),
				"the call of the kill routine is dominated by the success edge of CAS(state, running→killing) or by a zombie edge")
		}
	}
	// (d) a kill is never lost to a restart in progress. An actor being restarted is in state killing; an immediate Kill arriving
	// then loses the CAS of (b). On that edge, for a non-poison kill that finds the state killing, every path clears the restart
	// marker: the kill chain that is waiting for the children then ends as a termination. Without it the actor is running again
	// after the restart although it was killed (F40).
	if lc.OnKill != nil && lc.RestartingF != nil {
		g := p.ig(lc.OnKill)
		_, _, lost := p.casEdges(g, lc.State, &lc.Killing)
		clears := nodesWhere(g, func(in ssa.Instruction) bool {
			st, ok := in.(*ssa.Store)
			if !ok {
				return false
			}
			f, _ := fieldAddr(st.Addr)
			return f == lc.RestartingF && isNilConst(st.Val)
		})
		out := map[edge]bool{}
		for _, ifi := range g.ifs() {
			for _, oc := range []bool{true, false} {
				f, ok := condFact(ifi.Cond, oc)
				if !ok {
					continue
				}
				e := g.branchEdge(ifi, oc)
				// poison kills travel in the user queue and cannot arrive while the restart holds the mailbox paused
				if f.Bool && f.Op == token.NEQ && anyContains(p.origins(f.X), ".Poison<-") {
					out[e] = true
				}
				// the state is not killing (already killed: nothing left to terminate)
				if !f.Bool && !f.IsNil && f.Y == nil && f.Op == token.NEQ && f.C == lc.Killing {
					if a := atomicCall2(f.X); a != nil && a.Field == lc.State {
						out[e] = true
					}
				}
			}
		}
		okL := len(lost) > 0 && len(clears) > 0
		for e := range lost {
			if !clears[e.to] && anyIn(g.Reach([]int{e.to}, clears, out), g.Exits) {
				okL = false
			}
		}
		r.Check(okL, "a kill arriving during a restart turns it into a termination", firstPos(g, clears), "on the lost edge of CAS(running→killing), for a non-poison kill that finds the state killing, every path clears the restart marker before returning: the pending kill chain ends as a termination when the last child is gone")
	}
	// (c) the zombie's release is one-shot too. A zombie skips the CAS of (b), so the release it reaches through the zombie edge of
	// the termination handler needs a latch of its own: the clean-up call is dominated by the not-yet edge of a test of a bool
	// field of the context and by a store of true into that field, and nothing ever stores anything but true into it — or it is
	// dominated by a won CAS on the state. Without it a second Kill arriving through a reference that memoised the mailbox
	// reports the termination a second time and deletes the registry entry again (F39).
	if lc.OnKilledFn == nil || lc.Cleanup == nil || lc.Zombie == nil {
		return
	}
	g := p.ig(lc.OnKilledFn)
	zomb := map[edge]bool{}
	for _, ef := range p.edgeFacts(g) {
		if ef.Field == lc.Zombie && ef.Fact.Bool && ef.Fact.Op == token.NEQ {
			zomb[ef.E] = true
		}
	}
	_, won, _ := p.casEdges(g, lc.State, nil)
	for i, in := range g.Nodes {
		c := callOf(in)
		if c == nil || c.StaticCallee() != lc.Cleanup || len(zomb) == 0 || !g.DominatedByEdges(i, zomb) {
			continue
		}
		latched := len(won) > 0 && g.DominatedByEdges(i, won)
		latch := ""
		if !latched {
			notYet := map[*types.Var]map[edge]bool{}
			for _, ef := range p.edgeFacts(g) {
				if ef.Field != nil && ef.Field != lc.Zombie && ef.Fact.Bool && ef.Fact.Op == token.EQL && isBool(ef.Field.Type()) && fieldVar(lc.Ctx, ef.Field.Name()) == ef.Field {
					if notYet[ef.Field] == nil {
						notYet[ef.Field] = map[edge]bool{}
					}
					notYet[ef.Field][ef.E] = true
				}
			}
			for f, es := range notYet {
				if !g.DominatedByEdges(i, es) {
					continue
				}
				sets := nodesWhere(g, func(in2 ssa.Instruction) bool {
					st, ok := in2.(*ssa.Store)
					if !ok {
						return false
					}
					sf, _ := fieldAddr(st.Addr)
					b, isC := constBool(st.Val)
					return sf == f && isC && b
				})
				if len(sets) == 0 || !g.DominatedByNodes(i, sets) {
					continue
				}
				mono := true
				for _, a := range p.fieldAccesses(map[*types.Var]bool{f: true}) {
					if !a.Write || a.Fresh {
						continue
					}
					st, isSt := a.In.(*ssa.Store)
					if !isSt {
						mono = false
						continue
					}
					if b, isC := constBool(st.Val); !isC || !b {
						mono = false
					}
				}
				if mono {
					latched, latch = true, f.Name()
				}
			}
		}
		why := "the zombie's clean-up is dominated by a won CAS on the state, or by the not-yet edge of a bool latch of the context that is set before it and never reset"
		if latch != "" {
			why += " (latch: " + latch + ")"
		}
		r.Check(latched, "zombie release is one-shot", in.Pos(), why+": a second Kill reaching the zombie's mailbox cannot report its termination again")
	}
}

func (p *Program) ctxMethod(lc *lifecycle, name string) *ssa.Function {
	return p.methodNamed(lc.Ctx, name)
}

func c06Forward(p *Program, r *Report) {
	lc := lcOrFail(p, r)
	if lc == nil {
		return
	}
	kill := p.ctxMethod(lc, "Kill")
	g := p.ig(lc.DoKill)
	kills := nodesWhere(g, func(in ssa.Instruction) bool {
		c := callOf(in)
		return c != nil && c.StaticCallee() == kill
	})
	ok, why := g.loopExactlyOnce(kills)
	r.Check(ok, "kill forwarded once per child in "+fnName(lc.DoKill), firstPos(g, kills), "every iteration of the loop over the children calls Kill exactly once and the loop is never left early "+why)
	for k := range kills {
		c := callOf(g.Nodes[k])
		if len(c.Args) < 3 {
			continue
		}
		rec := p.origins(c.Args[1])
		pois := p.origins(c.Args[2])
		good := (allContain(rec, "Children") || allContain(rec, "children")) && allContain(pois, ".Poison<-param:")
		r.Check(good, "forwarded kill addresses the child with the incoming poison flag", g.Nodes[k].Pos(),
			fmt.Sprintf("recipient derives from the child table (%s) and poison from the handled OnKill (%s)", strings.Join(rec, " | "), strings.Join(pois, " | ")))
	}
}

// childrenField: the map field of the context that ActorOf inserts the child into.
func (p *Program) childrenField(lc *lifecycle) *types.Var {
	ao := p.ctxMethod(lc, "ActorOf")
	if ao == nil {
		return nil
	}
	st := lc.Ctx.Underlying().(*types.Struct)
	fields := map[*types.Var]bool{}
	for i := 0; i < st.NumFields(); i++ {
		if _, ok := st.Field(i).Type().Underlying().(*types.Map); ok {
			fields[st.Field(i)] = true
		}
	}
	g := p.igxSkip(ao, lc.roleFuncs(p))
	for _, a := range p.fieldAccesses(fields) {
		if a.Kind == "map-update" && g.owns(p, a.Fn) {
			return a.Field
		}
	}
	return nil
}

func c06Gate(p *Program, r *Report) {
	lc := lcOrFail(p, r)
	if lc == nil {
		return
	}
	children := p.childrenField(lc)
	if children == nil {
		r.Unresolved("children table of the context")
		return
	}
	g := p.ig(lc.MarkKilled)
	cas, succ, _ := p.casEdges(g, lc.State, &lc.Killed)
	// edges asserting "no children": fact about a call of a context method that reads the children table, == 0
	reads := map[*ssa.Function]bool{}
	for _, a := range p.fieldAccesses(map[*types.Var]bool{children: true}) {
		reads[a.Fn] = true
	}
	empty := map[edge]bool{}
	for _, ifi := range ifsOf(lc.MarkKilled) {
		for _, outcome := range []bool{true, false} {
			f, ok := condFact(ifi.Cond, outcome)
			if !ok || !(f.impliesEq(0) || notPositive(f)) {
				continue
			}
			if c, ok := strip(f.X).(*ssa.Call); ok {
				if cal := c.Call.StaticCallee(); cal != nil && reads[cal] {
					empty[g.branchEdge(ifi, outcome)] = true
				}
				// len(children-derived)
				if b, ok := c.Call.Value.(*ssa.Builtin); ok && b.Name() == "len" {
					arg := strip(c.Call.Args[0])
					if ac, ok := arg.(*ssa.Call); ok && ac.Call.StaticCallee() != nil && reads[ac.Call.StaticCallee()] {
						empty[g.branchEdge(ifi, outcome)] = true
					}
					if anyContains(p.origins(arg), "."+children.Name()+"<-") {
						empty[g.branchEdge(ifi, outcome)] = true
					}
				}
			}
		}
	}
	okGate := len(cas) > 0 && len(empty) > 0
	for c := range cas {
		if !g.DominatedByEdges(c, empty) {
			okGate = false
		}
	}
	r.Check(okGate, "killed mark only without children", firstPos(g, cas), "CAS(state, killing→killed) is reachable only through an edge asserting the child table is empty: an actor is reported terminated only after all descendants")
	// continue flag: true only on the CAS success edge (or the zombie release path)
	for _, fn := range p.Mod {
		gg := p.ig(fn)
		for i, in := range gg.Nodes {
			st, ok := in.(*ssa.Store)
			if !ok {
				continue
			}
			f, _ := fieldAddr(st.Addr)
			if f != lc.Continue {
				continue
			}
			v, isC := constBool(st.Val)
			if isC && !v {
				continue
			}
			good := false
			if fn == lc.MarkKilled {
				good = len(succ) > 0 && gg.DominatedByEdges(i, succ)
				if !good && !isC {
					// `flag = noChildren && CAS(...)`: the stored value is the CAS result itself, or false, on every incoming path
					casVals := map[ssa.Value]bool{}
					for c := range cas {
						if cv, isV := gg.Nodes[c].(ssa.Value); isV {
							casVals[cv] = true
						}
					}
					var onlyCAS func(v ssa.Value, d int) bool
					onlyCAS = func(v ssa.Value, d int) bool {
						if d > 6 {
							return false
						}
						if casVals[v] {
							return true
						}
						if b, isB := constBool(v); isB {
							return !b
						}
						if ph, isPhi := v.(*ssa.Phi); isPhi {
							for _, e := range ph.Edges {
								if !onlyCAS(e, d+1) {
									return false
								}
							}
							return len(ph.Edges) > 0
						}
						return false
					}
					good = len(casVals) > 0 && onlyCAS(st.Val, 0)
				}
			} else if fn == lc.OnKilledFn {
				zomb := map[edge]bool{}
				for _, ef := range p.edgeFacts(gg) {
					if ef.Field == lc.Zombie && ef.Fact.Bool && ef.Fact.Op == token.NEQ {
						zomb[ef.E] = true
					}
				}
				good = len(zomb) > 0 && gg.DominatedByEdges(i, zomb)
			}
			r.Check(good, "continue flag set in "+fnName(fn), st.Pos(), "the flag that lets the termination steps run is set only on the success edge of the killed CAS (or on the zombie release path)")
		}
	}
	// every later step does nothing unless the flag is set
	mk := lc.Chain.indexOf(lc.MarkKilled)
	for i, s := range lc.Chain.Steps {
		if i <= mk {
			continue
		}
		for _, f := range s.Funcs {
			fg := p.ig(f)
			avoid := p.assumeAvoid(fg, map[*types.Var]bool{lc.Continue: false})
			reach := fg.Reach(fg.entry(), nil, avoid)
			quiet := true
			for n := range reach {
				switch x := fg.Nodes[n].(type) {
				case *ssa.Call, *ssa.Go, *ssa.Defer, *ssa.MapUpdate:
					quiet = false
				case *ssa.Store:
					if _, local := x.Addr.(*ssa.Alloc); !local { // stores into local cells (captured-variable spills) are not effects
						quiet = false
					}
				}
			}
			r.Check(quiet, "step "+fnName(f)+" gated by the killed mark", f.Pos(), "with the continue flag false no call, store or send is reachable in this kill-chain step")
		}
	}
}

func c06Cleanup(p *Program, r *Report) {
	lc := lcOrFail(p, r)
	if lc == nil {
		return
	}
	g := p.igx(lc.Cleanup) // single-call helpers of the cleanup step (e.g. an extracted notification loop) stay part of its paths
	term := p.assumeAvoid(g, map[*types.Var]bool{lc.Continue: true, lc.Restarting: false})
	rest := p.assumeRestarting(lc, g)
	type eff struct {
		name  string
		nodes map[int]bool
		extra map[edge]bool // further edges assumed away (e.g. parent == nil)
		loop  bool
	}
	isInvoke := func(name string) func(ssa.Instruction) bool {
		return func(in ssa.Instruction) bool {
			c := callOf(in)
			return c != nil && c.IsInvoke() && c.Method.Name() == name
		}
	}
	var effs []eff
	effs = append(effs, eff{name: "EventStream.UnsubscribeAll", nodes: nodesWhere(g, isInvoke("UnsubscribeAll"))})
	effs = append(effs, eff{name: "registry removal", nodes: nodesWhere(g, func(in ssa.Instruction) bool {
		c := callOf(in)
		return c != nil && c.StaticCallee() == lc.RemoveRegistry
	})})
	effs = append(effs, eff{name: "Publish(ActorKilledEvent)", nodes: nodesWhere(g, func(in ssa.Instruction) bool {
		c := callOf(in)
		if c == nil || !c.IsInvoke() || c.Method.Name() != "Publish" || len(c.Args) < 2 {
			return false
		}
		return strings.HasSuffix(typeName(strip(c.Args[1]).Type()), "ActorKilledEvent")
	})})
	// tells
	var parentTell, watcherTell = map[int]bool{}, map[int]bool{}
	okMsg := true
	var cleanupTells []tellSite
	for _, f := range g.Fns {
		cleanupTells = append(cleanupTells, p.tellSites(f)...)
	}
	for _, ts := range cleanupTells {
		rec := p.origins(ts.Recipient)
		n := g.Idx[ts.In]
		switch {
		case allContain(rec, lc.pat(lc.ParentF)):
			parentTell[n] = true
		case anyContains(rec, "next<-") || anyContains(rec, "range<-"):
			watcherTell[n] = true
		default:
			r.Violate("unexpected tell in the cleanup step", ts.In.Pos(), "recipient "+strings.Join(rec, " | ")+" is neither the parent nor a watcher")
		}
		if b, ok := constBool(ts.System); !ok || !b {
			okMsg = false
		}
		if !allContain(p.origins(ts.Message), "field:"+lc.HandlerT.Obj().Name()+".") {
			okMsg = false
		}
	}
	parentNil := map[edge]bool{}
	for _, ef := range p.edgeFacts(g) {
		if ef.Field == lc.ParentF && ef.Fact.IsNil && ef.Fact.Op == token.EQL {
			parentNil[ef.E] = true
		}
	}
	effs = append(effs, eff{name: "OnKilled to the parent", nodes: parentTell, extra: parentNil})
	effs = append(effs, eff{name: "OnKilled to every watcher", nodes: watcherTell, loop: true})
	for _, e := range effs {
		if len(e.nodes) == 0 {
			r.Violate("termination effect: "+e.name, lc.Cleanup.Pos(), "the effect does not occur in the cleanup step")
			continue
		}
		if e.loop {
			ok, why := g.loopExactlyOnce(e.nodes)
			// the loop itself is reached on every terminating path: its range instruction dominates the exit
			var rng map[int]bool = nodesWhere(g, func(in ssa.Instruction) bool { _, ok := in.(*ssa.Range); return ok })
			onAll := len(rng) > 0 && !anyIn(g.Reach(g.entry(), rng, term), g.Exits)
			r.Check(ok && onAll, "termination effect: "+e.name, firstPos(g, e.nodes), "one tell per watcher, loop entered on every terminating path, never left early "+why)
		} else {
			avoid := mergeEdges(term, e.extra)
			must := !anyIn(g.Reach(g.entry(), e.nodes, avoid), g.Exits)
			once := true
			for n := range e.nodes {
				reach := g.ReachAfter(n, nil, nil)
				for m := range e.nodes {
					if reach[m] {
						once = false
					}
				}
			}
			r.Check(must && once, "termination effect: "+e.name, firstPos(g, e.nodes), "executed exactly once on every terminating (continue ∧ ¬restarting) path of the cleanup step")
		}
		reach := g.Reach(g.entry(), nil, rest)
		hit := false
		for n := range e.nodes {
			if reach[n] {
				hit = true
			}
		}
		r.Check(!hit, "not on restart: "+e.name, firstPos(g, e.nodes), "unreachable when the termination is a restart (the reference, registration, watchers and subscriptions survive)")
	}
	// the path is released before anybody is told: a parent that reacts to OnKilled by re-using the name, or calls FindActor, must not see the dead actor
	var regN, notices map[int]bool
	for _, e := range effs {
		switch e.name {
		case "registry removal":
			regN = e.nodes
		case "OnKilled to the parent", "OnKilled to every watcher", "Publish(ActorKilledEvent)":
			notices = union(notices, e.nodes)
		}
	}
	okOrder := len(regN) > 0 && len(notices) > 0
	for n := range notices {
		if !g.DominatedByNodes(n, regN) {
			okOrder = false
		}
	}
	r.Check(okOrder, "path released before the termination is reported", firstPos(g, regN), "every termination notice (OnKilled to parent and watchers, ActorKilledEvent) is dominated by the registry removal: once an actor is reported terminated, FindActor fails and its name can be reused")
	r.Check(okMsg, "termination notices are system messages carrying the self OnKilled", lc.Cleanup.Pos(), "every tell of the cleanup step has system=true and sends the handler's prepared self-OnKilled message")
	// the prepared message names the actor itself
	if lc.PrepareSelf != nil {
		good := false
		for _, b := range lc.PrepareSelf.Blocks {
			for _, in := range b.Instrs {
				if a, ok := in.(*ssa.Alloc); ok && typeIs(a.Type().(*types.Pointer).Elem(), modPath, "OnKilled") {
					if v, set := storedField(a, "Ref"); set {
						o := p.origins(v)
						good = allContain(o, lc.pat(lc.RefF)) && !anyContains(o, lc.pat(lc.ParentF))
					}
				}
			}
		}
		r.Check(good, "self OnKilled names the terminating actor", lc.PrepareSelf.Pos(), "OnKilled.Ref of the prepared message is the context's own ref")
	}
	// scheduler clear: on termination and on restart
	if lc.SchedCleanup == nil {
		r.Violate("scheduler cleared by the kill chain", lc.OnKilledFn.Pos(), "no step of the kill chain clears the actor's scheduler: jobs armed by the dying incarnation (also from its OnKill / OnKilled handlers) keep firing after it is gone")
		return
	}
	sg := p.ig(lc.SchedCleanup)
	clear := nodesWhere(sg, func(in ssa.Instruction) bool {
		c := callOf(in)
		return c != nil && c.StaticCallee() != nil && c.StaticCallee().Name() == "Clear"
	})
	for _, restarting := range []bool{false, true} {
		av := p.assumeAvoid(sg, map[*types.Var]bool{lc.Continue: true, lc.Restarting: restarting})
		r.Check(len(clear) > 0 && !anyIn(sg.Reach(sg.entry(), clear, av), sg.Exits), fmt.Sprintf("scheduler cleared (restarting=%v)", restarting), lc.SchedCleanup.Pos(),
			"the scheduler-cleanup step calls Clear on every path once the killed mark is won")
	}
	// chain membership: the cleanup and scheduler steps are in the kill chain, and the zombie release path runs the cleanup
	r.Check(lc.Chain.indexOf(lc.Cleanup) >= 0 && lc.Chain.indexOf(lc.SchedCleanup) >= 0, "cleanup steps are part of the kill chain", lc.OnKilledFn.Pos(), "both cleanup steps are appended to the kill chain")
}

func c06SpawnWhileDying(p *Program, r *Report) {
	lc := lcOrFail(p, r)
	if lc == nil {
		return
	}
	ao := p.ctxMethod(lc, "ActorOf")
	kill := p.ctxMethod(lc, "Kill")
	if ao == nil || kill == nil {
		r.Unresolved("ActorOf / Kill")
		return
	}
	g := p.ig(ao)
	facts := p.edgeFacts(g)
	avoidFor := func(c int64) map[edge]bool {
		m := map[edge]bool{}
		for _, ef := range facts {
			if ef.Field == lc.State && contradicts(ef.Fact, c) {
				m[ef.E] = true
			}
		}
		return m
	}
	newCtx := nodesWhere(g, func(in ssa.Instruction) bool {
		c := callOf(in)
		if c == nil || c.StaticCallee() == nil {
			return false
		}
		res := c.StaticCallee().Signature.Results()
		return res.Len() == 2 && namedOf(res.At(0).Type()) == lc.Ctx
	})
	if len(newCtx) == 0 {
		r.Unresolved("context constructor call in ActorOf")
		return
	}
	// killed ⇒ refuse
	reach := g.Reach(g.entry(), nil, avoidFor(lc.Killed))
	refuse := true
	for n := range newCtx {
		if reach[n] {
			refuse = false
		}
	}
	for _, ex := range g.Exits {
		if reach[ex] {
			ret := g.Nodes[ex].(*ssa.Return)
			if v := retOperand(ret, 1); v == nil || isNilConst(strip(v)) {
				refuse = false
			}
		}
	}
	r.Check(refuse, "ActorOf refuses on a killed parent", ao.Pos(), "with the observed state == killed no child context is built and every return carries an error")
	// killing ⇒ the new child is killed after being launched
	launch := map[int]bool{}
	for _, ts := range p.tellSites(ao) {
		if a := allocOf(ts.Message); a != nil && typeIs(a.Type().(*types.Pointer).Elem(), modPath, "OnLaunch") {
			launch[g.Idx[ts.In]] = true
		}
	}
	kills := nodesWhere(g, func(in ssa.Instruction) bool {
		c := callOf(in)
		return c != nil && c.StaticCallee() == kill
	})
	ok := len(launch) > 0 && len(kills) > 0
	for l := range launch {
		if anyIn(g.ReachAfter(l, kills, avoidFor(lc.Killing)), g.Exits) {
			ok = false
		}
	}
	for k := range kills {
		if !g.DominatedByNodes(k, launch) {
			ok = false
		}
		c := callOf(g.Nodes[k])
		if len(c.Args) >= 2 && !anyContains(p.origins(c.Args[1]), "#0<-call:") {
			ok = false
		}
	}
	r.Check(ok, "ActorOf kills a child spawned while the parent is killing", firstPos(g, kills), "with the observed state == killing every path from the OnLaunch tell to the return passes Kill(new child)")
	// the observation that decides must not be stale: the root's ActorOf runs on any goroutine, so the parent can start to stop
	// between a sample taken at the entry and the insertion of the child into its table — the fan-out then misses the child and
	// the stale sample says "running" (F37). A load of the state AFTER the insertion exists, and on its not-running edge every
	// path to the return kills the child.
	children := p.childrenField(lc)
	ins := map[int]bool{}
	for _, a := range p.fieldAccesses(map[*types.Var]bool{children: true}) {
		if a.Kind == "map-update" && g.owns(p, a.Fn) {
			if n, in := g.Idx[a.In]; in {
				ins[n] = true
			}
		}
	}
	// … or through a helper that inserts on every path (not spliced when it defers its unlock)
	updFns := map[*ssa.Function]map[ssa.Instruction]bool{}
	for _, a := range p.fieldAccesses(map[*types.Var]bool{children: true}) {
		if a.Kind == "map-update" {
			if updFns[a.Fn] == nil {
				updFns[a.Fn] = map[ssa.Instruction]bool{}
			}
			updFns[a.Fn][a.In] = true
		}
	}
	for i, nd := range g.Nodes {
		cc, isCall := nd.(*ssa.Call)
		if !isCall || g.Inlined[cc] != nil {
			continue
		}
		if y := cc.Call.StaticCallee(); y != nil && updFns[y] != nil {
			set := updFns[y]
			if p.mustDo(y, func(in ssa.Instruction) bool { return set[in] }, 1) {
				ins[i] = true
			}
		}
	}
	fresh := map[edge]bool{}
	for _, ef := range p.edgeFacts(g) {
		if ef.Field != lc.State || ef.Load == nil {
			continue
		}
		ld, isIn := ef.Load.(ssa.Instruction)
		if !isIn {
			continue
		}
		li, in := g.Idx[ld]
		if !in || !g.DominatedByNodes(li, ins) {
			continue
		}
		// "not running": state != running, or state == killing / killed
		f := ef.Fact
		// only "!= running" covers both killing and killed: a parent without other children goes running→killing→killed within one
		// message, and a re-check for "== killing" alone lets a child registered in that window live on under a dead parent
		if f.Op == token.NEQ && f.C == lc.Running {
			fresh[ef.E] = true
		}
	}
	okF := len(ins) > 0 && len(fresh) > 0
	for e := range fresh {
		if !kills[e.to] && anyIn(g.Reach([]int{e.to}, kills, nil), g.Exits) {
			okF = false
		}
	}
	r.Check(okF, "ActorOf decides on the state read after the child is in the table", firstPos(g, kills), "a load of the parent's state dominated by the child-table insertion exists, and from its not-running edge every path to the return passes Kill(new child): a parent that starts to stop while ActorOf runs either sees the child in its fan-out or is seen stopping here")
}

func c06ChainOrder(p *Program, r *Report) {
	lc := lcOrFail(p, r)
	if lc == nil {
		return
	}
	a, b := lc.Chain.indexOf(lc.ChildDeath), lc.Chain.indexOf(lc.MarkKilled)
	r.Check(a >= 0 && b >= 0 && a < b, "child death precedes the killed gate", lc.OnKilledFn.Pos(), fmt.Sprintf("kill chain order: child-table delete is step %d, killed gate is step %d", a, b))
	// inside the child-death step: the dead child's entry is gone before the user's handler for that death runs. The table is
	// keyed by path: a handler that re-spawns the child under the same name inserts a new entry, and a delete that comes
	// afterwards removes the live child's entry — the kill fan-out never reaches it and the parent is reported terminated first.
	if lc.ChildDeath == nil || lc.ExecRecover == nil {
		return
	}
	g := p.igxSkip(lc.ChildDeath, map[*ssa.Function]bool{lc.ExecRecover: true})
	children := p.childrenField(lc)
	dels := nodesWhere(g, func(in ssa.Instruction) bool {
		if cc, ok := in.(*ssa.Call); ok {
			if bi, isB := cc.Call.Value.(*ssa.Builtin); isB && bi.Name() == "delete" && len(cc.Call.Args) == 2 {
				if f, _ := fieldLoad(strip(cc.Call.Args[0])); f == children {
					return true
				}
			}
			// through a helper of the context that deletes on every path
			if y := cc.Call.StaticCallee(); y != nil && p.inModule(y) && g.Inlined[cc] == nil {
				// … on every path except the one on which the (lazily created) table itself is nil: there is no entry then
				yg := p.ig(y)
				yd := nodesWhere(yg, func(in2 ssa.Instruction) bool {
					c2, ok2 := in2.(*ssa.Call)
					if !ok2 {
						return false
					}
					bi, isB := c2.Call.Value.(*ssa.Builtin)
					if !isB || bi.Name() != "delete" || len(c2.Call.Args) != 2 {
						return false
					}
					f, _ := fieldLoad(strip(c2.Call.Args[0]))
					return f == children
				})
				return len(yd) > 0 && !anyIn(yg.Reach(yg.entry(), yd, noEntryEdges(p, yg, children)), yg.Exits)
			}
		}
		return false
	})
	runs := nodesWhere(g, func(in ssa.Instruction) bool { c := callOf(in); return c != nil && c.StaticCallee() == lc.ExecRecover })
	ok := len(dels) > 0
	before := g.Reach(g.entry(), dels, noEntryEdges(p, g, children))
	for rn := range runs {
		if before[rn] {
			ok = false
		}
	}
	r.Check(ok, "child entry removed before the death handler runs", firstPos(g, dels), "in the child-death step every run of the user's behaviour is dominated by the removal of the dead child's entry from the child table")
	// … and only the entry of the actor the notice names. The table is keyed by PATH, and the step runs for every foreign OnKilled —
	// also for a watched actor on another system, whose path may equal the path of a local child (symmetric deployments). Every
	// delete from the child table under a key that is not a ranged key of the table itself is dominated by the edge on which the entry
	// looked up in the table is identical (==) to a reference: a comparison by address and path is not enough, a dying actor frees
	// its name before its parent has handled the notice and the parent may have re-created the name meanwhile (F41, F45).
	for _, a := range p.fieldAccesses(map[*types.Var]bool{children: true}) {
		if a.Kind != "delete" || a.Fresh {
			continue
		}
		dg := p.ig(a.Fn)
		di, in := dg.Idx[a.In]
		if !in {
			continue
		}
		dc := a.In.(*ssa.Call)
		if ex, isEx := strip(dc.Call.Args[1]).(*ssa.Extract); isEx {
			if _, isNext := ex.Tuple.(*ssa.Next); isNext {
				continue // clearing loop over the table's own keys
			}
		}
		same, _ := identityEdges(p, dg, children)
		r.Check(len(same) > 0 && dg.DominatedByEdges(di, same), "child entry removed only for the actor the notice names ("+a.Fn.Name()+")", a.In.Pos(), "the delete from the path-keyed child table is dominated by the edge on which the entry looked up in the table IS (==) the reference of the notice: neither the death of an actor with the same path on another system (F41) nor the late notice of a predecessor whose name was re-used (F45) removes a live child")
	}
}

// c06WatchRegisters: "every actor watching it receives exactly one OnKilled" needs every watch request to end up in the table
// the cleanup step iterates. The table is found from that loop; in each function storing into it, no path reaches an exit
// without the store except through: the edge on which the requester is the parent (told separately by the cleanup), the
// edge on which the stored reference is the requester's own object, or a direct tell to the requester. ("The key is already
// present" does not exempt: the key is address@path, the stored reference may be a dead namesake's — F38.)
func c06WatchRegisters(p *Program, r *Report) {
	lc := lcOrFail(p, r)
	if lc == nil {
		return
	}
	cg := p.igx(lc.Cleanup)
	var table *types.Var
	func() {
		defer p.withGraph(cg)()
		for _, f := range cg.Fns {
			for _, ts := range p.tellSites(f) {
				for _, o := range p.origins(ts.Recipient) {
					if i := strings.Index(o, "next<-range<-field:"+lc.Ctx.Obj().Name()+"."); i >= 0 {
						name := o[i+len("next<-range<-field:"+lc.Ctx.Obj().Name()+"."):]
						if j := strings.Index(name, "<-"); j >= 0 {
							name = name[:j]
						}
						table = fieldVar(lc.Ctx, name)
					}
				}
			}
		}
	}()
	if table == nil {
		r.Unresolved("watcher table (the context field the cleanup step's notification loop ranges over)")
		return
	}
	n := 0
	for _, fn := range p.methodsOf(lc.Ctx) {
		if fn.Parent() != nil || len(fn.Blocks) == 0 {
			continue
		}
		direct := false
		for _, b := range fn.Blocks {
			for _, in := range b.Instrs {
				if mu, ok := in.(*ssa.MapUpdate); ok {
					if f, _ := fieldLoad(strip(mu.Map)); f == table {
						direct = true
					}
				}
			}
		}
		if !direct {
			continue
		}
		g := p.igx(fn)
		restore := p.withGraph(g)
		stores := map[int]bool{}
		allowed := map[edge]bool{}
		for i, in := range g.Nodes {
			switch x := in.(type) {
			case *ssa.MapUpdate:
				if f, _ := fieldLoad(strip(x.Map)); f == table {
					stores[i] = true
				}
			case *ssa.Lookup:
				// "the same key is already present" is NOT enough: the table is keyed by address@path, and the reference
				// stored under that key may belong to an earlier incarnation of the same name, whose memoised mailbox is gone
				// (F38). Only the edge on which the stored reference IS the requester's reference object exempts.
				if f, _ := fieldLoad(strip(x.X)); f == table {
					for _, ifi := range g.ifs() {
						for _, oc := range []bool{true, false} {
							fc, ok := condFact(ifi.Cond, oc)
							if !ok || fc.Y == nil || fc.Op != token.EQL {
								continue
							}
							isStored := func(v ssa.Value) bool {
								v = strip(v)
								if ex, isEx := v.(*ssa.Extract); isEx && ex.Index == 0 {
									return ex.Tuple == ssa.Value(x)
								}
								return v == ssa.Value(x)
							}
							isReq := func(v ssa.Value) bool { return anyContains(p.origins(v), "Sender") }
							if (isStored(fc.X) && isReq(fc.Y)) || (isStored(fc.Y) && isReq(fc.X)) {
								allowed[g.branchEdge(ifi, oc)] = true
							}
						}
					}
				}
			}
		}
		isParent, _ := callEdges(g, func(c *ssa.Call) bool {
			name := ""
			if c.Call.IsInvoke() {
				name = c.Call.Method.Name()
			} else if sc := c.Call.StaticCallee(); sc != nil {
				name = sc.Name()
			}
			if name != "Equals" {
				return false
			}
			for _, a := range append([]ssa.Value{c.Call.Value}, c.Call.Args...) {
				if a != nil && allContain(p.origins(a), lc.pat(lc.ParentF)) {
					return true
				}
			}
			return false
		})
		for e := range isParent {
			allowed[e] = true
		}
		// a direct answer to the requester instead of a registration
		for _, f := range g.Fns {
			for _, ts := range p.tellSites(f) {
				if ts.Recipient != nil && anyContains(p.origins(ts.Recipient), "Sender") {
					stores[g.Idx[ts.In]] = true
				}
			}
		}
		restore()
		n++
		leak := anyIn(g.Reach(g.entry(), stores, allowed), g.Exits)
		r.Check(!leak, "watch request is recorded on every path ("+fn.Name()+")", fn.Pos(),
			"from the entry of the handler every path stores the requester into the watcher table, except on the edge where the requester is the parent, where the reference stored under the key is the requester's own reference object, or after telling the requester directly: a watcher that is not recorded — or whose key holds the reference of a dead namesake — never receives OnKilled")
	}
	if n == 0 {
		r.Unresolved("no function stores into the watcher table")
	}
	// the comparison with the parent must be safe for the ROOT, whose parent field is a nil pointer of the reference type: the
	// reference type's Equals(other) calls methods on `other` only where `other` is known not to be that typed nil — otherwise
	// every watch request to the root dereferences nil in the root's mailbox goroutine, outside any recover (F44).
	if refT := namedOf(lc.RefF.Type()); refT != nil {
		if eq := p.methodNamed(refT, "Equals"); eq != nil && len(eq.Params) == 2 {
			eg := p.ig(eq)
			other := eq.Params[1]
			safe := map[edge]bool{}
			for _, ifi := range eg.ifs() {
				for _, oc := range []bool{true, false} {
					f, ok := condFact(ifi.Cond, oc)
					if !ok {
						continue
					}
					e := eg.branchEdge(ifi, oc)
					x := strip(f.X)
					if ex, isEx := x.(*ssa.Extract); isEx {
						if ta, isTA := ex.Tuple.(*ssa.TypeAssert); isTA && ta.X == ssa.Value(other) && namedOf(ta.AssertedType) == refT {
							if (ex.Index == 0 && f.IsNil && f.Op == token.NEQ) || (ex.Index == 1 && f.Bool && f.Op == token.EQL) {
								safe[e] = true
							}
						}
					}
				}
			}
			okEq := true
			var posEq = eq.Pos()
			for i, in := range eg.Nodes {
				c := callOf(in)
				if c == nil || !c.IsInvoke() || c.Value != ssa.Value(other) {
					continue
				}
				if len(safe) == 0 || !eg.DominatedByEdges(i, safe) {
					okEq, posEq = false, in.Pos()
				}
			}
			r.Check(okEq, "reference equality is safe for the root's absent parent", posEq, "every method call on Equals' argument is dominated by the edge on which the argument is not a nil pointer of the reference type (or is not of that type): the root compares every watch requester with its nil parent")
		}
	}
	// the table as a whole is replaced only when it is created lazily (a fresh map stored on the edge where the field is nil) or on a
	// path of a kill-chain step that a RESTART cannot take: a restart keeps the reference and its watchers, and the steps of the
	// chain other than the clean-up run for restarts too. A table dropped on a restart path forgets everybody who watched the
	// actor before the restart: when it finally dies only the parent is told.
	for _, a := range p.fieldAccesses(map[*types.Var]bool{table: true}) {
		st, isSt := a.In.(*ssa.Store)
		if !a.Write || a.Fresh || !isSt {
			continue
		}
		if f, _ := fieldAddr(st.Addr); f != table {
			continue
		}
		g := p.ig(a.Fn)
		si := g.Idx[a.In]
		if _, isMake := strip(st.Val).(*ssa.MakeMap); isMake {
			if g.DominatedByEdges(si, nilTableEdges(p, g, table)) {
				r.Check(true, "watcher table replaced in "+fnName(a.Fn), a.In.Pos(), "lazy creation: a fresh map is stored on the edge on which the field is nil")
				continue
			}
		}
		okR := false
		why := "the store is neither the lazy creation nor inside a kill-chain step"
		root := a.Fn
		for root.Parent() != nil {
			root = root.Parent()
		}
		for _, stp := range lc.Chain.Steps {
			for _, sf := range stp.Funcs {
				sg := p.igxSkip(sf, lc.roleFuncs(p))
				if sf != root && !sg.owns(p, a.Fn) {
					continue
				}
				ni, in := sg.Idx[a.In]
				if !in {
					continue
				}
				restartPaths := p.assumeAvoid(sg, map[*types.Var]bool{lc.Continue: true, lc.Restarting: true})
				okR = !sg.Reach(sg.entry(), nil, restartPaths)[ni]
				why = "in a kill-chain step, and not reachable on the paths a restart takes (continue ∧ restarting)"
				if !okR {
					why = "the step runs for restarts too and the store is reachable with the restarting flag set: watchers registered before a restart are forgotten, the actor's later death is reported to its parent only"
				}
			}
		}
		r.Check(okR, "watcher table replaced in "+fnName(a.Fn), a.In.Pos(), why)
	}
}

// nilTableEdges: the edges of g asserting that the map field f is nil (a lazily created table that was never created holds no entry)
func nilTableEdges(p *Program, g *IG, f *types.Var) map[edge]bool {
	out := map[edge]bool{}
	for _, ef := range p.edgeFacts(g) {
		if ef.Field == f && ef.Fact.IsNil && ef.Fact.Op == token.EQL {
			out[ef.E] = true
		}
	}
	return out
}

// identityEdges: the edges of g on which the entry looked up in the path-keyed table f IS (==) / IS NOT (!=) another value
func identityEdges(p *Program, g *IG, f *types.Var) (same, notSame map[edge]bool) {
	same, notSame = map[edge]bool{}, map[edge]bool{}
	fromTable := func(v ssa.Value) bool {
		w := strip(v)
		if ex, isEx := w.(*ssa.Extract); isEx {
			w = ex.Tuple
		}
		if lk, isL := w.(*ssa.Lookup); isL {
			if lf, _ := fieldLoad(strip(lk.X)); lf == f {
				return true
			}
		}
		return false
	}
	for _, ifi := range g.ifs() {
		for _, oc := range []bool{true, false} {
			fc, ok := condFact(ifi.Cond, oc)
			if !ok || fc.Y == nil || (fc.Op != token.EQL && fc.Op != token.NEQ) {
				continue
			}
			if !fromTable(fc.X) && !fromTable(fc.Y) {
				continue
			}
			if fc.Op == token.EQL {
				same[g.branchEdge(ifi, oc)] = true
			} else {
				notSame[g.branchEdge(ifi, oc)] = true
			}
		}
	}
	return
}

// noEntryEdges: the edges of g on which the path-keyed table f holds no entry for the actor a notice names: the table is nil, the
// lookup under the key missed, or the entry found is not the very reference (a namesake on another system, a same-name successor).
func noEntryEdges(p *Program, g *IG, f *types.Var) map[edge]bool {
	out := nilTableEdges(p, g, f)
	for _, in := range g.Nodes {
		if lk, isL := in.(*ssa.Lookup); isL && lk.CommaOk {
			if lf, _ := fieldLoad(strip(lk.X)); lf == f {
				_, missing := g.okEdgesLookup(lk)
				for e := range missing {
					out[e] = true
				}
			}
		}
	}
	_, notSame := identityEdges(p, g, f)
	for e := range notSame {
		out[e] = true
	}
	return out
}

// atomicCall2: v is the result of an atomic operation on a field (a load), else nil
func atomicCall2(v ssa.Value) *atomicOp {
	if in, ok := strip(v).(ssa.Instruction); ok {
		return atomicCall(in)
	}
	return nil
}
