package main

// Field facts on branch edges: "on this edge, field F (loaded by instruction L)
// satisfies <Op> C". Boolean accessors such as IsPaused() are inlined one level.

import (
	"go/token"
	"go/types"

	"golang.org/x/tools/go/ssa"
)

type edgeFact struct {
	E     edge
	If    *ssa.If
	Field *types.Var
	Fact  cmpFact
	Load  ssa.Instruction // the instruction in THIS function that observes the field (load, atomic load call, accessor call)
}

// loadOfField: v is the result of observing a struct field — a plain load, an
// atomic load, a method call on an atomic-typed field (x.f.Load()), or a
// one-block accessor of the module returning such a load.
func (p *Program) loadOfField(v ssa.Value) (*types.Var, ssa.Instruction) {
	v = strip(v)
	switch x := v.(type) {
	case *ssa.UnOp:
		if x.Op == token.MUL {
			if f, _ := fieldAddr(x.X); f != nil {
				return f, x
			}
		}
	case *ssa.Call:
		if a := atomicCall(x); a != nil && a.Op == "Load" && a.Field != nil {
			return a.Field, x
		}
		if f := x.Call.StaticCallee(); f != nil && p.inModule(f) && len(f.Blocks) == 1 {
			// accessor: return <load of recv field>
			if ret, ok := f.Blocks[0].Instrs[len(f.Blocks[0].Instrs)-1].(*ssa.Return); ok && len(ret.Results) == 1 {
				if fld, _ := p.loadOfField(ret.Results[0]); fld != nil {
					return fld, x
				}
			}
		}
	}
	return nil, nil
}

// edgeFacts lists, for every If of fn, the field facts holding on each outgoing edge.
func (p *Program) edgeFacts(g *IG) []edgeFact {
	var out []edgeFact
	for _, ifi := range g.ifs() {
		for _, outcome := range []bool{true, false} {
			e := g.branchEdge(ifi, outcome)
			if f, ok := condFact(ifi.Cond, outcome); ok {
				if fld, ld := p.loadOfField(f.X); fld != nil {
					out = append(out, edgeFact{E: e, If: ifi, Field: fld, Fact: f, Load: ld})
					continue
				}
				// boolean accessor: cond is a call whose single-block body returns a comparison
				if f.Bool {
					if call, ok := f.X.(*ssa.Call); ok {
						if cal := call.Call.StaticCallee(); cal != nil && p.inModule(cal) && len(cal.Blocks) == 1 {
							if ret, ok := cal.Blocks[0].Instrs[len(cal.Blocks[0].Instrs)-1].(*ssa.Return); ok && len(ret.Results) == 1 {
								want := f.Op == token.NEQ // accessor result is true on this edge
								if inner, ok := condFact(ret.Results[0], want); ok {
									if fld, _ := p.loadOfField(inner.X); fld != nil {
										out = append(out, edgeFact{E: e, If: ifi, Field: fld, Fact: inner, Load: call})
									}
								}
							}
						}
					}
				}
			}
		}
	}
	return out
}

// mustPass: every path from node `from` (exclusive) to node `to` passes through a node of `via`.
func (g *IG) mustPass(from, to int, via map[int]bool) bool {
	if via[to] {
		return true
	}
	r := g.ReachAfter(from, via, nil)
	return !r[to]
}
