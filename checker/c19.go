package main

// C19 — event stream: tables under the mutex, the two indexes agree, fan-out
// exactly once to a snapshot of the event's own type, idempotent subscribe.

import (
	"fmt"
	"go/ast"
	"go/token"
	"go/types"
	"strings"

	"golang.org/x/tools/go/ssa"
)

func init() {
	register(&Property{
		ID: "C19",
		Explanation: "Decided: (R1) both subscription tables (and the inner maps reached through them) are read and written only with the stream's mutex held, Publish iterates a private snapshot; " +
			"(R2) every path that inserts into / deletes from one index performs the matching update of the other index in the same call; (R3) Publish looks up the event's own reflect.Type, and tells every element of the snapshot exactly once, as a user message carrying the published value; " +
			"(R5) the termination path unsubscribes the actor from everything, the restart path does not; (R6) in the cleanup step UnsubscribeAll dominates the release of the actor's path and every termination notice, so nobody who has observed the termination can still publish to the dead actor, and a successor under the same name cannot lose its subscriptions to the old incarnation's late UnsubscribeAll. " +
			"(Idempotence of a repeated Subscribe follows from map assignment semantics given R2 and needs no rule: a rule demanding the existence check would fire on a behaviour-preserving edit.) (R7) inside the module UnsubscribeAll is called only by a kill-chain step with the dying actor's own context or with the context a behaviour was handed: the tables are keyed by path, so any other caller drops the subscriptions of whoever lives at that path. (R8) a reference memoises only the mailbox of the context found registered at its path, never a miss: the subscriber table holds the actor's own reference object, and a subscriber that subscribed in OnPrelaunch is resolved before it is registered whenever an event of its type is published in that window — a pinned dead-letter mailbox would turn every later event for it into a dead letter. (R9 = C09.R3) the supervisor's resume broadcast follows a restart directive only for the graceful form: a plain restart keeps the mailbox paused until the restart step resumes it in state running, so events published while a subscriber with children waits for them are handled by the restarted instance instead of being popped in state killing and dead-lettered. (R10 = C01.R2) the subscriber's mailbox re-checks for work after giving up its processing right, so an event enqueued at that instant is not left unseen; (R11 = C08.R7) everything a supervisor suspends is recorded as a target, the reporter included. NOT decided: delivery order across publishers, 'not delivered after Unsubscribe returned' when a publish races the unsubscribe.",
		Assumptions: []string{"sync.RWMutex semantics", "maps.Clone returns a fresh map"},
		Rules: []Rule{
			{ID: "C19.R1", Min: 30, Desc: "tables only under mu; snapshot iteration", Fn: c19Tables},
			{ID: "C19.R7", Min: 1, Desc: "the library unsubscribes an actor from everything only for that actor itself", Fn: c19UnsubscribeOwner},
			{ID: "C19.R8", Min: 1, Desc: "a reference memoises only the mailbox of the registered context, never a miss (strict form of C03.R7)", Fn: c19CacheOnlyFound},
			{ID: "C19.R9", Min: 6, Desc: "a restart keeps subscriptions: the supervisor resumes a restarting subscriber's mailbox only when the restart cannot take over by itself (C09.R3)", Fn: c09Broadcast},
			{ID: "C19.R10", Min: 2, Desc: "an event enqueued while the subscriber's consumer goes idle is not stranded: the exit re-check of the mailbox (C01.R2)", Fn: c01Release},
			{ID: "C19.R11", Min: 2, Desc: "every supervision target is paused and recorded, the reporter included: a restart decision never reaches an open mailbox (C08.R7)", Fn: c08RecordedTargets},
			{ID: "C19.R2", Min: 8, Desc: "indexes updated together; whole entries deleted only when empty", Fn: c19Indexes},
			{ID: "C19.R3", Min: 3, Desc: "fan-out: own type key, each snapshot element told exactly once with the event", Fn: c19Fanout},
			{ID: "C19.R5", Min: 2, Desc: "unsubscribe-all on termination, not on restart", Fn: c19Lifecycle},
			{ID: "C19.R6", Min: 1, Desc: "subscriptions dropped before the termination becomes observable", Fn: c19BeforeReported},
		},
	})
}

type esRoles struct {
	T        *types.Named
	Mu       *types.Var
	ByType   *types.Var // event type -> path -> ref
	ByPath   *types.Var // path -> set of event types
	Publish  *ssa.Function
	problems []string
}

func (p *Program) eventStreamRoles() *esRoles {
	r := &esRoles{}
	es := p.Iface("", "EventStream")
	if es == nil {
		r.problems = append(r.problems, "vivid.EventStream not found")
		return r
	}
	for _, pk := range p.Pkgs {
		sc := pk.Types.Scope()
		for _, name := range sc.Names() {
			tn, ok := sc.Lookup(name).(*types.TypeName)
			if !ok || tn.IsAlias() {
				continue
			}
			n, ok := tn.Type().(*types.Named)
			if !ok {
				continue
			}
			if _, ok := n.Underlying().(*types.Struct); ok && types.Implements(types.NewPointer(n), es) {
				r.T = n
			}
		}
	}
	if r.T == nil {
		r.problems = append(r.problems, "no implementation of vivid.EventStream")
		return r
	}
	st := r.T.Underlying().(*types.Struct)
	refT := p.Named("", "ActorRef")
	for i := 0; i < st.NumFields(); i++ {
		f := st.Field(i)
		if typeIs(f.Type(), "sync", "RWMutex") || typeIs(f.Type(), "sync", "Mutex") {
			r.Mu = f
		}
		if m, ok := f.Type().Underlying().(*types.Map); ok {
			if inner, ok := m.Elem().Underlying().(*types.Map); ok {
				if refT != nil && types.Identical(inner.Elem(), refT) {
					r.ByType = f
				} else {
					r.ByPath = f
				}
			}
		}
	}
	r.Publish = p.methodNamed(r.T, "Publish")
	if r.Mu == nil || r.ByType == nil || r.ByPath == nil || r.Publish == nil {
		r.problems = append(r.problems, "event stream roles (mutex, by-type table, by-path table, Publish) not all found")
	}
	return r
}

func c19Roles(p *Program, r *Report) *esRoles {
	es := p.eventStreamRoles()
	if len(es.problems) > 0 {
		for _, pr := range es.problems {
			r.Unresolved(pr)
		}
		return nil
	}
	return es
}

func c19Tables(p *Program, r *Report) {
	es := c19Roles(p, r)
	if es == nil {
		return
	}
	lk := ownerStruct(p, es.Mu)
	p.checkFieldTable(r, relPkg(es.T.Obj().Pkg()), es.T.Obj().Name(), map[string]fieldClass{
		es.ByType.Name(): {Class: "guarded", Lock: lk},
		es.ByPath.Name(): {Class: "guarded", Lock: lk},
	}, nil)
}

// innerWrites lists inner/outer map mutations through field f in fn: kind ∈ {insert-inner, insert-outer, delete-inner, delete-outer}.
type tableWrite struct {
	node int
	kind string
	in   ssa.Instruction
}

func (p *Program) tableWrites(fn *ssa.Function, f *types.Var) []tableWrite {
	g := p.ig(fn)
	var out []tableWrite
	for _, a := range p.fieldAccesses(map[*types.Var]bool{f: true}) {
		if a.Fn != fn || !a.Write {
			continue
		}
		var mt types.Type
		switch x := a.In.(type) {
		case *ssa.MapUpdate:
			mt = x.Map.Type()
		case *ssa.Call:
			if len(x.Call.Args) > 0 {
				mt = x.Call.Args[0].Type()
			}
		default:
			continue
		}
		m, ok := mt.Underlying().(*types.Map)
		if !ok {
			continue
		}
		_, outer := m.Elem().Underlying().(*types.Map)
		kind := "insert"
		if a.Kind == "delete" {
			kind = "delete"
		}
		if outer {
			kind += "-outer"
		} else {
			kind += "-inner"
		}
		out = append(out, tableWrite{g.Idx[a.In], kind, a.In})
	}
	return out
}

// tableWritesX: the direct table writes of fn plus, for calls of other methods of the stream that perform a write of one
// kind on EVERY path (a "removeLocked" helper), that write attributed to the call node (must-summary).
func (p *Program) tableWritesX(es *esRoles, fn *ssa.Function, f *types.Var) []tableWrite {
	out := p.tableWrites(fn, f)
	g := p.ig(fn)
	for i, in := range g.Nodes {
		c, ok := in.(*ssa.Call)
		if !ok {
			continue
		}
		h := c.Call.StaticCallee()
		if h == nil || h == fn || h.Signature.Recv() == nil || namedOf(h.Signature.Recv().Type()) != es.T || len(h.Blocks) == 0 {
			continue
		}
		hw := p.tableWrites(h, f)
		hg := p.ig(h)
		for _, kind := range []string{"insert-inner", "delete-inner", "delete-outer"} {
			via := map[int]bool{}
			for _, w := range hw {
				if w.kind == kind {
					via[w.node] = true
				}
			}
			if len(via) > 0 && !anyIn(hg.Reach(hg.entry(), via, nil), hg.Exits) {
				out = append(out, tableWrite{i, kind, in})
			}
		}
	}
	return out
}

// internalHelper: fn is called by other methods of the stream only (its index mutations are matched at those call sites).
func (p *Program) internalHelper(es *esRoles, fn *ssa.Function) bool {
	node := p.CG.Nodes[fn]
	if node == nil || len(node.In) == 0 || ast.IsExported(fn.Name()) {
		return false
	}
	for _, e := range node.In {
		cf := e.Caller.Func
		if cf.Signature.Recv() == nil || namedOf(cf.Signature.Recv().Type()) != es.T {
			return false
		}
	}
	return true
}

func c19Indexes(p *Program, r *Report) {
	es := c19Roles(p, r)
	if es == nil {
		return
	}
	n := 0
	for _, fn := range p.methodsOf(es.T) {
		if fn.Parent() != nil {
			continue
		}
		g := p.ig(fn)
		a := p.tableWritesX(es, fn, es.ByType)
		b := p.tableWritesX(es, fn, es.ByPath)
		if p.internalHelper(es, fn) {
			n += len(a) + len(b)
			if len(a)+len(b) > 0 {
				r.Lookup(fmt.Sprintf("index mutations of helper %s", fnName(fn)), fn.Pos(), "called by methods of the stream only: its mutations are attributed to and matched at the call sites")
			}
			continue
		}
		check := func(xs, ys []tableWrite, xname, yname string) {
			for _, x := range xs {
				var match map[int]bool
				switch x.kind {
				case "insert-inner":
					match = map[int]bool{}
					for _, y := range ys {
						if y.kind == "insert-inner" {
							match[y.node] = true
						}
					}
				case "delete-inner":
					match = map[int]bool{}
					for _, y := range ys {
						if y.kind == "delete-inner" || y.kind == "delete-outer" {
							match[y.node] = true
						}
					}
				default:
					continue
				}
				n++
				ok := len(match) > 0 && (g.DominatedByNodes(x.node, match) || !anyIn(g.ReachAfter(x.node, match, nil), g.Exits))
				r.Check(ok, fmt.Sprintf("%s %s in %s matched in %s", xname, x.kind, fnName(fn), yname), x.in.Pos(),
					"every path through this index mutation also performs the corresponding mutation of the other index (before it on all paths, or after it on all paths to the exit)")
			}
		}
		check(a, b, es.ByType.Name(), es.ByPath.Name())
		check(b, a, es.ByPath.Name(), es.ByType.Name())
	}
	// whole-entry deletes: an outer delete(T, k) drops every inner entry of k at once. It is allowed only on an edge asserting
	// that T[k] (same table, same key) is empty, or after a loop over T[k] that removes the mirrored entries one by one
	// (UnsubscribeAll). Guarding it by the emptiness of the OTHER index's entry silently drops live subscriptions from one
	// index while they stay in the other.
	for _, fn := range p.methodsOf(es.T) {
		if fn.Parent() != nil {
			continue
		}
		for _, tbl := range []*types.Var{es.ByType, es.ByPath} {
			n += p.wholeEntryDeletes(r, fn, tbl, "a whole entry is never dropped while it still records subscriptions")
		}
	}
	if n == 0 {
		r.Unresolved("no index mutation found in the event stream")
	}
}

func c19Fanout(p *Program, r *Report) {
	es := c19Roles(p, r)
	if es == nil {
		return
	}
	fn := es.Publish
	g := p.igx(fn) // the locked snapshot may be taken by a single-use helper
	if len(fn.Params) < 3 {
		r.Unresolved("Publish(ctx, event) parameters")
		return
	}
	event := fn.Params[2]
	// (1) the lookup key in the by-type table is reflect.TypeOf(event)
	okKey, nKey := true, 0
	for _, a := range p.fieldAccesses(map[*types.Var]bool{es.ByType: true}) {
		if !g.owns(p, a.Fn) || a.Kind != "lookup" {
			continue
		}
		lk := a.In.(*ssa.Lookup)
		if _, outer := lk.X.Type().Underlying().(*types.Map).Elem().Underlying().(*types.Map); !outer {
			continue
		}
		nKey++
		c, ok := g.res(lk.Index).(*ssa.Call)
		if !ok || calleeQual(&c.Call) != "reflect.TypeOf" || g.res(c.Call.Args[0]) != ssa.Value(event) {
			okKey = false
		}
	}
	r.Check(okKey && nKey > 0, "Publish looks up the event's own type", fn.Pos(), "the by-type table is indexed with reflect.TypeOf(event) of the published value")
	// (2) the loop ranges over a value that is not the shared table (snapshot) and tells each element once
	var rng *ssa.Range
	for _, in := range g.Nodes {
		if x, ok := in.(*ssa.Range); ok && (rng == nil || x.Parent() == fn) {
			rng = x
		}
	}
	// events of one publisher reach a subscriber in publication order only if the fan-out completes before Publish returns:
	// no tell of the stream may run on a goroutine spawned by Publish
	for _, af := range withAnon(fn) {
		for _, b := range af.Blocks {
			for _, in := range b.Instrs {
				gi, isGo := in.(*ssa.Go)
				if !isGo {
					continue
				}
				var target *ssa.Function
				if mc, isMC := gi.Call.Value.(*ssa.MakeClosure); isMC {
					target, _ = mc.Fn.(*ssa.Function)
				} else if sc := gi.Call.StaticCallee(); sc != nil {
					target = sc
				} else {
					// go f() with f a local closure value
					for _, cand := range withAnon(fn) {
						if cand != fn {
							for _, ts := range p.tellSites(cand) {
								_ = ts
								target = cand
							}
						}
					}
				}
				if target == nil {
					continue
				}
				async := false
				for _, tf := range withAnon(target) {
					if len(p.tellSites(tf)) > 0 {
						async = true
					}
					for _, bb := range tf.Blocks {
						for _, in2 := range bb.Instrs {
							if c := callOf(in2); c != nil && c.StaticCallee() == p.tellFunc() {
								async = true
							}
						}
					}
				}
				if async {
					r.Violate("Publish delivers on a goroutine", gi.Pos(), "the fan-out (or part of it) runs on a goroutine spawned by Publish: two consecutive publishes of one publisher start unordered goroutines, a subscriber can see event n+1 before event n")
				}
			}
		}
	}
	if rng == nil {
		// the loop may live in a local closure called synchronously
		for _, af := range withAnon(fn) {
			if af == fn {
				continue
			}
			for _, b := range af.Blocks {
				for _, in := range b.Instrs {
					if _, ok := in.(*ssa.Range); ok {
						r.Undecided("Publish fan-out loop in a local closure", in.Pos(), "the loop over the snapshot is not in Publish's own body: the exactly-once fan-out is not decided for this shape")
						return
					}
				}
			}
		}
		r.Unresolved("Publish has no range loop over subscribers")
		return
	}
	// the snapshot may also be a slice filled under the lock from the shared table and delivered from outside it
	if c19FanoutSlice(p, r, g, fn, event, rng) {
		return
	}
	snap := true
	for _, x := range g.values(rng.X) {
		switch y := x.(type) {
		case *ssa.Call:
			if calleeQual(&y.Call) != "maps.Clone" {
				snap = false
			}
		case *ssa.MakeMap:
			// a locally built copy: make + loop of map updates under the lock
		default:
			snap = false
		}
	}
	r.Check(snap, "Publish iterates a snapshot", rng.Pos(), "the delivery loop ranges over a private copy (maps.Clone / locally built map), not over the shared table")
	// tells inside the loop
	var next *ssa.Next
	for _, in := range g.Nodes {
		if x, ok := in.(*ssa.Next); ok && x.Iter == ssa.Value(rng) {
			next = x
		}
	}
	if next == nil {
		r.Unresolved("range iterator of Publish")
		return
	}
	okE, _ := g.okEdgesNext(next)
	tells := p.tellSites(fn)
	tellNodes := map[int]bool{}
	good := len(tells) > 0
	for _, ts := range tells {
		tellNodes[g.Idx[ts.In]] = true
		// recipient = range value, message derives from event, user message
		if !derivesFromExtract(ts.Recipient, next, 2) {
			good = false
		}
		if strip(ts.Message) != ssa.Value(event) {
			good = false
		}
		if ts.System != nil {
			if b, ok := constBool(ts.System); !ok || b {
				good = false
			}
		}
	}
	ni := g.Idx[next]
	for e := range okE {
		// from the loop body's entry every path back to the iterator passes exactly one tell
		if tellNodes[e.to] {
			continue
		}
		reach := g.Reach([]int{e.to}, tellNodes, nil)
		if reach[ni] || anyIn(reach, g.Exits) {
			good = false
		}
	}
	for t := range tellNodes {
		reach := g.ReachAfter(t, setOf(ni), nil)
		for t2 := range tellNodes {
			if reach[t2] {
				good = false
			}
		}
		if anyIn(reach, g.Exits) {
			good = false // leaves the loop early
		}
	}
	r.Check(good && len(okE) > 0, "Publish tells each snapshot element exactly once", next.Pos(),
		"in the delivery loop every iteration performs exactly one tell(system=false, recipient=the iterated subscriber, message=the published event) and never leaves the loop early")
}

// okEdgesNext: the edges on which the range iterator yielded an element.
func (g *IG) okEdgesNext(next *ssa.Next) (okE, doneE map[edge]bool) {
	okE, doneE = map[edge]bool{}, map[edge]bool{}
	for _, ifi := range g.ifs() {
		for _, outcome := range []bool{true, false} {
			f, ok := condFact(ifi.Cond, outcome)
			if !ok || !f.Bool {
				continue
			}
			ex, ok := f.X.(*ssa.Extract)
			if !ok || ex.Tuple != ssa.Value(next) || ex.Index != 0 {
				continue
			}
			if f.Op == token.NEQ {
				okE[g.branchEdge(ifi, outcome)] = true
			} else {
				doneE[g.branchEdge(ifi, outcome)] = true
			}
		}
	}
	return
}

func c19Idempotent(p *Program, r *Report) {
	es := c19Roles(p, r)
	if es == nil {
		return
	}
	sub := p.methodNamed(es.T, "Subscribe")
	if sub == nil {
		r.Unresolved("Subscribe")
		return
	}
	g := p.ig(sub)
	n := 0
	for _, w := range p.tableWrites(sub, es.ByType) {
		if w.kind != "insert-inner" {
			continue
		}
		n++
		mu := w.in.(*ssa.MapUpdate)
		// dominated by the !ok edge of a comma-ok lookup m[key] with the same map and key
		absent := map[edge]bool{}
		for _, ifi := range ifsOf(sub) {
			for _, outcome := range []bool{true, false} {
				f, ok := condFact(ifi.Cond, outcome)
				if !ok || !f.Bool || f.Op != token.EQL {
					continue
				}
				ex, ok := f.X.(*ssa.Extract)
				if !ok || ex.Index != 1 {
					continue
				}
				lk, ok := ex.Tuple.(*ssa.Lookup)
				if !ok || !lk.CommaOk || !sameValue(lk.Index, mu.Key) || !sameMapValue(lk.X, mu.Map) {
					continue
				}
				absent[g.branchEdge(ifi, outcome)] = true
			}
		}
		r.Check(len(absent) > 0 && g.DominatedByEdges(w.node, absent), "Subscribe inserts only when absent", mu.Pos(),
			"the insertion of (type, path) is dominated by the not-found edge of a lookup of the same key in the same map: subscribing twice has no additional effect")
	}
	if n == 0 {
		r.Unresolved("Subscribe performs no insertion")
	}
}

// sameMapValue: a and b denote the same map value (identical, or phis merging the same sources).
func sameMapValue(a, b ssa.Value) bool {
	if a == b {
		return true
	}
	pa, ok1 := a.(*ssa.Phi)
	pb, ok2 := b.(*ssa.Phi)
	if ok1 && ok2 && pa == pb {
		return true
	}
	return false
}

func c19Lifecycle(p *Program, r *Report) {
	lc := p.lifecycle()
	if lc == nil || len(lc.problems) > 0 {
		r.Unresolved("kill chain (see C06)")
		return
	}
	term, restart := lc.effectOnPaths("UnsubscribeAll")
	r.Check(term, "termination unsubscribes all", lc.Cleanup.Pos(), "on the terminating (non-restart) path of the kill chain EventStream.UnsubscribeAll(self) is called on every path")
	r.Check(!restart, "restart keeps subscriptions", lc.Cleanup.Pos(), "UnsubscribeAll is unreachable when the actor is restarting")
}

// c19BeforeReported: "an event published after the subscriber has terminated is not delivered to it". Termination becomes
// observable through the registry removal (the name is free again), the OnKilled notices and the ActorKilledEvent; the
// subscriptions must be gone before any of them.
func c19BeforeReported(p *Program, r *Report) {
	lc := lcOrFail(p, r)
	if lc == nil {
		return
	}
	g := p.igx(lc.Cleanup)
	unsub, _ := p.eventNodes(g, func(in ssa.Instruction) bool {
		c := callOf(in)
		return c != nil && c.IsInvoke() && c.Method.Name() == "UnsubscribeAll"
	})
	observable := nodesWhere(g, func(in ssa.Instruction) bool {
		c := callOf(in)
		if c == nil {
			return false
		}
		if c.StaticCallee() == lc.RemoveRegistry {
			return true
		}
		if c.IsInvoke() && c.Method.Name() == "Publish" && len(c.Args) >= 2 && strings.HasSuffix(typeName(strip(c.Args[1]).Type()), "ActorKilledEvent") {
			return true
		}
		return false
	})
	var cleanupTells []tellSite
	for _, f := range g.Fns {
		cleanupTells = append(cleanupTells, p.tellSites(f)...)
	}
	for _, ts := range cleanupTells {
		observable[g.Idx[ts.In]] = true
	}
	if len(unsub) == 0 || len(observable) == 0 {
		r.Unresolved("UnsubscribeAll / registry removal / termination notices in the cleanup step")
		return
	}
	ok := true
	var first ssa.Instruction
	for n := range observable {
		if !g.DominatedByNodes(n, unsub) {
			ok = false
			if first == nil || g.Nodes[n].Pos() < first.Pos() {
				first = g.Nodes[n]
			}
		}
	}
	pos := firstPos(g, unsub)
	if first != nil {
		pos = first.Pos()
	}
	r.Check(ok, "subscriptions dropped before the termination is observable", pos, fmt.Sprintf("each of the %d observable termination effects (path release, OnKilled notices, ActorKilledEvent) is dominated by UnsubscribeAll", len(observable)))
}

// wholeEntryDeletes: every delete(table, key) of a two-level table in fn is dominated by an edge asserting len(table[key]) == 0
// for the same table and key, or follows a loop over table[key].
func (p *Program) wholeEntryDeletes(r *Report, fn *ssa.Function, tbl *types.Var, consequence string) int {
	n := 0
	g := p.ig(fn)
	for _, w := range p.tableWrites(fn, tbl) {
		if w.kind != "delete-outer" {
			continue
		}
		n++
		del := w.in.(*ssa.Call)
		key := del.Call.Args[1]
		sameEntry := func(v ssa.Value) bool {
			// v is T[key] for the same table and key
			lk, ok := strip(v).(*ssa.Lookup)
			if !ok {
				if ex, isEx := strip(v).(*ssa.Extract); isEx {
					lk, ok = ex.Tuple.(*ssa.Lookup)
				}
			}
			if !ok {
				return false
			}
			f, _ := fieldLoad(lk.X)
			return f == tbl && sameValue(lk.Index, key)
		}
		empty := g.edgesWhere(func(f cmpFact) bool {
			if f.Y != nil || f.IsNil || !(f.impliesEq(0) || notPositive(f)) {
				return false
			}
			c, ok := strip(f.X).(*ssa.Call)
			if !ok {
				return false
			}
			b, ok := c.Call.Value.(*ssa.Builtin)
			return ok && b.Name() == "len" && sameEntry(c.Call.Args[0])
		})
		okDel := len(empty) > 0 && g.DominatedByEdges(w.node, empty)
		if !okDel {
			// after a complete loop over the same entry
			for i, in := range g.Nodes {
				if rg, isR := in.(*ssa.Range); isR && sameEntry(rg.X) && g.DominatedByNodes(w.node, setOf(i)) {
					okDel = true
				}
			}
		}
		r.Check(okDel, fmt.Sprintf("%s whole-entry delete in %s", tbl.Name(), fnName(fn)), del.Pos(),
			"delete(table, key) is dominated by an edge asserting len(table[key]) == 0 for the same table and key, or follows a loop over table[key] that removes the entries one by one: "+consequence)
	}
	return n
}

// c19UnsubscribeOwner: the subscriber tables are keyed by path. UnsubscribeAll(x) therefore drops the subscriptions of whatever
// actor lives at x's path — calling it for a context that merely shares the path (a spawn attempt rejected as a duplicate
// name) silently unsubscribes the live actor. Who-may-call: inside the module UnsubscribeAll is called either by the kill
// chain's cleanup step with the dying actor's own context, or with the context an actor's behaviour was handed as a parameter.
func c19UnsubscribeOwner(p *Program, r *Report) {
	lc := lcOrFail(p, r)
	es := c19Roles(p, r)
	if lc == nil || es == nil {
		return
	}
	cg := p.igx(lc.Cleanup)
	n := 0
	for fn := range p.All {
		if !p.inModule(fn) || len(fn.Blocks) == 0 {
			continue
		}
		if fn.Signature.Recv() != nil && namedOf(fn.Signature.Recv().Type()) == es.T {
			continue // the stream's own methods
		}
		for _, b := range fn.Blocks {
			for _, in := range b.Instrs {
				c := callOf(in)
				if c == nil || len(c.Args) == 0 {
					continue
				}
				name := ""
				if c.IsInvoke() {
					name = c.Method.Name()
				} else if y := c.StaticCallee(); y != nil && y.Signature.Recv() != nil && namedOf(y.Signature.Recv().Type()) == es.T {
					name = y.Name()
				}
				if name != "UnsubscribeAll" {
					continue
				}
				n++
				arg := c.Args[len(c.Args)-1]
				ok, why := false, ""
				o := p.origins(arg)
				switch {
				case (cg.owns(p, fn) || (fn.Signature.Recv() != nil && namedOf(fn.Signature.Recv().Type()) == lc.HandlerT)) && allContain(o, "field:"+lc.HandlerT.Obj().Name()+"."):
					ok, why = true, "a step of the kill chain, for the dying actor's own context (when and on which paths: R5, R6)"
				default:
					ok = true
					for _, s := range o {
						if !strings.HasPrefix(s, "param:") {
							ok = false
						}
					}
					if prm, isP := strip(arg).(*ssa.Parameter); ok && isP {
						_, isIface := prm.Type().Underlying().(*types.Interface)
						ok = isIface
					} else {
						ok = false
					}
					why = "the context handed to the calling behaviour"
					if !ok {
						why = "the argument (" + strings.Join(o, " | ") + ") is neither the dying actor's own context nor the caller's own: the tables are keyed by path, so this drops the subscriptions of whoever lives at that path"
					}
				}
				r.Check(ok, "UnsubscribeAll in "+fnName(fn), in.Pos(), why)
			}
		}
	}
	if n == 0 {
		r.Unresolved("no call of UnsubscribeAll in the module")
	}
}

// c19FanoutSlice: the slice form of the fan-out — under the lock every element of the by-type table is appended exactly once to a
// slice created in Publish; the delivery loop indexes that slice and tells each element exactly once. Returns false when the
// tells do not have that shape (the map form is judged by the caller).
func c19FanoutSlice(p *Program, r *Report, g *IG, fn *ssa.Function, event *ssa.Parameter, rng *ssa.Range) bool {
	tells := p.tellSites(fn)
	if len(tells) == 0 {
		return false
	}
	var slices []ssa.Value
	tellNodes := map[int]bool{}
	good := true
	for _, ts := range tells {
		ld, ok := strip(ts.Recipient).(*ssa.UnOp)
		if !ok || ld.Op != token.MUL {
			return false
		}
		ia, ok := ld.X.(*ssa.IndexAddr)
		if !ok {
			return false
		}
		if _, isSl := ia.X.Type().Underlying().(*types.Slice); !isSl {
			return false
		}
		slices = append(slices, ia.X)
		tellNodes[g.Idx[ts.In]] = true
		if strip(ts.Message) != ssa.Value(event) {
			good = false
		}
		if ts.System != nil {
			if b, ok := constBool(ts.System); !ok || b {
				good = false
			}
		}
	}
	// the slice: every value it can hold is nil, a make in Publish, or an append to such a value of a ranged element of the table
	var next *ssa.Next
	for _, in := range g.Nodes {
		if x, ok := in.(*ssa.Next); ok && x.Iter == ssa.Value(rng) {
			next = x
		}
	}
	appends := map[int]bool{}
	snap := next != nil
	seen := map[ssa.Value]bool{}
	var local func(v ssa.Value) bool
	local = func(v ssa.Value) bool {
		if seen[v] {
			return true
		}
		seen[v] = true
		switch x := v.(type) {
		case *ssa.Const:
			return x.Value == nil
		case *ssa.MakeSlice:
			return true
		case *ssa.Slice:
			return local(x.X)
		case *ssa.Alloc:
			return true
		case *ssa.Phi:
			for _, e := range x.Edges {
				if !local(e) {
					return false
				}
			}
			return true
		case *ssa.Call:
			b, isB := x.Call.Value.(*ssa.Builtin)
			if !isB || b.Name() != "append" || len(x.Call.Args) != 2 {
				return false
			}
			// the appended element(s): a one-element variadic slice holding the ranged value
			elems, _ := varargElems(x.Call.Args[1])
			if len(elems) != 1 || next == nil || !derivesFromExtract(elems[0], next, 2) {
				return false
			}
			if i, ok := g.Idx[x]; ok {
				appends[i] = true
			}
			return local(x.Call.Args[0])
		}
		return false
	}
	for _, sl := range slices {
		if !local(sl) {
			snap = false
		}
	}
	// the table ranged while filling is the by-type entry (a lookup in the shared table), and every element is appended once
	okFill := false
	if snap && len(appends) > 0 {
		okFill, _ = g.loopExactlyOnce(appends)
	}
	r.Check(snap && okFill, "Publish iterates a snapshot", rng.Pos(), "the delivery loop indexes a slice created in Publish, to which every element of the by-type table was appended exactly once (under the lock)")
	okOnce, why := g.loopExactlyOnce(tellNodes)
	r.Check(good && okOnce, "Publish tells each snapshot element exactly once", firstPos(g, tellNodes),
		"in the delivery loop every iteration performs exactly one tell(system=false, recipient=the indexed element of the snapshot, message=the published event) and never leaves the loop early "+why)
	return true
}
