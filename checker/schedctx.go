package main

import (
	"fmt"
	"go/token"
	"go/types"
	"strings"

	"golang.org/x/tools/go/ssa"
)

// c20TimerLoopOutlivesActors — the one timer loop of the system is not stopped while actors still run.
//
// Every actor's Once/Loop/Cron jobs live in one engine whose loop ends when the context it was started with is cancelled. The
// system's stop routine cancels the system's own derived context right after it has sent the (graceful, queue-travelling) kill
// to the root and then WAITS for the tree to terminate; an actor that has not seen the poison yet is still running, has
// cancelled nothing, and its jobs must keep firing. So the context handed to the engine must not be one whose cancel function
// the module calls before a wait: not the first result of a context.With* call (directly, or through a field that such a result
// was stored into on a path reaching the read) whose second result ends in a field that some function calls and then blocks
// on a channel receive / select.
func c20TimerLoopOutlivesActors(p *Program, r *Report) {
	// the engine constructor: a module function with a context parameter that creates the quartz scheduler
	n := 0
	for _, ctor := range p.Mod {
		if len(ctor.Blocks) == 0 || ctor.Parent() != nil {
			continue
		}
		creates := false
		for _, b := range ctor.Blocks {
			for _, in := range b.Instrs {
				if c := callOf(in); c != nil && strings.HasSuffix(calleeQual(c), "quartz.NewStdScheduler") {
					creates = true
				}
			}
		}
		if !creates {
			continue
		}
		ci := -1
		for i, q := range ctor.Params {
			if typeIs(q.Type(), "context", "Context") {
				ci = i
			}
		}
		if ci < 0 {
			continue
		}
		for _, fn := range p.Mod {
			for _, b := range fn.Blocks {
				for _, in := range b.Instrs {
					c := callOf(in)
					if c == nil || c.StaticCallee() != ctor || ci >= len(c.Args) {
						continue
					}
					n++
					bad := p.earlyCancelledContext(fn, in, c.Args[ci])
					r.Check(bad == "", "timer loop context at "+fnName(fn), in.Pos(), "the context the shared scheduling engine is started with is not one the module cancels before waiting for the actors to terminate"+bad)
				}
			}
		}
	}
	if n == 0 {
		r.Unresolved("construction of the scheduling engine with a context")
	}
}

// earlyCancelledContext: "" when v (read at instruction `at` of fn) is not the result of a context.With* call whose cancel
// function is called before a wait; otherwise the reason.
func (p *Program) earlyCancelledContext(fn *ssa.Function, at ssa.Instruction, v ssa.Value) string {
	g := p.ig(fn)
	withCall := func(x ssa.Value) *ssa.Call {
		ex, ok := x.(*ssa.Extract)
		if !ok || ex.Index != 0 {
			return nil
		}
		c, isC := ex.Tuple.(*ssa.Call)
		if !isC {
			return nil
		}
		q := calleeQual(&c.Call)
		if q == "context.WithCancel" || q == "context.WithTimeout" || q == "context.WithDeadline" || q == "context.WithCancelCause" {
			return c
		}
		return nil
	}
	var found []*ssa.Call
	seen := map[ssa.Value]bool{}
	var walk func(x ssa.Value, readAt ssa.Instruction)
	walk = func(x ssa.Value, readAt ssa.Instruction) {
		if x == nil || seen[x] {
			return
		}
		seen[x] = true
		if c := withCall(x); c != nil {
			found = append(found, c)
			return
		}
		switch y := x.(type) {
		case *ssa.Phi:
			for _, e := range y.Edges {
				walk(e, readAt)
			}
		case *ssa.ChangeInterface:
			walk(y.X, readAt)
		case *ssa.MakeInterface:
			walk(y.X, readAt)
		case *ssa.UnOp:
			if y.Op != token.MUL {
				return
			}
			// a load: every store to the same cell / the same field (any base: aliases of one options object) that can run before it
			ri, has := g.Idx[ssa.Instruction(y)]
			var fld *types.Var
			if fa, isFA := y.X.(*ssa.FieldAddr); isFA {
				fld = fieldOfAddr(fa)
			}
			for i, nd := range g.Nodes {
				st, isSt := nd.(*ssa.Store)
				if !isSt {
					continue
				}
				same := st.Addr == y.X
				if fa2, isFA2 := st.Addr.(*ssa.FieldAddr); isFA2 && fld != nil && fieldOfAddr(fa2) == fld {
					same = true
				}
				if !same {
					continue
				}
				if has && !g.Reach([]int{i}, nil, nil)[ri] {
					continue // the store cannot run before the read
				}
				walk(st.Val, st)
			}
		}
	}
	walk(v, at)
	for _, wc := range found {
		// where does the cancel function go?
		var fields []*types.Var
		direct := false
		if wc.Referrers() != nil {
			for _, ref := range *wc.Referrers() {
				ex, ok := ref.(*ssa.Extract)
				if !ok || ex.Index != 1 || ex.Referrers() == nil {
					continue
				}
				for _, r2 := range *ex.Referrers() {
					switch z := r2.(type) {
					case *ssa.Store:
						if fa, isFA := z.Addr.(*ssa.FieldAddr); isFA {
							if f := fieldOfAddr(fa); f != nil {
								fields = append(fields, f)
							}
						}
					case *ssa.Call, *ssa.Defer, *ssa.Go:
						direct = true
					}
				}
			}
		}
		if direct {
			return fmt.Sprintf(" — it derives from %s whose cancel function is called in the constructing function itself", calleeQual(&wc.Call))
		}
		for _, f := range fields {
			for _, caller := range p.Mod {
				cg := p.ig(caller)
				for i, nd := range cg.Nodes {
					c := callOf(nd)
					if c == nil || c.IsInvoke() || c.StaticCallee() != nil {
						continue
					}
					if lf, _ := fieldLoad(c.Value); lf != f {
						continue
					}
					// blocks afterwards?
					reach := cg.ReachAfter(i, nil, nil)
					for j := range reach {
						switch w := cg.Nodes[j].(type) {
						case *ssa.Select:
							if w.Blocking {
								return fmt.Sprintf(" — it derives from %s whose cancel function is kept in %s.%s, and %s calls that and then waits (select at %s): the engine's loop ends while actors that have not seen the stop yet are still running, and their jobs never fire", calleeQual(&wc.Call), ownerName(f), f.Name(), fnName(caller), p.pos(w.Pos()))
							}
						case *ssa.UnOp:
							if w.Op == token.ARROW {
								return fmt.Sprintf(" — it derives from %s whose cancel function is kept in %s.%s, and %s calls that and then waits (receive at %s)", calleeQual(&wc.Call), ownerName(f), f.Name(), fnName(caller), p.pos(w.Pos()))
							}
						}
					}
				}
			}
		}
	}
	return ""
}
