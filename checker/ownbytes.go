package main

import (
	"fmt"
	"go/types"

	"golang.org/x/tools/go/ssa"
)

// c12DecodedOwnBytes — strings and byte slices the Reader decodes own their bytes.
//
// Every registered reader, and the version vector's reader for its node ids, builds the decoded value from what the Reader's
// string / byte-slice operations return. The frame buffer they read from is re-used (receive loops read every frame into the
// same buffer, pooled writers are reset and written again): a decoded string or slice that is a VIEW of that buffer changes
// under its holder when the next frame arrives — the decoded message no longer equals what was encoded, map keys hashed
// with the old bytes can no longer be found. So for every Reader method returning (string | []byte, error), the value of
// every return is fresh: a constant, a []byte<->string conversion (which copies), a slice obtained from make / append to a
// fresh slice, the result of another such Reader method, or a slice of one of those — never a slice of a Reader field and never
// an unsafe.String / unsafe.Slice whose pointer leads back to one.
func c12DecodedOwnBytes(p *Program, r *Report) {
	c := p.codec()
	if c == nil || c.ReaderT == nil {
		r.Unresolved("codec Reader type")
		return
	}
	errT := types.Universe.Lookup("error").Type()
	isBytesOrString := func(t types.Type) bool {
		if b, ok := t.Underlying().(*types.Basic); ok && b.Kind() == types.String {
			return true
		}
		if sl, ok := t.Underlying().(*types.Slice); ok {
			if b, ok := sl.Elem().Underlying().(*types.Basic); ok && b.Kind() == types.Uint8 {
				return true
			}
		}
		return false
	}
	decoders := map[*ssa.Function]bool{}
	for i := 0; i < c.ReaderT.NumMethods(); i++ {
		fn := p.SSA.FuncValue(c.ReaderT.Method(i))
		if fn == nil || len(fn.Blocks) == 0 {
			continue
		}
		res := fn.Signature.Results()
		if res.Len() == 2 && isBytesOrString(res.At(0).Type()) && types.Identical(res.At(1).Type(), errT) {
			decoders[fn] = true
		}
	}
	if len(decoders) == 0 {
		r.Unresolved("Reader methods returning (string | []byte, error)")
		return
	}
	for _, fn := range sortedFns(decoders) {
		var why string
		seen := map[ssa.Value]bool{}
		var fresh func(v ssa.Value) bool
		fresh = func(v ssa.Value) bool {
			if v == nil {
				return false
			}
			if seen[v] {
				return true
			}
			seen[v] = true
			switch x := v.(type) {
			case *ssa.Const:
				return true
			case *ssa.Convert:
				_, fromPtr := x.X.Type().Underlying().(*types.Basic)
				if fromPtr && x.X.Type().Underlying().(*types.Basic).Kind() == types.UnsafePointer {
					why = "a conversion from unsafe.Pointer"
					return false
				}
				if isBytesOrString(x.Type()) && isBytesOrString(x.X.Type()) && !types.Identical(x.Type().Underlying(), x.X.Type().Underlying()) {
					return true // []byte <-> string copies
				}
				return fresh(x.X)
			case *ssa.ChangeType:
				return fresh(x.X)
			case *ssa.MakeSlice:
				return true
			case *ssa.Alloc:
				return true
			case *ssa.Slice:
				return fresh(x.X)
			case *ssa.IndexAddr:
				return fresh(x.X)
			case *ssa.Phi:
				for _, e := range x.Edges {
					if !fresh(e) {
						return false
					}
				}
				return true
			case *ssa.Extract:
				return fresh(x.Tuple)
			case *ssa.Call:
				if b, isB := x.Call.Value.(*ssa.Builtin); isB {
					switch b.Name() {
					case "append":
						return fresh(x.Call.Args[0])
					case "String", "Slice", "StringData", "SliceData", "Add":
						if fresh(x.Call.Args[0]) {
							return true
						}
						if why == "" || why[0] != 'u' {
							why = "unsafe." + b.Name() + " over " + why
						}
						return false
					}
					why = "builtin " + b.Name()
					return false
				}
				if y := x.Call.StaticCallee(); y != nil && decoders[y] {
					return true // judged on its own
				}
				if y := x.Call.StaticCallee(); y != nil && !p.inModule(y) {
					// library functions returning new strings/slices (strings.Clone, bytes.Clone, string builders …)
					return true
				}
				why = "the result of " + calleeQual(&x.Call)
				return false
			case *ssa.UnOp:
				if f, _ := fieldLoad(x); f != nil {
					why = "the Reader's field " + f.Name()
					return false
				}
				if al, isAl := x.X.(*ssa.Alloc); isAl && al.Referrers() != nil {
					ok := true
					for _, ref := range *al.Referrers() {
						if st, isSt := ref.(*ssa.Store); isSt && st.Addr == ssa.Value(al) && !fresh(st.Val) {
							ok = false
						}
					}
					return ok
				}
				why = "a load that is not resolved"
				return false
			}
			why = fmt.Sprintf("a %T", v)
			return false
		}
		okAll := true
		pos := fn.Pos()
		for _, b := range fn.Blocks {
			ret, isRet := b.Instrs[len(b.Instrs)-1].(*ssa.Return)
			if !isRet || len(ret.Results) == 0 {
				continue
			}
			if !fresh(ret.Results[0]) {
				okAll = false
				pos = ret.Pos()
				break
			}
		}
		msg := "every returned value is a constant, a copying []byte<->string conversion, a slice from make/append, or the result of another decoding method of the Reader"
		if !okAll {
			msg = "a returned value is a view of " + why + ": the decoded value changes when the frame buffer it was read from is re-used"
		}
		r.Check(okAll, "decoded bytes are owned: "+fnName(fn), pos, msg)
	}
}

func sortedFns(m map[*ssa.Function]bool) []*ssa.Function {
	var out []*ssa.Function
	for f := range m {
		out = append(out, f)
	}
	for i := range out {
		for j := i + 1; j < len(out); j++ {
			if out[j].Pos() < out[i].Pos() {
				out[i], out[j] = out[j], out[i]
			}
		}
	}
	return out
}
