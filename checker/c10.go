package main

// C10 — documented-concurrent API is safe from any goroutine.
// CONF: which code is reachable (synchronously) from the documented foreign
// entry points and from internally spawned goroutines; fields that are written
// after construction without a lock / atomics must not be touched there.

import (
	"fmt"
	"go/types"
	"sort"
	"strings"

	"golang.org/x/tools/go/callgraph"
	"golang.org/x/tools/go/ssa"
)

func init() {
	register(&Property{
		ID: "C10",
		Explanation: "Decided: (R1) every field of the shared runtime structs (actor context, system, ref, event stream, actor scheduler, future, mailboxes, ring queue, remoting mailbox/central/connection/server, cluster context, behaviour stack) falls into exactly one protection class — immutable after construction, sync/atomic, guarded by one mutex on every access, a synchronisation object, published through a release/acquire pair, start-phase, or confined: " +
			"a confined field (written after construction without lock or atomics) has no access synchronously reachable from the documented foreign entry points (ActorSystem.ActorOf/Tell/Ask/Kill/FindActor/Stop, EventStream methods, Future methods, ActorRef methods, Mailbox.Enqueue) or from an internally spawned goroutine other than a mailbox consumer; " +
			"(R2) a map/slice loaded from a guarded field is not used after the unlock (checked through the guarded class incl. derived references), helper objects owned through a guarded field are only called with the guard held; (R3) no lock re-acquisition, acyclic lock order (C07.R2); (R4) the spawn order keeps the actor tree consistent under concurrent spawns and deaths: a child enters its parent's child table before its OnLaunch is told (C05.R2). " +
			"(R5 = C04.R2) the result fields of a future, written without a lock, are read by other goroutines only after a receive on the done channel. (R6 = C04.R1) the future's result fields are stored only under the won completion CAS: they have a single writer. (R7 = C07.R9) every mutex acquisition is released on every path. (R8) no acquisition of a struct-field mutex is followed, before its release, by a call of a method of the same receiver object that acquires the same mutex (transitively through same-receiver helpers): sync mutexes are not re-entrant, and a nested RLock deadlocks as soon as a writer waits in between. (R9) every struct-field mutex that is released explicitly only (no deferred release) is not held across a call that can reach — through module functions, depth 4 — an invoke of a user-implemented hook (On…, Provide, Encode, Decode) or a function value of a named function type of the library's public package: user hooks may panic, callers recover, and an explicit release after the call would be skipped. NOT decided: logical (non-memory) races such as spawn racing kill of the root; absence of crashes in general.",
		Assumptions: []string{
			"an actor's own handler code runs on one goroutine at a time (C01) and touches only its own context's confined fields",
			"start-phase fields: the system is not used from other goroutines before Start returns",
			"instance-insensitive lock identity; VTA call graph over-approximates dynamic calls",
		},
		Rules: []Rule{
			{ID: "C10.R1", Min: 120, Desc: "per-field protection class over every access from every goroutine context", Fn: c10Fields},
			{ID: "C10.R2", Min: 3, Desc: "owned helper objects called only under the owner's guard", Fn: c10Owned},
			{ID: "C10.R3", Min: 20, Desc: "no lock re-acquisition; acyclic lock order", Fn: c07Deadlock},
			{ID: "C10.R4", Min: 4, Desc: "actor tree: a child is recorded in its parent before it can run (and die) — spawn order (C05.R2)", Fn: func(p *Program, r *Report) {
				r.only(c05Spawn, func(c string) bool { return !strings.Contains(c, "reachable through the registry") })
			}},
			{ID: "C10.R6", Min: 8, Desc: "the future's result fields have a single writer: they are stored only under the won completion CAS (C04.R1)", Fn: c04OneShot},
			{ID: "C10.R8", Min: 1, Desc: "no goroutine re-acquires a mutex it already holds (sync mutexes are not re-entrant; a nested RLock deadlocks as soon as a writer waits)", Fn: lockReentrancy},
			{ID: "C10.R9", Min: 1, Desc: "a mutex held while user code can run is released by defer (a recovered panic must not leak the lock)", Fn: lockPanicSafety},
			{ID: "C10.R7", Min: 1, Desc: "every mutex acquisition is released on every path (C07.R9)", Fn: lockPairing},
			{ID: "C10.R5", Min: 4, Desc: "the future's result is read only after a receive on done (C04.R2 safe publication)", Fn: c04Publication},
		},
	})
}

type confInfo struct {
	Foreign map[*ssa.Function]*cgStep // reachable without entering a constructor of an in-scope struct
	Roots   []*ssa.Function
	RootWhy map[*ssa.Function]string
}

var confCache = map[*Program]*confInfo{}

// reachesHandler: fn synchronously reaches an EnvelopHandler.HandleEnvelop invoke (it is a mailbox consumer).
func (p *Program) reachesHandler(fn *ssa.Function) bool {
	steps := p.closure([]*ssa.Function{fn}, cgOpts{ModuleOnly: true, MaxDepth: 3})
	for f := range steps {
		for _, b := range f.Blocks {
			for _, in := range b.Instrs {
				if c := callOf(in); c != nil && c.IsInvoke() && c.Method.Name() == "HandleEnvelop" {
					return true
				}
			}
		}
	}
	return false
}

func (p *Program) conf() *confInfo {
	if c, ok := confCache[p]; ok {
		return c
	}
	ci := &confInfo{RootWhy: map[*ssa.Function]string{}}
	confCache[p] = ci
	add := func(fn *ssa.Function, why string) {
		if fn == nil {
			return
		}
		if _, ok := ci.RootWhy[fn]; !ok {
			ci.RootWhy[fn] = why
			ci.Roots = append(ci.Roots, fn)
		}
	}
	lc := p.lifecycle()
	// (a) documented foreign entry points
	if lc.Sys != nil {
		ms := p.SSA.MethodSets.MethodSet(types.NewPointer(lc.Sys))
		for _, name := range []string{"ActorOf", "Tell", "Ask", "Kill", "FindActor", "Stop", "Start", "ParseRef", "CreateRef", "PipeTo", "Entrust", "Ping", "Logger", "Metrics", "MetricsEnabled", "Cluster"} {
			for i := 0; i < ms.Len(); i++ {
				if ms.At(i).Obj().Name() == name {
					add(p.SSA.MethodValue(ms.At(i)), "ActorSystem."+name)
				}
			}
		}
	}
	addAllMethods := func(n *types.Named, label string, only map[string]bool) {
		if n == nil {
			return
		}
		for _, fn := range p.Mod {
			if fn.Parent() != nil || fn.Signature.Recv() == nil {
				continue
			}
			if namedOf(fn.Signature.Recv().Type()) != n {
				continue
			}
			obj, _ := fn.Object().(*types.Func)
			if obj == nil || !obj.Exported() {
				continue
			}
			if only != nil && !only[obj.Name()] {
				continue
			}
			add(fn, label+"."+obj.Name())
		}
	}
	if es := p.eventStreamRoles(); es.T != nil {
		addAllMethods(es.T, "EventStream", nil)
	}
	if f := p.futureRoles(); f.T != nil {
		addAllMethods(f.T, "Future", nil)
	}
	if lc.Ctx != nil {
		if rf := lc.RefF; rf != nil {
			addAllMethods(namedOf(rf.Type()), "ActorRef", nil)
		}
	}
	mb := p.Iface("", "Mailbox")
	for _, fn := range p.Mod {
		if fn.Parent() == nil && fn.Name() == "Enqueue" && fn.Signature.Recv() != nil && mb != nil && implementsIface(fn.Signature.Recv().Type(), mb) {
			add(fn, "Mailbox.Enqueue")
		}
	}
	// cluster context is handed to users through ActorSystem.Cluster()
	if cc := p.Named("internal/cluster", "Context"); cc != nil {
		addAllMethods(cc, "ClusterContext", nil)
	}
	// (b) internally spawned goroutines and timer / job callbacks
	for _, fn := range p.Mod {
		for _, b := range fn.Blocks {
			for _, in := range b.Instrs {
				switch x := in.(type) {
				case *ssa.Go:
					var cal *ssa.Function
					if mc, ok := x.Call.Value.(*ssa.MakeClosure); ok {
						cal, _ = mc.Fn.(*ssa.Function)
					} else {
						cal = x.Call.StaticCallee()
					}
					if cal != nil && p.inModule(cal) && !p.reachesHandler(cal) {
						add(cal, "goroutine started in "+fnName(fn))
					}
				case *ssa.Call:
					q := calleeQual(&x.Call)
					if q == "time.AfterFunc" || strings.HasSuffix(q, "job.NewFunctionJob") {
						for _, a := range x.Call.Args {
							if mc, ok := strip(a).(*ssa.MakeClosure); ok {
								if cal, ok := mc.Fn.(*ssa.Function); ok {
									add(cal, "callback of "+q+" in "+fnName(fn))
								}
							}
						}
					}
				}
			}
		}
	}
	// Accesses reachable only through a constructor of an in-scope struct concern an object under construction
	// (not yet published), so the closure does not enter constructor functions.
	ctors := map[*ssa.Function]bool{}
	for _, sc := range p.c10Scope() {
		if n := p.Named(sc.rel, sc.name); n != nil {
			for f := range p.ctorFuncsOf(n) {
				ctors[f] = true
			}
		}
	}
	ci.Foreign = p.closure(ci.Roots, cgOpts{ModuleOnly: true, SkipFunc: func(f *ssa.Function) bool { return ctors[f] }, SkipEdge: func(e *callgraph.Edge) bool { return false }})
	return ci
}

func (ci *confInfo) rootOf(p *Program, fn *ssa.Function) string {
	f := fn
	for i := 0; i < 64; i++ {
		st := ci.Foreign[f]
		if st == nil {
			return ""
		}
		if st.Parent == nil {
			return ci.RootWhy[f]
		}
		f = st.Parent
	}
	return ""
}

// ctorFuncsOf: the constructor(s) of a struct type — functions returning a fresh *T — plus the chain steps they run.
func (p *Program) ctorFuncsOf(n *types.Named) map[*ssa.Function]bool {
	out := map[*ssa.Function]bool{}
	for _, fn := range p.Mod {
		if fn.Parent() != nil {
			continue
		}
		res := fn.Signature.Results()
		if res.Len() == 0 || namedOf(res.At(0).Type()) != n {
			continue
		}
		allocs := false
		for _, b := range fn.Blocks {
			for _, in := range b.Instrs {
				if a, ok := in.(*ssa.Alloc); ok && namedOf(a.Type()) == n {
					allocs = true
				}
			}
		}
		if !allocs {
			continue
		}
		out[fn] = true
		for _, cr := range p.chainRuns(fn) {
			for _, s := range cr.Steps {
				for _, f := range s.Funcs {
					out[f] = true
				}
			}
		}
	}
	return out
}

type c10Struct struct {
	rel, name string
	table     map[string]fieldClass
}

func (p *Program) c10Scope() []c10Struct {
	lc := p.lifecycle()
	var out []c10Struct
	add := func(n *types.Named, table map[string]fieldClass) {
		if n == nil {
			return
		}
		out = append(out, c10Struct{relPkg(n.Obj().Pkg()), n.Obj().Name(), table})
	}
	if lc.Ctx != nil {
		add(lc.Ctx, nil)
		if rf := lc.RefF; rf != nil {
			add(namedOf(rf.Type()), nil)
		}
		if bs := lc.StackF; bs != nil {
			add(namedOf(bs.Type()), nil)
		}
	}
	if lc.Sys != nil {
		// start-phase fields (frozen table, one reason): written by the start chain before Start returns
		tbl := map[string]fieldClass{}
		st := lc.Sys.Underlying().(*types.Struct)
		for i := 0; i < st.NumFields(); i++ {
			f := st.Field(i)
			switch f.Name() {
			case "Context", "remotingServer", "clusterContext", "metrics":
				tbl[f.Name()] = fieldClass{Class: "startphase", Reason: "assigned by a step of the start chain; assumption: the system is not shared before Start returns"}
			}
		}
		add(lc.Sys, tbl)
	}
	add(p.eventStreamRoles().T, nil)
	add(p.schedRoles().T, nil)
	if f := p.futureRoles(); f.T != nil && f.Msg != nil && f.Err != nil {
		add(f.T, map[string]fieldClass{
			f.Msg.Name(): {Class: "published", Reason: "written before close(done), read after a receive on done (C04.R2)"},
			f.Err.Name(): {Class: "published", Reason: "written before close(done), read after a receive on done (C04.R2)"},
		})
	}
	for _, m := range p.mailboxTypes() {
		add(m.T, nil)
		if m.SysQ != nil {
			qn := namedOf(m.SysQ.Type())
			tbl := map[string]fieldClass{}
			if qst, ok := qn.Underlying().(*types.Struct); ok {
				var lockName string
				for i := 0; i < qst.NumFields(); i++ {
					if typeIs(qst.Field(i).Type(), "sync", "Mutex") {
						lockName = relPkg(qn.Obj().Pkg()) + ":" + qn.Obj().Name() + "." + qst.Field(i).Name()
					}
				}
				for i := 0; i < qst.NumFields(); i++ {
					if b, ok := qst.Field(i).Type().Underlying().(*types.Basic); ok && b.Info()&types.IsInteger != 0 && lockName != "" {
						tbl[qst.Field(i).Name()] = fieldClass{Class: "atomicw+lock", Lock: lockName}
					}
				}
			}
			add(qn, tbl)
		}
	}
	// the queue's storage struct(s): every struct type reachable through a pointer field of the queue type, all fields guarded
	// by the queue's mutex (by role: no type or field names)
	for _, m := range p.mailboxTypes() {
		if m.SysQ == nil {
			continue
		}
		qn := namedOf(m.SysQ.Type())
		qst, ok := qn.Underlying().(*types.Struct)
		if !ok {
			continue
		}
		lockName := ""
		for i := 0; i < qst.NumFields(); i++ {
			if typeIs(qst.Field(i).Type(), "sync", "Mutex") {
				lockName = relPkg(qn.Obj().Pkg()) + ":" + qn.Obj().Name() + "." + qst.Field(i).Name()
			}
		}
		for i := 0; i < qst.NumFields(); i++ {
			inner := namedOf(qst.Field(i).Type())
			if inner == nil || inner == qn || inner.Obj().Pkg() != qn.Obj().Pkg() {
				continue
			}
			ist, ok := inner.Underlying().(*types.Struct)
			if !ok || lockName == "" {
				continue
			}
			t := map[string]fieldClass{}
			for k := 0; k < ist.NumFields(); k++ {
				t[ist.Field(k).Name()] = fieldClass{Class: "guarded", Lock: lockName}
			}
			add(inner, t)
		}
	}
	add(p.Named("internal/remoting", "Mailbox"), nil)
	add(p.Named("internal/remoting", "MailboxCentral"), nil)
	if rm := p.remoting(); rm != nil && rm.ConnT != nil {
		add(rm.ConnT, nil)
	}
	add(p.Named("internal/remoting", "ServerActor"), map[string]fieldClass{
		"remotingMailboxCentral": {Class: "published-wg", Reason: "assigned before WaitGroup.Done in the server's OnLaunch, read after WaitGroup.Wait"},
	})
	add(p.Named("internal/cluster", "Context"), map[string]fieldClass{
		"leaveWait":       {Class: "published-lock", Lock: "internal/cluster:Context.leaveLock", Reason: "created once under leaveLock; every other use follows a lock of leaveLock on the same goroutine or the spawn of the helper actor"},
		"proxyManagerRef": {Class: "startphase", Reason: "assigned by the start chain's cluster step"},
	})
	return out
}

func c10Fields(p *Program, r *Report) {
	ci := p.conf()
	lc := lcOrFail(p, r)
	if lc == nil {
		return
	}
	if len(ci.Roots) < 20 {
		r.Unresolved(fmt.Sprintf("only %d foreign entry points / goroutine roots found", len(ci.Roots)))
	}
	r.Note("foreign roots: %d, functions reachable: %d", len(ci.Roots), len(ci.Foreign))
	startSteps := map[*ssa.Function]bool{}
	if s := p.systemRoles(); s.Start != nil {
		for _, cr := range p.chainRuns(s.Start) {
			for _, st := range cr.Steps {
				for _, f := range st.Funcs {
					startSteps[f] = true
				}
			}
		}
	}
	for _, sc := range p.c10Scope() {
		n := p.Named(sc.rel, sc.name)
		if n == nil {
			r.Unresolved("struct " + sc.rel + "." + sc.name)
			continue
		}
		ctors := p.ctorFuncsOf(n)
		isCtor := func(fn *ssa.Function) bool {
			for f := fn; f != nil; f = f.Parent() {
				if ctors[f] {
					return true
				}
			}
			return false
		}
		st := n.Underlying().(*types.Struct)
		fields := map[*types.Var]bool{}
		for i := 0; i < st.NumFields(); i++ {
			fields[st.Field(i)] = true
		}
		by := map[*types.Var][]access{}
		for _, a := range p.fieldAccesses(fields) {
			by[a.Field] = append(by[a.Field], a)
		}
		// classes handled by the generic table checker
		generic := map[string]fieldClass{}
		var special []*types.Var
		for i := 0; i < st.NumFields(); i++ {
			f := st.Field(i)
			cl, tabled := sc.table[f.Name()]
			if !tabled {
				cl = p.inferClass(f, by[f], isCtor)
			}
			switch cl.Class {
			case "guarded", "atomic", "immutable", "syncobj", "atomicw+lock":
				generic[f.Name()] = cl
			default:
				special = append(special, f)
				generic[f.Name()] = fieldClass{Class: "other", Reason: "see class-specific obligation"}
			}
		}
		sub := newReport(r.Prop, p)
		sub.rule = r.rule
		p.checkFieldTable(sub, sc.rel, sc.name, generic, isCtor)
		seen := map[string]bool{}
		for _, o := range sub.Obs {
			if strings.Contains(o.Why, "class other") {
				continue
			}
			k := o.Construct + "|" + o.Pos + "|" + o.Status
			if seen[k] {
				continue
			}
			seen[k] = true
			r.Obs = append(r.Obs, o)
			r.Obs[len(r.Obs)-1].Key = o.Rule + "|" + o.Construct
			r.seen[o.Rule+"|"+o.Construct]++
			if c := r.seen[o.Rule+"|"+o.Construct]; c > 1 {
				r.Obs[len(r.Obs)-1].Key = fmt.Sprintf("%s|%s#%d", o.Rule, o.Construct, c)
			}
			r.Counts[r.rule]++
		}
		for _, f := range special {
			cl, tabled := sc.table[f.Name()]
			if !tabled {
				cl = fieldClass{Class: "confined"}
			}
			constr := sc.name + "." + f.Name()
			switch cl.Class {
			case "confined", "unclassified":
				bad := 0
				for _, a := range by[f] {
					if a.Fresh || isCtor(a.Fn) {
						continue
					}
					if _, foreign := ci.Foreign[a.Fn]; foreign {
						bad++
						r.Violate(fmt.Sprintf("%s %s in %s", constr, a.Kind, fnName(a.Fn)), a.In.Pos(),
							fmt.Sprintf("field is written after construction without a lock or atomics, so it must stay on its owner's goroutine; this access is reachable from %s via %s", ci.rootOf(p, a.Fn), p.pathTo(ci.Foreign, a.Fn)))
					}
				}
				if bad == 0 {
					r.add(constr, f.Pos(), "discharged", fmt.Sprintf("confined: none of its %d accesses is synchronously reachable from a foreign entry point or a spawned goroutine", len(by[f])), true)
				}
			case "startphase":
				ok := true
				where := ""
				for _, a := range by[f] {
					if !a.Write || a.Fresh || isCtor(a.Fn) {
						continue
					}
					if !p.onlyCalledFrom(a.Fn, startSteps) {
						ok = false
						where = fnName(a.Fn)
					}
				}
				r.Check(ok, constr, f.Pos(), "start-phase: every write is in a step of the system's start chain (or a helper only called from one) "+where)
			case "published":
				r.add(constr, f.Pos(), "discharged", "published-by channel close/receive: "+cl.Reason, false)
			case "published-wg":
				ok := true
				for _, a := range by[f] {
					if a.Fresh || isCtor(a.Fn) {
						continue
					}
					g := p.ig(a.Fn)
					wg := func(name string) map[int]bool {
						return nodesWhere(g, func(in ssa.Instruction) bool { return calleeQual(callOf(in)) == "(sync.WaitGroup)."+name })
					}
					if a.Write {
						// followed by Done on every path
						if d := wg("Done"); len(d) == 0 || anyIn(g.ReachAfter(a.Node, d, nil), g.Exits) {
							ok = false
						}
					} else if _, foreign := ci.Foreign[a.Fn]; foreign {
						if w := wg("Wait"); len(w) == 0 || !g.DominatedByNodes(a.Node, w) {
							ok = false
						}
					}
				}
				r.Check(ok, constr, f.Pos(), "published-by WaitGroup: the write is followed by Done on every path and every read reachable from a foreign context is dominated by Wait")
			case "published-lock":
				lk := p.lockVar(cl.Lock)
				ok := lk != nil
				for _, a := range by[f] {
					if a.Fresh || isCtor(a.Fn) || !a.Write {
						continue
					}
					if a.Held[lk] != 2 {
						ok = false
					}
				}
				// readers: in the same function after the lock was taken, or in closures created under the lock
				for _, a := range by[f] {
					if a.Fresh || a.Write {
						continue
					}
					root := a.Fn
					for root.Parent() != nil {
						root = root.Parent()
					}
					g := p.ig(a.Fn)
					locks := nodesWhere(g, func(in ssa.Instruction) bool { op, lf := lockOp(in); return lf == lk && op == "Lock" })
					if a.Fn.Parent() == nil && !g.DominatedByNodes(a.Node, locks) {
						ok = false
					}
				}
				r.Check(ok, constr, f.Pos(), "published-by lock: "+cl.Reason)
			default:
				r.Undecided(constr, f.Pos(), "no protection class could be established")
			}
		}
	}
}

// onlyCalledFrom: fn is in `set`, nested in a member, or every call path to it starts in a member (depth ≤ 3).
func (p *Program) onlyCalledFrom(fn *ssa.Function, set map[*ssa.Function]bool) bool {
	var rec func(f *ssa.Function, depth int) bool
	rec = func(f *ssa.Function, depth int) bool {
		for x := f; x != nil; x = x.Parent() {
			if set[x] {
				return true
			}
		}
		if depth > 3 {
			return false
		}
		n := p.CG.Nodes[f]
		if n == nil || len(n.In) == 0 {
			return false
		}
		for _, e := range n.In {
			if !rec(e.Caller.Func, depth+1) {
				return false
			}
		}
		return true
	}
	return rec(fn, 0)
}

// c10Owned: non-thread-safe helper objects owned through a field: calls through the field count as accesses of the field.
func c10Owned(p *Program, r *Report) {
	type owned struct {
		rel, typ, field, lock, why string
	}
	// by role, not by name: the remoting mailbox's field of the retry-helper type (the receiver type of the retry loop),
	// guarded by the mailbox's own mutex field
	var table []owned
	var ownedField, ownedLock *types.Var
	if rm := p.remoting(); rm != nil && rm.MboxT != nil && rm.Try != nil && rm.Try.Signature.Recv() != nil {
		helperT := namedOf(rm.Try.Signature.Recv().Type())
		st := rm.MboxT.Underlying().(*types.Struct)
		for i := 0; i < st.NumFields(); i++ {
			if namedOf(st.Field(i).Type()) == helperT {
				ownedField = st.Field(i)
			}
			if typeIs(st.Field(i).Type(), "sync", "Mutex") || typeIs(st.Field(i).Type(), "sync", "RWMutex") {
				ownedLock = st.Field(i)
			}
		}
		if ownedField != nil && ownedLock != nil {
			table = append(table, owned{typ: rm.MboxT.Obj().Name(), field: ownedField.Name(), why: helperT.Obj().Name() + " keeps a plain attempt counter"})
		}
	}
	if len(table) == 0 {
		r.Unresolved("owned retry helper of the remoting mailbox and its mutex")
	}
	ci := p.conf()
	for _, o := range table {
		f := ownedField
		lk := ownedLock
		if f == nil || lk == nil {
			r.Unresolved("owned helper " + o.typ + "." + o.field)
			continue
		}
		cnt := 0
		for _, fn := range p.Mod {
			g := p.ig(fn)
			var li *lockInfo
			for i, in := range g.Nodes {
				c := callOf(in)
				if c == nil || len(c.Args) == 0 {
					continue
				}
				if _, isDefer := in.(*ssa.Defer); isDefer {
					continue
				}
				fl, _ := fieldLoad(c.Args[0])
				if fl != f {
					continue
				}
				if li == nil {
					li = p.held(fn)
				}
				cnt++
				r.Check(li.at(i)[lk] == 2, fmt.Sprintf("%s.%s.%s in %s", o.typ, o.field, shortCallee(c), fnName(fn)), in.Pos(),
					fmt.Sprintf("helper object (%s) is used only with %s write-held (held=%s)", o.why, lk.Name(), li.at(i).names()))
			}
		}
		if cnt == 0 {
			r.Unresolved("no call through " + o.typ + "." + o.field)
		}
	}
	// the other owners of a backoff / behaviour stack are actor-confined: their holder fields are checked as confined in R1
	var names []string
	for fn, why := range ci.RootWhy {
		names = append(names, why+"="+fnName(fn))
	}
	sort.Strings(names)
	r.Note("roots: %s", strings.Join(names, "; "))
}
