package main

// C02 — per-sender FIFO, system-before-user, kill/poison flag coherence, stash order.

import (
	"fmt"
	"go/token"
	"go/types"
	"strings"

	"golang.org/x/tools/go/ssa"
)

func init() {
	register(&Property{
		ID: "C02",
		Explanation: "Decided: (R1) every access to the ring queue's storage and indices is inside the queue's mutex and the length is written atomically under it; " +
			"(R2) in the handler loop a user pop happens only after the system queue was observed empty, from entry and between any two user pops; " +
			"(R3) every OnKill / restart message is told with system flag = !Poison and the restart path forwards Poison unchanged; " +
			"(R4) Unstash re-enqueues stash[0..k) by an ascending traversal and removes exactly that prefix; (R5) the order of the queue is the order of processing because exactly one elected consumer pops and hands each popped value over synchronously (C01.R1/R5). " +
			"(R6) the stash is assigned only by Stash and Unstash (or by a function that first hands every element on): nothing else can drop or reorder stashed messages. (R7) whatever the context installs as its current envelope is the received envelope or a fresh allocation, never reused storage, so an envelope kept by Stash is not overwritten later; (R4, addition) the array is released only under restored count == length taken before the prefix was cut (or remaining length == 0). NOT decided: order preservation of the ring's index arithmetic across growth (needs arithmetic reasoning over head/tail/mod), FIFO under concurrent senders (follows from R1 + mutual exclusion, not proved).",
		Assumptions: []string{"a lock is identified by its struct field (instance-insensitive)", "sync.Mutex gives mutual exclusion"},
		Rules: []Rule{
			{ID: "C02.R8", Min: 1, Desc: "a remote sender's messages keep their queue: the receiving node enqueues with the system flag that travelled in the envelope (the hand-over check of C11.R5)", Fn: func(p *Program, r *Report) {
				r.only(c11Roles, func(c string) bool { return strings.Contains(c, "handler rebuilds") })
			}},
			{ID: "C02.R1", Min: 20, Desc: "ring storage and indices only under the queue lock; length atomic+locked", Fn: c02Ring},
			{ID: "C02.R2", Min: 1, Desc: "system queue observed empty before every user pop", Fn: c02SystemFirst},
			{ID: "C02.R3", Min: 3, Desc: "kill/poison: system flag = !Poison at every tell of OnKill / restart message", Fn: c02Poison},
			{ID: "C02.R4", Min: 2, Desc: "Unstash: ascending prefix traversal, same prefix removed", Fn: c02Unstash},
			{ID: "C02.R7", Min: 2, Desc: "the current envelope is the received one or a freshly allocated one — never reused storage — so an envelope kept by Stash is not overwritten later", Fn: c02EnvelopeFresh},
			{ID: "C02.R6", Min: 3, Desc: "the stash is written only by Stash and Unstash", Fn: c02StashWriters},
			{ID: "C02.R5", Min: 6, Desc: "a single consumer pops and hands over in pop order (C01.R1/R5): two consumers would reorder", Fn: func(p *Program, r *Report) { c01Election(p, r); c01Handoff(p, r) }},
		},
	})
}

func c02Ring(p *Program, r *Report) {
	// the queue type is whatever the mailbox's queue fields point to
	ms := p.mailboxTypes()
	if len(ms) == 0 || len(ms[0].problems) > 0 || ms[0].SysQ == nil {
		r.Unresolved("mailbox queue type")
		return
	}
	qn := namedOf(ms[0].SysQ.Type())
	if qn == nil {
		r.Unresolved("queue named type")
		return
	}
	rel := relPkg(qn.Obj().Pkg())
	st, _ := qn.Underlying().(*types.Struct)
	var lockF, contentF, lenF *types.Var
	for i := 0; i < st.NumFields(); i++ {
		f := st.Field(i)
		switch {
		case typeIs(f.Type(), "sync", "Mutex") || typeIs(f.Type(), "sync", "RWMutex"):
			lockF = f
		case isRefType(f.Type()):
			contentF = f
		default:
			if b, ok := f.Type().Underlying().(*types.Basic); ok && b.Info()&types.IsInteger != 0 {
				lenF = f
			}
		}
	}
	if lockF == nil || contentF == nil {
		r.Unresolved("queue lock / storage fields of " + qn.Obj().Name())
		return
	}
	lk := rel + ":" + qn.Obj().Name() + "." + lockF.Name()
	tbl := map[string]fieldClass{contentF.Name(): {Class: "guarded", Lock: lk}}
	if lenF != nil {
		tbl[lenF.Name()] = fieldClass{Class: "atomicw+lock", Lock: lk}
	}
	p.checkFieldTable(r, rel, qn.Obj().Name(), tbl, nil)
	// the storage struct behind the pointer
	if bn := namedOf(contentF.Type()); bn != nil {
		if bst, ok := bn.Underlying().(*types.Struct); ok {
			bt := map[string]fieldClass{}
			for i := 0; i < bst.NumFields(); i++ {
				bt[bst.Field(i).Name()] = fieldClass{Class: "guarded", Lock: lk}
			}
			p.checkFieldTable(r, relPkg(bn.Obj().Pkg()), bn.Obj().Name(), bt, nil)
		}
	}
}

func relPkg(pk *types.Package) string {
	if pk == nil {
		return ""
	}
	s := pk.Path()
	if s == modPath {
		return ""
	}
	if len(s) > len(modPath) && s[:len(modPath)+1] == modPath+"/" {
		return s[len(modPath)+1:]
	}
	return s
}

func c02SystemFirst(p *Program, r *Report) {
	c01Each(p, r, func(m *mboxRoles) {
		for _, fn := range m.Loops {
			g := p.igx(fn)
			usrPops := nodesWhere(g, func(in ssa.Instruction) bool { return popOf(in, m.UsrQ) })
			sysPops := nodesWhere(g, func(in ssa.Instruction) bool { return popOf(in, m.SysQ) })
			sysNotOk := map[edge]bool{}
			for sp := range sysPops {
				_, n := g.okEdges(g.Nodes[sp].(*ssa.Call))
				sysNotOk = mergeEdges(sysNotOk, n)
			}
			for up := range usrPops {
				ok := len(sysNotOk) > 0 && g.DominatedByEdges(up, sysNotOk)
				// between two user pops (and after any handler call) the system queue is observed empty again
				for up2 := range usrPops {
					if g.ReachAfter(up2, nil, sysNotOk)[up] {
						ok = false
					}
				}
				r.Check(ok, fmt.Sprintf("%s: user pop after system drain in %s", m.T.Obj().Name(), fnName(fn)), g.Nodes[up].Pos(),
					"the user pop is reachable (from entry and from the previous user pop) only through the !ok edge of a system-queue pop")
			}
		}
	})
}

// ---- tell sites -----------------------------------------------------------------------

type tellSite struct {
	Fn        *ssa.Function
	In        ssa.Instruction
	System    ssa.Value // nil when implied
	SysConst  *bool     // constant system flag implied by the API used
	Recipient ssa.Value // nil for TellSelf
	Self      bool
	Message   ssa.Value
	Via       string
}

// tellFunc locates the internal tell primitive by role: a method of the actor
// context type with parameters (bool, ActorRef, Message) that builds an
// envelope from them and enqueues it.
func (p *Program) tellFunc() *ssa.Function {
	ctx := p.contextType()
	if ctx == nil {
		return nil
	}
	ref := p.Named("", "ActorRef")
	var best *ssa.Function
	for _, fn := range p.methodsOf(ctx) {
		if fn.Parent() != nil || len(fn.Params) != 4 {
			continue
		}
		if b, ok := fn.Params[1].Type().Underlying().(*types.Basic); !ok || b.Kind() != types.Bool {
			continue
		}
		if ref == nil || !types.Identical(fn.Params[2].Type(), ref) {
			continue
		}
		enq := false
		for _, b := range fn.Blocks {
			for _, in := range b.Instrs {
				if c := callOf(in); c != nil && c.IsInvoke() && c.Method.Name() == "Enqueue" {
					enq = true
				}
			}
		}
		if enq {
			best = fn
		}
	}
	return best
}

// contextType: the concrete type implementing vivid.ActorContext and vivid.EnvelopHandler.
func (p *Program) contextType() *types.Named {
	ac := p.Iface("", "ActorContext")
	eh := p.Iface("", "EnvelopHandler")
	if ac == nil || eh == nil {
		return nil
	}
	var found *types.Named
	for _, pk := range p.Pkgs {
		sc := pk.Types.Scope()
		for _, name := range sc.Names() {
			tn, ok := sc.Lookup(name).(*types.TypeName)
			if !ok || tn.IsAlias() {
				continue
			}
			n, ok := tn.Type().(*types.Named)
			if !ok {
				continue
			}
			st, ok := n.Underlying().(*types.Struct)
			if !ok {
				continue
			}
			if !types.Implements(types.NewPointer(n), ac) || !types.Implements(types.NewPointer(n), eh) {
				continue
			}
			// prefer the type that declares HandleEnvelop itself (System only embeds it)
			declares := false
			for i := 0; i < n.NumMethods(); i++ {
				if n.Method(i).Name() == "HandleEnvelop" {
					declares = true
				}
			}
			_ = st
			if declares {
				found = n
			}
		}
	}
	return found
}

// tellSites lists the sends issued by fn (direct calls of the tell primitive and of the public Tell/TellSelf/Kill wrappers on the context).
func (p *Program) tellSites(fn *ssa.Function) []tellSite {
	tell := p.tellFunc()
	ctx := p.contextType()
	var out []tellSite
	if tell == nil || ctx == nil {
		return nil
	}
	tr, fa := true, false
	for _, b := range fn.Blocks {
		for _, in := range b.Instrs {
			c := callOf(in)
			if c == nil {
				continue
			}
			if c.StaticCallee() == tell {
				out = append(out, tellSite{Fn: fn, In: in, System: c.Args[1], Recipient: c.Args[2], Message: c.Args[3], Via: "tell"})
				continue
			}
			name := ""
			var args []ssa.Value
			if c.IsInvoke() {
				name, args = c.Method.Name(), c.Args
				// only invokes on actor-context-like interfaces
				if !isContextIface(p, c.Value.Type()) {
					continue
				}
			} else if f := c.StaticCallee(); f != nil && f.Signature.Recv() != nil && namedOf(f.Signature.Recv().Type()) == ctx {
				name, args = f.Name(), c.Args[1:]
			} else {
				continue
			}
			switch name {
			case "Tell":
				if len(args) == 2 {
					out = append(out, tellSite{Fn: fn, In: in, SysConst: &fa, Recipient: args[0], Message: args[1], Via: "Tell"})
				}
			case "TellSelf":
				if len(args) == 1 {
					out = append(out, tellSite{Fn: fn, In: in, SysConst: &fa, Self: true, Message: args[0], Via: "TellSelf"})
				}
			case "Reply":
				if len(args) == 1 {
					out = append(out, tellSite{Fn: fn, In: in, SysConst: &fa, Message: args[0], Via: "Reply"})
				}
			}
			_ = tr
		}
	}
	return out
}

func isContextIface(p *Program, t types.Type) bool {
	it, ok := t.Underlying().(*types.Interface)
	if !ok {
		return false
	}
	for _, name := range []string{"ActorContext", "ActorLiaison", "ActorSystem", "PrimaryActorSystem", "PrelaunchContext", "RestartContext"} {
		if n := p.Named("", name); n != nil && types.Identical(t, n) {
			return true
		}
	}
	_ = it
	return false
}

// allocType: the struct type allocated by v (through MakeInterface), or nil.
func allocOf(v ssa.Value) *ssa.Alloc {
	a, _ := strip(v).(*ssa.Alloc)
	return a
}

// storedField returns the value stored into field `name` of the freshly allocated struct a (nil if never stored: zero value).
func storedField(a *ssa.Alloc, name string) (ssa.Value, bool) {
	var val ssa.Value
	found := false
	for _, ref := range *a.Referrers() {
		fa, ok := ref.(*ssa.FieldAddr)
		if !ok {
			continue
		}
		f, _ := fieldAddr(fa)
		if f == nil || f.Name() != name {
			continue
		}
		for _, u := range *fa.Referrers() {
			if st, ok := u.(*ssa.Store); ok && st.Addr == fa {
				val, found = st.Val, true
			}
		}
	}
	return val, found
}

func hasField(t types.Type, name string) bool {
	if pt, ok := t.Underlying().(*types.Pointer); ok {
		t = pt.Elem()
	}
	st, ok := t.Underlying().(*types.Struct)
	if !ok {
		return false
	}
	for i := 0; i < st.NumFields(); i++ {
		if st.Field(i).Name() == name {
			return true
		}
	}
	return false
}

// sameValue: structural equality of two SSA values for simple forms (same value, loads of the same field of the same base, equal constants).
func sameValue(a, b ssa.Value) bool {
	a, b = strip(a), strip(b)
	if a == b {
		return true
	}
	if ca, ok := a.(*ssa.Const); ok {
		if cb, ok := b.(*ssa.Const); ok {
			return ca.Value != nil && cb.Value != nil && ca.Value.ExactString() == cb.Value.ExactString()
		}
	}
	fa, ba := fieldLoad(a)
	fb, bb := fieldLoad(b)
	if fa != nil && fa == fb && ba == bb {
		return true
	}
	return false
}

func isNotOf(v, x ssa.Value) bool {
	u, ok := v.(*ssa.UnOp)
	if ok && u.Op == token.NOT {
		return sameValue(u.X, x)
	}
	// constants
	if cv, ok := constBool(v); ok {
		if cx, ok := constBool(x); ok {
			return cv == !cx
		}
	}
	return false
}

func c02Poison(p *Program, r *Report) {
	tell := p.tellFunc()
	ctx := p.contextType()
	if tell == nil || ctx == nil {
		r.Unresolved("tell primitive of the actor context")
		return
	}
	n := 0
	for _, fn := range p.Mod {
		for _, ts := range p.tellSites(fn) {
			a := allocOf(ts.Message)
			if a == nil || !hasField(a.Type(), "Poison") {
				// a Poison-carrying message passed as a non-fresh value (e.g. the restart message variable)
				mt := strip(ts.Message).Type()
				if !hasField(mt, "Poison") {
					continue
				}
				if ph, ok := strip(ts.Message).(*ssa.Phi); ok {
					_ = ph
				}
				if a == nil {
					r.Undecided(fmt.Sprintf("tell of %s in %s", typeName(mt), fnName(fn)), ts.In.Pos(), "message with a Poison field is not a fresh literal; cannot relate its Poison to the system flag")
					continue
				}
			}
			n++
			pv, set := storedField(a, "Poison")
			construct := fmt.Sprintf("tell(%s) in %s", typeName(a.Type()), fnName(fn))
			switch {
			case ts.System != nil && set:
				r.Check(isNotOf(ts.System, pv), construct, ts.In.Pos(), "system flag of the envelope is the negation of the message's Poison (a poison kill queues behind user mail, an immediate kill overtakes it)")
			case ts.System != nil && !set:
				c, ok := constBool(ts.System)
				r.Check(ok && c, construct, ts.In.Pos(), "Poison is left false, so the message must be sent as a system message")
			case ts.SysConst != nil:
				// public Tell: user message ⇒ Poison must be true
				c, ok := false, false
				if set {
					c, ok = constBool(pv)
				}
				r.Check(ok && c == !*ts.SysConst, construct, ts.In.Pos(), "message sent through the user-message API must carry Poison=true")
			}
		}
	}
	// forwarding: a function that receives a message with Poison and builds another Poison-carrying message copies the flag unchanged
	for _, fn := range p.methodsOf(ctx) {
		for _, b := range fn.Blocks {
			for _, in := range b.Instrs {
				a, ok := in.(*ssa.Alloc)
				if !ok || !hasField(a.Type(), "Poison") {
					continue
				}
				pv, set := storedField(a, "Poison")
				if !set {
					continue
				}
				f, base := fieldLoad(strip(pv))
				if f == nil || f.Name() != "Poison" {
					continue
				}
				_, isParam := base.(*ssa.Parameter)
				r.Check(isParam, fmt.Sprintf("%s built in %s forwards Poison", typeName(a.Type()), fnName(fn)), a.Pos(), "the synthesised message copies Poison from the message being handled, unchanged")
				n++
			}
		}
	}
	// Kill(ref, poison) wrapper itself is covered above (it is a tell site). Callers of Kill with constant poison are consistent by construction.
	if n == 0 {
		r.Unresolved("no tell of a Poison-carrying message found")
	}
}

// ---- unstash ------------------------------------------------------------------------------

func ascendingFromZero(v ssa.Value) (*ssa.Phi, bool) {
	// for i := 0; ...; i++  => phi [0, phi+1]
	if ph, ok := v.(*ssa.Phi); ok && len(ph.Edges) == 2 {
		for k := 0; k < 2; k++ {
			if c, ok := constInt(ph.Edges[k]); ok && c == 0 {
				if bo, ok := ph.Edges[1-k].(*ssa.BinOp); ok && bo.Op == token.ADD {
					if one, ok := constInt(bo.Y); ok && one == 1 && bo.X == ph {
						return ph, true
					}
				}
			}
		}
	}
	// range over slice: idx = phi[-1, idx] + 1
	if bo, ok := v.(*ssa.BinOp); ok && bo.Op == token.ADD {
		if one, ok := constInt(bo.Y); ok && one == 1 {
			if ph, ok := bo.X.(*ssa.Phi); ok && len(ph.Edges) == 2 {
				for k := 0; k < 2; k++ {
					if c, ok := constInt(ph.Edges[k]); ok && c == -1 && ph.Edges[1-k] == bo {
						return ph, true
					}
				}
			}
		}
	}
	return nil, false
}

func c02Unstash(p *Program, r *Report) {
	ctx := p.contextType()
	if ctx == nil {
		r.Unresolved("actor context type")
		return
	}
	un := p.methodNamed(ctx, "Unstash")
	sf := p.methodNamed(ctx, "Stash")
	if un == nil || sf == nil {
		r.Unresolved("Stash/Unstash methods")
		return
	}
	g := p.ig(un)
	// stash field: the slice field appended to by Stash
	var stash *types.Var
	for _, in := range p.ig(sf).Nodes {
		if st, ok := in.(*ssa.Store); ok {
			if f, _ := fieldAddr(st.Addr); f != nil {
				if _, isSl := f.Type().Underlying().(*types.Slice); isSl {
					stash = f
				}
			}
		}
	}
	if stash == nil {
		r.Unresolved("stash field")
		return
	}
	enq := nodesWhere(g, func(in ssa.Instruction) bool {
		c := callOf(in)
		return c != nil && c.IsInvoke() && c.Method.Name() == "Enqueue"
	})
	if len(enq) == 0 {
		r.Unresolved("Unstash enqueues nothing")
		return
	}
	stores := nodesWhere(g, func(in ssa.Instruction) bool {
		st, ok := in.(*ssa.Store)
		if !ok {
			return false
		}
		f, _ := fieldAddr(st.Addr)
		return f == stash
	})
	isStashLoad := func(v ssa.Value) bool { f, _ := fieldLoad(v); return f == stash }
	for e := range enq {
		c := callOf(g.Nodes[e])
		var idx ssa.Value
		if len(c.Args) == 1 {
			if ld, ok := c.Args[0].(*ssa.UnOp); ok && ld.Op == token.MUL {
				if ia, ok := ld.X.(*ssa.IndexAddr); ok {
					src := ia.X
					if sl, ok := src.(*ssa.Slice); ok { // range c.stash[:k]
						src = sl.X
					}
					if isStashLoad(src) {
						idx = ia.Index
					}
				}
			}
		}
		if idx == nil {
			r.Violate("Unstash enqueue in "+fnName(un), g.Nodes[e].Pos(), "enqueued value is not an element stash[i] of the stash field")
			continue
		}
		if c0, ok := constInt(idx); ok {
			// fast path: element 0, then the stash loses exactly its first element
			good := c0 == 0
			for s := range stores {
				_ = s
			}
			reach := g.ReachAfter(e, nil, nil)
			found := false
			for s := range stores {
				if !reach[s] {
					continue
				}
				st := g.Nodes[s].(*ssa.Store)
				sl, ok := st.Val.(*ssa.Slice)
				if !ok || !isStashLoad(sl.X) || sl.High != nil {
					good = false
					continue
				}
				lo, ok := constInt(sl.Low)
				if !ok || lo != 1 {
					good = false
				}
				found = true
				if !g.mustPass(e, g.Exits[0], setOf(s)) {
					// verify against all exits reachable
				}
			}
			// every path from the enqueue to an exit passes a store
			if anyIn(g.ReachAfter(e, stores, nil), g.Exits) {
				good = false
			}
			for e2 := range enq {
				if reach[e2] {
					good = false
				}
			}
			r.Check(good && found, "Unstash single: stash[0] then stash[1:]", g.Nodes[e].Pos(), "the single-message path enqueues stash[0] and on every path stores stash[1:] back, enqueueing nothing else")
			continue
		}
		ph, asc := ascendingFromZero(idx)
		if !asc {
			r.Violate("Unstash loop index", g.Nodes[e].Pos(), "batch path does not traverse the stash by an index ascending by one from 0")
			continue
		}
		// loop bound: the If guarding the body compares the index with B (or ranges a prefix stash[:B])
		var bound ssa.Value
		// `for i := 0; i < B; i++` tests i < B at the loop head; `for i := range B` is rotated: 0 < B before the loop and
		// i+1 < B at its end. The body is dominated by the union of the guards on one bound B.
		guards := map[ssa.Value]map[edge]bool{}
		addG := func(b ssa.Value, e edge) {
			if guards[b] == nil {
				guards[b] = map[edge]bool{}
			}
			guards[b][e] = true
		}
		for _, ifi := range ifsOf(un) {
			for _, outcome := range []bool{true, false} {
				f, ok := condFact(ifi.Cond, outcome)
				if !ok {
					continue
				}
				if f.Y != nil && f.Op == token.LSS {
					isIdx := f.X == idx || f.X == ssa.Value(ph)
					if bo, isB := f.X.(*ssa.BinOp); isB && bo.Op == token.ADD && (bo.X == idx || bo.X == ssa.Value(ph)) {
						if c, isC := constInt(bo.Y); isC && c == 1 {
							isIdx = true // the incremented index of a rotated loop
						}
					}
					if isIdx {
						addG(f.Y, g.branchEdge(ifi, outcome))
					}
				}
				if f.Y == nil && !f.IsNil && !f.Bool && f.Op == token.GTR && f.C == 0 {
					addG(f.X, g.branchEdge(ifi, outcome)) // 0 < B
				}
			}
		}
		for b, es := range guards {
			hasIdx := false
			for ed := range es {
				if ifi, ok := g.Nodes[ed.from].(*ssa.If); ok {
					if f, ok := condFact(ifi.Cond, true); ok && f.Y != nil {
						hasIdx = true
					}
					if f, ok := condFact(ifi.Cond, false); ok && f.Y != nil {
						hasIdx = true
					}
				}
			}
			if hasIdx && g.DominatedByEdges(e, es) {
				bound = b
			}
		}
		if bound == nil {
			r.Violate("Unstash loop bound", g.Nodes[e].Pos(), "no `index < bound` guard dominates the batch enqueue")
			continue
		}
		if cl, ok := bound.(*ssa.Call); ok { // range over prefix: bound = len(stash[:k])
			if b, ok := cl.Call.Value.(*ssa.Builtin); ok && b.Name() == "len" {
				if sl, ok := cl.Call.Args[0].(*ssa.Slice); ok && sl.Low == nil && sl.High != nil {
					bound = sl.High
				}
			}
		}
		good, found := true, false
		reach := g.ReachAfter(e, nil, nil)
		for s := range stores {
			if !reach[s] {
				continue
			}
			st := g.Nodes[s].(*ssa.Store)
			if isNilConst(st.Val) {
				continue // releasing the backing array when everything was restored
			}
			sl, ok := st.Val.(*ssa.Slice)
			if !ok || !isStashLoad(sl.X) || sl.High != nil || sl.Low == nil || !sameValue(sl.Low, bound) {
				good = false
				continue
			}
			found = true
		}
		// the prefix removal happens on every path from loop exit to function exit
		nonNil := map[int]bool{}
		for s := range stores {
			if st := g.Nodes[s].(*ssa.Store); !isNilConst(st.Val) {
				nonNil[s] = true
			}
		}
		if anyIn(g.ReachAfter(e, nonNil, nil), g.Exits) {
			good = false
		}
		r.Check(good && found, "Unstash batch: ascending stash[0..k) then stash[k:]", g.Nodes[e].Pos(), "the batch path enqueues stash[i] for i ascending from 0 below k and stores stash[k:] (same k) back on every path")
	}
	// nil-store only when everything was restored
	for s := range stores {
		st := g.Nodes[s].(*ssa.Store)
		if !isNilConst(st.Val) {
			continue
		}
		// "everything was restored": restored count == the length the stash had BEFORE the prefix was cut off, or the length
		// AFTER the cut == 0. Comparing the count with the length after the cut releases the array — and the remaining
		// messages with it — exactly when as many messages remain as were restored.
		afterCut := map[int]bool{}
		for s2 := range stores {
			if st2 := g.Nodes[s2].(*ssa.Store); !isNilConst(st2.Val) {
				for n := range g.ReachAfter(s2, nil, nil) {
					afterCut[n] = true
				}
			}
		}
		lenOfStash := func(v ssa.Value) (isLen bool, after bool) {
			c, ok := strip(v).(*ssa.Call)
			if !ok {
				return false, false
			}
			b, ok := c.Call.Value.(*ssa.Builtin)
			if !ok || b.Name() != "len" || !isStashLoad(c.Call.Args[0]) {
				return false, false
			}
			ld, _ := c.Call.Args[0].(ssa.Instruction)
			return true, ld != nil && afterCut[g.Idx[ld]]
		}
		eq := g.edgesWhere(func(f cmpFact) bool {
			if f.Op != token.EQL {
				return false
			}
			if f.Y == nil {
				// len(stash after the cut) == 0
				isLen, after := lenOfStash(f.X)
				return isLen && after && !f.IsNil && !f.Bool && f.C == 0
			}
			for _, side := range []ssa.Value{f.X, f.Y} {
				if isLen, after := lenOfStash(side); isLen && after {
					return false // the length after the cut compared with the count
				}
			}
			return true
		})
		r.Check(len(eq) > 0 && g.DominatedByEdges(s, eq), "Unstash releases the array only when empty", st.Pos(), "stash = nil is stored only under an equality guard restored count == stash length taken before the prefix was removed (or remaining length == 0)")
	}
}

// c02StashWriters: "stashed messages come back in the order they were stashed, each exactly once" — and (C03) a stashed message
// sits in the stash until it is taken out. The stash is a plain slice of the context: any other writer (a "release" on
// termination, a reset on restart) silently discards what it holds. Who-may-write: every store to the stash field lies in
// Stash, in Unstash or in a helper only they call; a writer elsewhere is accepted only when the same function hands every
// element on (ranges over the stash and enqueues / tells the element).
func c02StashWriters(p *Program, r *Report) {
	ctx := p.contextType()
	if ctx == nil {
		r.Unresolved("actor context type")
		return
	}
	un := p.methodNamed(ctx, "Unstash")
	sf := p.methodNamed(ctx, "Stash")
	if un == nil || sf == nil {
		r.Unresolved("Stash/Unstash methods")
		return
	}
	var stash *types.Var
	for _, in := range p.igx(sf).Nodes {
		if st, ok := in.(*ssa.Store); ok {
			if f, _ := fieldAddr(st.Addr); f != nil {
				if _, isSl := f.Type().Underlying().(*types.Slice); isSl {
					stash = f
				}
			}
		}
	}
	if stash == nil {
		r.Unresolved("stash field")
		return
	}
	owners := []*IG{p.igx(sf), p.igx(un)}
	n := 0
	for _, a := range p.fieldAccesses(map[*types.Var]bool{stash: true}) {
		if !a.Write || a.Fresh {
			continue
		}
		n++
		owned := false
		for _, og := range owners {
			if og.owns(p, a.Fn) {
				owned = true
			}
		}
		if !owned {
			// hands every element on before dropping them?
			g := p.ig(a.Fn)
			for _, in := range g.Nodes {
				c := callOf(in)
				if c == nil {
					continue
				}
				for _, arg := range c.Args {
					if ld, isU := strip(arg).(*ssa.UnOp); isU && ld.Op == token.MUL {
						if ia, isIA := ld.X.(*ssa.IndexAddr); isIA {
							if f, _ := fieldLoad(strip(ia.X)); f == stash && g.ReachAfter(g.Idx[in], nil, nil)[a.Node] {
								owned = true
							}
						}
					}
				}
			}
		}
		r.Check(owned, "stash written in "+fnName(a.Fn), a.In.Pos(), "the stash is assigned only by Stash (append the current envelope), by Unstash (drop the re-enqueued prefix), or by a function that first hands every element on: any other assignment discards stashed messages, which are then neither processed nor dead-lettered")
	}
	if n == 0 {
		r.Unresolved("no store to the stash field")
	}
}

// c02EnvelopeFresh: Stash keeps the context's current envelope beyond the handler call. Whatever the context installs as its
// current envelope must therefore be a value nobody writes again: the envelope it was handed, or one allocated for this
// message. Installing the address of a per-context cell that is refilled for every message ("avoid one allocation per
// trigger") makes every stashed envelope alias that cell: Unstash then yields the latest message N times.
func c02EnvelopeFresh(p *Program, r *Report) {
	lc := lcOrFail(p, r)
	if lc == nil {
		return
	}
	if lc.EnvelopF == nil {
		r.Unresolved("current-envelope field of the context")
		return
	}
	n := 0
	for _, a := range p.fieldAccesses(map[*types.Var]bool{lc.EnvelopF: true}) {
		st, ok := a.In.(*ssa.Store)
		if !ok || a.Fresh {
			continue
		}
		n++
		v := st.Val
		for {
			if mi, isMI := v.(*ssa.MakeInterface); isMI {
				v = mi.X
				continue
			}
			break
		}
		good := false
		why := strings.Join(p.origins(st.Val), " | ")
		switch x := strip(v).(type) {
		case *ssa.Parameter:
			good = true
		case *ssa.Alloc:
			good = x.Heap || true
		default:
			good = p.freshValue(v, 0)
		}
		if _, isFA := v.(*ssa.FieldAddr); isFA {
			good = false
		}
		r.Check(good, "current envelope installed in "+fnName(a.Fn), st.Pos(), "the value stored as the context's current envelope is the handler's parameter or a fresh allocation ("+why+"), never the address of storage that is written again for a later message")
	}
	if n == 0 {
		r.Unresolved("no store to the current-envelope field")
	}
}
