package main

type lockInfo struct{}
type lockSet map[string]bool
