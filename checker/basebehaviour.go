package main

import (
	"go/types"
	"strings"

	"golang.org/x/tools/go/ssa"
)

// c05BaseBehaviourIsCurrent — whatever the library itself pushes onto the behaviour stack is the CURRENT actor's OnReceive.
//
// A restart with a provider replaces the actor instance; the restart step resets the stack to the new instance's OnReceive
// (C05.R4). Every other place where the library pushes a base behaviour (initialisation, UnBecome running the stack empty) must
// read the actor field at that moment: a method value cached in another field is bound to the instance that existed when it was
// cached, and after a provider restart it hands the messages of the new incarnation to the old instance — which then sees
// messages after its own OnKilled. Every Push in the actor package receives either a value derived from a parameter (the user's
// behaviour in Become) or a method value bound to a load of the actor field made in the same function.
func c05BaseBehaviourIsCurrent(p *Program, r *Report) {
	lc := lcOrFail(p, r)
	if lc == nil {
		return
	}
	if lc.ActorF == nil {
		r.Unresolved("actor field of the context")
		return
	}
	n := 0
	for _, fn := range p.Mod {
		pk := fnPkg(fn)
		if pk == nil || !strings.HasSuffix(pk.Path(), "/internal/actor") || len(fn.Blocks) == 0 {
			continue
		}
		for _, b := range fn.Blocks {
			for _, in := range b.Instrs {
				c := callOf(in)
				if c == nil || c.StaticCallee() == nil || c.StaticCallee().Name() != "Push" || c.StaticCallee().Signature.Recv() == nil || len(c.Args) < 2 {
					continue
				}
				if nt := namedOf(c.StaticCallee().Signature.Recv().Type()); nt == nil || !strings.Contains(nt.Obj().Name(), "Behavior") {
					continue
				}
				n++
				arg := strip(c.Args[len(c.Args)-1])
				ok, why := false, ""
				switch x := arg.(type) {
				case *ssa.MakeClosure:
					if len(x.Bindings) == 1 {
						if f, _ := fieldLoad(strip(x.Bindings[0])); f == lc.ActorF {
							ok, why = true, "a method value bound to the actor field read here"
						}
					}
				case *ssa.Parameter:
					ok, why = true, "the caller's behaviour"
				}
				if !ok {
					if f, _ := fieldLoad(arg); f != nil {
						if _, isSig := f.Type().Underlying().(*types.Signature); isSig {
							why = "a function value kept in field " + f.Name() + ": bound to whatever instance existed when it was stored"
						}
					}
					if why == "" {
						o := p.origins(arg)
						if len(o) > 0 && allContain(o, "param:") && !anyContains(o, "field:") {
							ok, why = true, "derived from the caller's argument"
						} else {
							why = "neither the caller's behaviour nor a method value bound to the current actor (" + strings.Join(o, " | ") + ")"
						}
					}
				}
				r.Check(ok, "behaviour pushed in "+fnName(fn), in.Pos(), why)
			}
		}
	}
	if n == 0 {
		r.Unresolved("pushes onto the behaviour stack in the actor package")
	}
}
