package main

import (
	"encoding/json"
	"fmt"
	"os"
	"path/filepath"
	"sort"
	"strings"
)

// describe prints the per-property rule tables (from the registered rules) and the
// witness → rule matrix (from a selftest result file) as markdown for DESIGN.md.
func describe(resultsFile string) int {
	var results []witnessResult
	if b, err := os.ReadFile(resultsFile); err == nil {
		_ = json.Unmarshal(b, &results)
	}
	byProp := map[string][]witnessResult{}
	for _, r := range results {
		byProp[r.Property] = append(byProp[r.Property], r)
	}
	var ids []string
	for id := range properties {
		ids = append(ids, id)
	}
	sort.Strings(ids)
	for _, id := range ids {
		pr := properties[id]
		fmt.Printf("### %s\n\n", id)
		fmt.Printf("%s\n\n", pr.Explanation)
		if len(pr.Assumptions) > 0 {
			fmt.Printf("Assumptions: %s.\n\n", strings.Join(pr.Assumptions, "; "))
		}
		fmt.Println("| rule | decides | min. instances |")
		fmt.Println("|------|---------|----------------|")
		for _, r := range pr.Rules {
			fmt.Printf("| %s | %s | %d |\n", r.ID, r.Desc, r.Min)
		}
		fmt.Println()
		ws := byProp[id]
		if len(ws) > 0 {
			fmt.Println("Changes exercised by the self-test (breaking ⇒ must fire, refactor ⇒ must stay silent, miss ⇒ documented limit):")
			fmt.Println()
			for _, w := range ws {
				desc := ""
				if b, err := os.ReadFile(filepath.Join(verifDir, w.Name, "meta.json")); err == nil {
					var m witnessMeta
					if json.Unmarshal(b, &m) == nil {
						desc = m.Desc
					}
				}
				fired := strings.Join(w.Fired, ", ")
				if fired == "" {
					fired = "—"
				}
				fmt.Printf("* `%s` (%s) → %s — %s\n", strings.TrimPrefix(w.Name, "witness/"), w.Expect, fired, desc)
			}
			fmt.Println()
		}
	}
	return 0
}
