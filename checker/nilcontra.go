package main

import (
	"go/token"
	"go/types"
	"sort"

	"golang.org/x/tools/go/ssa"
)

// c13NilChecked — a pointer the decoder itself tests for nil is not used where that test has not passed.
//
// Contradiction rule: if a function on the decode path compares a pointer-typed call result with nil on some branch, it believes
// the call can return nil (a lookup that can miss: an error code the receiving binary does not know, a name that is not
// registered). Every use of that value as the receiver of a method call, or as the base of a field access, must then be
// dominated by the value's != nil edge. A use in front of the test (a condition computed "early" and consulted in a later
// switch arm) dereferences nil for exactly the inputs the test exists for — a panic while decoding.
func c13NilChecked(p *Program, r *Report) {
	var fns []*ssa.Function
	for f := range p.decodeHelperScope() {
		fns = append(fns, f)
	}
	sort.Slice(fns, func(i, j int) bool { return fns[i].Pos() < fns[j].Pos() })
	n := 0
	for _, fn := range fns {
		if len(fn.Blocks) == 0 {
			continue
		}
		g := p.ig(fn)
		tested := map[ssa.Value]map[edge]bool{} // value -> its != nil edges
		for _, ifi := range g.ifs() {
			for _, oc := range []bool{true, false} {
				f, ok := condFact(ifi.Cond, oc)
				if !ok || !f.IsNil {
					continue
				}
				v := strip(f.X)
				if _, isPtr := v.Type().Underlying().(*types.Pointer); !isPtr {
					continue
				}
				switch v.(type) {
				case *ssa.Call, *ssa.Extract:
				default:
					continue
				}
				if tested[v] == nil {
					tested[v] = map[edge]bool{}
				}
				if f.Op == token.NEQ {
					tested[v][g.branchEdge(ifi, oc)] = true
				}
			}
		}
		for v, nonNil := range tested {
			for i, in := range g.Nodes {
				used := false
				if c := callOf(in); c != nil && !c.IsInvoke() && c.StaticCallee() != nil && c.StaticCallee().Signature.Recv() != nil && len(c.Args) > 0 && strip(c.Args[0]) == v {
					used = true
				}
				if fa, isFA := in.(*ssa.FieldAddr); isFA && strip(fa.X) == v {
					used = true
				}
				if u, isU := in.(*ssa.UnOp); isU && u.Op == token.MUL && strip(u.X) == v {
					used = true
				}
				if !used {
					continue
				}
				n++
				r.Check(len(nonNil) > 0 && g.DominatedByEdges(i, nonNil), "use of a nil-tested pointer in "+fnName(fn), in.Pos(), "the function compares this call result with nil elsewhere, so it can be nil; this method call / field access is dominated by its != nil edge")
			}
		}
	}
	if n == 0 {
		r.Lookup("no pointer-typed call result on the decode path is both tested for nil and dereferenced", token.NoPos, "nothing to check")
	}
}
