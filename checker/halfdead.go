package main

import (
	"fmt"
	"go/token"
	"go/types"
	"strings"

	"golang.org/x/tools/go/ssa"
)

// c14HalfDeadNoticed — a connection whose reading side has died does not swallow writes for ever.
//
// The outbound mailbox abandons its connection (and redials, or reports a dead letter) only when a write on it FAILS. A
// connection can lose its reader while the socket stays open: the close handshake of a peer system that is stopped and started
// again in the same process, a frame with an invalid length, a connection actor killed by supervision. The kernel keeps
// accepting the writer's bytes; unless something makes a later write fail, every later message is "sent", never delivered, never
// a dead letter, and no reconnect is attempted although the peer is reachable. One of these must hold:
//
//	(a) the connection's writes are bounded by a write deadline that is armed before the first write and that nothing in the
//	    transport disarms (today: the handshake arms an absolute deadline that stays on the socket — a write after it fails), or
//	    every data write of the connection type is dominated by an arming call in its own function;
//	(b) the death of the reading side closes the socket: every exit of the frame reader that does not re-arm passes a close of
//	    the connection, or the connection actor closes the socket when it handles its own termination.
//
// What it does not decide: how long the detection takes; delivery after the redial (C14.R4/R5/R7).
func c14HalfDeadNoticed(p *Program, r *Report) {
	rm := remOrFail(p, r)
	if rm == nil {
		return
	}
	isConn := func(t types.Type) bool {
		if typeIs(t, "net", "Conn") {
			return true
		}
		if pt, ok := t.(*types.Pointer); ok {
			return typeIs(pt.Elem(), "net", "TCPConn")
		}
		return false
	}
	type dl struct {
		fn    *ssa.Function
		in    ssa.Instruction
		arms  bool
		write bool // concerns the write side (SetWriteDeadline / SetDeadline)
	}
	var dls []dl
	for _, fn := range p.Mod {
		pk := fnPkg(fn)
		if pk == nil || !strings.Contains(pk.Path(), "/internal/remoting") {
			continue
		}
		for _, b := range fn.Blocks {
			for _, in := range b.Instrs {
				c := callOf(in)
				if c == nil {
					continue
				}
				name := ""
				if c.IsInvoke() && isConn(c.Value.Type()) {
					name = c.Method.Name()
				} else if y := c.StaticCallee(); y != nil && y.Signature.Recv() != nil && isConn(y.Signature.Recv().Type()) {
					name = y.Name()
				}
				if name != "SetWriteDeadline" && name != "SetDeadline" && name != "SetReadDeadline" {
					continue
				}
				args := callArgs(c)
				if len(args) == 0 {
					continue
				}
				dls = append(dls, dl{fn, in, !isZeroTime(args[len(args)-1]), name != "SetReadDeadline"})
			}
		}
	}
	// (a) armed before a write in the same function, never disarmed anywhere in the transport
	var armPos, clearPos token.Pos
	armed := false
	for _, d := range dls {
		if !d.write {
			continue
		}
		if !d.arms {
			clearPos = d.in.Pos()
			continue
		}
		g := p.ig(d.fn)
		di, ok := g.Idx[d.in]
		if !ok {
			continue
		}
		for i, nd := range g.Nodes {
			c := callOf(nd)
			if c == nil || !c.IsInvoke() || !isConn(c.Value.Type()) || c.Method.Name() != "Write" {
				continue
			}
			if g.DominatedByNodes(i, setOf(di)) {
				armed, armPos = true, d.in.Pos()
			}
		}
	}
	// per-write arming in the connection type's own write path
	perWrite, nWrites := true, 0
	for _, m := range p.methodsOf(rm.ConnT) {
		g := p.ig(m)
		arms := map[int]bool{}
		for _, d := range dls {
			if d.fn == m && d.write && d.arms {
				if i, ok := g.Idx[d.in]; ok {
					arms[i] = true
				}
			}
		}
		for i, nd := range g.Nodes {
			c := callOf(nd)
			if c == nil || !c.IsInvoke() || !isConn(c.Value.Type()) || c.Method.Name() != "Write" {
				continue
			}
			if f, _ := fieldLoad(c.Value); f != rm.ConnF {
				continue
			}
			nWrites++
			if len(arms) == 0 || !g.DominatedByNodes(i, arms) {
				perWrite = false
			}
		}
	}
	perWrite = perWrite && nWrites > 0
	a := (armed && clearPos == token.NoPos) || perWrite
	// (b) the reader's death closes the socket
	isClose := func(in ssa.Instruction) bool {
		c := callOf(in)
		if c == nil {
			return false
		}
		if c.IsInvoke() && isConn(c.Value.Type()) && c.Method.Name() == "Close" {
			return true
		}
		return false
	}
	g, rearm, _, _ := p.readerEvents(rm)
	closes, _ := p.eventNodes(g, isClose)
	readerCloses := len(closes) > 0 && !anyIn(g.Reach(g.entry(), union(rearm, closes), nil), g.Exits)
	// … or the actor closes when it handles its own termination: a type-switch case on OnKill / OnKilled in a method of the
	// connection type from which every path closes
	onDeath := false
	for _, m := range p.methodsOf(rm.ConnT) {
		mg := p.igx(m)
		mcl, _ := p.eventNodes(mg, isClose)
		if len(mcl) == 0 {
			continue
		}
		for _, ifi := range mg.ifs() {
			ex, isEx := ifi.Cond.(*ssa.Extract)
			if !isEx || ex.Index != 1 {
				continue
			}
			ta, isTA := ex.Tuple.(*ssa.TypeAssert)
			if !isTA {
				continue
			}
			tn := typeName(ta.AssertedType)
			if !strings.HasSuffix(tn, "OnKill") && !strings.HasSuffix(tn, "OnKilled") {
				continue
			}
			e := mg.branchEdge(ifi, true)
			// a guard "the notice names this very actor" may stand in front of the close: its false edge is a foreign notice
			_, foreign := callEdges(mg, func(c *ssa.Call) bool {
				name := ""
				if c.Call.IsInvoke() {
					name = c.Call.Method.Name()
				} else if y := c.Call.StaticCallee(); y != nil {
					name = y.Name()
				}
				if name != "Equals" {
					return false
				}
				for _, a := range c.Call.Args {
					if ac, isC := strip(a).(*ssa.Call); isC && ac.Call.IsInvoke() && ac.Call.Method.Name() == "Ref" {
						return true
					}
				}
				return false
			})
			if mcl[e.to] || !anyIn(mg.Reach([]int{e.to}, mcl, foreign), mg.Exits) {
				onDeath = true
			}
		}
	}
	b := readerCloses || onDeath
	why := fmt.Sprintf("(a) write deadline armed before a write at %s and never disarmed in the transport: %v; every data write of the connection armed in its own function: %v; (b) the frame reader closes the socket on every exit that does not re-arm: %v; the connection actor closes it when it terminates: %v", p.pos(armPos), armed && clearPos == token.NoPos, perWrite, readerCloses, onDeath)
	pos := armPos
	if !a && !b {
		if clearPos != token.NoPos {
			pos = clearPos
			why = "the write deadline armed by the handshake is disarmed here, no data write arms its own, and neither the frame reader nor the connection actor's termination closes the socket: once the reading side is gone (close handshake of a restarted peer system, invalid frame length, supervision) writes keep succeeding into a connection nobody reads — later messages are neither delivered nor dead-lettered and no reconnect is attempted"
		} else {
			why = "no write deadline is armed before the connection's writes, and neither the frame reader nor the connection actor's termination closes the socket: writes into a connection nobody reads never fail"
		}
		if pos == token.NoPos {
			pos = rm.ReadFn.Pos()
		}
	}
	r.Check(a || b, "a connection that lost its reader makes a later write fail", pos, why)
}

// isZeroTime: v is the zero time.Time (composite literal without fields)
func isZeroTime(v ssa.Value) bool {
	v = strip(v)
	if c, ok := v.(*ssa.Const); ok {
		return c.Value == nil
	}
	if u, ok := v.(*ssa.UnOp); ok && u.Op == token.MUL {
		if al, isAl := u.X.(*ssa.Alloc); isAl && al.Referrers() != nil {
			for _, ref := range *al.Referrers() {
				switch ref.(type) {
				case *ssa.Store, *ssa.FieldAddr:
					return false
				}
			}
			return true
		}
	}
	return false
}

// c11DeadlinesBoundTheHandshake — a deadline armed for the handshake does not outlive the handshake.
//
// Deadlines on a net.Conn are absolute instants. One that a handshake half arms in front of its read / write and leaves on the
// socket fires later, in the middle of the connection's life: the frame reader fails with an i/o timeout and the connection
// actor dies with frames the peer has already written still unread — lost without a report, on a link the network never broke
// (F46). In every function of the transport in which an arming Set{Read,Write,}Deadline dominates a Read / Write on the same
// connection, every path from the arming call to a return passes a clearing call of the same kind (a deferred one counts).
func c11DeadlinesBoundTheHandshake(p *Program, r *Report) {
	isConn := func(t types.Type) bool { return typeIs(t, "net", "Conn") }
	n := 0
	for _, fn := range p.Mod {
		pk := fnPkg(fn)
		if pk == nil || !strings.Contains(pk.Path(), "/internal/remoting") || len(fn.Blocks) == 0 || fn.Parent() != nil {
			continue
		}
		g := p.ig(fn)
		connKey := func(v ssa.Value) ssa.Value { // a parameter captured by a deferred closure lives in a cell: every use is a load of it
			if u, ok := v.(*ssa.UnOp); ok && u.Op == token.MUL {
				if al, isAl := u.X.(*ssa.Alloc); isAl {
					return al
				}
			}
			return v
		}
		kindOf := func(in ssa.Instruction) (string, bool, ssa.Value) { // kind, arms, conn
			c := callOf(in)
			if c == nil || !c.IsInvoke() || !isConn(c.Value.Type()) {
				return "", false, nil
			}
			switch c.Method.Name() {
			case "SetReadDeadline", "SetWriteDeadline", "SetDeadline":
				return c.Method.Name(), !isZeroTime(c.Args[0]), connKey(c.Value)
			}
			return "", false, nil
		}
		for ai, a := range g.Nodes {
			kind, arms, conn := kindOf(a)
			if kind == "" || !arms {
				continue
			}
			want := map[string]string{"SetReadDeadline": "Read", "SetWriteDeadline": "Write"}[kind]
			guards := false
			for i, in := range g.Nodes {
				c := callOf(in)
				if c == nil || !c.IsInvoke() || connKey(c.Value) != conn {
					continue
				}
				if (want == "" && (c.Method.Name() == "Read" || c.Method.Name() == "Write")) || c.Method.Name() == want {
					if g.DominatedByNodes(i, setOf(ai)) {
						guards = true
					}
				}
			}
			if !guards {
				continue
			}
			n++
			clears := map[int]bool{}
			for i, in := range g.Nodes {
				if k, ar, cv := kindOf(in); k == kind && !ar && cv == conn {
					clears[i] = true
				}
				if d, isD := in.(*ssa.Defer); isD {
					var body *ssa.Function
					if mc, isMC := d.Call.Value.(*ssa.MakeClosure); isMC {
						body, _ = mc.Fn.(*ssa.Function)
					} else if y := d.Call.StaticCallee(); y != nil {
						body = y
					}
					if body != nil {
						for _, b := range body.Blocks {
							for _, in2 := range b.Instrs {
								c2 := callOf(in2)
								if c2 != nil && c2.IsInvoke() && isConn(c2.Value.Type()) && c2.Method.Name() == kind && isZeroTime(c2.Args[0]) {
									clears[i] = true
								}
							}
						}
					}
				}
			}
			// the edge on which the arming call itself failed (nothing was armed) is not constrained
			failed := map[edge]bool{}
			for _, ifi := range g.ifs() {
				for _, oc := range []bool{true, false} {
					f, okf := condFact(ifi.Cond, oc)
					if okf && f.IsNil && f.Op == token.NEQ && strip(f.X) == ssa.Value(a.(ssa.Value)) {
						failed[g.branchEdge(ifi, oc)] = true
					}
				}
			}
			ok := len(clears) > 0 && !anyIn(g.ReachAfter(ai, clears, failed), g.Exits)
			r.Check(ok, fmt.Sprintf("%s armed in %s is cleared before the function returns", kind, fnName(fn)), a.Pos(), "every path from the arming call to a return passes a clearing call of the same kind (or registers a deferred one): the deadline bounds the handshake step, not the life of the connection")
		}
	}
	if n == 0 {
		r.Unresolved("a deadline armed in front of a Read/Write in the transport")
	}
}
