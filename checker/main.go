package main

import (
	"encoding/json"
	"flag"
	"fmt"
	"os"
	"path/filepath"
	"sort"
	"strconv"
	"strings"
	"time"
)

var verifDir = "/verif"

func main() {
	if len(os.Args) > 1 && os.Args[1] == "explain" {
		os.Exit(explain(os.Args[2:]))
	}
	if len(os.Args) > 4 && os.Args[1] == "classes" {
		os.Exit(debugClasses(os.Args[2], os.Args[3:]))
	}
	if len(os.Args) > 2 && os.Args[1] == "decodescope" {
		p, err := loadProgram(os.Args[2], "")
		if err != nil {
			fmt.Println(err)
			os.Exit(2)
		}
		for _, n := range debugScopeNames(p) {
			fmt.Println(n)
		}
		os.Exit(0)
	}
	if len(os.Args) > 2 && os.Args[1] == "owns" {
		os.Exit(debugOwns(os.Args[2]))
	}
	if len(os.Args) > 5 && os.Args[1] == "igx" {
		os.Exit(debugIgx(os.Args[2], os.Args[3], os.Args[4], os.Args[5]))
	}
	if len(os.Args) > 4 && os.Args[1] == "fields" {
		os.Exit(debugFields(os.Args[2], os.Args[3], os.Args[4]))
	}
	if len(os.Args) > 2 && os.Args[1] == "describe" {
		os.Exit(describe(os.Args[2]))
	}
	if len(os.Args) > 1 && os.Args[1] == "selftest" {
		os.Exit(selftestMain(os.Args[2:]))
	}
	prop := flag.String("prop", "", "property id (C01..C20) or 'all'")
	tier := flag.String("tier", "quick", "quick | thorough")
	repo := flag.String("repo", "/repo", "tree to analyse")
	vdir := flag.String("verif", "/verif", "verif dir (evidence, known findings, witnesses)")
	noEvidence := flag.Bool("no-evidence", false, "do not write evidence/replay files (used for scratch variants)")
	verbose := flag.Bool("v", false, "print every obligation")
	jsonOut := flag.String("json", "", "write the full obligation list as JSON to this file")
	flag.Parse()
	verifDir = *vdir
	if t := os.Getenv("VERIF_TIER"); t != "" && *tier == "" {
		*tier = t
	}
	seed := 0
	if s := os.Getenv("VERIF_SEED"); s != "" {
		seed, _ = strconv.Atoi(s)
	}
	if *prop == "" {
		fmt.Fprintln(os.Stderr, "usage: vcheck -prop Cxx [-tier quick|thorough] [-repo dir]")
		os.Exit(2)
	}
	var ids []string
	if *prop == "all" {
		for id := range properties {
			ids = append(ids, id)
		}
		sort.Strings(ids)
	} else {
		ids = strings.Split(*prop, ",")
	}
	for _, id := range ids {
		if properties[id] == nil {
			fmt.Printf("VIOLATION property=%s replay=none (no rules registered for this property)\n", id)
			os.Exit(1)
		}
	}
	findings, err := loadFindings(filepath.Join(verifDir, "known_findings.json"))
	if err != nil {
		fmt.Printf("ERROR reading known_findings.json: %v\n", err)
		for _, id := range ids {
			fmt.Printf("VIOLATION property=%s replay=none\n", id)
		}
		os.Exit(1)
	}

	t0 := time.Now()
	p, err := loadProgram(*repo, "")
	if err != nil {
		fmt.Printf("ERROR loading %s: %v\n", *repo, err)
		for _, id := range ids {
			fmt.Printf("VIOLATION property=%s replay=none (tree does not load / type-check)\n", id)
		}
		os.Exit(1)
	}
	fmt.Printf("loaded %d packages, %d functions (%d in module), %d call edges in %.1fs\n", p.NPkgs, len(p.All), len(p.Mod), p.NEdges, p.LoadS)

	exit := 0
	var all []*RunResult
	for _, id := range ids {
		pr := properties[id]
		res := runProperty(p, pr, findings)
		all = append(all, res)
		extra := map[string]any{}
		if *tier == "thorough" {
			thorough(p, pr, findings, res, extra, *repo)
		}
		printResult(res, *verbose)
		if len(res.Violations) > 0 {
			exit = 1
		}
		if !*noEvidence {
			writeReplays(res)
			if err := writeEvidence(p, pr, res, *tier, seed, time.Since(t0).Seconds(), extra); err != nil {
				fmt.Printf("ERROR writing evidence: %v\n", err)
				exit = 1
			}
		}
		for _, v := range res.Violations {
			fmt.Printf("VIOLATION property=%s replay=%s\n", id, replayPath(id, v))
		}
	}
	if *jsonOut != "" {
		var dump []Ob
		for _, r := range all {
			dump = append(dump, r.Obs...)
		}
		b, _ := json.MarshalIndent(dump, "", " ")
		_ = os.WriteFile(*jsonOut, b, 0o644)
	}
	os.Exit(exit)
}

func printResult(res *RunResult, verbose bool) {
	byRule := map[string][]Ob{}
	var order []string
	for _, o := range res.Obs {
		if _, ok := byRule[o.Rule]; !ok {
			order = append(order, o.Rule)
		}
		byRule[o.Rule] = append(byRule[o.Rule], o)
	}
	for _, rid := range order {
		obs := byRule[rid]
		d, v, k := 0, 0, 0
		for _, o := range obs {
			switch o.Status {
			case "discharged":
				d++
			case "known":
				k++
			default:
				v++
			}
		}
		fmt.Printf("rule %-8s instances=%d discharged=%d known=%d violated/undecided=%d\n", rid, len(obs), d, k, v)
		for _, o := range obs {
			if verbose || o.Status != "discharged" {
				fmt.Printf("   %-10s %s @ %s — %s\n", o.Status, o.Construct, o.Pos, o.Why)
			}
		}
	}
	for _, n := range res.Notes {
		if verbose {
			fmt.Println("   note:", n)
		}
	}
	for _, k := range res.Known {
		fmt.Printf("KNOWN-FINDING: property=%s %s %s @ %s — %s\n", res.Prop, k.Key, k.Construct, k.Pos, k.Why)
	}
	fmt.Printf("property %s: %d obligations, %d violations, %d known findings (%.2fs)\n", res.Prop, len(res.Obs), len(res.Violations), len(res.Known), res.Wall)
}

func replayPath(prop string, o Ob) string {
	return filepath.Join(verifDir, "out", prop, safeName(o.Key)+".json")
}

func writeReplays(res *RunResult) {
	dir := filepath.Join(verifDir, "out", res.Prop)
	_ = os.RemoveAll(dir)
	if len(res.Violations) == 0 {
		return
	}
	_ = os.MkdirAll(dir, 0o755)
	for _, v := range res.Violations {
		b, _ := json.MarshalIndent(map[string]any{"property": res.Prop, "obligation": v}, "", " ")
		_ = os.WriteFile(replayPath(res.Prop, v), b, 0o644)
	}
}

func writeEvidence(p *Program, pr *Property, res *RunResult, tier string, seed int, wall float64, extra map[string]any) error {
	disch, nontriv := 0, map[string]bool{}
	for _, o := range res.Obs {
		if o.Status == "discharged" {
			disch++
		}
		if o.Nontrivial {
			nontriv[o.Rule+"|"+o.Construct] = true
		}
	}
	// samples: first two obligations of every rule
	var samples []any
	perRule := map[string]int{}
	for _, o := range res.Obs {
		if perRule[o.Rule] < 2 {
			perRule[o.Rule]++
			samples = append(samples, o)
		}
	}
	type rc struct {
		Rule      string `json:"rule"`
		Desc      string `json:"desc"`
		Instances int    `json:"instances"`
		Minimum   int    `json:"minimum"`
	}
	var rcs []rc
	for _, r := range pr.Rules {
		rcs = append(rcs, rc{r.ID, r.Desc, res.RuleCounts[r.ID], r.Min})
	}
	cov := map[string]any{
		"explanation":           pr.Explanation,
		"obligations":           len(res.Obs),
		"discharged":            disch,
		"known_findings":        len(res.Known),
		"undecided_or_violated": len(res.Violations),
		"evaluations":           len(res.Obs),
		"distinct_nontrivial":   len(nontriv),
		"rule":                  "one obligation per (rule, construct) instance found in /repo's type-checked SSA program; non-trivial = discharged by a dominance / path / call-graph / dataflow argument rather than a table lookup; distinct by rule+construct key",
		"samples":               samples,
		"rules":                 rcs,
		"packages":              p.NPkgs,
		"functions":             len(p.All),
		"module_functions":      len(p.Mod),
		"call_graph_edges":      p.NEdges,
		"checker_cmd":           fmt.Sprintf("bin/vcheck -prop %s -tier %s", pr.ID, tier),
		"trusted_base":          []string{"go/types", "go/ssa", "callgraph/vta over cha", "Go memory model for sync/atomic, sync.Mutex, channels"},
		"exhaustive":            false,
	}
	for k, v := range extra {
		cov[k] = v
	}
	assumptions := append([]string{"go/types, go/ssa and the VTA call graph (an over-approximation of dynamic calls) are sound for the analysed constructs; the rules decide structural necessary conditions, not the behavioural statement"}, pr.Assumptions...)
	ev := map[string]any{
		"property_id": pr.ID,
		"tier":        tier,
		"seed":        seed,
		"level":       "other",
		"coverage":    cov,
		"assumptions": assumptions,
		"wall_s":      float64(int(wall*100)) / 100,
		"violations":  len(res.Violations),
	}
	dir := filepath.Join(verifDir, "evidence")
	if err := os.MkdirAll(dir, 0o755); err != nil {
		return err
	}
	b, err := json.MarshalIndent(ev, "", " ")
	if err != nil {
		return err
	}
	return os.WriteFile(filepath.Join(dir, pr.ID+".json"), append(b, '\n'), 0o644)
}

// explain re-derives the obligation stored in a replay file from the current tree.
func explain(args []string) int {
	if len(args) < 1 {
		fmt.Fprintln(os.Stderr, "usage: vcheck explain <replay.json> [-repo dir]")
		return 2
	}
	repo := "/repo"
	if len(args) >= 3 && args[1] == "-repo" {
		repo = args[2]
	}
	b, err := os.ReadFile(args[0])
	if err != nil {
		fmt.Println(err)
		return 2
	}
	var rp struct {
		Property   string `json:"property"`
		Obligation Ob     `json:"obligation"`
	}
	if err := json.Unmarshal(b, &rp); err != nil {
		fmt.Println(err)
		return 2
	}
	pr := properties[rp.Property]
	if pr == nil {
		fmt.Println("unknown property", rp.Property)
		return 2
	}
	p, err := loadProgram(repo, "")
	if err != nil {
		fmt.Println("ERROR loading:", err)
		return 1
	}
	findings, _ := loadFindings(filepath.Join(verifDir, "known_findings.json"))
	res := runProperty(p, pr, findings)
	fmt.Printf("recorded: %s %s @ %s — %s\n", rp.Obligation.Key, rp.Obligation.Status, rp.Obligation.Pos, rp.Obligation.Why)
	for _, o := range res.Obs {
		if o.Key == rp.Obligation.Key {
			fmt.Printf("current : %s %s @ %s — %s\n", o.Key, o.Status, o.Pos, o.Why)
			if o.Status == "discharged" {
				return 0
			}
			fmt.Printf("VIOLATION property=%s replay=%s\n", rp.Property, args[0])
			return 1
		}
	}
	fmt.Println("current : obligation no longer present on this tree")
	return 0
}
