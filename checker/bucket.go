package main

import (
	"fmt"
	"go/token"
	"go/types"
	"strings"

	"golang.org/x/tools/go/ssa"
)

// c18BucketConservesTime — a token bucket never loses elapsed time.
//
// Every gossip send (periodic round and change-triggered broadcast) first asks a token bucket. The bucket credits
// tokens for the time elapsed since its last refill and then moves the refill instant. Elapsed time must be conserved: either
// the whole elapsed interval is credited (no truncation between the subtraction and the stored token count), or the refill
// instant advances only by what was credited (its new value is computed from its old value). A bucket that truncates the
// credit AND resets the instant to "now" loses the remainder on every call: polled more often than one token period it never
// refills, and after the initial burst the node never gossips again — views stop spreading although nothing failed.
//
// Decided per function of the cluster package that stores both a float field and a time.Time field of one struct: backward
// slice from the stored token value to the subtraction that reads the time field; truncations are math.Floor/Trunc/Round/Ceil,
// float→integer conversions and integer division.
func c18BucketConservesTime(p *Program, r *Report) {
	n := 0
	for _, fn := range p.Mod {
		pk := fnPkg(fn)
		if pk == nil || !strings.HasSuffix(pk.Path(), "/internal/cluster") || len(fn.Blocks) == 0 {
			continue
		}
		type fstore struct {
			st *ssa.Store
			f  *types.Var
		}
		var tok, tim []fstore
		for _, b := range fn.Blocks {
			for _, in := range b.Instrs {
				st, ok := in.(*ssa.Store)
				if !ok {
					continue
				}
				fa, isFA := st.Addr.(*ssa.FieldAddr)
				if !isFA {
					continue
				}
				f := fieldOfAddr(fa)
				if f == nil {
					continue
				}
				if bt, isB := f.Type().Underlying().(*types.Basic); isB && bt.Info()&types.IsFloat != 0 {
					tok = append(tok, fstore{st, f})
				}
				if typeIs(f.Type(), "time", "Time") {
					tim = append(tim, fstore{st, f})
				}
			}
		}
		if len(tok) == 0 || len(tim) == 0 {
			continue
		}
		for _, ts := range tok {
			// backward slice from the stored token value
			type key struct {
				v ssa.Value
				t bool
			}
			seen := map[key]bool{}
			var elapsedOf *types.Var // time field the credit is computed from
			truncated := false
			var where token.Pos
			var walk func(v ssa.Value, trunc bool)
			readsTimeField := func(v ssa.Value) *types.Var {
				f, _ := fieldLoad(v)
				if f != nil && typeIs(f.Type(), "time", "Time") && ownerName(f) == ownerName(ts.f) {
					return f
				}
				return nil
			}
			walk = func(v ssa.Value, trunc bool) {
				if v == nil || seen[key{v, trunc}] {
					return
				}
				seen[key{v, trunc}] = true
				switch x := v.(type) {
				case *ssa.BinOp:
					t2 := trunc
					if x.Op == token.QUO {
						if bt, isB := x.Type().Underlying().(*types.Basic); isB && bt.Info()&types.IsInteger != 0 {
							t2 = true
						}
					}
					walk(x.X, t2)
					walk(x.Y, t2)
				case *ssa.Convert:
					t2 := trunc
					from, fok := x.X.Type().Underlying().(*types.Basic)
					to, tok2 := x.Type().Underlying().(*types.Basic)
					if fok && tok2 && from.Info()&types.IsFloat != 0 && to.Info()&types.IsInteger != 0 {
						t2 = true
					}
					walk(x.X, t2)
				case *ssa.ChangeType:
					walk(x.X, trunc)
				case *ssa.Phi:
					for _, e := range x.Edges {
						walk(e, trunc)
					}
				case *ssa.Call:
					q := calleeQual(&x.Call)
					t2 := trunc
					switch q {
					case "math.Floor", "math.Trunc", "math.Round", "math.Ceil", "math.RoundToEven":
						t2 = true
					case "(time.Time).Sub", "time.Since":
						for _, a := range callArgs(&x.Call) {
							if f := readsTimeField(a); f != nil {
								elapsedOf = f
								if trunc {
									truncated, where = true, x.Pos()
								}
							}
						}
						if rc := callRecv(&x.Call); rc != nil {
							if f := readsTimeField(rc); f != nil {
								elapsedOf = f
								if trunc {
									truncated, where = true, x.Pos()
								}
							}
						}
						return
					}
					if strings.HasPrefix(q, "(time.Duration).") {
						// Seconds() etc. are float conversions of the whole duration; Milliseconds()/Microseconds() etc. truncate
						if !strings.HasSuffix(q, ".Seconds") && !strings.HasSuffix(q, ".Minutes") && !strings.HasSuffix(q, ".Hours") {
							t2 = true
						}
					}
					if rc := callRecv(&x.Call); rc != nil {
						walk(rc, t2)
					}
					for _, a := range callArgs(&x.Call) {
						walk(a, t2)
					}
				}
			}
			walk(ts.st.Val, false)
			if elapsedOf == nil {
				continue
			}
			n++
			construct := fmt.Sprintf("%s credits %s.%s for the time since %s", fnName(fn), ownerName(ts.f), ts.f.Name(), elapsedOf.Name())
			if !truncated {
				r.Check(true, construct, ts.st.Pos(), "no truncation (math.Floor/Trunc/Round/Ceil, float→integer conversion, integer division, truncating Duration accessor) lies between the subtraction that reads the refill instant and the stored token count: the whole elapsed interval is credited")
				continue
			}
			// truncated credit: the refill instant must advance from its old value, not jump to an unrelated instant
			advances := true
			for _, ls := range tim {
				if ls.f != elapsedOf {
					continue
				}
				dep := false
				seenV := map[ssa.Value]bool{}
				var w2 func(v ssa.Value)
				w2 = func(v ssa.Value) {
					if v == nil || seenV[v] || dep {
						return
					}
					seenV[v] = true
					if f, _ := fieldLoad(v); f == elapsedOf {
						dep = true
						return
					}
					switch x := v.(type) {
					case *ssa.Call:
						if rc := callRecv(&x.Call); rc != nil {
							w2(rc)
						}
						for _, a := range callArgs(&x.Call) {
							w2(a)
						}
					case *ssa.Phi:
						for _, e := range x.Edges {
							w2(e)
						}
					case *ssa.UnOp:
						w2(x.X)
					}
				}
				w2(ls.st.Val)
				// the initialising store of a freshly created entry is not a refill
				if _, isAlloc := strip(ls.st.Addr.(*ssa.FieldAddr).X).(*ssa.Alloc); isAlloc {
					continue
				}
				if !dep {
					advances = false
				}
			}
			r.Check(advances, construct, where, "the credit is truncated, so the refill instant must advance from its previous value by what was credited; here it is overwritten with an instant that does not depend on the previous one: the truncated remainder is lost on every call and a bucket polled more often than one token period never refills")
		}
	}
	if n == 0 {
		r.Unresolved("token bucket (a function of the cluster package storing a float field computed from the time since a time.Time field of the same struct)")
	}
}
