package main

// Thorough tier: the same rules under GOARCH=386 (int is 32 bit), comparison of
// VTA and CHA call graphs where a rule depends on the graph, raised bounds, and
// the liveness self-test (breaking witnesses must fire, refactor witnesses must
// stay silent). Scratch copies live under a fresh mktemp dir outside /repo and
// /verif and are removed immediately.

import (
	"encoding/json"
	"fmt"
	"os"
	"os/exec"
	"path/filepath"
	"sort"
	"strings"
	"sync"

	"golang.org/x/tools/go/ssa"
)

type witnessMeta struct {
	Property string   `json:"property"`
	Expect   string   `json:"expect"` // fire | silent
	Rules    []string `json:"rules"`
	Desc     string   `json:"desc"`
	Also     []string `json:"also,omitempty"` // further properties that must fire
	name     string
	dir      string
}

type witnessResult struct {
	Property string   `json:"property,omitempty"`
	Name     string   `json:"name"`
	Expect   string   `json:"expect"`
	Outcome  string   `json:"outcome"` // ok | missed | false-alarm | stale | error
	Fired    []string `json:"fired_rules,omitempty"`
	Detail   string   `json:"detail,omitempty"`
}

func loadWitnesses(prop string) []witnessMeta {
	var out []witnessMeta
	for _, base := range []string{"witness", "seeded", "refactor"} {
		dirs, _ := filepath.Glob(filepath.Join(verifDir, base, "*", "meta.json"))
		for _, mf := range dirs {
			b, err := os.ReadFile(mf)
			if err != nil {
				continue
			}
			var m witnessMeta
			if json.Unmarshal(b, &m) != nil {
				continue
			}
			m.dir = filepath.Dir(mf)
			m.name = base + "/" + filepath.Base(m.dir)
			applies := m.Property == prop || prop == "all"
			for _, a := range m.Also {
				if a == prop {
					applies = true
				}
			}
			if !applies {
				continue
			}
			if _, err := os.Stat(filepath.Join(m.dir, "patch.diff")); err != nil {
				continue
			}
			out = append(out, m)
		}
	}
	sort.Slice(out, func(i, j int) bool { return out[i].name < out[j].name })
	return out
}

func runWitness(m witnessMeta, prop, repo string) witnessResult {
	res := witnessResult{Name: m.name, Expect: m.Expect}
	tmp, err := os.MkdirTemp("", "vcheck-wit-")
	if err != nil {
		res.Outcome, res.Detail = "error", err.Error()
		return res
	}
	defer os.RemoveAll(tmp)
	scr := filepath.Join(tmp, "tree")
	if out, err := exec.Command("rsync", "-a", "--exclude", ".git", repo+"/", scr+"/").CombinedOutput(); err != nil {
		res.Outcome, res.Detail = "error", "rsync: "+string(out)
		return res
	}
	cmd := exec.Command("patch", "-p1", "-s", "--no-backup-if-mismatch", "-i", filepath.Join(m.dir, "patch.diff"))
	cmd.Dir = scr
	if out, err := cmd.CombinedOutput(); err != nil {
		res.Outcome, res.Detail = "stale", "patch no longer applies to the tree under test: "+firstLine(string(out))
		return res
	}
	self, _ := os.Executable()
	jf := filepath.Join(tmp, "obs.json")
	c := exec.Command(self, "-repo", scr, "-verif", verifDir, "-no-evidence", "-prop", prop, "-json", jf)
	out, _ := c.CombinedOutput()
	b, err := os.ReadFile(jf)
	if err != nil {
		if strings.Contains(string(out), "does not load") || strings.Contains(string(out), "ERROR loading") {
			res.Outcome, res.Detail = "stale", "variant does not type-check: "+firstLine(string(out))
		} else {
			res.Outcome, res.Detail = "error", firstLine(string(out))
		}
		return res
	}
	var obs []Ob
	_ = json.Unmarshal(b, &obs)
	fired := map[string]bool{}
	for _, o := range obs {
		if o.Status == "violated" || o.Status == "undecided" {
			fired[o.Rule] = true
		}
	}
	for r := range fired {
		res.Fired = append(res.Fired, r)
	}
	sort.Strings(res.Fired)
	switch m.Expect {
	case "miss":
		// a documented limit of the technique: a breaking change the structural rules cannot see. Recorded so that the
		// limit stays visible; if a later rule catches it the entry should be promoted to "fire".
		res.Outcome = "ok"
		if len(fired) > 0 {
			res.Detail = "documented miss is now detected: promote to expect=fire"
		}
	case "alarm":
		// a documented limit in the other direction: an edit that keeps the property but that a rule cannot tell from a breaking
		// one (the rule would need an invariant it does not establish). Recorded so that the limit stays visible; if the rules
		// become precise enough the entry should be promoted to "silent".
		res.Outcome = "ok"
		if len(fired) == 0 {
			res.Detail = "documented false alarm no longer fires: promote to expect=silent"
		}
	case "silent":
		if len(fired) == 0 {
			res.Outcome = "ok"
		} else {
			res.Outcome = "false-alarm"
		}
	default:
		if len(fired) == 0 {
			res.Outcome = "missed"
			break
		}
		res.Outcome = "ok"
		if prop == m.Property {
			for _, want := range m.Rules {
				if !fired[want] {
					res.Outcome = "missed"
					res.Detail = "expected rule " + want + " did not fire"
				}
			}
		}
	}
	return res
}

func firstLine(s string) string {
	s = strings.TrimSpace(s)
	if i := strings.IndexByte(s, '\n'); i >= 0 {
		s = s[:i]
	}
	if len(s) > 300 {
		s = s[:300]
	}
	return s
}

func runWitnesses(prop, repo string) []witnessResult {
	ws := loadWitnesses(prop)
	results := make([]witnessResult, len(ws))
	sem := make(chan struct{}, 8)
	var wg sync.WaitGroup
	for i, w := range ws {
		wg.Add(1)
		go func(i int, w witnessMeta) {
			defer wg.Done()
			sem <- struct{}{}
			defer func() { <-sem }()
			results[i] = runWitness(w, prop, repo)
		}(i, w)
	}
	wg.Wait()
	return results
}

func thorough(p *Program, pr *Property, findings []Finding, res *RunResult, extra map[string]any, repo string) {
	// (a) configurations: the module has no build-tagged files and only builds for 64-bit int (internal/cluster does not
	// compile under GOARCH=386: an untyped constant overflows int), so linux/amd64 is the single configuration.
	extra["configs"] = []string{"linux/amd64"}
	extra["configs_note"] = "GOARCH=386 is not a build configuration of this module (internal/cluster/version_vector.go does not type-check with 32-bit int)"
	// (b) call-graph comparison: rules are re-run with the CHA graph; differences are informational
	vtaG := p.CG
	p.CG = p.CHA
	p.igCache = map[*ssa.Function]*IG{}
	chaRes := runProperty(p, pr, findings)
	p.CG = vtaG
	var dis []string
	cur := map[string]string{}
	for _, o := range res.Obs {
		cur[o.Key] = o.Status
	}
	for _, o := range chaRes.Obs {
		if s, ok := cur[o.Key]; ok && s != o.Status {
			dis = append(dis, fmt.Sprintf("%s: vta=%s cha=%s", o.Key, s, o.Status))
		}
	}
	extra["graph_disagreements"] = dis
	// (c) raised bounds
	p.InlineBound, p.UnrollMax = 8, 3
	deep := runProperty(p, pr, findings)
	p.InlineBound, p.UnrollMax = 4, 2
	curV := map[string]bool{}
	for _, v := range res.Violations {
		curV[v.Key] = true
	}
	for _, v := range deep.Violations {
		if !curV[v.Key] {
			v.Why = "[bounds 8/3] " + v.Why
			res.Violations = append(res.Violations, v)
		}
	}
	extra["obligations_deep_bounds"] = len(deep.Obs)
	// (d) liveness self-test
	wr := runWitnesses(pr.ID, repo)
	fired, silent, stale, misses, knownAlarms := 0, 0, 0, 0, 0
	for _, w := range wr {
		switch {
		case w.Outcome == "ok" && w.Expect == "silent":
			silent++
		case w.Outcome == "ok" && w.Expect == "miss":
			misses++
		case w.Outcome == "ok" && w.Expect == "alarm":
			knownAlarms++
		case w.Outcome == "ok":
			fired++
		case w.Outcome == "stale":
			stale++
			fmt.Printf("selftest: %s skipped (%s)\n", w.Name, w.Detail)
		default:
			fmt.Printf("selftest: %s %s %s fired=%v\n", w.Name, w.Outcome, w.Detail, w.Fired)
			res.Violations = append(res.Violations, Ob{Rule: pr.ID + ".selftest", Key: pr.ID + ".selftest|" + w.Name, Construct: w.Name, Status: "undecided",
				Why: fmt.Sprintf("checker self-test failed (%s): the rules %s on a variant where they must %s", w.Outcome, map[bool]string{true: "stayed silent", false: "fired"}[w.Outcome == "missed"], map[bool]string{true: "fire", false: "stay silent"}[w.Outcome == "missed"])})
		}
	}
	extra["witnesses_fired"] = fired
	extra["refactors_silent"] = silent
	extra["witnesses_stale"] = stale
	extra["documented_misses"] = misses
	extra["documented_false_alarms"] = knownAlarms
	extra["witnesses"] = wr
}

func selftestMain(args []string) int {
	prop := "all"
	repo := "/repo"
	jsonOut := ""
	for i := 0; i+1 < len(args); i += 2 {
		switch args[i] {
		case "-prop":
			prop = args[i+1]
		case "-repo":
			repo = args[i+1]
		case "-verif":
			verifDir = args[i+1]
		case "-json":
			jsonOut = args[i+1]
		}
	}
	var props []string
	if prop == "all" {
		seen := map[string]bool{}
		for _, w := range loadWitnesses("all") {
			if !seen[w.Property] {
				seen[w.Property] = true
				props = append(props, w.Property)
			}
		}
		sort.Strings(props)
	} else {
		props = []string{prop}
	}
	bad := 0
	var all []witnessResult
	defer func() {
		if jsonOut != "" {
			b, _ := json.MarshalIndent(all, "", " ")
			_ = os.WriteFile(jsonOut, b, 0o644)
		}
	}()
	for _, pid := range props {
		for _, w := range runWitnesses(pid, repo) {
			w.Property = pid
			all = append(all, w)
			fmt.Printf("%-12s %-45s expect=%-6s fired=%v %s\n", w.Outcome, w.Name, w.Expect, w.Fired, w.Detail)
			if w.Outcome != "ok" && w.Outcome != "stale" {
				bad++
			}
		}
	}
	if bad > 0 {
		fmt.Printf("selftest: %d witnesses not as expected\n", bad)
		return 1
	}
	return 0
}
