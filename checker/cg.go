package main

// CG: call-graph reachability with witness paths over the VTA graph.

import (
	"go/token"
	"go/types"
	"sort"
	"strings"

	"golang.org/x/tools/go/callgraph"
	"golang.org/x/tools/go/ssa"
)

type cgStep struct {
	Parent *ssa.Function
	Site   ssa.CallInstruction
	Depth  int
}

type cgOpts struct {
	FollowGo   bool                         // also follow `go` sites (default: synchronous edges only)
	ModuleOnly bool                         // do not descend into functions outside the module
	SkipEdge   func(e *callgraph.Edge) bool // edges not to follow
	SkipFunc   func(fn *ssa.Function) bool  // functions not to enter
	MaxDepth   int                          // 0 = unbounded
}

func (p *Program) closure(roots []*ssa.Function, o cgOpts) map[*ssa.Function]*cgStep {
	seen := map[*ssa.Function]*cgStep{}
	var queue []*ssa.Function
	for _, r := range roots {
		if r != nil && seen[r] == nil {
			seen[r] = &cgStep{}
			queue = append(queue, r)
		}
	}
	for len(queue) > 0 {
		fn := queue[0]
		queue = queue[1:]
		st := seen[fn]
		if o.MaxDepth > 0 && st.Depth >= o.MaxDepth {
			continue
		}
		n := p.CG.Nodes[fn]
		if n == nil {
			continue
		}
		// chain idiom: follow exactly the appended steps of chains run by fn
		if p.inModule(fn) {
			for _, cr := range p.chainRuns(fn) {
				for _, stp := range cr.Steps {
					for _, cal := range stp.Funcs {
						if seen[cal] != nil || (o.SkipFunc != nil && o.SkipFunc(cal)) {
							continue
						}
						seen[cal] = &cgStep{Parent: fn, Site: cr.Run, Depth: st.Depth + 1}
						queue = append(queue, cal)
					}
				}
			}
		}
		outs := append([]*callgraph.Edge(nil), n.Out...)
		sort.SliceStable(outs, func(i, j int) bool {
			pi, pj := token.NoPos, token.NoPos
			if outs[i].Site != nil {
				pi = outs[i].Site.Pos()
			}
			if outs[j].Site != nil {
				pj = outs[j].Site.Pos()
			}
			if pi != pj {
				return pi < pj
			}
			return outs[i].Callee.Func.String() < outs[j].Callee.Func.String()
		})
		for _, e := range outs {
			cal := e.Callee.Func
			if seen[cal] != nil {
				continue
			}
			if _, isGo := e.Site.(*ssa.Go); isGo && !o.FollowGo {
				continue
			}
			if o.ModuleOnly && !p.inModule(cal) {
				// library code that calls back into the module on the same goroutine (singleflight.Do, sort.Slice, sync.Once.Do ...):
				// look through up to three external frames for module callees
				for _, back := range p.throughExternal(cal, 3) {
					if seen[back] != nil || (o.SkipFunc != nil && o.SkipFunc(back)) {
						continue
					}
					seen[back] = &cgStep{Parent: fn, Site: e.Site, Depth: st.Depth + 1}
					queue = append(queue, back)
				}
				continue
			}
			if p.isChainPkgFunc(cal, "Run") {
				continue // replaced by the exact steps above
			}
			if o.SkipEdge != nil && o.SkipEdge(e) {
				continue
			}
			if o.SkipFunc != nil && o.SkipFunc(cal) {
				continue
			}
			seen[cal] = &cgStep{Parent: fn, Site: e.Site, Depth: st.Depth + 1}
			queue = append(queue, cal)
		}
	}
	return seen
}

func (p *Program) pathTo(steps map[*ssa.Function]*cgStep, fn *ssa.Function) string {
	var parts []string
	for f := fn; f != nil; {
		parts = append([]string{fnName(f)}, parts...)
		st := steps[f]
		if st == nil || st.Parent == nil {
			break
		}
		f = st.Parent
	}
	if len(parts) > 8 {
		parts = append(parts[:3], append([]string{"…"}, parts[len(parts)-4:]...)...)
	}
	return strings.Join(parts, " → ")
}

// isMailboxEnqueueDispatch: an interface call of vivid.Mailbox.Enqueue (a message send:
// the target is another mailbox instance).
func (p *Program) isMailboxEnqueueDispatch(e *callgraph.Edge) bool {
	if e.Site == nil {
		return false
	}
	c := e.Site.Common()
	if !c.IsInvoke() || c.Method.Name() != "Enqueue" {
		return false
	}
	mb := p.Named("", "Mailbox")
	return mb != nil && types.Identical(c.Value.Type(), mb)
}

// ---- blocking primitives ------------------------------------------------------------------

type blockSite struct {
	Fn   *ssa.Function
	In   ssa.Instruction
	Kind string
}

// blockingSites lists the blocking primitives appearing directly in fn (table of §3 C14.R1).
func (p *Program) blockingSites(fn *ssa.Function) []blockSite {
	var out []blockSite
	for _, b := range fn.Blocks {
		for _, in := range b.Instrs {
			switch x := in.(type) {
			case *ssa.UnOp:
				if x.Op == token.ARROW {
					out = append(out, blockSite{fn, in, "chan-receive"})
				}
			case *ssa.Select:
				if x.Blocking && !selectHasTimer(x) {
					out = append(out, blockSite{fn, in, "select-without-timeout"})
				}
			case *ssa.Send:
				out = append(out, blockSite{fn, in, "chan-send"})
			case *ssa.Call:
				q := calleeQual(&x.Call)
				switch {
				case q == "time.Sleep":
					out = append(out, blockSite{fn, in, "time.Sleep"})
				case strings.HasPrefix(q, "net.Dial") || q == "(net.Dialer).Dial" || q == "(net.Dialer).DialContext":
					out = append(out, blockSite{fn, in, q})
				case q == "(net.Conn).Read" || q == "(net.Conn).Write":
					out = append(out, blockSite{fn, in, q})
				case q == "io.ReadFull" || q == "io.ReadAtLeast" || q == "io.ReadAll" || q == "io.Copy":
					out = append(out, blockSite{fn, in, q})
				case q == "(sync.WaitGroup).Wait" || q == "(sync.Cond).Wait":
					out = append(out, blockSite{fn, in, q})
				}
			}
		}
	}
	return out
}

// selectHasTimer: one of the select's receive cases reads a channel produced by
// time.After / a timer / a context's Done().
func selectHasTimer(s *ssa.Select) bool {
	for _, st := range s.States {
		if st.Dir != types.RecvOnly {
			continue
		}
		if isTimerChan(st.Chan) {
			return true
		}
	}
	return false
}

func isTimerChan(v ssa.Value) bool {
	v = strip(v)
	switch x := v.(type) {
	case *ssa.Call:
		q := calleeQual(&x.Call)
		if q == "time.After" || q == "time.Tick" {
			return true
		}
	case *ssa.UnOp:
		if x.Op == token.MUL {
			if f, _ := fieldAddr(x.X); f != nil && f.Name() == "C" && f.Pkg() != nil && f.Pkg().Path() == "time" {
				return true
			}
		}
	}
	return false
}

var extCache = map[*Program]map[*ssa.Function][]*ssa.Function{}

// throughExternal: module functions synchronously called from an external function within `depth` external frames.
func (p *Program) throughExternal(ext *ssa.Function, depth int) []*ssa.Function {
	if extCache[p] == nil {
		extCache[p] = map[*ssa.Function][]*ssa.Function{}
	}
	if r, ok := extCache[p][ext]; ok {
		return r
	}
	var out []*ssa.Function
	seen := map[*ssa.Function]bool{ext: true}
	frontier := []*ssa.Function{ext}
	for d := 0; d < depth && len(frontier) > 0; d++ {
		var next []*ssa.Function
		for _, f := range frontier {
			n := p.CG.Nodes[f]
			if n == nil {
				continue
			}
			for _, e := range n.Out {
				if _, isGo := e.Site.(*ssa.Go); isGo {
					continue
				}
				c := e.Callee.Func
				if seen[c] {
					continue
				}
				seen[c] = true
				if p.inModule(c) {
					out = append(out, c)
				} else {
					next = append(next, c)
				}
			}
		}
		frontier = next
	}
	sort.Slice(out, func(i, j int) bool { return out[i].String() < out[j].String() })
	extCache[p][ext] = out
	return out
}
