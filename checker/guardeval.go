package main

// GUARD: evaluate a function prefix over a finite product of abstract atom
// values (an enum-valued load, boolean accessors, boolean fields). For each cell
// the SSA is followed from the entry, computing comparisons / negations / phis of
// atoms and constants; a branch on a value that is not determined by the atoms is
// explored both ways. The walk stops at the first classifying instruction. This
// evaluates boolean guards, it does not execute program paths: every value that is
// not an atom, a constant or a boolean/compare combination of them is unknown.

import (
	"fmt"
	"go/token"
	"go/types"

	"golang.org/x/tools/go/ssa"
)

type gval struct {
	known bool
	isB   bool
	b     bool
	i     int64
}

type guardOutcome struct {
	Class  string   // label returned by classify
	Events []string // labels of event instructions passed on the way
}

type guardSpec struct {
	Atoms    func(in ssa.Instruction) (name string, ok bool) // instruction is an atom
	Classify func(in ssa.Instruction) string                 // "" = keep going; else terminal class
	Event    func(in ssa.Instruction) string                 // "" = none; else record
	// Descend: also evaluate synchronous calls to same-package module helpers (an extracted "report and return" step):
	// the helper's events are appended, a classification inside it is terminal. Bind maps the helper's parameters to the
	// caller's argument values so that Event/Classify can compare against the root function's parameters (resolve).
	Descend bool
	Bind    map[ssa.Value]ssa.Value
	// AtomEvents: Event is also consulted for atom instructions (an atom whose execution matters, e.g. a hook call)
	AtomEvents bool
}

// resolve follows parameter bindings established while descending into helpers.
func (s *guardSpec) resolve(v ssa.Value) ssa.Value {
	for i := 0; i < 4; i++ {
		w, ok := s.Bind[strip(v)]
		if !ok {
			return strip(v)
		}
		v = w
	}
	return strip(v)
}

func (p *Program) guardEval(fn *ssa.Function, spec guardSpec, cell map[string]gval) []guardOutcome {
	return p.guardEvalDepth(fn, spec, cell, 2, nil)
}

// init: values already known for fn's parameters (arguments the caller's evaluation determined)
func (p *Program) guardEvalDepth(fn *ssa.Function, spec guardSpec, cell map[string]gval, depthLeft int, init map[ssa.Value]gval) []guardOutcome {
	var out []guardOutcome
	type state struct {
		blk, prev *ssa.BasicBlock
		env       map[ssa.Value]gval
		events    []string
		depth     int
		idx       int // first instruction of blk to evaluate (forks resume mid-block)
	}
	var walk func(s state)
	seenOut := map[string]bool{}
	emit := func(class string, ev []string) {
		k := class
		for _, e := range ev {
			k += "|" + e
		}
		if !seenOut[k] {
			seenOut[k] = true
			out = append(out, guardOutcome{Class: class, Events: append([]string(nil), ev...)})
		}
	}
	val := func(env map[ssa.Value]gval, v ssa.Value) gval {
		if g, ok := env[v]; ok {
			return g
		}
		if c, ok := v.(*ssa.Const); ok {
			if b, ok := constBool(c); ok {
				return gval{known: true, isB: true, b: b}
			}
			if n, ok := constInt(c); ok {
				return gval{known: true, i: n}
			}
		}
		if w := strip(v); w != v {
			if g, ok := env[w]; ok {
				return g
			}
		}
		return gval{}
	}
	walk = func(s state) {
		if s.depth > 64 {
			emit("depth-exceeded", s.events)
			return
		}
		for ii := s.idx; ii < len(s.blk.Instrs); ii++ {
			in := s.blk.Instrs[ii]
			if name, ok := spec.Atoms(in); ok {
				if v, isV := in.(ssa.Value); isV {
					s.env[v] = cell[name]
				}
				if spec.AtomEvents {
					if ev := spec.Event(in); ev != "" {
						s.events = append(s.events, ev)
					}
				}
				continue
			}
			switch x := in.(type) {
			case *ssa.Phi:
				for i, pr := range s.blk.Preds {
					if pr == s.prev && i < len(x.Edges) {
						s.env[x] = val(s.env, x.Edges[i])
					}
				}
				continue
			case *ssa.BinOp:
				// a nil test of one of the evaluated function's own parameters: callers pass live objects (see IG.nilArgEdges)
				if x.Op == token.EQL || x.Op == token.NEQ {
					if prm, isP := strip(x.X).(*ssa.Parameter); isP && isNilConst(x.Y) && prm.Parent() == fn {
						switch prm.Type().Underlying().(type) {
						case *types.Pointer, *types.Interface, *types.Map, *types.Slice, *types.Signature, *types.Chan:
							s.env[x] = gval{known: true, isB: true, b: x.Op == token.NEQ}
							continue
						}
					}
				}
				a, b := val(s.env, x.X), val(s.env, x.Y)
				if a.known && b.known {
					r := gval{known: true, isB: true}
					switch x.Op {
					case token.EQL:
						if a.isB {
							r.b = a.b == b.b
						} else {
							r.b = a.i == b.i
						}
					case token.NEQ:
						if a.isB {
							r.b = a.b != b.b
						} else {
							r.b = a.i != b.i
						}
					case token.LSS:
						r.b = a.i < b.i
					case token.LEQ:
						r.b = a.i <= b.i
					case token.GTR:
						r.b = a.i > b.i
					case token.GEQ:
						r.b = a.i >= b.i
					default:
						r = gval{}
					}
					s.env[x] = r
				}
				continue
			case *ssa.UnOp:
				if x.Op == token.NOT {
					if a := val(s.env, x.X); a.known {
						s.env[x] = gval{known: true, isB: true, b: !a.b}
					}
					continue
				}
			case *ssa.If:
				c := val(s.env, x.Cond)
				for k, succ := range s.blk.Succs {
					if c.known && c.b != (k == 0) {
						continue
					}
					env2 := map[ssa.Value]gval{}
					for kk, vv := range s.env {
						env2[kk] = vv
					}
					walk(state{blk: succ, prev: s.blk, env: env2, events: append([]string(nil), s.events...), depth: s.depth + 1})
				}
				return
			case *ssa.Jump:
				walk(state{blk: s.blk.Succs[0], prev: s.blk, env: s.env, events: s.events, depth: s.depth + 1})
				return
			}
			// boolean helper of the module (e.g. an extracted guard): evaluate it over the same cell, one level deep; its events
			// are kept, and the caller continues once per distinct (result, events) outcome
			if c, ok := in.(*ssa.Call); ok && depthLeft > 0 {
				if cal := c.Call.StaticCallee(); cal != nil && p.inModule(cal) && len(cal.Blocks) > 0 && cal.Signature.Results().Len() == 1 && isBool(cal.Signature.Results().At(0).Type()) && spec.Classify(in) == "" {
					if _, isAtom := spec.Atoms(in); !isAtom {
						sub := spec
						sub.Classify = func(ssa.Instruction) string { return "" }
						if !spec.AtomEvents {
							sub.Event = func(ssa.Instruction) string { return "" }
						}
						outs := p.guardEvalDepth(cal, sub, cell, depthLeft-1, argEnv(cal, c.Call.Args, func(v ssa.Value) gval { return val(s.env, v) }))
						type oc struct {
							known, val bool
							ev         []string
						}
						var ocs []oc
						seenOC := map[string]bool{}
						for _, o := range outs {
							x := oc{ev: o.Events}
							switch o.Class {
							case "return:true":
								x.known, x.val = true, true
							case "return:false":
								x.known, x.val = true, false
							}
							k := fmt.Sprint(x.known, x.val, x.ev)
							if !seenOC[k] {
								seenOC[k] = true
								ocs = append(ocs, x)
							}
						}
						if len(ocs) == 1 && len(ocs[0].ev) == 0 {
							if ocs[0].known {
								s.env[c] = gval{known: true, isB: true, b: ocs[0].val}
							}
						} else if len(ocs) > 0 {
							for _, x := range ocs {
								env2 := map[ssa.Value]gval{}
								for kk, vv := range s.env {
									env2[kk] = vv
								}
								if x.known {
									env2[c] = gval{known: true, isB: true, b: x.val}
								}
								ev := append(append([]string(nil), s.events...), x.ev...)
								walk(state{blk: s.blk, prev: s.prev, env: env2, events: ev, depth: s.depth + 1, idx: ii + 1})
							}
							return
						}
					}
				}
			}
			if ev := spec.Event(in); ev != "" {
				s.events = append(s.events, ev)
			}
			if cl := spec.Classify(in); cl != "" {
				emit(cl, s.events)
				return
			}
			// extracted step: evaluate the helper over the same cell, continue after the call once per distinct outcome
			if c, ok := in.(*ssa.Call); ok && spec.Descend && depthLeft > 0 {
				if cal := c.Call.StaticCallee(); cal != nil && cal != fn && p.inModule(cal) && len(cal.Blocks) > 0 && fnPkg(cal) == fnPkg(fn) && cal.Signature.Results().Len() == 0 {
					if spec.Bind != nil {
						args := c.Call.Args
						for pi, prm := range cal.Params {
							if pi < len(args) {
								spec.Bind[prm] = args[pi]
							}
						}
					}
					outs := p.guardEvalDepth(cal, spec, cell, depthLeft-1, argEnv(cal, c.Call.Args, func(v ssa.Value) gval { return val(s.env, v) }))
					for _, o := range outs {
						ev := append(append([]string(nil), s.events...), o.Events...)
						if o.Class != "return" {
							emit(o.Class, ev)
							continue
						}
						env2 := map[ssa.Value]gval{}
						for kk, vv := range s.env {
							env2[kk] = vv
						}
						walk(state{blk: s.blk, prev: s.prev, env: env2, events: ev, depth: s.depth + 1, idx: ii + 1})
					}
					if len(outs) > 0 {
						return
					}
				}
			}
			if ret, ok := in.(*ssa.Return); ok {
				cls := "return"
				if len(ret.Results) == 1 {
					if v := val(s.env, ret.Results[0]); v.known && v.isB {
						cls = map[bool]string{true: "return:true", false: "return:false"}[v.b]
					}
				}
				emit(cls, s.events)
				return
			}
			if _, ok := in.(*ssa.Panic); ok {
				emit("panic", s.events)
				return
			}
		}
	}
	if len(fn.Blocks) > 0 {
		env0 := map[ssa.Value]gval{}
		for k, v := range init {
			env0[k] = v
		}
		walk(state{blk: fn.Blocks[0], env: env0})
	}
	return out
}

// argEnv: the callee's parameters whose argument value the caller's evaluation determined
func argEnv(cal *ssa.Function, args []ssa.Value, val func(ssa.Value) gval) map[ssa.Value]gval {
	env := map[ssa.Value]gval{}
	for i, prm := range cal.Params {
		if i < len(args) {
			if v := val(args[i]); v.known {
				env[prm] = v
			}
		}
	}
	return env
}
