package main

import (
	"strings"

	"golang.org/x/tools/go/ssa"
)

// c18LoopsStartTogether — wherever the node starts gossiping it also starts failure detection.
//
// "A node that crashed is eventually absent from every view" needs every running node to evict: eviction happens only in the
// failure-detection loop, and the loop is started by the same events that start the gossip loop (bootstrap as a seed, a join that
// succeeded at launch, a join that succeeded on a retry). A path that starts gossip without failure detection yields a node that
// takes part in dissemination but never evicts anybody — and gossips the dead member back to the nodes that did.
// In every method of the node actor, every path through a start of the gossip loop (direct, or through a helper that starts it
// on all its paths) also passes a start of the failure-detection loop, before or after.
func c18LoopsStartTogether(p *Program, r *Report) {
	na := p.Named("internal/cluster", "NodeActor")
	if na == nil {
		r.Unresolved("NodeActor")
		return
	}
	gossip, detect := p.methodNamed(na, "startGossipLoop"), p.methodNamed(na, "startFailureDetectionLoop")
	if gossip == nil || detect == nil {
		r.Unresolved("startGossipLoop / startFailureDetectionLoop")
		return
	}
	n := 0
	for _, fn := range p.methodsOf(na) {
		if fn == gossip || fn == detect || len(fn.Blocks) == 0 {
			continue
		}
		g := p.igx(fn)
		isG := func(in ssa.Instruction) bool { c := callOf(in); return c != nil && c.StaticCallee() == gossip }
		isD := func(in ssa.Instruction) bool { c := callOf(in); return c != nil && c.StaticCallee() == detect }
		gm, gMay := p.eventNodes(g, isG)
		dm, _ := p.eventNodes(g, isD)
		for k := range gMay {
			gm[k] = true
		}
		if len(gm) == 0 {
			continue
		}
		// a helper that itself starts both is judged on its own
		for gi := range gm {
			if c := callOf(g.Nodes[gi]); c != nil && c.StaticCallee() != gossip && dm[gi] {
				delete(gm, gi)
			}
		}
		for gi := range gm {
			n++
			ok := len(dm) > 0 && (g.DominatedByNodes(gi, dm) || !anyIn(g.ReachAfter(gi, dm, nil), g.Exits))
			r.Check(ok, "gossip start in "+strings.TrimPrefix(fnName(fn), "(*internal/cluster.NodeActor)."), g.Nodes[gi].Pos(), "every path through this start of the gossip loop also starts the failure-detection loop (before or after): a node that disseminates views also evicts members it no longer hears from")
		}
	}
	if n == 0 {
		r.Unresolved("starts of the gossip loop in the node actor")
	}
}
