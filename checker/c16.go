package main

// C16 — version vectors (ownership / serialisation symmetry only);
// C17 — cluster view merge (structural conditions);
// C18 — leader is a deterministic function of the view.

import (
	"fmt"
	"go/constant"
	"go/token"
	"go/types"
	"sort"
	"strings"

	"golang.org/x/tools/go/ssa"
)

func init() {
	register(&Property{
		ID: "C16",
		Explanation: "Decided: (R1) every map update / delete on a version vector's map targets a map created in the same function or returned by a function proved fresh-returning (Clone, the constructors) — never the receiver's or a parameter's map — and slices handed in are copied before being sorted/truncated; (R2) the vector's writer and reader agree on the wire and validate against the same cap; " +
			"(R3, informational) counters loaded from the maps flow only into comparisons, copies and the single +1 of Increment; (R4) that +1 is dominated by the strict test counter < K where K is the bound above which the reader rejects counters, so a successful Increment never produces a vector that cannot be read back. " +
			"(R5) Merge is the pointwise maximum by the shape of its loops: every return of the built result is dominated, for each operand, by a range loop over that operand's map in which every path through the body stores the ranged (node, counter) or passes the outcome counter <= result[node] (or the result starts as a copy made by a method of that operand); every store into the result writes an operand's ranged entry and is the first filling of the fresh map or dominated by the not-found outcome of the lookup / the outcome counter > current; a return that hands back one operand is dominated by len(other) == 0; (R2, addition) a length prefix narrower than 4 bytes in the vector's writer carries every id length the validator of the operations accepts; (R6) the key under which ReadVersionVector stores a counter is the decoded string itself, not a transformation of it — the operations and the writer treat node ids as opaque, so a normalising reader breaks Write∘Read = id and can collapse two entries. " +
			"(R7) Compare enumerates the stored entries of each of its two operands (itself or through a helper it hands the operand to): an entry only one side holds can carry any counter, explicit zero included, so neither side's entries can be summarised by their number. (R8) Equal is Compare(receiver, argument) == the equal constant, or a direct implementation whose every `return true` is dominated by entry-by-entry checking loops over both operands (or one loop and len == len): never a one-sided containment test. (R9 = C12.R12) the strings the codec Reader hands out (the node ids ReadVersionVector stores as keys, R6) are copies, never views of the frame buffer: a decoded vector is an immutable value and does not change when the bytes it was decoded from are overwritten. " +
			"NOT decided, stated plainly: reflexivity / antisymmetry / transitivity of Compare, commutativity / associativity / idempotence / leastness of Merge, strictness of Increment. These are arithmetic facts over all inputs; deciding them needs execution or a solver, both outside this technique. A mutation of the arithmetic of Compare that keeps its enumeration intact is NOT detected by this check.",
		Rules: []Rule{
			{ID: "C16.R1", Min: 6, Desc: "operands are never modified (ownership of the map)", Fn: c16Ownership},
			{ID: "C16.R2", Min: 2, Desc: "serialisation symmetry and common cap", Fn: c16Wire},
			{ID: "C16.R3", Min: 1, Desc: "data independence of counters (informational)", Fn: c16DataIndependence},
			{ID: "C16.R5", Min: 3, Desc: "the join is the pointwise maximum: it keeps every entry of both operands at least at its counter, and no store lowers an entry", Fn: c16PointwiseMax},
			{ID: "C16.R8", Min: 1, Desc: "Equal answers true only for vectors Compare calls equal", Fn: c16EqualExact},
			{ID: "C16.R9", Min: 4, Desc: "the node ids of a decoded vector own their bytes (C12.R12)", Fn: c12DecodedOwnBytes},
			{ID: "C16.R10", Min: 2, Desc: "remaining-size guards admit the boundary count: an empty vector at the end of a frame decodes (C12.R8)", Fn: c12Boundary},
			{ID: "C16.R6", Min: 1, Desc: "the reader stores node ids verbatim", Fn: c16VerbatimKeys},
			{ID: "C16.R4", Min: 1, Desc: "Increment stays within the reader's counter bound", Fn: c16IncrementCap},
			{ID: "C16.R7", Min: 2, Desc: "Compare enumerates the entries of both operands", Fn: c16CompareEnumerates},
		},
	})
	register(&Property{
		ID: "C17",
		Explanation: "Decided: (R1) every store into a view's member table stores a Clone() or a state freshly built by the decoder, Snapshot clones members and vector; (R2) nothing reachable from the merge removes a member or replaces the member table; (R3) each member store in AddMember / merge is on the edge 'absent ∨ incoming.IsNewerThan(existing)' with existing looked up under the same key and the roles not swapped; " +
			"(R4) Epoch, Timestamp and ProtocolVersion are assigned from the other view only on the edge other.F > own.F; (R5) inside the merge the version vector is assigned only from Merge(own, other) or PruneWithMax; (R6) every member store inside the merge sets changed=true on the same path, and the vector assignment is preceded by an Equal test whose not-equal edge sets it; the result is a monotone chain. " +
			"(R7) IsNewerThan treats a missing state as older and lets a differing generation decide alone, with the greater generation newer. (R7, addition) every ordering test in IsNewerThan compares the same field of the two states, loaded directly, and no arithmetic touches a field of a state (a counter difference — the wrap-safe idiom — is cyclic and makes the order intransitive). (R9, addition) the compaction cuts the list of ids to keep only by the caller's cap or the package default, never by a quantity of the vector itself. (R3, addition) the converse: once the lookup found an entry, every path to the next iteration or a return either performs the store or takes the false edge of incoming.IsNewerThan(existing) — no further condition (clock skew, local status, strategy) keeps a newer incarnation out. (R11 = C16.R8) the vector equality that decides the vector part of the changed flag is exact: Equal is Compare == equal (or a direct implementation that checks both operands entry by entry), never a one-sided containment test, so a merge that only adds components is reported as a change. (R10 = C16.R5) the vector join the merge relies on is the pointwise maximum by the shape of its loops: no component is lowered and none is left below either operand's, whatever the sizes of the two vectors. NOT decided: commutativity / associativity / idempotence of the produced membership, consistency of the clock/timestamp tie-breakers of IsNewerThan, the interaction of pruning with 'changed'.",
		Rules: []Rule{
			{ID: "C17.R1", Min: 4, Desc: "stored member states are clones", Fn: c17Clones},
			{ID: "C17.R2", Min: 1, Desc: "merge never removes", Fn: c17NeverRemoves},
			{ID: "C17.R3", Min: 2, Desc: "newer-wins guard", Fn: c17NewerWins},
			{ID: "C17.R4", Min: 3, Desc: "monotone scalars", Fn: c17Monotone},
			{ID: "C17.R5", Min: 2, Desc: "vector only joins / prunes", Fn: c17VectorAssign},
			{ID: "C17.R6", Min: 3, Desc: "changed flag is sound", Fn: c17Changed},
			{ID: "C17.R7", Min: 3, Desc: "incarnation order: generation decides first", Fn: c17Generation},
			{ID: "C17.R10", Min: 3, Desc: "the version vector join never lowers a component (C16.R5)", Fn: c16PointwiseMax},
			{ID: "C17.R11", Min: 1, Desc: "the equality the changed flag relies on is exact, not containment (C16.R8)", Fn: c16EqualExact},
			{ID: "C17.R9", Min: 1, Desc: "vector compaction keeps the component of every member still in the table", Fn: c17PruneKeepsMembers},
			{ID: "C17.R8", Min: 2, Desc: "vector order does not short-circuit the member comparison or the join", Fn: c17NoShortcut},
		},
	})
	register(&Property{
		ID: "C18",
		Explanation: "Convergence, exact membership and stability quantify over fault sequences, delivery orders and timer phases of a distributed run; no static argument in reach bounds them and they are NOT decided. Structural necessary conditions are decided: (R1) the leader is a deterministic function of the membership view — the leader computation reaches no nondeterminism source (random numbers, clocks, package-level mutable state), reads only member address and status, sorts (or min-reduces) what it collects from the map before indexing it, and the publisher derives IAmLeader from that value only. " +
			"(R2) the gossip suppression predicate answers 'send' whenever the peer's vector is unknown or the own vector is After / Concurrent with respect to it, and 'skip' only when it is Before or Equal (truth table of the predicate over its atoms). (R3) the generation bump of a re-joining node reads the previous incarnation from the seed's reply (directly, or from the own view after merging the reply). (R4) the leader publisher computes the leader on every call (only nil-context / nil-view / nil-stream edges return before it): views change without the version vector moving (a suspected member revived by gossip), so caching on the vector leaves two self-proclaimed leaders; (R5) the target selector ranges over the configured seed list itself on every path — never over a value that some path replaced by a constant: gossip to non-member seeds is the only way two disjoint islands find each other; and every function the module injects as the selector's seed source returns the result of a call made inside it (a method value of the provider), never a list captured when the node was built — with a resolver configured the seed set changes after start-up. (R2, addition) the table the suppression predicate consults is written only with vectors that arrived in a message, never with the node's own vector after a send; (R6) in the join attempt every failure to ask a seed (time-outs included) is assigned to the error the attempt finally returns, so an attempt in which no seed answered is never reported as success and the retry timer is re-armed; (R7 = C16.R8) the vector equality the suppression predicate relies on is exact, not containment: a peer whose vector is a strict subset of the own one is still sent to. (R8) the token buckets every gossip send and every join request pass through conserve elapsed time: no truncation lies between the subtraction that reads the refill instant and the stored token count, or else the refill instant advances from its previous value — a bucket that truncates and resets never refills when polled faster than one token period, and the node stops gossiping for good. (R9) in every method of the node actor every path through a start of the gossip loop (direct or through a helper) also starts the failure-detection loop: a node that joined on a retry evicts crashed members like one that joined at once. (R10) the failure detector's timeout function returns zero (which makes the detection round skip the member) only on the edge on which a timeout loaded directly from the options is not positive; every other return is positive by construction. Any other mutation in join, target selection or failure detection is NOT detected.",
		Rules: []Rule{
			{ID: "C18.R1", Min: 4, Desc: "leader is a deterministic function of the view", Fn: c18Leader},
			{ID: "C18.R2", Min: 6, Desc: "gossip is suppressed only towards peers known to be at least as new", Fn: c18Suppression},
			{ID: "C18.R7", Min: 1, Desc: "the equality the gossip suppression relies on is exact, not containment (C16.R8)", Fn: c16EqualExact},
			{ID: "C18.R8", Min: 2, Desc: "the gossip/join token buckets conserve elapsed time (no truncated credit with a reset refill instant)", Fn: c18BucketConservesTime},
			{ID: "C18.R9", Min: 3, Desc: "wherever the node starts gossiping it also starts failure detection", Fn: c18LoopsStartTogether},
			{ID: "C18.R10", Min: 3, Desc: "the failure-detection timeout is zero only when detection is switched off", Fn: c18TimeoutNeverSilentlyZero},
			{ID: "C18.R4", Min: 1, Desc: "the leader is re-evaluated on every call of the publisher", Fn: c18AlwaysEvaluates},
			{ID: "C18.R5", Min: 2, Desc: "configured seeds stay gossip candidates whatever the view holds", Fn: c18SeedsAlwaysCandidates},
			{ID: "C18.R6", Min: 1, Desc: "a join attempt in which a seed could not be asked is reported as failed (so the retry timer is re-armed)", Fn: c18JoinReportsFailure},
			{ID: "C18.R3", Min: 1, Desc: "restart generation decided against the merged reply", Fn: c18RestartGeneration},
		},
	})
}

// c18RestartGeneration: a node that re-joins under its previous id must end up with a generation above the one the cluster
// still holds, otherwise no peer adopts the new incarnation (C17: the higher generation wins) and the views never agree
// again. The previous generation is only known from the seed's reply: the member lookup that feeds `Generation = prev+1`
// reads the reply's view directly, or reads the own view at a point dominated by the merge of the reply.
func c18RestartGeneration(p *Program, r *Report) {
	vr := p.viewRoles()
	if vr == nil {
		r.Unresolved("cluster view roles")
		return
	}
	genF := fieldVar(vr.State, "Generation")
	if genF == nil {
		r.Unresolved("NodeState.Generation")
		return
	}
	mergeFns := map[*ssa.Function]bool{vr.Merge: true}
	for _, fn := range p.methodsOf(vr.View) { // thin wrappers (MergeFrom) count as the merge
		for _, b := range fn.Blocks {
			for _, in := range b.Instrs {
				if c := callOf(in); c != nil && c.StaticCallee() == vr.Merge {
					mergeFns[fn] = true
				}
			}
		}
	}
	n := 0
	for _, fn := range p.Mod {
		pk := fnPkg(fn)
		if pk == nil || !strings.HasSuffix(pk.Path(), "/internal/cluster") || len(fn.Blocks) == 0 {
			continue
		}
		g := p.ig(fn)
		for _, in := range g.Nodes {
			st, ok := in.(*ssa.Store)
			if !ok {
				continue
			}
			if f, _ := fieldAddr(st.Addr); f != genF {
				continue
			}
			bo, ok := st.Val.(*ssa.BinOp)
			if !ok || bo.Op != token.ADD {
				continue
			}
			// prev.Generation + 1 where prev is a member lookup
			f, base := fieldLoad(bo.X)
			if f != genF {
				continue
			}
			var lk *ssa.Lookup
			switch x := strip(base).(type) {
			case *ssa.Lookup:
				lk = x
			case *ssa.Extract:
				lk, _ = x.Tuple.(*ssa.Lookup)
			}
			if lk == nil {
				continue
			}
			mf, mbase := fieldLoad(lk.X)
			if mf != vr.Members {
				continue
			}
			n++
			construct := "restart generation in " + fnName(fn)
			if anyContains(p.origins(mbase), "JoinResponse") {
				r.Check(true, construct, st.Pos(), "the previous incarnation is looked up in the seed's reply itself")
				continue
			}
			merges := nodesWhere(g, func(in ssa.Instruction) bool {
				c := callOf(in)
				return c != nil && c.StaticCallee() != nil && mergeFns[c.StaticCallee()]
			})
			r.Check(len(merges) > 0 && g.DominatedByNodes(g.Idx[lk], merges), construct, st.Pos(),
				"the member lookup that yields the previous generation is dominated by the merge of the seed's reply: the bump is decided against what the cluster still holds, not only against the node's own fresh entry")
		}
	}
	if n == 0 {
		r.Unresolved("no `Generation = previous.Generation + 1` from a member lookup found")
	}
}

func (p *Program) vvType() (*types.Named, *types.Var) {
	n := p.Named("internal/cluster", "VersionVector")
	if n == nil {
		return nil, nil
	}
	st, ok := n.Underlying().(*types.Struct)
	if !ok {
		return n, nil
	}
	for i := 0; i < st.NumFields(); i++ {
		if _, isMap := st.Field(i).Type().Underlying().(*types.Map); isMap {
			return n, st.Field(i)
		}
	}
	return n, nil
}

// freshReturning: every return of fn yields a vector whose map was created inside fn (or by another fresh-returning function).
func (p *Program) freshReturning(fn *ssa.Function, vv *types.Named, mf *types.Var, depth int, memo map[*ssa.Function]int) bool {
	if fn == nil || len(fn.Blocks) == 0 || depth > 4 {
		return false
	}
	if v, ok := memo[fn]; ok {
		return v == 1
	}
	memo[fn] = 0
	ok := true
	for _, b := range fn.Blocks {
		for _, in := range b.Instrs {
			ret, isR := in.(*ssa.Return)
			if !isR || len(ret.Results) == 0 || namedOf(ret.Results[0].Type()) != vv {
				continue
			}
			if !p.vectorIsFresh(fn, retOperand(ret, 0), vv, mf, depth, memo) {
				ok = false
			}
		}
	}
	if ok {
		memo[fn] = 1
	}
	return ok
}

// vectorIsFresh: the vector value v (a struct value or a load of a local struct) owns a map created in fn.
func (p *Program) vectorIsFresh(fn *ssa.Function, v ssa.Value, vv *types.Named, mf *types.Var, depth int, memo map[*ssa.Function]int) bool {
	switch x := v.(type) {
	case *ssa.Call:
		cal := x.Call.StaticCallee()
		return cal != nil && p.freshReturning(cal, vv, mf, depth+1, memo)
	case *ssa.Extract:
		if c, ok := x.Tuple.(*ssa.Call); ok && x.Index == 0 {
			cal := c.Call.StaticCallee()
			return cal != nil && p.freshReturning(cal, vv, mf, depth+1, memo)
		}
	case *ssa.UnOp:
		if x.Op == token.MUL {
			if al, ok := x.X.(*ssa.Alloc); ok {
				return p.localVectorFresh(fn, al, vv, mf, depth, memo)
			}
		}
	case *ssa.Phi:
		for _, e := range x.Edges {
			if !p.vectorIsFresh(fn, e, vv, mf, depth, memo) {
				return false
			}
		}
		return len(x.Edges) > 0
	case *ssa.Const:
		return true // zero vector: nil map, nothing shared
	}
	return false
}

// localVectorFresh: every initialisation of the local vector variable gives it a fresh map.
func (p *Program) localVectorFresh(fn *ssa.Function, al *ssa.Alloc, vv *types.Named, mf *types.Var, depth int, memo map[*ssa.Function]int) bool {
	n, ok := 0, true
	for _, ref := range *al.Referrers() {
		switch x := ref.(type) {
		case *ssa.Store:
			if x.Addr == ssa.Value(al) {
				n++
				if !p.vectorIsFresh(fn, x.Val, vv, mf, depth, memo) {
					ok = false
				}
			}
		case *ssa.FieldAddr:
			if f, _ := fieldAddr(x); f == mf {
				for _, u := range *x.Referrers() {
					if st, isSt := u.(*ssa.Store); isSt && st.Addr == ssa.Value(x) {
						n++
						if _, isMake := st.Val.(*ssa.MakeMap); !isMake {
							ok = false
						}
					}
				}
			}
		}
	}
	return ok && n > 0
}

func c16Ownership(p *Program, r *Report) {
	vv, mf := p.vvType()
	if vv == nil || mf == nil {
		r.Unresolved("version vector type / map field")
		return
	}
	memo := map[*ssa.Function]int{}
	n := 0
	for _, fn := range p.Mod {
		pk := fnPkg(fn)
		if pk == nil || !strings.HasSuffix(pk.Path(), "/internal/cluster") {
			continue
		}
		for _, b := range fn.Blocks {
			for _, in := range b.Instrs {
				var m ssa.Value
				kind := ""
				switch x := in.(type) {
				case *ssa.MapUpdate:
					m, kind = x.Map, "update"
				case *ssa.Call:
					if bi, ok := x.Call.Value.(*ssa.Builtin); ok && (bi.Name() == "delete" || bi.Name() == "clear") {
						m, kind = x.Call.Args[0], bi.Name()
					}
				}
				if m == nil {
					continue
				}
				// map value is the vector's map field?
				var base ssa.Value
				if f, b2 := fieldLoad(m); f == mf {
					base = b2
				} else {
					continue
				}
				n++
				fresh := false
				switch bx := base.(type) {
				case *ssa.Alloc:
					fresh = p.localVectorFresh(fn, bx, vv, mf, 0, memo)
				default:
					fresh = p.vectorIsFresh(fn, base, vv, mf, 0, memo)
				}
				r.Check(fresh, fmt.Sprintf("map %s in %s", kind, fnName(fn)), in.Pos(), "the mutated map belongs to a vector created in this function (literal with make, Clone(), constructor) — never to the receiver or an argument: operations do not modify their operands")
			}
		}
	}
	// fresh-returning summary of the cloning entry points
	for _, name := range []string{"Clone", "Merge", "PruneWithMax"} {
		if fn := p.methodNamed(vv, name); fn != nil {
			r.Check(p.freshReturning(fn, vv, mf, 0, memo), name+" returns a vector that shares no map with its operands", fn.Pos(), "every return yields a vector whose map was created inside the call")
		}
	}
	// slices handed in are copied before being reordered
	if prune := p.methodNamed(vv, "PruneWithMax"); prune != nil {
		ok := true
		for _, b := range prune.Blocks {
			for _, in := range b.Instrs {
				if c := callOf(in); c != nil && (strings.HasPrefix(calleeQual(c), "sort.") || strings.HasPrefix(calleeQual(c), "slices.Sort")) && len(c.Args) > 0 {
					// the sorted slice must be append([]T(nil), param...) — a private copy
					// a private copy: append([]T(nil), s...), slices.Clone(s), or make + copy
					src := strip(c.Args[0])
					if mi, isMI := src.(*ssa.MakeInterface); isMI { // sort.Sort(sort.StringSlice(x)) etc.
						src = strip(mi.X)
					}
					private := false
					switch x := src.(type) {
					case *ssa.Call:
						if bi, isB := x.Call.Value.(*ssa.Builtin); isB && bi.Name() == "append" && isNilConst(x.Call.Args[0]) {
							private = true
						}
						if q := calleeQual(&x.Call); strings.HasPrefix(q, "slices.Clone") || strings.HasPrefix(q, "slices.Sorted") || strings.HasPrefix(q, "slices.Collect") {
							private = true
						}
					case *ssa.MakeSlice:
						private = true
					case *ssa.Slice:
						if _, isMk := strip(x.X).(*ssa.MakeSlice); isMk {
							private = true
						}
						if al, isAl := strip(x.X).(*ssa.Alloc); isAl && al.Heap {
							private = true // make([]T, constant) compiles to new [N]T + slice
						}
					}
					if !private {
						ok = false
					}
				}
			}
		}
		r.Check(ok, "PruneWithMax sorts a copy of its slice argument", prune.Pos(), "the slice passed by the caller is copied (append to nil, slices.Clone, make+copy) before sort/truncate")
	}
	if n == 0 {
		r.Unresolved("no mutation of a version vector map found")
	}
}

func c16Wire(p *Program, r *Report) {
	w, rd := p.Func("internal/cluster", "WriteVersionVector"), p.Func("internal/cluster", "ReadVersionVector")
	if w == nil || rd == nil {
		r.Unresolved("WriteVersionVector / ReadVersionVector")
		return
	}
	wi, _ := p.streamParam(w)
	ri, _ := p.streamParam(rd)
	ws, rs := sigSet(p.wireSigOf(w, wi)), sigSet(p.wireSigOf(rd, ri))
	same := len(ws) == len(rs) && len(ws) > 0
	for k := range ws {
		if _, ok := rs[k]; !ok {
			same = false
		}
	}
	r.Check(same, "version vector writer and reader agree", w.Pos(), fmt.Sprintf("%d signature(s), e.g. [%s]", len(ws), first(sortedKeys(ws))))
	capOf := func(fn *ssa.Function) int64 {
		for _, ifi := range ifsOf(fn) {
			f, ok := condFact(ifi.Cond, true)
			if ok && f.Op == token.GTR && f.Y == nil && !f.IsNil && f.C > 1000 && f.C < 1<<40 {
				return f.C
			}
		}
		return -1
	}
	cw, cr := capOf(w), capOf(rd)
	r.Check(cw > 0 && cw == cr, "writer and reader validate against the same entry cap", rd.Pos(), fmt.Sprintf("writer rejects more than %d entries, reader rejects more than %d", cw, cr))
	// every node id the operations accept fits the length prefix it is written with: the validator the operations call bounds
	// the id length by K (inclusive); a k-byte prefix carries at most 256^k - 1 bytes
	maxID := int64(-1)
	for _, fn := range p.Mod {
		pk := fnPkg(fn)
		if pk == nil || pk != fnPkg(w) || len(fn.Params) != 1 || fn.Signature.Results().Len() != 1 {
			continue
		}
		if b, isB := fn.Params[0].Type().Underlying().(*types.Basic); !isB || b.Kind() != types.String {
			continue
		}
		for _, ifi := range ifsOf(fn) {
			f, ok := condFact(ifi.Cond, true)
			if !ok || f.Op != token.GTR || f.Y != nil || f.IsNil {
				continue
			}
			if c, isC := f.X.(*ssa.Call); isC {
				if bi, isBi := c.Call.Value.(*ssa.Builtin); isBi && bi.Name() == "len" && c.Call.Args[0] == ssa.Value(fn.Params[0]) && f.C > maxID {
					maxID = f.C
				}
			}
		}
	}
	for _, sw := range p.shortLengthWrites() {
		if sw.Fn != w {
			continue
		}
		capacity := int64(1)<<(8*uint(sw.Bytes)) - 1
		why := fmt.Sprintf("ids of up to %d bytes pass the validator, a %d-byte prefix carries %d", maxID, sw.Bytes, capacity)
		if maxID < 0 {
			why = fmt.Sprintf("no bound on the id length was found, a %d-byte prefix carries %d", sw.Bytes, capacity)
		}
		r.Check(maxID >= 0 && maxID <= capacity, fmt.Sprintf("node id length prefix (%d byte) carries every id the operations accept", sw.Bytes), sw.In.Pos(), why+": a vector the operations can produce must survive serialisation")
	}
}

// c16IncrementCap: the only arithmetic on counters is Increment's +1. Its result must stay inside what the reader accepts:
// the reader rejects counters > K, so the +1 must be dominated by the strict test current < K (interval argument on one
// comparison: current <= K-1 ⇒ current+1 <= K). A guard that lets current == K through produces a vector that cannot be read back.
func c16IncrementCap(p *Program, r *Report) {
	vv := p.Named("internal/cluster", "VersionVector")
	rd := p.Func("internal/cluster", "ReadVersionVector")
	if vv == nil || rd == nil {
		r.Unresolved("VersionVector / ReadVersionVector")
		return
	}
	// reader's bound: edge `count > K` on a 64-bit unsigned wire value
	readerK := int64(-1)
	for _, ifi := range ifsOf(rd) {
		for _, outcome := range []bool{true, false} {
			f, ok := condFact(ifi.Cond, outcome)
			if !ok || f.Y != nil || f.IsNil || f.Bool {
				continue
			}
			if b, isB := f.X.Type().Underlying().(*types.Basic); !isB || b.Kind() != types.Uint64 {
				continue
			}
			if f.Op == token.GTR && f.C > 1<<32 {
				readerK = f.C
			}
			if f.Op == token.GEQ && f.C > 1<<32 {
				readerK = f.C - 1
			}
		}
	}
	if readerK < 0 {
		r.Unresolved("reader-side upper bound on counters")
		return
	}
	n := 0
	for _, fn := range p.methodsOf(vv) {
		g := p.ig(fn)
		for i, in := range g.Nodes {
			bo, ok := in.(*ssa.BinOp)
			if !ok || bo.Op != token.ADD {
				continue
			}
			if b, isB := bo.Type().Underlying().(*types.Basic); !isB || b.Kind() != types.Uint64 {
				continue
			}
			one, isC := constInt(bo.Y)
			if isC && one != 1 {
				continue
			}
			if !anyContains(p.origins(bo.X), "lookup") {
				continue
			}
			n++
			if !isC {
				// counter + delta with a caller-supplied step: guarded by the false edge of `delta > K' - counter`, K' <= the bound
				room := map[edge]bool{}
				for _, ifi := range g.ifs() {
					cmp, isB := ifi.Cond.(*ssa.BinOp)
					if !isB {
						continue
					}
					var sub *ssa.BinOp
					okShape := false
					switch cmp.Op {
					case token.GTR: // delta > K'-counter : safe on the false edge
						if sameValue(cmp.X, bo.Y) {
							sub, _ = cmp.Y.(*ssa.BinOp)
							okShape = true
						}
					case token.LSS: // K'-counter < delta : safe on the false edge
						if sameValue(cmp.Y, bo.Y) {
							sub, _ = cmp.X.(*ssa.BinOp)
							okShape = true
						}
					}
					if !okShape || sub == nil || sub.Op != token.SUB || !sameValue(sub.Y, bo.X) {
						continue
					}
					if k, isK := constInt(sub.X); isK && k <= readerK && k > 0 {
						room[g.branchEdge(ifi, false)] = true
					}
				}
				r.Check(len(room) > 0 && g.DominatedByEdges(i, room), "counter+delta in "+fnName(fn)+" stays within the reader's bound", bo.Pos(),
					fmt.Sprintf("the addition is dominated by the false edge of delta > K - counter with K <= %d; the reader accepts counters <= %d", readerK, readerK))
				continue
			}
			strict := g.edgesWhere(func(f cmpFact) bool {
				if f.Y != nil || f.IsNil || f.Bool || !sameValue(f.X, bo.X) {
					return false
				}
				return (f.Op == token.LSS && f.C <= readerK) || (f.Op == token.LEQ && f.C <= readerK-1)
			})
			r.Check(len(strict) > 0 && g.DominatedByEdges(i, strict), "counter+1 in "+fnName(fn)+" stays within the reader's bound", bo.Pos(),
				fmt.Sprintf("the increment is dominated by an edge asserting counter < %d; the reader accepts counters <= %d, so every vector produced by a successful Increment can be read back", readerK, readerK))
		}
	}
	if n == 0 {
		r.Unresolved("no counter increment found in the version vector's methods")
	}
}

func c16DataIndependence(p *Program, r *Report) {
	vv, mf := p.vvType()
	if vv == nil || mf == nil {
		r.Unresolved("version vector type")
		return
	}
	var odd []string
	n := 0
	for _, fn := range p.methodsOf(vv) {
		if fn.Name() == "String" || fn.Name() == "TotalCount" || fn.Name() == "MaxCounter" {
			continue
		}
		for _, b := range fn.Blocks {
			for _, in := range b.Instrs {
				bo, ok := in.(*ssa.BinOp)
				if !ok {
					continue
				}
				bt, isB := bo.X.Type().Underlying().(*types.Basic)
				if !isB || bt.Kind() != types.Uint64 {
					continue
				}
				n++
				switch bo.Op {
				case token.LSS, token.GTR, token.LEQ, token.GEQ, token.EQL, token.NEQ:
				case token.ADD:
					if v, isC := constInt(bo.Y); !isC || v != 1 || fn.Name() != "Increment" {
						odd = append(odd, fnName(fn)+": "+bo.String())
					}
				default:
					odd = append(odd, fnName(fn)+": "+bo.String())
				}
			}
		}
	}
	sort.Strings(odd)
	r.add("counters are only compared, copied and incremented by one", vv.Obj().Pos(), "discharged",
		fmt.Sprintf("informational: %d uint64 operations in the vector's methods; other arithmetic: %v. (This is what would make a finite order-type enumeration by another technique complete; it decides none of the lattice laws.)", n, odd), false)
}

// c16CompareEnumerates: the pointwise order needs the counter of every entry of both vectors. Entries only the other side
// holds are found by enumerating that side; their number (len) says nothing about their counters — an explicit zero entry
// (decoded from the wire) is equal to an absent one.
func c16CompareEnumerates(p *Program, r *Report) {
	vv := p.Named("internal/cluster", "VersionVector")
	if vv == nil {
		r.Unresolved("VersionVector")
		return
	}
	fn := p.methodNamed(vv, "Compare")
	if fn == nil || len(fn.Params) < 2 {
		r.Unresolved("VersionVector.Compare")
		return
	}
	for i, role := range []string{"the receiver", "the other operand"} {
		ok := p.enumeratesParam(fn, i, 0, map[string]bool{})
		r.Check(ok, "Compare enumerates the entries of "+role, fn.Pos(), "Compare (or a helper it passes the operand to) ranges over the stored entries of this operand: every entry takes part in the pointwise comparison")
	}
}

// enumeratesParam: fn iterates over storage derived from its parameter #idx — a range over a map / an element read of a
// slice rooted in the parameter — or passes (something derived from) it to a module function that does.
func (p *Program) enumeratesParam(fn *ssa.Function, idx, depth int, seen map[string]bool) bool {
	key := fmt.Sprintf("%p/%d", fn, idx)
	if depth > 3 || seen[key] || idx >= len(fn.Params) || len(fn.Blocks) == 0 {
		return false
	}
	seen[key] = true
	root := "param:" + fn.Params[idx].Name()
	from := func(v ssa.Value) bool {
		for _, o := range p.origins(v) {
			if strings.HasSuffix(o, root) {
				return true
			}
		}
		return false
	}
	for _, f := range withAnon(fn) {
		for _, b := range f.Blocks {
			for _, in := range b.Instrs {
				switch x := in.(type) {
				case *ssa.Range:
					if from(x.X) {
						return true
					}
				case *ssa.IndexAddr:
					if _, isSl := x.X.Type().Underlying().(*types.Slice); isSl && from(x.X) {
						if _, isC := x.Index.(*ssa.Const); !isC {
							return true
						}
					}
				}
				c := callOf(in)
				if c == nil || c.StaticCallee() == nil || !p.inModule(c.StaticCallee()) {
					continue
				}
				y := c.StaticCallee()
				for j, a := range c.Args {
					if from(a) && p.enumeratesParam(y, j, depth+1, seen) {
						return true
					}
				}
			}
		}
	}
	return false
}

// ---- C17 ---------------------------------------------------------------------------------------

type viewRoles struct {
	View    *types.Named
	Members *types.Var
	State   *types.Named
	Merge   *ssa.Function
	Add     *ssa.Function
}

func (p *Program) viewRoles() *viewRoles {
	vr := &viewRoles{View: p.Named("internal/cluster", "ClusterView"), State: p.Named("internal/cluster", "NodeState")}
	if vr.View == nil || vr.State == nil {
		return nil
	}
	st := vr.View.Underlying().(*types.Struct)
	for i := 0; i < st.NumFields(); i++ {
		if m, ok := st.Field(i).Type().Underlying().(*types.Map); ok && namedOf(m.Elem()) == vr.State {
			vr.Members = st.Field(i)
		}
	}
	vr.Merge = p.methodNamed(vr.View, "MergeFromWithOptions")
	vr.Add = p.methodNamed(vr.View, "AddMember")
	if vr.Members == nil || vr.Merge == nil || vr.Add == nil {
		return nil
	}
	return vr
}

func c17Clones(p *Program, r *Report) {
	vr := p.viewRoles()
	if vr == nil {
		r.Unresolved("cluster view roles")
		return
	}
	clone := p.methodNamed(vr.State, "Clone")
	n := 0
	for _, fn := range p.Mod {
		pk := fnPkg(fn)
		if pk == nil || !strings.HasSuffix(pk.Path(), "/internal/cluster") {
			continue
		}
		for _, b := range fn.Blocks {
			for _, in := range b.Instrs {
				mu, ok := in.(*ssa.MapUpdate)
				if !ok {
					continue
				}
				mt, isMap := mu.Map.Type().Underlying().(*types.Map)
				if !isMap || namedOf(mt.Elem()) != vr.State {
					continue
				}
				n++
				v := strip(mu.Value)
				good, why := false, ""
				switch x := v.(type) {
				case *ssa.Call:
					if x.Call.StaticCallee() == clone {
						good, why = true, "value is NodeState.Clone()"
					} else if cal := x.Call.StaticCallee(); cal != nil && p.returnsFreshState(cal, vr.State) {
						good, why = true, "value freshly built by "+fnName(cal)
					}
				case *ssa.Extract:
					if c, isC := x.Tuple.(*ssa.Call); isC && c.Call.StaticCallee() != nil && p.returnsFreshState(c.Call.StaticCallee(), vr.State) {
						good, why = true, "value freshly built by the decoder "+fnName(c.Call.StaticCallee())
					}
				case *ssa.Alloc:
					good, why = true, "value allocated here"
				}
				r.Check(good, "member store in "+fnName(fn), mu.Pos(), "the state stored into a member table is a private copy ("+why+"): later mutation of the source cannot change the view behind its back")
			}
		}
	}
	// Snapshot clones the vector
	if snap := p.methodNamed(vr.View, "Snapshot"); snap != nil {
		ok := false
		for _, b := range snap.Blocks {
			for _, in := range b.Instrs {
				if st, isSt := in.(*ssa.Store); isSt {
					if f, _ := fieldAddr(st.Addr); f != nil && f.Name() == "VersionVector" {
						if c, isC := strip(st.Val).(*ssa.Call); isC && c.Call.StaticCallee() != nil && c.Call.StaticCallee().Name() == "Clone" {
							ok = true
						}
					}
				}
			}
		}
		r.Check(ok, "Snapshot clones the version vector", snap.Pos(), "the snapshot's vector is VersionVector.Clone()")
	}
	if n == 0 {
		r.Unresolved("no store into a member table")
	}
}

// returnsFreshState: every non-nil *NodeState returned by fn is allocated in fn.
func (p *Program) returnsFreshState(fn *ssa.Function, state *types.Named) bool {
	if len(fn.Blocks) == 0 {
		return false
	}
	ok, n := true, 0
	for _, b := range fn.Blocks {
		for _, in := range b.Instrs {
			ret, isR := in.(*ssa.Return)
			if !isR || len(ret.Results) == 0 || namedOf(ret.Results[0].Type()) != state {
				continue
			}
			v := strip(retOperand(ret, 0))
			if isNilConst(v) {
				continue
			}
			n++
			if _, isAl := v.(*ssa.Alloc); !isAl {
				ok = false
			}
		}
	}
	return ok && n > 0
}

func c17NeverRemoves(p *Program, r *Report) {
	vr := p.viewRoles()
	if vr == nil {
		r.Unresolved("cluster view roles")
		return
	}
	steps := p.closure([]*ssa.Function{vr.Merge}, cgOpts{ModuleOnly: true, MaxDepth: 5})
	bad := ""
	for fn := range steps {
		for _, a := range p.fieldAccesses(map[*types.Var]bool{vr.Members: true}) {
			if a.Fn != fn {
				continue
			}
			if a.Kind == "delete" {
				bad = "delete in " + fnName(fn)
			}
			if a.Kind == "store" {
				st := a.In.(*ssa.Store)
				if _, isMake := st.Val.(*ssa.MakeMap); !isMake {
					bad = "member table replaced in " + fnName(fn)
				} else {
					// only nil → make
					g := p.ig(fn)
					nilE := map[edge]bool{}
					for _, ef := range p.edgeFacts(g) {
						if ef.Field == vr.Members && ef.Fact.IsNil && ef.Fact.Op == token.EQL {
							nilE[ef.E] = true
						}
					}
					if len(nilE) == 0 || !g.DominatedByEdges(a.Node, nilE) {
						bad = "member table re-created in " + fnName(fn)
					}
				}
			}
		}
	}
	r.Check(bad == "", "merge never removes a member", vr.Merge.Pos(), fmt.Sprintf("%d functions reachable from the merge: no delete on the member table, no replacement of it (other than nil→make) %s", len(steps), bad))
}

func c17NewerWins(p *Program, r *Report) {
	vr := p.viewRoles()
	if vr == nil {
		r.Unresolved("cluster view roles")
		return
	}
	newer := p.methodNamed(vr.State, "IsNewerThan")
	for _, fn := range []*ssa.Function{vr.Add, vr.Merge} {
		g := p.igxSkip(fn, map[*ssa.Function]bool{newer: true}) // the member loop may live in a helper called once from the merge; IsNewerThan stays a call (its result edges are the rule's subject)
		n := 0
		for i, in := range g.Nodes {
			mu, ok := in.(*ssa.MapUpdate)
			if !ok {
				continue
			}
			if f, _ := fieldLoad(mu.Map); f != vr.Members {
				continue
			}
			n++
			// incoming state: the receiver of the Clone() stored
			var incoming ssa.Value
			if c, isC := strip(mu.Value).(*ssa.Call); isC {
				incoming = callRecv(&c.Call)
			}
			// lookups of the same key in the member table
			absent, newerE := map[edge]bool{}, map[edge]bool{}
			foundE, olderE := map[edge]bool{}, map[edge]bool{}
			for _, in2 := range g.Nodes {
				lk, isL := in2.(*ssa.Lookup)
				if !isL || !lk.CommaOk {
					continue
				}
				if f, _ := fieldLoad(lk.X); f != vr.Members || !sameValue(lk.Index, mu.Key) {
					continue
				}
				found, missing := g.okEdgesLookup(lk)
				absent = mergeEdges(absent, missing)
				foundE = mergeEdges(foundE, found)
				tr, fa := callEdges(g, func(c *ssa.Call) bool {
					if c.Call.StaticCallee() != newer || incoming == nil {
						return false
					}
					return strip(c.Call.Args[0]) == strip(incoming) && derivesFromExtract(c.Call.Args[1], lk, 0)
				})
				newerE = mergeEdges(newerE, tr)
				olderE = mergeEdges(olderE, fa)
			}
			// the converse: a known member is left as it is only because the incoming state is not newer — once the lookup found
			// an entry, the only way around the store (to the next iteration or out of the function) is the false edge of that
			// comparison; any further condition (clock skew, local status, strategy) makes the result depend on the merge order
			iterEnd := map[int]bool{}
			afterStore := g.ReachAfter(i, nil, nil)
			for j, in2 := range g.Nodes {
				// the iterator of the loop the store lies in (not the loops of spliced-in helpers such as Clone)
				if _, isN := in2.(*ssa.Next); isN && in2.Parent() == mu.Parent() && afterStore[j] && g.ReachAfter(j, nil, nil)[i] {
					iterEnd[j] = true
				}
			}
			for _, ex := range g.Exits {
				iterEnd[ex] = true
			}
			ok3 := len(foundE) > 0
			for e := range foundE {
				if e.to == i {
					continue
				}
				if anyOf(g.Reach([]int{e.to}, setOf(i), olderE), iterEnd) || iterEnd[e.to] {
					ok3 = false
				}
			}
			r.Check(ok3, "member store in "+fnName(fn)+" whenever newer", mu.Pos(), "once the lookup of the same key found an entry, every path to the next iteration or to a return either performs the store or takes the false edge of incoming.IsNewerThan(existing): a newer incarnation is adopted whatever else holds (clock skew, local status, merge strategy)")
			ok2 := len(newerE) > 0 && g.DominatedByEdges(i, mergeEdges(absent, newerE))
			r.Check(ok2, "member store in "+fnName(fn)+" only when absent or newer", mu.Pos(), "the store is reachable only through the not-found edge of a lookup of the same key or the true edge of incoming.IsNewerThan(existing) with existing being that lookup's value: a member is never replaced by an older incarnation")
		}
		if n == 0 {
			r.Unresolved("member store in " + fnName(fn))
		}
	}
}

func c17Monotone(p *Program, r *Report) {
	vr := p.viewRoles()
	if vr == nil {
		r.Unresolved("cluster view roles")
		return
	}
	g := p.igx(vr.Merge) // the scalar updates may live in single-use helpers ("advanceEpochTimestamp(other)")
	recv, other := ssa.Value(vr.Merge.Params[0]), ssa.Value(vr.Merge.Params[1])
	isBase := func(b ssa.Value, want ssa.Value) bool { return b != nil && g.res(b) == want }
	for _, name := range []string{"Epoch", "Timestamp", "ProtocolVersion"} {
		fld := fieldVar(vr.View, name)
		if fld == nil {
			r.Unresolved("view field " + name)
			continue
		}
		n, ok := 0, true
		for i, in := range g.Nodes {
			st, isSt := in.(*ssa.Store)
			if !isSt {
				continue
			}
			f, base := fieldAddr(st.Addr)
			if f != fld || !isBase(base, recv) {
				continue
			}
			n++
			vf, vb := fieldLoad(strip(st.Val))
			if vf != fld || !isBase(vb, other) {
				ok = false
				continue
			}
			gt := g.edgesWhere(func(cf cmpFact) bool {
				if cf.Y == nil {
					return false
				}
				xf, xb := fieldLoad(strip(cf.X))
				yf, yb := fieldLoad(strip(cf.Y))
				if xf != fld || yf != fld {
					return false
				}
				if isBase(xb, other) && isBase(yb, recv) {
					return cf.Op == token.GTR || cf.Op == token.GEQ
				}
				if isBase(xb, recv) && isBase(yb, other) {
					return cf.Op == token.LSS || cf.Op == token.LEQ
				}
				return false
			})
			if len(gt) == 0 || !g.DominatedByEdges(i, gt) {
				ok = false
			}
		}
		r.Check(ok && n > 0, "merge raises "+name+" only", vr.Merge.Pos(), "every assignment of "+name+" takes the other view's value on the edge other."+name+" > own."+name+": the merge never lowers it")
	}
}

func c17VectorAssign(p *Program, r *Report) {
	vr := p.viewRoles()
	if vr == nil {
		r.Unresolved("cluster view roles")
		return
	}
	vvF := fieldVar(vr.View, "VersionVector")
	steps := p.closure([]*ssa.Function{vr.Merge}, cgOpts{ModuleOnly: true, MaxDepth: 3})
	n := 0
	// the merge with its single-use helpers spliced in: a helper's receiver and arguments resolve to the merge's own
	mg := p.igx(vr.Merge)
	for fn := range steps {
		if fn.Signature.Recv() == nil || namedOf(fn.Signature.Recv().Type()) != vr.View {
			continue
		}
		res := func(v ssa.Value) ssa.Value { return strip(v) }
		own, other := ssa.Value(fn.Params[0]), ssa.Value(nil)
		if len(fn.Params) > 1 {
			other = fn.Params[1]
		}
		if mg.owns(p, fn) && fn != vr.Merge {
			res = mg.res
			own, other = vr.Merge.Params[0], vr.Merge.Params[1]
		}
		for _, b := range fn.Blocks {
			for _, in := range b.Instrs {
				st, ok := in.(*ssa.Store)
				if !ok {
					continue
				}
				f, base := fieldAddr(st.Addr)
				if f != vvF || res(base) != own {
					continue
				}
				n++
				c, isC := strip(st.Val).(*ssa.Call)
				good := false
				why := ""
				if isC && c.Call.StaticCallee() != nil {
					switch c.Call.StaticCallee().Name() {
					case "Merge":
						// Merge(own, other.VersionVector)
						of, ob := fieldLoad(res(c.Call.Args[0]))
						af, ab := fieldLoad(res(c.Call.Args[1]))
						good = of == vvF && ob != nil && res(ob) == own && af == vvF && other != nil && ab != nil && res(ab) == other
						why = "join of the own and the other view's vector"
					case "PruneWithMax", "Prune":
						of, ob := fieldLoad(res(c.Call.Args[0]))
						good = of == vvF && ob != nil && res(ob) == own
						why = "own vector pruned to the current members"
					}
				}
				r.Check(good, "vector assignment in "+fnName(fn), st.Pos(), "inside the merge the view's vector is only replaced by "+map[bool]string{true: why, false: "Merge(own, other) or PruneWithMax(own, …) — found something else"}[good])
			}
		}
	}
	if n == 0 {
		r.Unresolved("no assignment of the view's version vector in the merge")
	}
}

// c17NoShortcut: the merge looks at every member of the other view and joins the vectors whatever the order of the two
// vectors is: vector order does not summarise member state (AddMember, adoption and re-joins do not always advance the
// vector). Every path from the entry to a return passes the range over other's member table and the vector join, except
// returns taken on an edge that found the other view empty (nil view, nil table, zero length).
func c17NoShortcut(p *Program, r *Report) {
	vr := p.viewRoles()
	if vr == nil {
		r.Unresolved("cluster view roles")
		return
	}
	fn := vr.Merge
	if len(fn.Params) < 2 {
		r.Unresolved("merge(other)")
		return
	}
	other := fn.Params[1]
	g := p.igx(fn)
	fromOtherMembers := func(v ssa.Value) bool {
		f, b := fieldLoad(g.res(v))
		return f == vr.Members && b != nil && g.res(b) == ssa.Value(other)
	}
	ranges := nodesWhere(g, func(in ssa.Instruction) bool {
		rg, ok := in.(*ssa.Range)
		return ok && fromOtherMembers(rg.X)
	})
	vvF := fieldVar(vr.View, "VersionVector")
	joins := nodesWhere(g, func(in ssa.Instruction) bool {
		st, ok := in.(*ssa.Store)
		if !ok {
			return false
		}
		f, _ := fieldAddr(st.Addr)
		return f == vvF
	})
	if len(ranges) == 0 || len(joins) == 0 {
		r.Unresolved("range over the other view's members / vector assignment in the merge")
		return
	}
	empty := map[edge]bool{}
	for _, ifi := range g.ifs() {
		for _, outcome := range []bool{true, false} {
			f, ok := condFact(ifi.Cond, outcome)
			if !ok {
				continue
			}
			x := strip(f.X)
			isEmpty := false
			switch {
			case f.IsNil && f.Op == token.EQL && (x == ssa.Value(other) || fromOtherMembers(x)):
				isEmpty = true
			case !f.IsNil && f.Y == nil && !f.Bool && ((f.Op == token.EQL && f.C == 0) || (f.Op == token.LEQ && f.C == 0) || (f.Op == token.LSS && f.C == 1)):
				if c, isC := x.(*ssa.Call); isC {
					if b, isB := c.Call.Value.(*ssa.Builtin); isB && b.Name() == "len" && fromOtherMembers(c.Call.Args[0]) {
						isEmpty = true
					}
				}
			}
			if isEmpty {
				empty[g.branchEdge(ifi, outcome)] = true
			}
		}
	}
	r.Check(!anyIn(g.Reach(g.entry(), ranges, mergeEdges(empty, g.nilArgEdges())), g.Exits), "merge compares every member of the other view", firstPos(g, ranges),
		"no return is reachable without passing the range over other's member table, except on an edge that found the other view empty: the order of the two version vectors never short-circuits the per-member comparison")
	r.Check(!anyIn(g.Reach(g.entry(), joins, mergeEdges(empty, g.nilArgEdges())), g.Exits), "merge always joins the vectors", firstPos(g, joins),
		"no return is reachable without assigning the joined vector, except on an edge that found the other view empty")
}

func c17Changed(p *Program, r *Report) {
	vr := p.viewRoles()
	if vr == nil {
		r.Unresolved("cluster view roles")
		return
	}
	fn := vr.Merge
	g := p.igx(fn) // a member loop extracted into a helper returning its own `changed` stays part of the chain
	// `changed` is the named result. Without defer it lives in registers: the returned value is a chain of phis whose
	// operands are the previous value or the constant true. A CFG edge into such a phi whose operand is `true` is a
	// "sets changed" edge; the chain is monotone (false only initially), so once set it stays set.
	chain := map[ssa.Value]bool{}
	var collect func(v ssa.Value)
	collect = func(v ssa.Value) {
		if chain[v] {
			return
		}
		if ph, ok := v.(*ssa.Phi); ok {
			chain[v] = true
			for _, e := range ph.Edges {
				collect(e)
			}
		}
		// result of an inlined helper: continue with what the helper returns
		if c, ok := v.(*ssa.Call); ok {
			if y := g.Inlined[c]; y != nil && y.Signature.Results().Len() == 1 {
				for _, b := range y.Blocks {
					if ret, isR := b.Instrs[len(b.Instrs)-1].(*ssa.Return); isR {
						collect(retOperand(ret, 0))
					}
				}
			}
		}
	}
	for _, ex := range g.Exits {
		collect(g.Nodes[ex].(*ssa.Return).Results[0])
	}
	trueE := map[edge]bool{}
	monotone := true
	linked := map[*ssa.Call]bool{}
relink:
	monotone = true
	for v := range chain {
		ph := v.(*ssa.Phi)
		blk := ph.Block()
		for k, e := range ph.Edges {
			pred := blk.Preds[k]
			from := g.Idx[pred.Instrs[len(pred.Instrs)-1]]
			if b, isC := constBool(e); isC {
				if b {
					for _, to := range g.Succ[from] {
						if g.Nodes[to].Block() == blk {
							trueE[edge{from, to}] = true
						}
					}
				} else if pred != pred.Parent().Blocks[0] && len(pred.Preds) > 0 {
					// a reset to false after the start would break monotonicity (only the initial value may be false)
					if !g.DominatedByNodes(from, map[int]bool{}) {
						_ = from
					}
					init := true
					for _, pp := range pred.Preds {
						_ = pp
					}
					// accept false only when the predecessor cannot be reached through a true edge; after
					// `if v.helper(…)` the false edge is the helper's own result, so the helper's true edges do not count
					starts := trueE
					if ifi, isIf := pred.Instrs[len(pred.Instrs)-1].(*ssa.If); isIf {
						if c, isC := strip(ifi.Cond).(*ssa.Call); isC && linked[c] {
							starts = map[edge]bool{}
							for te := range trueE {
								if g.Nodes[te.from].Parent() != g.Inlined[c] {
									starts[te] = true
								}
							}
						}
					}
					if g.Reach(edgeTargets(starts), nil, nil)[from] {
						init = false
					}
					if !init {
						monotone = false
					}
				}
			}
		}
	}
	// `if v.helper(…) { changed = true }`: the helper's own boolean result joins the chain when the branch taken on a true
	// result cannot reach a return without setting changed
	for _, c := range g.inlinedCalls() {
		y := g.Inlined[c]
		if linked[c] || y.Signature.Results().Len() != 1 || !isBool(y.Signature.Results().At(0).Type()) {
			continue
		}
		tr, _ := callEdges(g, func(x *ssa.Call) bool { return x == c })
		if len(tr) == 0 {
			continue
		}
		sets := true
		for te := range tr {
			if !trueE[te] && anyIn(g.Reach([]int{te.to}, nil, trueE), g.Exits) {
				sets = false
			}
		}
		if !sets {
			continue
		}
		linked[c] = true
		before := len(chain)
		for _, b := range y.Blocks {
			if ret, isR := b.Instrs[len(b.Instrs)-1].(*ssa.Return); isR {
				collect(retOperand(ret, 0))
			}
		}
		if len(chain) != before {
			goto relink
		}
	}
	if len(chain) == 0 || len(trueE) == 0 {
		r.Unresolved("the merge's changed result (phi chain with constant-true operands)")
		return
	}
	r.Check(monotone, "changed is never reset", fn.Pos(), "the result is a monotone chain: once an edge sets it to true no later join can make it false")
	recv := fn.Params[0]
	vvF := fieldVar(vr.View, "VersionVector")
	n := 0
	for i, in := range g.Nodes {
		desc := ""
		switch x := in.(type) {
		case *ssa.MapUpdate:
			if f, _ := fieldLoad(x.Map); f == vr.Members {
				desc = "member store"
			}
		case *ssa.Store:
			f, base := fieldAddr(x.Addr)
			// the property demands `changed` for membership and version-vector changes only; scalar fields
			// (epoch, timestamp, protocol version, counts) are not constrained
			if f == vvF && g.res(base) == ssa.Value(recv) {
				// the join with the other view's vector; pruning to the current members (recomputeCounts) is not a change the
				// property asks to be reported
				if c, isC := strip(x.Val).(*ssa.Call); isC && c.Call.StaticCallee() != nil && c.Call.StaticCallee().Name() == "Merge" {
					desc = "assignment of the version vector"
				}
			}
		}
		if desc == "" {
			continue
		}
		n++
		// on every path through this mutation, changed=true is set (before or after) — except for the vector, where the
		// preceding Equal test decides: the store must be preceded by `if !merged.Equal(own) { changed = true }`
		ok := false
		if strings.Contains(desc, "version vector") {
			st := in.(*ssa.Store)
			_, ne := callEdges(g, func(c *ssa.Call) bool {
				return c.Call.StaticCallee() != nil && c.Call.StaticCallee().Name() == "Equal" && strip(c.Call.Args[0]) == strip(st.Val)
			})
			// on the not-equal edge changed is set before reaching the store
			// on the not-equal edge a changed-setting edge is taken before the exit
			ok = len(ne) > 0
			for e := range ne {
				if anyIn(g.Reach([]int{e.to}, nil, trueE), g.Exits) {
					ok = false
				}
			}
		} else {
			ok = g.DominatedByEdges(i, trueE) || !anyIn(g.ReachAfter(i, nil, trueE), g.Exits)
		}
		r.Check(ok, desc+" reports changed", in.Pos(), "every path through this mutation of the view sets changed=true (the vector: on the edge where the merged vector differs from the own one)")
	}
	if n == 0 {
		r.Unresolved("no mutation in the merge")
	}
}

// ---- C18 -----------------------------------------------------------------------------------------

func c18Leader(p *Program, r *Report) {
	fn := p.Func("internal/cluster", "ComputeLeaderAddr")
	if fn == nil {
		r.Unresolved("ComputeLeaderAddr")
		return
	}
	steps := p.closure([]*ssa.Function{fn}, cgOpts{MaxDepth: 3})
	var nd []string
	for f := range steps {
		pk := fnPkg(f)
		if pk == nil {
			continue
		}
		switch pk.Path() {
		case "math/rand", "math/rand/v2", "crypto/rand":
			nd = append(nd, fnName(f))
		case "time":
			if f.Name() == "Now" || f.Name() == "Since" {
				nd = append(nd, fnName(f))
			}
		}
	}
	sort.Strings(nd)
	r.Check(len(nd) == 0, "leader computation reaches no nondeterminism source", fn.Pos(), fmt.Sprintf("%d functions reachable; random/clock functions: %v", len(steps), nd))
	// reads only the view parameter (no globals, no other state)
	okState := true
	fields := map[string]bool{}
	for _, b := range fn.Blocks {
		for _, in := range b.Instrs {
			switch x := in.(type) {
			case *ssa.UnOp:
				if _, isG := x.X.(*ssa.Global); isG && x.Op == token.MUL {
					okState = false
				}
			case *ssa.FieldAddr:
				if f, _ := fieldAddr(x); f != nil {
					fields[ownerName(f)+"."+f.Name()] = true
				}
			}
		}
	}
	var fl []string
	for f := range fields {
		fl = append(fl, f)
	}
	sort.Strings(fl)
	allowed := true
	for _, f := range fl {
		if f != "ClusterView.Members" && f != "NodeState.Address" && f != "NodeState.Status" {
			allowed = false
		}
	}
	r.Check(okState && allowed, "leader depends only on member address and status", fn.Pos(), "fields read: "+strings.Join(fl, ", ")+"; no package-level state")
	// what is collected from the map iteration is sorted (or min-reduced) before it is indexed / returned
	g := p.ig(fn)
	sorted := nodesWhere(g, func(in ssa.Instruction) bool {
		return strings.HasPrefix(calleeQual(callOf(in)), "sort.") || strings.HasPrefix(calleeQual(callOf(in)), "slices.Sort")
	})
	hasRange := false
	okSort := true
	for i, in := range g.Nodes {
		if _, isR := in.(*ssa.Range); isR {
			hasRange = true
		}
		if ia, isIA := in.(*ssa.IndexAddr); isIA {
			if _, isSl := ia.X.Type().Underlying().(*types.Slice); isSl {
				// element access of the collected slice: dominated by the sort
				if anyContains(p.origins(ia.X), "append") && !g.DominatedByNodes(i, sorted) {
					okSort = false
				}
			}
		}
	}
	detOK := hasRange && len(sorted) > 0 && okSort
	how := "the addresses collected while ranging over the member map are sorted before one of them is selected"
	if hasRange && len(sorted) == 0 {
		// ... or a minimum (maximum) reduction: the result variable takes a candidate only on an edge asserting that the
		// candidate precedes the current value in a strict order (or that there is no current value yet) — the result is the
		// least element of the set whatever the iteration order
		chain := map[ssa.Value]bool{}
		var collect func(v ssa.Value)
		collect = func(v ssa.Value) {
			if ph, ok := v.(*ssa.Phi); ok && !chain[v] {
				chain[v] = true
				for _, e := range ph.Edges {
					collect(e)
				}
			}
		}
		for _, ex := range g.Exits {
			collect(retOperand(g.Nodes[ex].(*ssa.Return), 0))
		}
		isEmptyConst := func(v ssa.Value) bool {
			k, ok := v.(*ssa.Const)
			return ok && k.Value != nil && k.Value.Kind() == constant.String && constant.StringVal(k.Value) == ""
		}
		red := len(chain) > 0
		for v := range chain {
			ph := v.(*ssa.Phi)
			for k, e := range ph.Edges {
				if chain[e] || isEmptyConst(e) {
					continue
				}
				// candidate e enters on the edge from Preds[k]
				pred := ph.Block().Preds[k]
				from := g.Idx[pred.Instrs[len(pred.Instrs)-1]]
				better := map[edge]bool{}
				for _, ifi := range g.ifs() {
					cmp, isB := ifi.Cond.(*ssa.BinOp)
					if !isB {
						continue
					}
					switch {
					case cmp.Op == token.LSS && sameValue(cmp.X, e) && chain[cmp.Y],
						cmp.Op == token.GTR && chain[cmp.X] && sameValue(cmp.Y, e),
						cmp.Op == token.EQL && chain[cmp.X] && isEmptyConst(cmp.Y):
						better[g.branchEdge(ifi, true)] = true
					case cmp.Op == token.NEQ && chain[cmp.X] && isEmptyConst(cmp.Y),
						cmp.Op == token.GEQ && sameValue(cmp.X, e) && chain[cmp.Y]:
						better[g.branchEdge(ifi, false)] = true
					}
				}
				if len(better) == 0 || !g.DominatedByEdges(from, better) {
					red = false
				}
			}
		}
		if red {
			detOK, how = true, "the result is a minimum reduction over the member map: a candidate replaces the current value only on an edge asserting candidate < current (or no current value yet)"
		}
	}
	r.Check(detOK, "map iteration order cannot influence the leader", fn.Pos(), how)
	// publisher: IAmLeader derives from the computed leader and the node's own address only
	pub := p.Method("internal/cluster", "EventPublisher", "PublishLeaderIfChanged")
	okPub := false
	if pub != nil {
		for _, b := range pub.Blocks {
			for _, in := range b.Instrs {
				st, ok := in.(*ssa.Store)
				if !ok {
					continue
				}
				f, _ := fieldAddr(st.Addr)
				if f == nil || f.Name() != "IAmLeader" {
					continue
				}
				// value: phi / binop over (selfAddr != "") and (leaderAddr == selfAddr)
				okPub = valueMentionsCall(st.Val, fn, 0)
			}
		}
	}
	r.Check(okPub, "IAmLeader is derived from the computed leader", fn.Pos(), "the published IAmLeader flag compares ComputeLeaderAddr(view) with the node's own address")
}

func valueMentionsCall(v ssa.Value, fn *ssa.Function, depth int) bool {
	if depth > 6 {
		return false
	}
	switch x := v.(type) {
	case *ssa.Call:
		return x.Call.StaticCallee() == fn
	case *ssa.BinOp:
		return valueMentionsCall(x.X, fn, depth+1) || valueMentionsCall(x.Y, fn, depth+1)
	case *ssa.Phi:
		for _, e := range x.Edges {
			if valueMentionsCall(e, fn, depth+1) {
				return true
			}
		}
	case *ssa.UnOp:
		return valueMentionsCall(x.X, fn, depth+1)
	}
	return false
}

func c17Generation(p *Program, r *Report) {
	vr := p.viewRoles()
	if vr == nil {
		r.Unresolved("cluster view roles")
		return
	}
	fn := p.methodNamed(vr.State, "IsNewerThan")
	gen := fieldVar(vr.State, "Generation")
	if fn == nil || gen == nil {
		r.Unresolved("NodeState.IsNewerThan / Generation")
		return
	}
	g := p.ig(fn)
	// the order is built from plain comparisons only: every ordering test compares the SAME field of the two states, loaded
	// directly, and no arithmetic is done on a field of a state. Values touched only through </>/== of like fields give a
	// lexicographic order of total orders — a total order; a difference (`int64(a.Clock-b.Clock) > 0`, the wrap-safe idiom) is
	// cyclic beyond 2^63 and makes "newer" intransitive: merges in different orders keep different incarnations.
	plain := true
	var plainPos token.Pos = fn.Pos()
	plainWhy := ""
	fieldOfState := func(v ssa.Value) (*types.Var, ssa.Value) {
		f, base := fieldLoad(v)
		if f != nil && fieldVar(vr.State, f.Name()) == f {
			return f, base
		}
		return nil, nil
	}
	for _, in := range g.Nodes {
		bo, ok := in.(*ssa.BinOp)
		if !ok {
			continue
		}
		fx, bx := fieldOfState(bo.X)
		fy, by := fieldOfState(bo.Y)
		switch bo.Op {
		case token.LSS, token.GTR, token.LEQ, token.GEQ:
			if fx == nil || fy == nil || fx != fy || strip(bx) == strip(by) {
				_, cx := strip(bo.X).(*ssa.Const)
				_, cy := strip(bo.Y).(*ssa.Const)
				if (fx != nil && cy) || (fy != nil && cx) {
					continue // a field against a constant
				}
				plain, plainPos, plainWhy = false, bo.Pos(), "an ordering test whose operands are not the same field of the two states"
			}
		case token.EQL, token.NEQ:
		default:
			if fx != nil || fy != nil {
				plain, plainPos, plainWhy = false, bo.Pos(), "arithmetic ("+bo.Op.String()+") on field "+map[bool]string{true: "", false: ""}[true]
				if fx != nil {
					plainWhy += fx.Name()
				} else {
					plainWhy += fy.Name()
				}
			}
		}
	}
	r.Check(plain, "incarnation order uses plain comparisons of like fields", plainPos, map[bool]string{true: "every ordering test in IsNewerThan compares the same field of the two states (or a field with a constant) and no arithmetic touches a field: the order is a lexicographic combination of total orders", false: plainWhy + ": the relation need not be a total order any more (a difference of counters is cyclic), so the merge result depends on the merge order"}[plain])
	recv, other := fn.Params[0], fn.Params[1]
	// other == nil ⇒ true
	nilE := g.edgesWhere(func(f cmpFact) bool { return f.IsNil && f.Op == token.EQL && strip(f.X) == ssa.Value(other) })
	okNil := len(nilE) > 0
	for e := range nilE {
		for n := range g.Reach([]int{e.to}, nil, nil) {
			if ret, isR := g.Nodes[n].(*ssa.Return); isR {
				if b, isC := constBool(ret.Results[0]); !isC || !b {
					okNil = false
				}
			}
		}
	}
	r.Check(okNil, "a state is newer than no state", fn.Pos(), "IsNewerThan(nil) returns true")
	// generation differs ⇒ return recv.Generation > other.Generation
	diff := g.edgesWhere(func(f cmpFact) bool {
		if f.Y == nil || f.Op != token.NEQ {
			return false
		}
		xf, _ := fieldLoad(strip(f.X))
		yf, _ := fieldLoad(strip(f.Y))
		return xf == gen && yf == gen
	})
	ok := len(diff) > 0
	for e := range diff {
		for n := range g.Reach([]int{e.to}, nil, nil) {
			ret, isR := g.Nodes[n].(*ssa.Return)
			if !isR {
				continue
			}
			bo, isB := ret.Results[0].(*ssa.BinOp)
			if !isB {
				ok = false
				continue
			}
			xf, xb := fieldLoad(strip(bo.X))
			yf, yb := fieldLoad(strip(bo.Y))
			good := xf == gen && yf == gen && ((bo.Op == token.GTR && strip(xb) == ssa.Value(recv) && strip(yb) == ssa.Value(other)) || (bo.Op == token.LSS && strip(xb) == ssa.Value(other) && strip(yb) == ssa.Value(recv)))
			if !good {
				ok = false
			}
		}
	}
	// and the generation test comes first: no clock/timestamp comparison dominates it
	for e := range diff {
		for _, ifi := range ifsOf(fn) {
			f, okf := condFact(ifi.Cond, true)
			if !okf || f.Y == nil {
				continue
			}
			xf, _ := fieldLoad(strip(f.X))
			if xf != nil && xf != gen && xf.Name() != "ID" && g.ReachAfter(g.Idx[ifi], nil, nil)[e.from] && g.Idx[ifi] != e.from {
				ok = false
			}
		}
	}
	r.Check(ok, "a differing generation decides alone", fn.Pos(), "on the generation-differs edge the result is receiver.Generation > other.Generation, and no other criterion is consulted before it: a restarted node (higher generation) replaces its previous incarnation everywhere")
}

func c18Suppression(p *Program, r *Report) {
	var fn *ssa.Function
	vv, _ := p.vvType()
	for _, f := range p.Mod {
		pk := fnPkg(f)
		if pk == nil || !strings.HasSuffix(pk.Path(), "/internal/cluster") || f.Parent() != nil || f.Signature.Recv() == nil {
			continue
		}
		res := f.Signature.Results()
		if res.Len() != 1 || !isBool(res.At(0).Type()) || len(f.Params) != 3 || namedOf(f.Params[1].Type()) != vv {
			continue
		}
		// calls Compare on its vector parameter
		for _, b := range f.Blocks {
			for _, in := range b.Instrs {
				if c := callOf(in); c != nil && c.StaticCallee() != nil && c.StaticCallee().Name() == "Compare" && strip(c.Args[0]) == ssa.Value(f.Params[1]) {
					fn = f
				}
			}
		}
	}
	if fn == nil {
		r.Unresolved("gossip suppression predicate (bool method taking the own version vector and calling Compare on it)")
		return
	}
	before, equalV := int64(1), int64(0)
	spec := guardSpec{
		Atoms: func(in ssa.Instruction) (string, bool) {
			switch x := in.(type) {
			case *ssa.Call:
				if cal := x.Call.StaticCallee(); cal != nil {
					switch cal.Name() {
					case "Compare":
						return "order", true
					case "Equal":
						return "equal", true
					}
				}
			case *ssa.Extract:
				if x.Index == 1 {
					switch t := x.Tuple.(type) {
					case *ssa.Lookup:
						return "known", true
					case *ssa.Call:
						_ = t
						return "normalised", true
					}
				}
			}
			return "", false
		},
		Event:    func(ssa.Instruction) string { return "" },
		Classify: func(ssa.Instruction) string { return "" },
	}
	names := []string{"Equal", "Before", "After", "Concurrent"}
	for _, norm := range []bool{true, false} {
		for _, known := range []bool{true, false} {
			if !norm && known {
				continue
			}
			orders := []int64{0, 1, 2, 3}
			if !known {
				orders = []int64{0}
			}
			for _, ord := range orders {
				eq := ord == equalV
				cell := map[string]gval{"normalised": {known: true, isB: true, b: norm}, "known": {known: true, isB: true, b: known}, "order": {known: true, i: ord}, "equal": {known: true, isB: true, b: eq}}
				outs := p.guardEval(fn, spec, cell)
				want := !norm || !known || (ord != before && ord != equalV)
				ok := len(outs) > 0
				var desc []string
				for _, o := range outs {
					desc = append(desc, o.Class)
					if o.Class != map[bool]string{true: "return:true", false: "return:false"}[want] {
						ok = false
					}
				}
				label := fmt.Sprintf("suppression cell normalised=%v known=%v", norm, known)
				if known {
					label += " order=" + names[ord]
				}
				r.Check(ok, label, fn.Pos(), fmt.Sprintf("expected send=%v (skip only when the peer is known to be at least as new); evaluated: %v", want, desc))
			}
		}
	}
	// "known to be at least as new" must be knowledge, not hope: the table the predicate consults is written only with vectors
	// that arrived in a message (rooted in a parameter other than the receiver) — never with the node's own vector after a
	// send, which would record a delivery that may not have happened and silence anti-entropy towards that peer for good
	var table *types.Var
	for _, b := range fn.Blocks {
		for _, in := range b.Instrs {
			if lk, ok := in.(*ssa.Lookup); ok {
				if f, _ := fieldLoad(strip(lk.X)); f != nil {
					if m, isM := f.Type().Underlying().(*types.Map); isM && namedOf(m.Elem()) == vv {
						table = f
					}
				}
			}
		}
	}
	if table == nil {
		r.Unresolved("peer-vector table consulted by the suppression predicate")
		return
	}
	nw := 0
	for _, a := range p.fieldAccesses(map[*types.Var]bool{table: true}) {
		mu, isMU := a.In.(*ssa.MapUpdate)
		if !isMU || a.Fresh {
			continue
		}
		nw++
		recv := ""
		if len(a.Fn.Params) > 0 && a.Fn.Signature.Recv() != nil {
			recv = "param:" + a.Fn.Params[0].Name()
		}
		o := p.origins(mu.Value)
		ok := len(o) > 0
		for _, s := range o {
			i := strings.LastIndex(s, "param:")
			if i < 0 || s[i:] == recv {
				ok = false
			}
		}
		r.Check(ok, "peer vector recorded in "+fnName(a.Fn), mu.Pos(), "the recorded vector comes from a received message ("+strings.Join(o, " | ")+"), not from the node's own state")
	}
	if nw == 0 {
		r.Unresolved("no store into the peer-vector table")
	}
}

// ---- round-2 rules ---------------------------------------------------------------------------

func c16VerbatimKeys(p *Program, r *Report) {
	rd := p.Func("internal/cluster", "ReadVersionVector")
	if rd == nil {
		r.Unresolved("ReadVersionVector")
		return
	}
	n := 0
	for _, b := range rd.Blocks {
		for _, in := range b.Instrs {
			mu, ok := in.(*ssa.MapUpdate)
			if !ok {
				continue
			}
			if b, isB := mu.Key.Type().Underlying().(*types.Basic); !isB || b.Kind() != types.String {
				continue
			}
			n++
			o := p.origins(mu.Key)
			good := len(o) > 0
			for _, ch := range o {
				// the first producer on the chain must be a Reader read (possibly through a local cell)
				head := ch
				if i := strings.Index(ch, "<-"); i >= 0 {
					head = ch[:i]
				}
				head = strings.TrimPrefix(head, "#0")
				if strings.HasPrefix(ch, "#0<-call:") {
					head = ch[len("#0<-"):]
					if i := strings.Index(head, "<-"); i >= 0 {
						head = head[:i]
					}
				}
				if !(strings.Contains(head, "Reader).Read") || strings.HasPrefix(ch, "alloc:")) {
					good = false
				}
			}
			r.Check(good, "node id stored by the reader", mu.Pos(), "the map key is the string returned by the Reader (chains: "+strings.Join(o, " | ")+"): no normalisation between decoding and storing")
		}
	}
	if n == 0 {
		r.Unresolved("string-keyed map update in ReadVersionVector")
	}
}

func c17PruneKeepsMembers(p *Program, r *Report) {
	vr := p.viewRoles()
	if vr == nil {
		r.Unresolved("cluster view roles")
		return
	}
	c17PruneLimit(p, r)
	n := 0
	for _, fn := range p.methodsOf(vr.View) {
		g := p.ig(fn)
		for _, in := range g.Nodes {
			c := callOf(in)
			if c == nil || c.StaticCallee() == nil || !strings.HasPrefix(c.StaticCallee().Name(), "Prune") || len(c.Args) < 2 {
				continue
			}
			if _, isCall := in.(*ssa.Call); !isCall {
				continue
			}
			n++
			// the appends that build the list of ids to keep: append(list, <range key of the member table>)
			apps := nodesWhere(g, func(in2 ssa.Instruction) bool {
				cc, ok := in2.(*ssa.Call)
				if !ok {
					return false
				}
				b, isB := cc.Call.Value.(*ssa.Builtin)
				if !isB || b.Name() != "append" || len(cc.Call.Args) < 2 {
					return false
				}
				elems, okv := varargElems(cc.Call.Args[1])
				if !okv || len(elems) != 1 {
					return false
				}
				return anyContains(p.origins(elems[0]), "next<-range<-field:"+vr.View.Obj().Name()+"."+vr.Members.Name())
			})
			nilMember := g.edgesWhere(func(f cmpFact) bool {
				return f.IsNil && f.Op == token.EQL && anyContains(p.origins(f.X), "next<-range<-field:"+vr.View.Obj().Name()+"."+vr.Members.Name())
			})
			ok, why := g.loopExactlyOnceA(apps, nilMember)
			r.Check(ok, "ids kept by the compaction in "+fnName(fn), in.Pos(), "the list handed to the pruning is appended the id of every non-nil member of the table, once per iteration: the vector keeps a component for every member still present whatever its status "+why)
		}
	}
	if n == 0 {
		r.Unresolved("pruning of the version vector in the view's methods")
	}
}

func c18AlwaysEvaluates(p *Program, r *Report) {
	compute := p.Func("internal/cluster", "ComputeLeaderAddr")
	if compute == nil {
		r.Unresolved("ComputeLeaderAddr")
		return
	}
	n := 0
	for _, fn := range p.Mod {
		pk := fnPkg(fn)
		if pk == nil || !strings.HasSuffix(pk.Path(), "/internal/cluster") || len(fn.Blocks) == 0 || fn.Signature.Recv() == nil {
			continue
		}
		g := p.ig(fn)
		calls := nodesWhere(g, func(in ssa.Instruction) bool { c := callOf(in); return c != nil && c.StaticCallee() == compute })
		if len(calls) == 0 {
			continue
		}
		// only the publisher: a function that also publishes the leader event
		pub := false
		for _, in := range g.Nodes {
			if c := callOf(in); c != nil && c.IsInvoke() && c.Method.Name() == "Publish" && len(c.Args) > 1 && strings.HasSuffix(typeName(strip(c.Args[1]).Type()), "ClusterLeaderChangedEvent") {
				pub = true
			}
		}
		if !pub {
			continue
		}
		n++
		nilE := g.edgesWhere(func(f cmpFact) bool {
			if !f.IsNil || f.Op != token.EQL {
				return false
			}
			x := strip(f.X)
			if _, isP := x.(*ssa.Parameter); isP {
				return true
			}
			if c, isC := x.(*ssa.Call); isC && c.Call.IsInvoke() {
				return true // e.g. ctx.EventStream() == nil
			}
			return false
		})
		r.Check(!anyIn(g.Reach(g.entry(), calls, nilE), g.Exits), "leader evaluated on every call of "+fnName(fn), firstPos(g, calls), "no return is reachable before the leader computation except on nil-argument edges: the evaluation is never skipped on the grounds that some summary of the view (its version vector) did not change")
	}
	if n == 0 {
		r.Unresolved("leader publisher (calls ComputeLeaderAddr and publishes ClusterLeaderChangedEvent)")
	}
}

func c18SeedsAlwaysCandidates(p *Program, r *Report) {
	sel := p.Named("internal/cluster", "GossipTargetSelector")
	if sel == nil {
		r.Unresolved("GossipTargetSelector")
		return
	}
	fn := p.methodNamed(sel, "SelectTargets")
	if fn == nil {
		r.Unresolved("SelectTargets")
		return
	}
	g := p.ig(fn)
	// the seed source: a call of a method of the selector whose first result is []string
	var src []*ssa.Call
	for _, in := range g.Nodes {
		c, ok := in.(*ssa.Call)
		if !ok || c.Call.IsInvoke() {
			continue
		}
		var res *types.Tuple
		if y := c.Call.StaticCallee(); y != nil {
			if y.Signature.Recv() == nil || namedOf(y.Signature.Recv().Type()) != sel {
				continue
			}
			res = y.Signature.Results()
		} else {
			// a function-typed field of the selector (injected seed provider)
			f, _ := fieldLoad(c.Call.Value)
			if f == nil || fieldVar(sel, f.Name()) != f {
				continue
			}
			sig, isSig := f.Type().Underlying().(*types.Signature)
			if !isSig {
				continue
			}
			res = sig.Results()
		}
		if res.Len() >= 1 && isStringSlice(res.At(0).Type()) {
			src = append(src, c)
		}
	}
	if len(src) == 0 {
		r.Unresolved("seed source of the target selector")
		return
	}
	n := 0
	okAll := true
	var bad token.Pos
	for _, in := range g.Nodes {
		// `for _, s := range seeds` over a slice compiles to len(seeds) + index loop: look at len()/index uses too
		var x ssa.Value
		switch y := in.(type) {
		case *ssa.Range:
			x = y.X
		case *ssa.Call:
			if b, isB := y.Call.Value.(*ssa.Builtin); isB && b.Name() == "len" {
				x = y.Call.Args[0]
			}
		case *ssa.IndexAddr:
			x = y.X
		}
		if x == nil || !isStringSlice(x.Type()) {
			continue
		}
		// does this value come from the seed source at all?
		fromSeeds, pure := false, true
		seen := map[ssa.Value]bool{}
		var walk func(v ssa.Value)
		walk = func(v ssa.Value) {
			if seen[v] {
				return
			}
			seen[v] = true
			switch z := v.(type) {
			case *ssa.Extract:
				for _, sc := range src {
					if z.Tuple == ssa.Value(sc) && z.Index == 0 {
						fromSeeds = true
						return
					}
				}
				pure = false
			case *ssa.Phi:
				for _, e := range z.Edges {
					walk(e)
				}
			default:
				pure = false
			}
		}
		walk(x)
		if !fromSeeds {
			continue
		}
		n++
		if !pure {
			okAll = false
			bad = in.Pos()
		}
	}
	if n == 0 {
		r.Unresolved("loop over the seed list in SelectTargets")
		return
	}
	if bad == token.NoPos {
		bad = fn.Pos()
	}
	r.Check(okAll, "seed loops range over the configured seed list", bad, fmt.Sprintf("all %d uses of the seed list in loops take the value returned by the seed source on every path (no path substitutes nil / another list)", n))
	// an injected seed source (function-typed field): every function value the module puts there computes the list when it is
	// called — its returned list is the result of a call made inside it (a method value of the provider does exactly that), not
	// a value captured when the node was built. With a resolver configured the seed set is not start-up configuration; two
	// islands whose start-up answers did not list each other never gossip to each other.
	for _, sc := range src {
		f, _ := fieldLoad(sc.Call.Value)
		if f == nil {
			continue
		}
		for _, getter := range p.funcValuesStoredTo(f) {
			if getter.fn == nil {
				r.Check(false, "seed source asks for the seeds on every call", getter.pos, "the value stored into the selector's seed source is not a function the module defines: what it returns on later calls is not decided")
				continue
			}
			fresh := len(getter.fn.Blocks) > 0
			for _, b := range getter.fn.Blocks {
				ret, isRet := b.Instrs[len(b.Instrs)-1].(*ssa.Return)
				if !isRet || len(ret.Results) == 0 {
					continue
				}
				v := strip(ret.Results[0])
				if ex, isEx := v.(*ssa.Extract); isEx {
					v = ex.Tuple
				}
				if _, isConst := v.(*ssa.Const); isConst {
					continue // a constant (no seeds) is not a list captured at construction
				}
				c, isCall := v.(*ssa.Call)
				if !isCall || c.Parent() != getter.fn {
					fresh = false
				}
			}
			r.Check(fresh, "seed source asks for the seeds on every call", getter.pos, fmt.Sprintf("every return of %s yields the result of a call made inside it: the seed list is asked for at selection time, not frozen when the node was built", fnName(getter.fn)))
		}
	}
}

type storedFunc struct {
	fn  *ssa.Function
	pos token.Pos
}

// funcValuesStoredTo: the function values the module stores into field f, followed through constructor parameters to the
// arguments at the constructor's call sites (depth 2). fn == nil: a value that is not a function of the module.
func (p *Program) funcValuesStoredTo(f *types.Var) []storedFunc {
	var out []storedFunc
	var resolve func(v ssa.Value, pos token.Pos, depth int)
	resolve = func(v ssa.Value, pos token.Pos, depth int) {
		switch x := v.(type) {
		case *ssa.MakeClosure:
			if fn, ok := x.Fn.(*ssa.Function); ok {
				out = append(out, storedFunc{fn, pos})
				return
			}
		case *ssa.Function:
			out = append(out, storedFunc{x, pos})
			return
		case *ssa.ChangeType:
			resolve(x.X, pos, depth)
			return
		case *ssa.Phi:
			for _, e := range x.Edges {
				resolve(e, pos, depth)
			}
			return
		case *ssa.Parameter:
			if depth < 2 {
				owner := x.Parent()
				idx := -1
				for i, q := range owner.Params {
					if q == x {
						idx = i
					}
				}
				found := false
				for _, fn := range p.Mod {
					for _, b := range fn.Blocks {
						for _, in := range b.Instrs {
							c := callOf(in)
							if c == nil || c.StaticCallee() != owner || idx < 0 {
								continue
							}
							args := c.Args
							if idx < len(args) {
								found = true
								resolve(args[idx], in.Pos(), depth+1)
							}
						}
					}
				}
				if found {
					return
				}
			}
		}
		out = append(out, storedFunc{nil, pos})
	}
	for _, fn := range p.Mod {
		for _, b := range fn.Blocks {
			for _, in := range b.Instrs {
				st, ok := in.(*ssa.Store)
				if !ok {
					continue
				}
				fa, isFA := st.Addr.(*ssa.FieldAddr)
				if !isFA || fieldOfAddr(fa) != f {
					continue
				}
				resolve(st.Val, st.Pos(), 0)
			}
		}
	}
	return out
}

func isStringSlice(t types.Type) bool {
	sl, ok := t.Underlying().(*types.Slice)
	if !ok {
		return false
	}
	b, ok := sl.Elem().Underlying().(*types.Basic)
	return ok && b.Kind() == types.String
}

// anyOf: the two node sets intersect.
func anyOf(a, b map[int]bool) bool {
	for n := range b {
		if a[n] {
			return true
		}
	}
	return false
}

// c18JoinReportsFailure: "a node that joined is eventually known to all" starts with the node noticing that it has NOT joined:
// the join attempt walks the seeds and returns the last error; its callers re-arm the retry timer only on a non-nil result.
// Every failure to ask a seed (reference creation, the Ask itself — time-outs included) must therefore be recorded in the
// value the attempt finally returns: from the err != nil edge of such a call, no path reaches the next iteration without
// assigning that error to the returned variable.
func c18JoinReportsFailure(p *Program, r *Report) {
	errT := types.Universe.Lookup("error").Type()
	n := 0
	for _, fn := range p.Mod {
		pk := fnPkg(fn)
		if pk == nil || !strings.HasSuffix(pk.Path(), "/internal/cluster") || fn.Parent() != nil || len(fn.Blocks) == 0 {
			continue
		}
		res := fn.Signature.Results()
		if res.Len() != 1 || !types.Identical(res.At(0).Type(), errT) {
			continue
		}
		asks := false
		for _, b := range fn.Blocks {
			for _, in := range b.Instrs {
				if c := callOf(in); c != nil && c.IsInvoke() && c.Method.Name() == "Ask" {
					asks = true
				}
			}
		}
		if !asks {
			continue
		}
		g := p.ig(fn)
		// the returned variable: the phis reachable from the operands of the returns, or — when the variable lives in a cell
		// (captured by a closure, or a named result with a defer) — that cell
		chain := map[ssa.Value]bool{}
		cells := map[ssa.Value]bool{}
		var collect func(v ssa.Value)
		collect = func(v ssa.Value) {
			if ph, ok := v.(*ssa.Phi); ok && !chain[v] {
				chain[v] = true
				for _, e := range ph.Edges {
					collect(e)
				}
			}
			if u, ok := v.(*ssa.UnOp); ok && u.Op == token.MUL {
				if al, isAl := u.X.(*ssa.Alloc); isAl {
					cells[al] = true
				}
			}
		}
		finals := map[int]bool{} // returns that hand out the variable
		for _, ex := range g.Exits {
			op := retOperand(g.Nodes[ex].(*ssa.Return), 0)
			before := len(chain) + len(cells)
			collect(op)
			if _, isPhi := op.(*ssa.Phi); isPhi || len(chain)+len(cells) != before {
				finals[ex] = true
			} else if u, ok := op.(*ssa.UnOp); ok && u.Op == token.MUL && cells[u.X] {
				finals[ex] = true
			}
		}
		if len(chain)+len(cells) == 0 || len(finals) == 0 {
			continue
		}
		// where a fresh value enters the variable, keyed by that value: edges into the phis, stores into the cell
		record := map[ssa.Value]map[edge]bool{}
		recordN := map[ssa.Value]map[int]bool{}
		for v := range chain {
			ph := v.(*ssa.Phi)
			blk := ph.Block()
			for k, e := range ph.Edges {
				if chain[e] || isNilConst(e) {
					continue
				}
				pred := blk.Preds[k]
				from := g.Idx[pred.Instrs[len(pred.Instrs)-1]]
				for _, to := range g.Succ[from] {
					if g.Nodes[to].Block() == blk {
						if record[e] == nil {
							record[e] = map[edge]bool{}
						}
						record[e][edge{from, to}] = true
					}
				}
			}
		}
		for i, in := range g.Nodes {
			if st, ok := in.(*ssa.Store); ok && cells[st.Addr] && !isNilConst(st.Val) {
				if recordN[st.Val] == nil {
					recordN[st.Val] = map[int]bool{}
				}
				recordN[st.Val][i] = true
			}
		}
		for _, ifi := range g.ifs() {
			for _, outcome := range []bool{true, false} {
				f, ok := condFact(ifi.Cond, outcome)
				if !ok || !f.IsNil || f.Op != token.NEQ {
					continue
				}
				ex, isEx := f.X.(*ssa.Extract)
				if !isEx || !types.Identical(ex.Type(), errT) {
					continue
				}
				if _, isCall := ex.Tuple.(*ssa.Call); !isCall {
					continue
				}
				n++
				e := g.branchEdge(ifi, outcome)
				lost := anyOf(g.Reach([]int{e.to}, recordN[ssa.Value(ex)], record[ssa.Value(ex)]), finals) && !recordN[ssa.Value(ex)][e.to]
				r.Check(!lost, "failure of "+shortCallee(&ex.Tuple.(*ssa.Call).Call)+" is recorded in "+fnName(fn), ifi.Cond.Pos(), "from the err != nil edge no path reaches the return of the attempt's result variable without assigning this error to it: an attempt in which no seed could be asked is never reported as a success")
			}
		}
	}
	if n == 0 {
		r.Unresolved("no join attempt (cluster routine returning an error that asks seeds in a loop)")
	}
}

// c17PruneLimit: inside the compaction the list of ids to keep is cut only by the caller's cap (or the package default): the bound of
// every re-slice of that list is a phi of the cap parameter and constants — never a quantity of the vector being compacted
// (its length): a member that has no component YET is still a member, and cutting the id list to the vector's size drops the
// component of whichever member sorts last.
func c17PruneLimit(p *Program, r *Report) {
	vv := p.Named("internal/cluster", "VersionVector")
	if vv == nil {
		return
	}
	for _, fn := range p.methodsOf(vv) {
		if len(fn.Blocks) == 0 || len(fn.Params) < 3 || !isStringSlice(fn.Params[1].Type()) {
			continue
		}
		bt, isB := fn.Params[2].Type().Underlying().(*types.Basic)
		if !isB || bt.Info()&types.IsInteger == 0 {
			continue
		}
		for _, b := range fn.Blocks {
			for _, in := range b.Instrs {
				sl, ok := in.(*ssa.Slice)
				if !ok || sl.High == nil || !isStringSlice(sl.X.Type()) {
					continue
				}
				bad := ""
				seen := map[ssa.Value]bool{}
				var walk func(v ssa.Value)
				walk = func(v ssa.Value) {
					if v == nil || seen[v] || bad != "" {
						return
					}
					seen[v] = true
					switch x := v.(type) {
					case *ssa.Const:
					case *ssa.Parameter:
						if x != fn.Params[2] {
							bad = "parameter " + x.Name()
						}
					case *ssa.Phi:
						for _, e := range x.Edges {
							walk(e)
						}
					case *ssa.Convert:
						walk(x.X)
					default:
						bad = fmt.Sprintf("%s", v.String())
					}
				}
				walk(sl.High)
				r.Check(bad == "", "compaction cuts the id list only by the configured cap ("+fn.Name()+")", sl.Pos(), map[bool]string{true: "the bound of the re-slice of the ids to keep is a phi of the cap parameter and constants", false: "the bound depends on " + bad + ": a quantity other than the caller's cap decides how many members keep their component"}[bad == ""])
			}
		}
	}
}
