package main

// C07 — Start/Stop state machine: lock discipline, no self-deadlock, one-way
// transitions, bounded waits, shutdown wiring, guard signal.

import (
	"fmt"
	"go/token"
	"go/types"
	"sort"
	"strings"

	"golang.org/x/tools/go/callgraph"
	"golang.org/x/tools/go/ssa"
)

func init() {
	register(&Property{
		ID: "C07",
		Explanation: "Decided: (R1) the system status is read and written only under its mutex; (R2) no call made while a mutex field is held reaches an acquisition of the same field along synchronous call paths " +
			"(not crossing a Mailbox.Enqueue dispatch) and the module's lock-order graph is acyclic; (R3) Start/Stop move the status only ready→started→stopped, the read that decides a transition and its store lie in one critical section (no lock operation between them), every other state returns the documented error and the caller returns it before any effect; " +
			"(R4) every blocking wait synchronously reachable from Stop sits in a select with a timer case; (R5) the stopping path poison-kills the root and cancels the system context, Start spawns one goroutine that waits for context cancellation and calls the stop routine; " +
			"(R6) the guard closes the stop signal only when it handles the OnKilled that names itself. (R7) the remote send closure aborts once the system context is cancelled, so a send in its retry loop does not hold up Stop. (R8) the work of Stop is serialised with the start-up: a lifecycle mutex is taken by Start in the same critical section of the status lock in which the status is set, held across the Run of the start-up chain and released on every path after it, and the stop routine kills the root and cancels the context only under that mutex — a Stop that passes its status check while Start is still running waits and then stops everything Start created. (R9) every mutex acquisition in the module is released on every path to the function's exit (explicitly, by a deferred release, or by the single caller a lock is handed to): no call can block forever on a leaked lock. (R10 = C04.R5) a dying actor's pending asks are completed before its OnKill handler runs; (R11 = C14.R12) the two halves of the handshake arm and clear their deadlines alike. NOT decided: that actors terminate within the timeout, goroutine quiescence after Stop at run time.",
		Assumptions: []string{"locks are identified by struct field (instance-insensitive)", "third-party code (go-quartz) does not block Stop: treated by summary"},
		Rules: []Rule{
			{ID: "C07.R1", Min: 4, Desc: "status only under statusLock", Fn: c07StatusLock},
			{ID: "C07.R2", Min: 20, Desc: "no lock re-acquisition while held; acyclic lock order", Fn: c07Deadlock},
			{ID: "C07.R3", Min: 8, Desc: "one-way transitions with documented errors", Fn: c07Transitions},
			{ID: "C07.R4", Min: 2, Desc: "bounded waits on the stop path", Fn: c07BoundedWaits},
			{ID: "C07.R5", Min: 5, Desc: "shutdown wiring: poison kill of root, cancel, guardian goroutine", Fn: c07Wiring},
			{ID: "C07.R7", Min: 1, Desc: "a remote send in its retry loop aborts once the system context is cancelled, so Stop is not held up by an unreachable peer (part of C14.R4)", Fn: c14StopAborts},
			{ID: "C07.R12", Min: 3, Desc: "Stop terminates every actor: a child spawned on the root while it stops is killed, whichever state the re-check finds (C06.R5)", Fn: c06SpawnWhileDying},
			{ID: "C07.R13", Min: 3, Desc: "Stop completes: a directive that its target ignores strands nobody in a paused mailbox (C09.R10)", Fn: c09IgnoredDirectives},
			{ID: "C07.R8", Min: 3, Desc: "the work of Stop is serialised with the start-up: one lock taken with the status flip in Start, held across the start-up chain, taken by stop before it looks at what Start creates", Fn: c07StartStopSerialised},
			{ID: "C07.R9", Min: 1, Desc: "every mutex acquisition is released on every path (no call can block forever on a leaked lock)", Fn: lockPairing},
			{ID: "C07.R10", Min: 4, Desc: "a dying actor's pending asks are completed before its OnKill handler runs, so a handler waiting on one cannot block the termination (C04.R5)", Fn: c04AskerDeath},
			{ID: "C07.R11", Min: 1, Desc: "the two halves of the handshake treat their deadlines alike, so no connection is left with a live reader and a dead writer that Stop has to wait for (C14.R12)", Fn: c14HandshakeDeadlines},
			{ID: "C07.R6", Min: 1, Desc: "guard signal closed only for the root's own OnKilled", Fn: c07GuardSignal},
		},
	})
}

type sysRoles struct {
	T          *types.Named
	Start      *ssa.Function
	Stop       *ssa.Function
	StopImpl   *ssa.Function // the routine Stop delegates to
	Status     *types.Var
	StatusLock *types.Var
	Signal     *types.Var // channel awaited by the stop routine
	problems   []string
}

func (p *Program) systemType() *types.Named {
	as := p.Iface("", "ActorSystem")
	if as == nil {
		return nil
	}
	for _, pk := range p.Pkgs {
		sc := pk.Types.Scope()
		for _, name := range sc.Names() {
			tn, ok := sc.Lookup(name).(*types.TypeName)
			if !ok || tn.IsAlias() {
				continue
			}
			n, ok := tn.Type().(*types.Named)
			if !ok {
				continue
			}
			if _, ok := n.Underlying().(*types.Struct); !ok {
				continue
			}
			if types.Implements(types.NewPointer(n), as) {
				return n
			}
		}
	}
	return nil
}

var sysRolesCache = map[*Program]*sysRoles{}

func (p *Program) systemRoles() *sysRoles {
	if r, ok := sysRolesCache[p]; ok {
		return r
	}
	r := &sysRoles{}
	sysRolesCache[p] = r
	bad := func(f string, a ...any) { r.problems = append(r.problems, fmt.Sprintf(f, a...)) }
	r.T = p.systemType()
	if r.T == nil {
		bad("no type implements vivid.ActorSystem")
		return r
	}
	r.Start, r.Stop = p.methodNamed(r.T, "Start"), p.methodNamed(r.T, "Stop")
	if r.Start == nil || r.Stop == nil {
		bad("Start/Stop not declared on %s", r.T.Obj().Name())
		return r
	}
	// stop routine: Stop itself if it contains the status store, else the System method it calls
	r.StopImpl = r.Stop
	storesStatus := func(fn *ssa.Function) map[*types.Var]bool {
		out := map[*types.Var]bool{}
		for _, f := range withAnon(fn) {
			for _, b := range f.Blocks {
				for _, in := range b.Instrs {
					if st, ok := in.(*ssa.Store); ok {
						if fld, _ := fieldAddr(st.Addr); fld != nil {
							if _, isC := constInt(st.Val); isC && fieldVar(r.T, fld.Name()) == fld {
								out[fld] = true
							}
						}
					}
					if a := atomicCall(in); a != nil && a.Field != nil && (a.Op == "Store" || a.Op == "CAS" || a.Op == "Swap") && fieldVar(r.T, a.Field.Name()) == a.Field {
						out[a.Field] = true
					}
				}
			}
		}
		return out
	}
	if len(storesStatus(r.Stop)) == 0 {
		for _, b := range r.Stop.Blocks {
			for _, in := range b.Instrs {
				if c := callOf(in); c != nil {
					if f := c.StaticCallee(); f != nil && f.Signature.Recv() != nil && namedOf(f.Signature.Recv().Type()) == r.T {
						r.StopImpl = f
					}
				}
			}
		}
	}
	a, b := storesStatus(r.Start), storesStatus(r.StopImpl)
	for f := range a {
		if b[f] {
			r.Status = f
		}
	}
	if r.Status == nil {
		bad("no status field stored by both Start and the stop routine")
		return r
	}
	// the lock held at the status stores
	for _, acc := range p.fieldAccesses(map[*types.Var]bool{r.Status: true}) {
		if acc.Write && !acc.Fresh {
			for l := range acc.Held {
				r.StatusLock = l
			}
		}
	}
	// the channel awaited by the stop routine in a select
	for _, in := range p.igx(r.StopImpl).Nodes { // the wait may be extracted into a helper of the stop routine
		if sel, ok := in.(*ssa.Select); ok {
			for _, st := range sel.States {
				if f, _ := fieldLoad(st.Chan); f != nil && fieldVar(r.T, f.Name()) == f {
					r.Signal = f
				}
			}
		}
	}
	return r
}

func c07Sys(p *Program, r *Report) *sysRoles {
	s := p.systemRoles()
	if len(s.problems) > 0 {
		for _, pr := range s.problems {
			r.Unresolved(pr)
		}
		return nil
	}
	return s
}

func c07StatusLock(p *Program, r *Report) {
	s := c07Sys(p, r)
	if s == nil {
		return
	}
	if s.StatusLock == nil {
		r.Violate(s.T.Obj().Name()+"."+s.Status.Name(), s.Status.Pos(), "the status field is written with no mutex held")
		return
	}
	lk := ownerStruct(p, s.StatusLock)
	p.checkFieldTable(r, relPkg(s.T.Obj().Pkg()), s.T.Obj().Name(), map[string]fieldClass{s.Status.Name(): {Class: "guarded", Lock: lk}}, nil)
	// keep only the status obligations meaningful: other fields are C10's subject
}

// lockSitesHeld: call sites executed while some mutex field is held (intraprocedural + held on entry).
func c07Deadlock(p *Program, r *Report) {
	p.computeHeldOnEntry()
	type ordEdge struct{ a, b *types.Var }
	order := map[ordEdge]string{}
	nsites := 0
	for _, fn := range p.Mod {
		hasLock := false
		for _, b := range fn.Blocks {
			for _, in := range b.Instrs {
				if _, f := lockOp(in); f != nil {
					hasLock = true
				}
			}
		}
		if !hasLock && len(p.heldEntry[fn]) == 0 {
			continue
		}
		li := p.held(fn)
		g := p.ig(fn)
		for i, in := range g.Nodes {
			held := li.at(i)
			if len(held) == 0 {
				continue
			}
			// direct acquisition while held
			if op, f := lockOp(in); f != nil && (op == "Lock" || op == "RLock") {
				if _, isDefer := in.(*ssa.Defer); !isDefer {
					for h, mode := range held {
						if h == f && (mode == 2 || op == "Lock") {
							r.Violate(fmt.Sprintf("%s re-acquired in %s", f.Name(), fnName(fn)), in.Pos(), "the mutex is already held on every path reaching this Lock: self-deadlock (sync mutexes are not re-entrant)")
						} else if h != f {
							order[ordEdge{h, f}] = fmt.Sprintf("%s @ %s", fnName(fn), p.pos(in.Pos()))
						}
					}
				}
				continue
			}
			c := callOf(in)
			if c == nil {
				continue
			}
			if _, isGo := in.(*ssa.Go); isGo {
				continue
			}
			if _, isDefer := in.(*ssa.Defer); isDefer {
				continue
			}
			node := p.CG.Nodes[fn]
			if node == nil {
				continue
			}
			var callees []*ssa.Function
			for _, e := range node.Out {
				if e.Site == in && !p.isMailboxEnqueueDispatch(e) {
					callees = append(callees, e.Callee.Func)
				}
			}
			if len(callees) == 0 {
				continue
			}
			nsites++
			// Exemption (one, with reason): while a *mailbox's* own mutex is held, the traversal does not enter the remoting
			// mailbox factory. Sends issued under a remoting mailbox's lock (handshake Ask to the local remoting server,
			// events to local subscribers) target local refs, so the lookup's remote branch — the only way to the factory's
			// lock — is not taken; instance- and value-insensitive lock identity cannot see that.
			holdsMailboxLock := false
			for h := range held {
				if p.isMailboxLock(h) {
					holdsMailboxLock = true
				}
			}
			steps := p.closure(callees, cgOpts{ModuleOnly: true, MaxDepth: 2 * p.InlineBound, SkipEdge: func(e *callgraph.Edge) bool {
				return p.isMailboxEnqueueDispatch(e) || (holdsMailboxLock && p.isRemoteMailboxFactory(e.Callee.Func))
			}})
			var fns []*ssa.Function
			for f := range steps {
				fns = append(fns, f)
			}
			sort.Slice(fns, func(i, j int) bool { return fns[i].String() < fns[j].String() })
			ok := true
			why := ""
			for _, f := range fns {
				for _, b := range f.Blocks {
					for _, in2 := range b.Instrs {
						if _, isDefer := in2.(*ssa.Defer); isDefer {
							continue
						}
						op, lf := lockOp(in2)
						if lf == nil || (op != "Lock" && op != "RLock") {
							continue
						}
						for h, mode := range held {
							if h == lf && (mode == 2 || op == "Lock") {
								ok = false
								why = fmt.Sprintf("holds %s and calls %s which locks it again at %s", h.Name(), p.pathTo(steps, f), p.pos(in2.Pos()))
							} else if h != lf {
								order[ordEdge{h, lf}] = fmt.Sprintf("%s → %s", fnName(fn), p.pathTo(steps, f))
							}
						}
					}
				}
			}
			construct := fmt.Sprintf("call %s in %s holding %s", shortCallee(c), fnName(fn), held.names())
			if ok {
				r.add(construct, in.Pos(), "discharged", "no synchronous call path from this call re-acquires a mutex field that is held here", true)
			} else {
				r.add(construct, in.Pos(), "violated", why+": self-deadlock", true)
			}
		}
	}
	// lock-order graph acyclic
	adj := map[*types.Var][]*types.Var{}
	for e := range order {
		adj[e.a] = append(adj[e.a], e.b)
	}
	var cyc []string
	state := map[*types.Var]int{}
	var stack []*types.Var
	var dfs func(v *types.Var)
	dfs = func(v *types.Var) {
		state[v] = 1
		stack = append(stack, v)
		for _, w := range adj[v] {
			if state[w] == 1 {
				var names []string
				for _, s := range stack {
					names = append(names, p.lockLabel(s))
				}
				cyc = append(cyc, strings.Join(names, "→")+"→"+p.lockLabel(w))
			} else if state[w] == 0 {
				dfs(w)
			}
		}
		stack = stack[:len(stack)-1]
		state[v] = 2
	}
	var roots []*types.Var
	for v := range adj {
		roots = append(roots, v)
	}
	sort.Slice(roots, func(i, j int) bool { return roots[i].Name() < roots[j].Name() })
	for _, v := range roots {
		if state[v] == 0 {
			dfs(v)
		}
	}
	var es []string
	for e, w := range order {
		_ = w
		es = append(es, p.lockLabel(e.a)+"<"+p.lockLabel(e.b))
	}
	sort.Strings(es)
	r.Check(len(cyc) == 0, "lock-order graph", token.NoPos, fmt.Sprintf("the module's lock-order graph (%d edges: %s) has no cycle %v", len(order), strings.Join(es, "; "), cyc))
	if nsites == 0 {
		r.Unresolved("no call site under a held mutex was found (the LOCK analysis lost its subject)")
	}
}

func shortCallee(c *ssa.CallCommon) string {
	q := calleeQual(c)
	if q == "" {
		return "<func value>"
	}
	q = strings.ReplaceAll(q, modPath+"/", "")
	return strings.ReplaceAll(q, modPath, "vivid")
}

// statusFactsContradict: the edge carries a fact about a load of `status` that is false when status==c.
func contradicts(f cmpFact, c int64) bool {
	if f.IsNil || f.Y != nil || f.Bool {
		return false
	}
	switch f.Op {
	case token.EQL:
		return c != f.C
	case token.NEQ:
		return c == f.C
	case token.LSS:
		return !(c < f.C)
	case token.LEQ:
		return !(c <= f.C)
	case token.GTR:
		return !(c > f.C)
	case token.GEQ:
		return !(c >= f.C)
	}
	return false
}

func c07Transitions(p *Program, r *Report) {
	s := c07Sys(p, r)
	if s == nil {
		return
	}
	errName := func(v ssa.Value) string {
		v = strip(v)
		if u, ok := v.(*ssa.UnOp); ok && u.Op == token.MUL {
			if g, ok := u.X.(*ssa.Global); ok {
				return g.Name()
			}
		}
		if isNilConst(v) {
			return "nil"
		}
		return "?"
	}
	type api struct {
		name string
		fn   *ssa.Function
		from int64
		to   int64
		errs map[int64]string
	}
	apis := []api{
		{"Start", s.Start, 0, 1, map[int64]string{1: "ErrorActorSystemAlreadyStarted", 2: "ErrorActorSystemAlreadyStopped"}},
		{"Stop", s.StopImpl, 1, 2, map[int64]string{0: "ErrorActorSystemNotStarted", 2: "ErrorActorSystemAlreadyStopped"}},
	}
	for _, a := range apis {
		found := false
		for _, fn := range withAnon(a.fn) {
			g := p.ig(fn)
			var stores []int
			storeVal := map[int]ssa.Value{}
			for i, in := range g.Nodes {
				if st, ok := in.(*ssa.Store); ok {
					if f, _ := fieldAddr(st.Addr); f == s.Status {
						stores = append(stores, i)
						storeVal[i] = st.Val
					}
				}
				if ac := atomicCall(in); ac != nil && ac.Field == s.Status && ac.Op == "Store" && len(ac.Args) > 0 {
					stores = append(stores, i)
					storeVal[i] = ac.Args[len(ac.Args)-1]
				}
			}
			if len(stores) == 0 {
				continue
			}
			found = true
			facts := p.edgeFacts(g)
			avoidFor := func(c int64) map[edge]bool {
				m := map[edge]bool{}
				for _, ef := range facts {
					if ef.Field == s.Status && contradicts(ef.Fact, c) {
						m[ef.E] = true
					}
				}
				return m
			}
			for _, si := range stores {
				st := g.Nodes[si]
				v, _ := constInt(storeVal[si])
				var possible []int64
				for c := int64(0); c <= 2; c++ {
					if g.Reach(g.entry(), nil, avoidFor(c))[si] {
						possible = append(possible, c)
					}
				}
				ok := v == a.to && len(possible) == 1 && possible[0] == a.from
				// ... and the read deciding it belongs to the same critical section: no lock operation between that read and the store
				for _, ef := range facts {
					if ef.Field != s.Status || ef.Load == nil {
						continue
					}
					li, has := g.Idx[ef.Load]
					if !has {
						continue
					}
					after := g.ReachAfter(li, nil, nil)
					if !after[si] {
						continue
					}
					for w, win := range g.Nodes {
						if _, isCall := win.(*ssa.Call); !isCall || !after[w] {
							continue
						}
						switch calleeQual(callOf(win)) {
						case "(sync.Mutex).Lock", "(sync.Mutex).Unlock", "(sync.RWMutex).Lock", "(sync.RWMutex).Unlock", "(sync.RWMutex).RLock", "(sync.RWMutex).RUnlock":
							if g.ReachAfter(w, nil, nil)[si] {
								ok = false
							}
						}
					}
				}
				r.Check(ok, fmt.Sprintf("%s: status←%d", a.name, v), st.Pos(), fmt.Sprintf("the store is reachable only when the status read in the same critical section is %d (reachable for %v): one-way transition", a.from, possible))
			}
			// all other states return the documented error
			for c, want := range a.errs {
				reach := g.Reach(g.entry(), nil, avoidFor(c))
				good, n := true, 0
				got := ""
				for _, ex := range g.Exits {
					if !reach[ex] {
						continue
					}
					ret := g.Nodes[ex].(*ssa.Return)
					n++
					if len(ret.Results) == 0 {
						good = false
						continue
					}
					got = errName(retOperand(ret, len(ret.Results)-1))
					if got != want {
						good = false
					}
				}
				for _, si := range stores {
					if reach[si] {
						good = false
					}
				}
				r.Check(good && n > 0, fmt.Sprintf("%s in state %d returns %s", a.name, c, want), fn.Pos(), fmt.Sprintf("every return reachable with status==%d yields vivid.%s (got %s) and performs no transition", c, want, got))
			}
			// the enclosing function returns the error before any effect
			if fn.Parent() != nil {
				par := fn.Parent()
				pg := p.ig(par)
				var res ssa.Value
				for _, in := range pg.Nodes {
					if c, ok := in.(*ssa.Call); ok {
						if mc, ok := c.Call.Value.(*ssa.MakeClosure); ok && mc.Fn == fn {
							res = c
						}
						if c.Call.StaticCallee() == fn {
							res = c
						}
					}
				}
				if res == nil {
					r.Unresolved(a.name + ": call of the status closure")
					continue
				}
				okE, errE := map[edge]bool{}, map[edge]bool{}
				for _, ifi := range ifsOf(par) {
					for _, outcome := range []bool{true, false} {
						f, ok := condFact(ifi.Cond, outcome)
						if ok && f.IsNil && f.X == res {
							if f.Op == token.EQL {
								okE[pg.branchEdge(ifi, outcome)] = true
							} else {
								errE[pg.branchEdge(ifi, outcome)] = true
							}
						}
					}
				}
				good := len(okE) > 0 && len(errE) > 0
				// on the error edge: straight to a return of that error, no other call
				for e := range errE {
					for n := range pg.Reach([]int{e.to}, nil, nil) {
						switch x := pg.Nodes[n].(type) {
						case *ssa.Return:
							if len(x.Results) == 0 || strip(retOperand(x, len(x.Results)-1)) != res {
								good = false
							}
						case *ssa.Call, *ssa.Go, *ssa.Defer:
							good = false
						}
					}
				}
				// every effectful instruction after the closure call is on the ok edge
				ri := pg.Idx[res.(ssa.Instruction)]
				for n := range pg.ReachAfter(ri, nil, okE) {
					switch pg.Nodes[n].(type) {
					case *ssa.Call, *ssa.Go:
						good = false
					}
				}
				r.Check(good, a.name+": rejected call returns before any effect", res.Pos(), "the error edge of the status check leads only to `return err`; every call/go after the check is dominated by the err==nil edge")
			}
		}
		if !found {
			r.Unresolved(a.name + ": no status store")
		}
	}
	// no other writer of status
	for _, acc := range p.fieldAccesses(map[*types.Var]bool{s.Status: true}) {
		if !acc.Write || acc.Fresh {
			continue
		}
		root := acc.Fn
		for root.Parent() != nil {
			root = root.Parent()
		}
		r.Check(root == s.Start || root == s.StopImpl, "writer of status: "+fnName(acc.Fn), acc.In.Pos(), "status is written only by Start and the stop routine")
	}
}

func c07BoundedWaits(p *Program, r *Report) {
	s := c07Sys(p, r)
	if s == nil {
		return
	}
	tell := p.tellFunc()
	steps := p.closure([]*ssa.Function{s.StopImpl}, cgOpts{ModuleOnly: true, MaxDepth: 3 * p.InlineBound,
		SkipEdge: func(e *callgraph.Edge) bool { return p.isMailboxEnqueueDispatch(e) },
		SkipFunc: func(fn *ssa.Function) bool {
			if fn == tell {
				return true // sending is C14.R1's obligation
			}
			pk := fnPkg(fn)
			return pk != nil && strings.HasSuffix(pk.Path(), "/pkg/log") // logging sinks are outside the properties
		}})
	var fns []*ssa.Function
	for f := range steps {
		fns = append(fns, f)
	}
	sort.Slice(fns, func(i, j int) bool { return fns[i].Pos() < fns[j].Pos() })
	n := 0
	for _, fn := range fns {
		for _, b := range fn.Blocks {
			for _, in := range b.Instrs {
				switch x := in.(type) {
				case *ssa.Select:
					if x.Blocking {
						n++
						r.Check(selectHasTimer(x), "select in "+fnName(fn), in.Pos(), "blocking select reachable from Stop ("+p.pathTo(steps, fn)+") has a timer case")
					}
				case *ssa.UnOp:
					if x.Op == token.ARROW {
						n++
						r.Violate("bare receive in "+fnName(fn), in.Pos(), "unbounded channel receive synchronously reachable from Stop via "+p.pathTo(steps, fn))
					}
				case *ssa.Call:
					q := calleeQual(&x.Call)
					if q == "(sync.WaitGroup).Wait" || q == "time.Sleep" {
						n++
						r.Violate(q+" in "+fnName(fn), in.Pos(), "blocking primitive synchronously reachable from Stop via "+p.pathTo(steps, fn))
					}
				}
			}
		}
	}
	r.Note("functions synchronously reachable from the stop routine: %d", len(steps))
	if n == 0 {
		r.Unresolved("no wait found on the stop path")
	}
}

func c07Wiring(p *Program, r *Report) {
	s := c07Sys(p, r)
	if s == nil {
		return
	}
	ctx := p.contextType()
	g := p.igx(s.StopImpl) // helpers called once from the stop routine (an extracted wait) stay part of its paths
	// Kill(root, poison=true)
	kills := nodesWhere(g, func(in ssa.Instruction) bool {
		c := callOf(in)
		if c == nil {
			return false
		}
		f := c.StaticCallee()
		return f != nil && f.Name() == "Kill" && f.Signature.Recv() != nil && namedOf(f.Signature.Recv().Type()) == ctx
	})
	okKill := len(kills) > 0
	for k := range kills {
		c := callOf(g.Nodes[k])
		if len(c.Args) < 3 {
			okKill = false
			continue
		}
		if b, ok := constBool(c.Args[2]); !ok || !b {
			okKill = false
		}
	}
	r.Check(okKill, "Stop poison-kills the root", firstPos(g, kills), "the stop routine calls Kill(root ref, poison=true): queued user messages are processed before the tree is torn down")
	// cancel(): dynamic call of a context.CancelFunc field
	cancels := nodesWhere(g, func(in ssa.Instruction) bool {
		c, ok := in.(*ssa.Call)
		if !ok || c.Call.IsInvoke() || c.Call.StaticCallee() != nil {
			return false
		}
		f, _ := fieldLoad(c.Call.Value)
		return f != nil && typeIs(f.Type(), "context", "CancelFunc")
	})
	sel := nodesWhere(g, func(in ssa.Instruction) bool { x, ok := in.(*ssa.Select); return ok && x.Blocking })
	okCancel := len(cancels) > 0 && len(sel) > 0
	// every path reaching the blocking wait passed Kill and cancel
	for w := range sel {
		if !g.DominatedByNodes(w, kills) || !g.DominatedByNodes(w, cancels) {
			okCancel = false
		}
	}
	r.Check(okCancel, "Stop cancels the system context before waiting", firstPos(g, cancels), "the wait for the guard signal is dominated by Kill(root) and by cancel() (which releases the guardian goroutine and remoting)")
	// the wait is on the signal channel and the success path is reached only through that case or the timeout returns an error
	r.Check(s.Signal != nil, "Stop waits for the guard signal", firstPos(g, sel), "the blocking select of the stop routine receives from a channel field of the system")
	// after the tree is gone the system's own background machinery is stopped (the job scheduler's goroutine)
	schedStop := nodesWhere(g, func(in ssa.Instruction) bool {
		c := callOf(in)
		if c == nil || c.StaticCallee() == nil || c.StaticCallee().Name() != "Stop" || c.StaticCallee().Signature.Recv() == nil {
			return false
		}
		n := namedOf(c.StaticCallee().Signature.Recv().Type())
		return n != nil && n.Obj().Name() == "Scheduler" && n != s.T
	})
	okSched := len(schedStop) > 0
	// a nil guard around the call (`if s.scheduler != nil { s.scheduler.Stop() }`): nothing to stop on the nil edge
	nilSched := map[edge]bool{}
	for n := range schedStop {
		if rc := callRecv(callOf(g.Nodes[n])); rc != nil {
			if f, _ := fieldLoad(rc); f != nil {
				for _, ef := range p.edgeFacts(g) {
					if ef.Field == f && ef.Fact.IsNil && ef.Fact.Op == token.EQL {
						nilSched[ef.E] = true
					}
				}
			}
		}
	}
	notStopped := g.Reach(g.entry(), schedStop, nilSched)
	for _, ex := range g.Exits {
		ret := g.Nodes[ex].(*ssa.Return)
		if v := retOperand(ret, 0); v != nil && isNilConst(strip(v)) && notStopped[ex] {
			okSched = false
		}
	}
	r.Check(okSched, "Stop shuts the job scheduler down", firstPos(g, schedStop), "every successful return of the stop routine is dominated by the scheduler's Stop(): no scheduler goroutine keeps running after Stop")
	// Start: exactly one go statement, whose function waits on Context.Done() and then calls the stop routine
	var gos []*ssa.Go
	for _, fn := range withAnon(s.Start) {
		for _, b := range fn.Blocks {
			for _, in := range b.Instrs {
				if gi, ok := in.(*ssa.Go); ok {
					gos = append(gos, gi)
				}
			}
		}
	}
	ok := len(gos) == 1
	if ok {
		var gfn *ssa.Function
		if mc, isMC := gos[0].Call.Value.(*ssa.MakeClosure); isMC {
			gfn, _ = mc.Fn.(*ssa.Function)
		} else {
			gfn = gos[0].Call.StaticCallee()
		}
		if gfn == nil {
			ok = false
		} else {
			gg := p.ig(gfn)
			recv := nodesWhere(gg, func(in ssa.Instruction) bool {
				u, isU := in.(*ssa.UnOp)
				if !isU || u.Op != token.ARROW {
					return false
				}
				c, isC := u.X.(*ssa.Call)
				return isC && c.Call.IsInvoke() && c.Call.Method.Name() == "Done"
			})
			stops := nodesWhere(gg, func(in ssa.Instruction) bool {
				c := callOf(in)
				return c != nil && (c.StaticCallee() == s.StopImpl || c.StaticCallee() == s.Stop)
			})
			ok = len(recv) > 0 && len(stops) > 0
			for st := range stops {
				if !gg.DominatedByNodes(st, recv) {
					ok = false
				}
			}
			// after the receive every path to the exit calls the stop routine
			for rc := range recv {
				if anyIn(gg.ReachAfter(rc, stops, nil), gg.Exits) {
					ok = false
				}
			}
			// the goroutine holds no lock when calling stop (C07.R2 would flag the deadlock; here: shape)
		}
	}
	pos := s.Start.Pos()
	if len(gos) > 0 {
		pos = gos[0].Pos()
	}
	r.Check(ok, "Start spawns the guardian goroutine", pos, "Start contains exactly one go statement; its function blocks on Context.Done() and then, on every path, calls the stop routine")
	// ... and only once the start chain has completed successfully: the stop routine reads what the chain writes (root
	// context, cancel function); a guardian that can run stop() while the chain is still building the tree marks the system
	// stopped, finds no root to kill, and the chain then brings up actors nobody will ever stop.
	if len(gos) == 1 && gos[0].Parent() == s.Start {
		sg := p.ig(s.Start)
		runs := nodesWhere(sg, func(in ssa.Instruction) bool {
			c := callOf(in)
			return c != nil && c.StaticCallee() != nil && c.StaticCallee().Name() == "Run" && strings.HasSuffix(fnPkg(c.StaticCallee()).Path(), "/chain")
		})
		okE := map[edge]bool{}
		for rn := range runs {
			rv, _ := sg.Nodes[rn].(ssa.Value)
			for _, ifi := range sg.ifs() {
				for _, outcome := range []bool{true, false} {
					f, okf := condFact(ifi.Cond, outcome)
					if okf && f.IsNil && f.Op == token.EQL && strip(f.X) == rv {
						okE[sg.branchEdge(ifi, outcome)] = true
					}
				}
			}
		}
		gn := sg.Idx[gos[0]]
		r.Check(len(runs) > 0 && len(okE) > 0 && sg.DominatedByEdges(gn, okE), "guardian armed only after a successful start", gos[0].Pos(),
			"the go statement is dominated by the err==nil edge of the start chain's Run(): stop() never runs concurrently with, or ahead of, the construction of the actor tree")
	} else if len(gos) == 1 {
		r.Undecided("guardian armed only after a successful start", gos[0].Pos(), "the guardian's go statement is not in Start's own body")
	}
}

func c07GuardSignal(p *Program, r *Report) {
	s := c07Sys(p, r)
	if s == nil {
		return
	}
	if s.Signal == nil {
		r.Unresolved("stop signal channel")
		return
	}
	// follow the signal: loads of the system field passed to a call whose parameter is stored into a field G
	sinks := map[*types.Var]bool{s.Signal: true}
	for _, fn := range p.Mod {
		for _, b := range fn.Blocks {
			for _, in := range b.Instrs {
				c := callOf(in)
				if c == nil {
					continue
				}
				cal := c.StaticCallee()
				if cal == nil || !p.inModule(cal) {
					continue
				}
				for ai, a := range c.Args {
					if f, _ := fieldLoad(a); f == s.Signal && ai < len(cal.Params) {
						par := cal.Params[ai]
						for _, ref := range *par.Referrers() {
							if st, ok := ref.(*ssa.Store); ok && st.Val == par {
								if g, _ := fieldAddr(st.Addr); g != nil {
									sinks[g] = true
								}
							}
						}
					}
				}
			}
		}
	}
	onKilled := p.Named("", "OnKilled")
	n := 0
	for _, fn := range p.Mod {
		g := p.ig(fn)
		for i, in := range g.Nodes {
			c, ok := in.(*ssa.Call)
			if !ok {
				continue
			}
			b, ok := c.Call.Value.(*ssa.Builtin)
			if !ok || b.Name() != "close" {
				continue
			}
			f, _ := fieldLoad(c.Call.Args[0])
			if !sinks[f] {
				continue
			}
			n++
			// dominated by the true edge of <OnKilled>.Ref.Equals(ctx.Ref())
			selfE := map[edge]bool{}
			for _, ifi := range ifsOf(fn) {
				fc, ok := condFact(ifi.Cond, true)
				if !ok || !fc.Bool {
					continue
				}
				call, ok := fc.X.(*ssa.Call)
				if !ok || !call.Call.IsInvoke() || call.Call.Method.Name() != "Equals" {
					continue
				}
				rf, base := fieldLoad(call.Call.Value)
				if rf == nil || rf.Name() != "Ref" || onKilled == nil || namedOf(base.Type()) != onKilled {
					continue
				}
				arg, ok := strip(call.Call.Args[0]).(*ssa.Call)
				if !ok || !arg.Call.IsInvoke() || arg.Call.Method.Name() != "Ref" {
					continue
				}
				selfE[g.branchEdge(ifi, fc.Op == token.NEQ)] = true
			}
			r.Check(len(selfE) > 0 && g.DominatedByEdges(i, selfE), "close(stop signal) in "+fnName(fn), in.Pos(),
				"the stop signal is closed only on the edge where the handled OnKilled's Ref equals the guard's own ref (the root has terminated)")
		}
	}
	// the signal is announced by close (every present and future receiver is released, nobody blocks), never by a send:
	// a send blocks its sender forever once Stop has given up waiting (timeout), leaking the root's mailbox goroutine
	sends := 0
	for _, fn := range p.Mod {
		for _, b := range fn.Blocks {
			for _, in := range b.Instrs {
				if sd, ok := in.(*ssa.Send); ok {
					if f, _ := fieldLoad(sd.Chan); sinks[f] {
						sends++
						r.Violate("send on the stop signal in "+fnName(fn), sd.Pos(), "the stop signal is sent instead of closed: the sender blocks forever when no Stop call is waiting any more (Stop timed out), and a second waiter is never released")
					}
				}
			}
		}
	}
	if n == 0 && sends == 0 {
		r.Unresolved("no close of the stop signal found")
	}
}

func (p *Program) lockLabel(v *types.Var) string {
	if s := ownerStruct(p, v); s != "" {
		if i := strings.Index(s, ":"); i >= 0 {
			return s[i+1:]
		}
		return s
	}
	if v.Pkg() != nil {
		return v.Pkg().Name() + "." + v.Name()
	}
	return v.Name()
}

// isMailboxLock: the mutex is a field of a type implementing vivid.Mailbox.
func (p *Program) isMailboxLock(l *types.Var) bool {
	mb := p.Iface("", "Mailbox")
	if mb == nil {
		return false
	}
	for _, pk := range p.Pkgs {
		sc := pk.Types.Scope()
		for _, nme := range sc.Names() {
			tn, ok := sc.Lookup(nme).(*types.TypeName)
			if !ok {
				continue
			}
			st, ok := tn.Type().Underlying().(*types.Struct)
			if !ok || !implementsIface(tn.Type(), mb) {
				continue
			}
			for i := 0; i < st.NumFields(); i++ {
				if st.Field(i) == l {
					return true
				}
			}
		}
	}
	return false
}

func (p *Program) isEventStreamPublish(fn *ssa.Function) bool {
	if fn == nil || fn.Name() != "Publish" || fn.Signature.Recv() == nil {
		return false
	}
	es := p.Iface("", "EventStream")
	return es != nil && implementsIface(fn.Signature.Recv().Type(), es)
}

// isRemoteMailboxFactory: a method returning an implementation of vivid.Mailbox from a keyed table (MailboxCentral.GetOrCreate).
func (p *Program) isRemoteMailboxFactory(fn *ssa.Function) bool {
	if fn == nil || fn.Signature.Recv() == nil || fn.Parent() != nil {
		return false
	}
	res := fn.Signature.Results()
	if res.Len() != 1 {
		return false
	}
	mb := p.Iface("", "Mailbox")
	if mb == nil || !implementsIface(res.At(0).Type(), mb) {
		return false
	}
	_, isPtr := res.At(0).Type().(*types.Pointer)
	return isPtr && fn.Signature.Params().Len() >= 1 && namedOf(fn.Signature.Recv().Type()) != namedOf(res.At(0).Type())
}

// c07StartStopSerialised: Start flips the status before it has created the root actor, so a concurrent Stop passes its status
// check while the start-up chain is still running. Unless the *work* of the two is serialised, Stop finds nothing to stop,
// returns success, and Start goes on creating actors (F35). Decided structurally: there is a mutex L of the system (not the
// status lock) such that (1) in Start, L.Lock() lies in the critical section of the status lock in which the status is set —
// no window between the flip and the acquisition; (2) the start-up chain runs with L held: its Run is dominated by that Lock
// and no L.Unlock() lies on a path between them, and every path from Run to a return releases L; (3) in the stop routine the
// kill of the root, the cancellation and the read of the root context are all dominated by L.Lock().
func c07StartStopSerialised(p *Program, r *Report) {
	s := c07Sys(p, r)
	if s == nil {
		return
	}
	isMutexOp := func(in ssa.Instruction, name string) *types.Var {
		c := callOf(in)
		if c == nil || c.StaticCallee() == nil {
			return nil
		}
		q := calleeQual(c)
		if q != "(sync.Mutex)."+name && q != "(sync.RWMutex)."+name {
			return nil
		}
		f, _ := fieldAddr(c.Args[0])
		return f
	}
	sg := p.igxSkip(s.Start, map[*ssa.Function]bool{s.Stop: true, s.StopImpl: true}) // Start's own failure path calls Stop: not part of the start-up
	tg := p.igx(s.StopImpl)
	// candidate locks: mutex fields of the system locked in both routines, other than the status lock
	cands := map[*types.Var]bool{}
	for _, in := range sg.Nodes {
		if f := isMutexOp(in, "Lock"); f != nil && f != s.StatusLock {
			for _, in2 := range tg.Nodes {
				if isMutexOp(in2, "Lock") == f {
					cands[f] = true
				}
			}
		}
	}
	if len(cands) == 0 {
		r.Check(false, "Start and the stop routine share a lifecycle lock", s.Start.Pos(), "no mutex other than the status lock is taken by both Start and the stop routine: a Stop that passes its status check while the start-up chain is still running finds no root actor, stops nothing and reports success")
		r.Check(false, "start-up chain runs under the lifecycle lock", s.Start.Pos(), "no lifecycle lock")
		r.Check(false, "stop routine works under the lifecycle lock", s.StopImpl.Pos(), "no lifecycle lock")
		return
	}
	var L *types.Var
	for f := range cands {
		if L == nil || f.Name() < L.Name() {
			L = f
		}
	}
	nodes := func(g *IG, name string, f *types.Var) map[int]bool {
		return nodesWhere(g, func(in ssa.Instruction) bool { return isMutexOp(in, name) == f })
	}
	// (1) acquisition inside the status critical section, together with the flip
	lockS := nodes(sg, "Lock", L)
	statusLk := nodes(sg, "Lock", s.StatusLock)
	statusUn := nodes(sg, "Unlock", s.StatusLock)
	flips := nodesWhere(sg, func(in ssa.Instruction) bool {
		if a := atomicCall(in); a != nil && a.Field == s.Status && (a.Op == "Store" || a.Op == "CAS" || a.Op == "Swap") {
			return true
		}
		st, ok := in.(*ssa.Store)
		if !ok {
			return false
		}
		f, _ := fieldAddr(st.Addr)
		return f == s.Status
	})
	ok1 := len(lockS) > 0 && len(flips) > 0
	for l := range lockS {
		if !sg.DominatedByNodes(l, statusLk) {
			ok1 = false
		}
		// no explicit release of the status lock between the flip and the acquisition (a deferred release runs at return)
		for f := range flips {
			for u := range statusUn {
				if _, isDefer := sg.Nodes[u].(*ssa.Defer); isDefer {
					// released when the function that deferred it returns: the acquisition must happen inside that function
					if sg.Nodes[l].Parent() != sg.Nodes[u].Parent() || sg.Nodes[f].Parent() != sg.Nodes[u].Parent() {
						ok1 = false
					}
					continue
				}
				if sg.ReachAfter(f, nil, nil)[u] && sg.ReachAfter(u, nil, nil)[l] {
					ok1 = false
				}
			}
		}
		flipBefore := false
		for f := range flips {
			if sg.DominatedByNodes(l, setOf(f)) || sg.DominatedByNodes(f, setOf(l)) {
				flipBefore = true
			}
		}
		if !flipBefore {
			ok1 = false
		}
	}
	r.Check(ok1, "Start takes the lifecycle lock together with the status flip", firstPos(sg, lockS), "Lock("+L.Name()+") lies in the same critical section of the status lock as the store of the started status: a Stop that passes its status check afterwards cannot get ahead of the start-up")
	// (2) the chain runs with L held and L is released on every path afterwards
	runs := map[int]bool{}
	for _, cr := range p.chainRuns(s.Start) {
		if i, in := sg.Idx[cr.Run]; in {
			runs[i] = true
		}
	}
	unlockS := nodes(sg, "Unlock", L)
	ok2 := len(runs) > 0 && len(lockS) > 0
	for rn := range runs {
		if !sg.DominatedByNodes(rn, lockS) {
			ok2 = false
		}
		for l := range lockS {
			for u := range unlockS {
				if sg.ReachAfter(l, nil, nil)[u] && sg.ReachAfter(u, nil, nil)[rn] {
					ok2 = false
				}
			}
		}
		if anyIn(sg.ReachAfter(rn, unlockS, nil), sg.Exits) {
			ok2 = false
		}
	}
	r.Check(ok2, "start-up chain runs under the lifecycle lock", firstPos(sg, runs), "the Run of the start-up chain is dominated by Lock("+L.Name()+") with no release in between, and every path from it to a return releases the lock")
	// (3) the stop routine's work
	lockT := nodes(tg, "Lock", L)
	lc := p.lifecycle()
	work := nodesWhere(tg, func(in ssa.Instruction) bool {
		c := callOf(in)
		if c == nil {
			return false
		}
		if y := c.StaticCallee(); y != nil && y.Name() == "Kill" && lc != nil && y.Signature.Recv() != nil && namedOf(y.Signature.Recv().Type()) == lc.Ctx {
			return true
		}
		if y := c.StaticCallee(); y == nil && !c.IsInvoke() {
			if f, _ := fieldLoad(strip(c.Value)); f != nil && strings.Contains(typeName(f.Type()), "CancelFunc") {
				return true
			}
		}
		return false
	})
	ok3 := len(lockT) > 0 && len(work) > 0
	for w := range work {
		if !tg.DominatedByNodes(w, lockT) {
			ok3 = false
		}
	}
	r.Check(ok3, "stop routine works under the lifecycle lock", firstPos(tg, work), "the kill of the root actor and the cancellation of the system context are dominated by Lock("+L.Name()+"): they wait for a start-up in progress and then see everything it created")
}
