package main

// C13 — codec totality: cursor discipline, bounded allocation (TAINT), panic
// sites (PANIC), decode into temporaries, progress in recursion.

import (
	"fmt"
	"go/ast"
	"go/constant"
	"go/token"
	"go/types"
	"sort"
	"strings"

	"golang.org/x/tools/go/callgraph"
	"golang.org/x/tools/go/ssa"
)

func init() {
	register(&Property{
		ID: "C13",
		Explanation: "Decided: (R1) the reader's cursor only advances by a count that passed the bounds check or by the positive byte count of a varint, and the buffer is indexed/sliced only at the cursor under a check of the same count (fixed-width reads: check(k>=width)) with no cursor movement between that check and the access; " +
			"(R2) every allocation whose size derives from a wire integer (make, map size hint, reflect.MakeSlice, helper constructors) is dominated by a comparison with a constant cap, the remaining length, or the bounds check; the three documented caps (map entries, version-vector entries, frame length) are constant caps; " +
			"(R3) panic sites of the closed class list have their guard: registry-typed assertions, reflect preconditions (Elem/IsNil after Kind()==Ptr, Interface only for exported/interfaceable values, Addr after CanAddr, Len/Index/NumField/Field inside their kind's case), nil checks before dereferencing pointer-typed message fields and helper parameters, nil check of the optional Codec, the descriptor's reader/writer only for non-outside descriptors, nil-pointer messages rejected before the writer; " +
			"(R4) inside the primitive reader no store through the caller's pointer is followed by a read that can fail, and every nested read of the reflective reader targets a temporary (reflect.New / reflect.MakeSlice), never the caller's own elements; (R5) every call-graph cycle inside the codec has an edge that passes a structurally smaller value; (R6) a loop whose test compares against a wire-supplied integer either performs, on every iteration, a read from the codec's Reader (which fails at the end of the input, so the iteration count is bounded by the input) or has its bound dominated by a constant cap / the remaining length / the bounds check. " +
			"(R7) every constant-index read x[c] of a string or slice in the functions reachable from the decoders — including the reference factory and the address / path normalisation helpers outside the codec packages — is dominated by an edge asserting len(x) > c for that very value. (R8 = C12.R10) no error of the codec layer is dropped implicitly. (R9) contradiction rule: a pointer-typed call result that a function on the decode path compares with nil somewhere is used as a method receiver or field base only where its != nil edge dominates — a use in front of the test dereferences nil for exactly the inputs the test exists for. NOT decided: time proportionality beyond allocation bounds; cyclic Go values passed to the writer; panics outside the listed construct classes.",
		Rules: []Rule{
			{ID: "C13.R1", Min: 15, Desc: "cursor discipline", Fn: c13Cursor},
			{ID: "C13.R2", Min: 6, Desc: "bounded allocation", Fn: c13Alloc},
			{ID: "C13.R3", Min: 40, Desc: "panic sites guarded", Fn: c13Panics},
			{ID: "C13.R4", Min: 17, Desc: "decode into temporaries", Fn: c13Temporaries},
			{ID: "C13.R5", Min: 2, Desc: "progress in recursion", Fn: c13Recursion},
			{ID: "C13.R9", Min: 1, Desc: "a pointer the decoder tests for nil is used only where that test has passed (contradiction rule)", Fn: c13NilChecked},
			{ID: "C13.R7", Min: 3, Desc: "constant-index reads of strings and slices on the decode path are guarded by a length fact on the same value", Fn: c13ConstIndex},
			{ID: "C13.R8", Min: 1, Desc: "no error of the codec layer is dropped implicitly (C12.R10)", Fn: func(p *Program, r *Report) {
				p.checkNoImplicitDrop(r, "the codec (messages, envelope and cluster serialisers, registered readers/writers)", "an encoding error that is not propagated yields a truncated or empty frame that is sent as if it were complete; a decoding error that is not propagated hands on a half-filled message", func(rel string) bool {
					return rel == "" || rel == "internal/messages" || rel == "internal/remoting/serialize" || rel == "internal/cluster"
				})
			}},
			{ID: "C13.R6", Min: 4, Desc: "loops bounded by a wire integer consume input or are capped", Fn: c13Loops},
		},
	})
}

// codecScope: the functions that take part in encoding/decoding.
func (p *Program) codecScope() map[*ssa.Function]*cgStep {
	c := p.codec()
	var roots []*ssa.Function
	for _, rg := range p.registrations() {
		roots = append(roots, rg.Reader, rg.Writer)
	}
	for _, n := range []*types.Named{c.WriterT, c.ReaderT} {
		if n != nil {
			roots = append(roots, p.methodsOf(n)...)
		}
	}
	for _, f := range []*ssa.Function{
		p.Func("internal/remoting/serialize", "EncodeEnvelopWithRemoting"), p.Func("internal/remoting/serialize", "DecodeEnvelopWithRemoting"),
		p.Func("internal/messages", "QueryMessageDesc"), p.Func("internal/messages", "QueryMessageDescByName"),
		p.Func("internal/messages", "SerializeRemotingMessage"), p.Func("internal/messages", "DeserializeRemotingMessage"),
		p.Method("internal/remoting", "Handshake", "Send"), p.Method("internal/remoting", "Handshake", "Wait"),
	} {
		roots = append(roots, f)
	}
	inScopePkg := func(fn *ssa.Function) bool {
		pk := fnPkg(fn)
		if pk == nil {
			return false
		}
		switch relPkg(pk) {
		case "internal/messages", "internal/cluster", "", "internal/remoting/serialize", "internal/remoting":
			return true
		}
		return false
	}
	return p.closure(roots, cgOpts{ModuleOnly: true, MaxDepth: 6, SkipFunc: func(fn *ssa.Function) bool { return !inScopePkg(fn) },
		SkipEdge: func(e *callgraph.Edge) bool { return p.isMailboxEnqueueDispatch(e) }})
}

func sortedFuncs(m map[*ssa.Function]*cgStep) []*ssa.Function {
	var out []*ssa.Function
	for f := range m {
		if len(f.Blocks) > 0 {
			out = append(out, f)
		}
	}
	sort.Slice(out, func(i, j int) bool {
		if out[i].Pos() != out[j].Pos() {
			return out[i].Pos() < out[j].Pos()
		}
		return out[i].String() < out[j].String()
	})
	return out
}

// callEdges: branch edges of g on which a call satisfying pred returned true / false.
func callEdges(g *IG, pred func(c *ssa.Call) bool) (tr, fa map[edge]bool) {
	tr, fa = map[edge]bool{}, map[edge]bool{}
	for _, ifi := range g.ifs() {
		for _, outcome := range []bool{true, false} {
			f, ok := condFact(ifi.Cond, outcome)
			if !ok || !f.Bool {
				continue
			}
			c, ok := f.X.(*ssa.Call)
			if !ok || !pred(c) {
				continue
			}
			if f.Op == token.NEQ {
				tr[g.branchEdge(ifi, outcome)] = true
			} else {
				fa[g.branchEdge(ifi, outcome)] = true
			}
		}
	}
	return
}

func c13Cursor(p *Program, r *Report) {
	c := p.codec()
	if c.ReaderT == nil {
		r.Unresolved("messages.Reader")
		return
	}
	pos, buf := c.RPos, c.RBuf
	check := c.Check
	if pos == nil || buf == nil || check == nil {
		r.Unresolved("Reader.pos / Reader.buf / Reader.check")
		return
	}
	// (a) the bounds check itself: returns true only when 0 <= n <= len(buf)-pos
	cg := p.ig(check)
	nparam := check.Params[1]
	nonNeg, fits := map[edge]bool{}, map[edge]bool{}
	for _, ifi := range ifsOf(check) {
		for _, outcome := range []bool{true, false} {
			f, ok := condFact(ifi.Cond, outcome)
			if !ok {
				continue
			}
			if strip(f.X) == ssa.Value(nparam) && f.Y == nil && !f.IsNil && ((f.Op == token.GEQ && f.C == 0) || (f.Op == token.GTR && f.C == -1)) {
				nonNeg[cg.branchEdge(ifi, outcome)] = true
			}
			// n <= len(buf) - pos   or   pos + n <= len(buf)
			if f.Y != nil && (f.Op == token.LEQ || f.Op == token.LSS) {
				xs, ys := p.origins(f.X), p.origins(f.Y)
				l2r := (strip(f.X) == ssa.Value(nparam) && anyContains(ys, "binop:-")) || (anyContains(xs, "binop:+") && (anyContains(ys, "call:len") || len(ys) > 0))
				if l2r {
					fits[cg.branchEdge(ifi, outcome)] = true
				}
			}
		}
	}
	// Counts reaching check() are widening conversions of unsigned wire integers (uint8/16/32 → 64-bit int), never negative:
	// the module only builds for 64-bit int (internal/cluster does not compile under GOARCH=386), so an n >= 0 test is not
	// demanded. (An earlier version of this rule demanded it after a 32-bit experiment; that was more than the property
	// needs on any buildable configuration and was withdrawn together with the corresponding fix.)
	_ = nonNeg
	okCheck := len(fits) > 0
	for _, ex := range cg.Exits {
		ret := cg.Nodes[ex].(*ssa.Return)
		if b, isC := constBool(retOperand(ret, 0)); isC && b {
			if !cg.DominatedByEdges(ex, fits) {
				okCheck = false
			}
		}
	}
	r.Check(okCheck, "bounds check rejects counts beyond the remaining buffer", check.Pos(), "check(n) returns true only through an edge asserting that n fits the remaining buffer")
	// movers: instructions that may move the cursor — stores to pos and calls of functions that (transitively, through
	// static calls) store to pos.
	moves := map[*ssa.Function]bool{}
	for _, a := range p.fieldAccesses(map[*types.Var]bool{pos: true}) {
		if a.Write && !a.Fresh {
			moves[a.Fn] = true
		}
	}
	for changed := true; changed; {
		changed = false
		for _, fn := range p.Mod {
			if moves[fn] {
				continue
			}
			for _, b := range fn.Blocks {
				for _, in := range b.Instrs {
					if cc := callOf(in); cc != nil && cc.StaticCallee() != nil && moves[cc.StaticCallee()] && !moves[fn] {
						moves[fn] = true
						changed = true
					}
				}
			}
		}
	}
	isMover := func(in ssa.Instruction) bool {
		if st, ok := in.(*ssa.Store); ok {
			f, _ := fieldAddr(st.Addr)
			return f == pos
		}
		if cc := callOf(in); cc != nil {
			if cal := cc.StaticCallee(); cal != nil {
				return moves[cal]
			}
			if cc.IsInvoke() {
				return false
			}
			_, isB := cc.Value.(*ssa.Builtin)
			return !isB // dynamic call: may move the cursor
		}
		return false
	}
	// checkedAt: node `at` is dominated by the success edge of a check(m) call where m covers the count (the same value as
	// n, or constants with m >= max(n const, min)), and no other cursor movement lies between that check and `at`.
	checkedAt := func(g *IG, at int, n ssa.Value, min int64) bool {
		for i, in := range g.Nodes {
			cc, ok := in.(*ssa.Call)
			if !ok || cc.Call.StaticCallee() != check || len(cc.Call.Args) != 2 {
				continue
			}
			m := cc.Call.Args[1]
			covers := false
			if n != nil && sameValue(m, n) {
				covers = true
			}
			if mc, isC := constInt(m); isC {
				if n != nil {
					if nc, isNC := constInt(n); isNC && mc >= nc {
						covers = true
					}
				} else if mc >= min {
					covers = true
				}
			}
			if !covers {
				continue
			}
			tr, _ := callEdges(g, func(c2 *ssa.Call) bool { return c2 == cc })
			if len(tr) == 0 || !g.DominatedByEdges(at, tr) {
				continue
			}
			fresh := true
			after := g.ReachAfter(i, nil, nil)
			for w, win := range g.Nodes {
				if w == at || w == i || !after[w] || !isMover(win) {
					continue
				}
				if g.ReachAfter(w, map[int]bool{i: true}, nil)[at] {
					fresh = false
					break
				}
			}
			if fresh {
				return true
			}
		}
		return false
	}
	// (b) every store to pos
	for _, a := range p.fieldAccesses(map[*types.Var]bool{pos: true}) {
		if !a.Write || a.Fresh {
			continue
		}
		st, ok := a.In.(*ssa.Store)
		if !ok {
			continue
		}
		g := p.ig(a.Fn)
		construct := "cursor update in " + fnName(a.Fn)
		if v, isC := constInt(st.Val); isC {
			r.Check(v == 0, construct, st.Pos(), "cursor reset to 0")
			continue
		}
		if bo, isB := st.Val.(*ssa.BinOp); isB && bo.Op == token.ADD {
			if f, _ := fieldLoad(bo.X); f == pos {
				n := bo.Y
				posCnt := g.edgesWhere(func(f cmpFact) bool {
					return strip(f.X) == strip(n) && f.Y == nil && !f.IsNil && ((f.Op == token.GTR && f.C >= 0) || (f.Op == token.GEQ && f.C >= 1))
				})
				ok := checkedAt(g, a.Node, n, 0) || (len(posCnt) > 0 && g.DominatedByEdges(a.Node, posCnt) && anyContains(p.origins(n), "binary."))
				r.Check(ok, construct, st.Pos(), "pos += n is dominated by the success edge of check(m), m the same value as n (or constants m >= n), with no other cursor movement between that check and the update; or n is the positive byte count returned by binary.(U)varint")
				continue
			}
		}
		if _, isParam := strip(st.Val).(*ssa.Parameter); isParam {
			lo := g.edgesWhere(func(f cmpFact) bool {
				return strip(f.X) == strip(st.Val) && f.Y == nil && f.Op == token.GEQ && f.C == 0
			})
			hi := g.edgesWhere(func(f cmpFact) bool { return strip(f.X) == strip(st.Val) && f.Y != nil && f.Op == token.LEQ })
			r.Check(len(lo) > 0 && len(hi) > 0 && g.DominatedByEdges(a.Node, lo) && g.DominatedByEdges(a.Node, hi), construct, st.Pos(), "an absolute cursor position is stored only inside the range guard 0 <= pos <= len(buf)")
			continue
		}
		r.Violate(construct, st.Pos(), "unrecognised form of cursor update")
	}
	// (c) indexing / slicing of buf
	for _, a := range p.fieldAccesses(map[*types.Var]bool{buf: true}) {
		if a.Fresh {
			continue
		}
		g := p.ig(a.Fn)
		switch x := a.In.(type) {
		case *ssa.IndexAddr:
			f, _ := fieldLoad(x.Index)
			r.Check(f == pos && checkedAt(g, a.Node, nil, 1), "buf[pos] in "+fnName(a.Fn), x.Pos(), "the buffer is indexed at the cursor under a successful check(k>=1) with no cursor movement in between")
		case *ssa.Slice:
			lowPos := false
			if x.Low != nil {
				f, _ := fieldLoad(x.Low)
				lowPos = f == pos
			}
			if !lowPos {
				r.Violate("buf slice in "+fnName(a.Fn), x.Pos(), "the buffer is sliced from something other than the cursor")
				continue
			}
			if x.High == nil {
				// open-ended slice at the cursor: pos <= len(buf) is an invariant of all cursor updates. What consumes it decides:
				// a fixed-width ByteOrder read needs check(width); varint decoders and plain hand-outs tolerate short input.
				width := int64(0)
				for _, ref := range *x.Referrers() {
					if cc := callOf(ref); cc != nil && cc.IsInvoke() && namedOf(cc.Value.Type()) != nil && typeIs(cc.Value.Type(), "encoding/binary", "ByteOrder") {
						switch cc.Method.Name() {
						case "Uint16":
							width = max(width, 2)
						case "Uint32":
							width = max(width, 4)
						case "Uint64":
							width = max(width, 8)
						}
					}
				}
				if width == 0 {
					r.Check(true, "buf[pos:] in "+fnName(a.Fn), x.Pos(), "open-ended slice at the cursor handed to a consumer that tolerates short input (varint decoder / caller)")
				} else {
					r.Check(checkedAt(g, a.Node, nil, width), "buf[pos:] in "+fnName(a.Fn), x.Pos(), fmt.Sprintf("fixed-width read of %d bytes at the cursor under a successful check(k>=%d) with no cursor movement in between", width, width))
				}
				continue
			}
			var n ssa.Value
			if bo, isB := x.High.(*ssa.BinOp); isB && bo.Op == token.ADD {
				if f, _ := fieldLoad(bo.X); f == pos {
					n = bo.Y
				} else if f, _ := fieldLoad(bo.Y); f == pos {
					n = bo.X
				}
			}
			r.Check(n != nil && checkedAt(g, a.Node, n, 0), "buf[pos:pos+n] in "+fnName(a.Fn), x.Pos(), "bounded slice at the cursor under a successful check(n) of the same n with no cursor movement in between")
		}
	}
}

// ---- TAINT -------------------------------------------------------------------------------

// wireInts: values in fn that come from the wire as integers.
func (p *Program) wireInts(fn *ssa.Function) map[ssa.Value]bool {
	c := p.codec()
	t := map[ssa.Value]bool{}
	cells := map[*ssa.Alloc]bool{}
	isInt := func(ty types.Type) bool {
		b, ok := ty.Underlying().(*types.Basic)
		return ok && b.Info()&types.IsInteger != 0
	}
	for _, b := range fn.Blocks {
		for _, in := range b.Instrs {
			cc, ok := in.(*ssa.Call)
			if !ok {
				continue
			}
			cal := cc.Call.StaticCallee()
			if cal != nil && cal.Signature.Recv() != nil && namedOf(cal.Signature.Recv().Type()) == c.ReaderT {
				if strings.HasPrefix(cal.Name(), "Read") {
					if tup, isT := cc.Type().(*types.Tuple); isT && tup.Len() == 2 && isInt(tup.At(0).Type()) {
						t[cc] = true
					}
				}
				if cal.Name() == "ReadInto" || cal.Name() == "Read" {
					var elems []ssa.Value
					if cal.Name() == "ReadInto" {
						elems, _ = varargElems(cc.Call.Args[1])
					} else {
						elems = []ssa.Value{cc.Call.Args[1]}
					}
					for _, e := range elems {
						if mi, isMI := e.(*ssa.MakeInterface); isMI {
							if al, isAl := mi.X.(*ssa.Alloc); isAl && isInt(al.Type().(*types.Pointer).Elem()) {
								cells[al] = true
							}
						}
					}
				}
			}
			if q := calleeQual(&cc.Call); strings.HasPrefix(q, "(encoding/binary.") && (strings.HasSuffix(q, ".Uint32") || strings.HasSuffix(q, ".Uint16") || strings.HasSuffix(q, ".Uint64")) {
				t[cc] = true // frame length decoded straight from the connection
			}
		}
	}
	// parameters of integer type of exported Reader methods (ReadBytes(n)) are caller supplied: treated as wire-derived
	if fn.Signature.Recv() != nil && namedOf(fn.Signature.Recv().Type()) == c.ReaderT {
		for _, prm := range fn.Params[1:] {
			if isInt(prm.Type()) {
				t[prm] = true
			}
		}
	}
	for changed := true; changed; {
		changed = false
		for _, b := range fn.Blocks {
			for _, in := range b.Instrs {
				v, ok := in.(ssa.Value)
				if !ok || t[v] {
					continue
				}
				taint := false
				switch x := in.(type) {
				case *ssa.Extract:
					taint = t[x.Tuple] && x.Index == 0
				case *ssa.Convert:
					taint = t[x.X]
				case *ssa.ChangeType:
					taint = t[x.X]
				case *ssa.BinOp:
					taint = (t[x.X] || t[x.Y]) && x.Op != token.EQL && x.Op != token.NEQ && x.Op != token.LSS && x.Op != token.GTR && x.Op != token.LEQ && x.Op != token.GEQ
				case *ssa.Phi:
					for _, e := range x.Edges {
						if t[e] {
							taint = true
						}
					}
				case *ssa.UnOp:
					if al, isAl := x.X.(*ssa.Alloc); isAl && x.Op == token.MUL && cells[al] {
						taint = true
					}
				}
				if taint {
					t[v] = true
					changed = true
				}
			}
		}
	}
	return t
}

// allocParams: parameters of fn whose value reaches an allocation size inside fn (one summary level deep).
func (p *Program) allocParams(fn *ssa.Function, depth int) map[int]bool {
	out := map[int]bool{}
	if fn == nil || depth > 2 {
		return out
	}
	reach := func(v ssa.Value, prm *ssa.Parameter) bool {
		seen := map[ssa.Value]bool{}
		var rec func(v ssa.Value) bool
		rec = func(v ssa.Value) bool {
			if v == ssa.Value(prm) {
				return true
			}
			if seen[v] {
				return false
			}
			seen[v] = true
			switch x := v.(type) {
			case *ssa.Convert:
				return rec(x.X)
			case *ssa.BinOp:
				return rec(x.X) || rec(x.Y)
			case *ssa.Phi:
				for _, e := range x.Edges {
					if rec(e) {
						return true
					}
				}
			}
			return false
		}
		return rec(v)
	}
	for i, prm := range fn.Params {
		for _, b := range fn.Blocks {
			for _, in := range b.Instrs {
				switch x := in.(type) {
				case *ssa.MakeSlice:
					if (reach(x.Len, prm) || reach(x.Cap, prm)) && !p.guardedInside(fn, in, prm) {
						out[i] = true
					}
				case *ssa.MakeMap:
					if x.Reserve != nil && reach(x.Reserve, prm) && !p.guardedInside(fn, in, prm) {
						out[i] = true
					}
				case *ssa.Call:
					if cal := x.Call.StaticCallee(); cal != nil && p.inModule(cal) && cal != fn {
						sub := p.allocParams(cal, depth+1)
						for ai, a := range x.Call.Args {
							if sub[ai] && reach(a, prm) {
								out[i] = true
							}
						}
					}
				}
			}
		}
	}
	return out
}

func c13Alloc(p *Program, r *Report) {
	c := p.codec()
	check := c.Check
	scope := p.codecScope()
	// the frame reader is in scope as well
	for _, fn := range p.Mod {
		if rm := p.remoting(); rm != nil && fn == rm.ReadFn {
			scope[fn] = &cgStep{}
		}
	}
	constCaps := 0
	for _, fn := range sortedFuncs(scope) {
		t := p.wireInts(fn)
		if len(t) == 0 {
			continue
		}
		g := p.ig(fn)
		for i, in := range g.Nodes {
			var sizes []ssa.Value
			kind := ""
			switch x := in.(type) {
			case *ssa.MakeSlice:
				sizes, kind = []ssa.Value{x.Len, x.Cap}, "make([]T, n)"
			case *ssa.MakeMap:
				if x.Reserve != nil {
					sizes, kind = []ssa.Value{x.Reserve}, "make(map, n)"
				}
			case *ssa.Call:
				q := calleeQual(&x.Call)
				if q == "reflect.MakeSlice" || q == "reflect.MakeMapWithSize" {
					sizes, kind = x.Call.Args[1:], q
				} else if cal := x.Call.StaticCallee(); cal != nil && p.inModule(cal) {
					ap := p.allocParams(cal, 0)
					for ai, a := range x.Call.Args {
						if ap[ai] {
							sizes = append(sizes, a)
							kind = "allocating helper " + fnName(cal)
						}
					}
				}
			}
			var tainted ssa.Value
			for _, s := range sizes {
				if s != nil && t[s] {
					tainted = s
				}
			}
			if tainted == nil {
				continue
			}
			// discharge: dominated by an edge bounding the tainted value (or a value it was converted from)
			related := map[ssa.Value]bool{}
			var back func(v ssa.Value)
			back = func(v ssa.Value) {
				if related[v] {
					return
				}
				related[v] = true
				switch x := v.(type) {
				case *ssa.Convert:
					back(x.X)
				case *ssa.ChangeType:
					back(x.X)
				case *ssa.Extract:
					related[x] = true
				case *ssa.Phi:
					for _, e := range x.Edges {
						back(e)
					}
				case *ssa.UnOp:
					// loads of one local cell (var n uint32; ReadInto(&n)) observe the same value
					if al, ok := x.X.(*ssa.Alloc); ok && x.Op == token.MUL {
						for _, ref := range *al.Referrers() {
							if u, ok := ref.(*ssa.UnOp); ok && u.Op == token.MUL {
								related[u] = true
							}
						}
					}
				}
			}
			back(tainted)
			// values converted FROM a related value are related too (int64(length))
			for _, b := range fn.Blocks {
				for _, in2 := range b.Instrs {
					if cv, ok := in2.(*ssa.Convert); ok && related[cv.X] {
						related[cv] = true
					}
				}
			}
			how := ""
			capE := g.edgesWhere(func(f cmpFact) bool {
				return related[f.X] && f.Y == nil && !f.IsNil && (f.Op == token.LEQ || f.Op == token.LSS)
			})
			if len(capE) > 0 && g.DominatedByEdges(i, capE) {
				how = "a constant cap"
			}
			if how == "" {
				remE := g.edgesWhere(func(f cmpFact) bool {
					return related[f.X] && f.Y != nil && (f.Op == token.LEQ || f.Op == token.LSS) && anyContains(p.origins(f.Y), "Remaining")
				})
				if len(remE) > 0 && g.DominatedByEdges(i, remE) {
					how = "the remaining input length"
				}
			}
			if how == "" && check != nil {
				chk, _ := callEdges(g, func(cc *ssa.Call) bool {
					return cc.Call.StaticCallee() == check && len(cc.Call.Args) == 2 && related[cc.Call.Args[1]]
				})
				if len(chk) > 0 && g.DominatedByEdges(i, chk) {
					how = "the reader's bounds check"
				}
			}
			if how == "a constant cap" {
				constCaps++
			}
			r.Check(how != "", fmt.Sprintf("%s in %s", kind, fnName(fn)), in.Pos(), "allocation sized by a wire-supplied integer is dominated by a comparison with "+map[bool]string{true: how, false: "— nothing: a few bytes of input can request gigabytes"}[how != ""])
		}
	}
	r.Check(constCaps >= 3, "documented caps are constant caps", token.NoPos, fmt.Sprintf("%d wire-sized allocations are bounded by a compile-time constant (map entries, version-vector entries, frame length)", constCaps))
}

// c13Loops: "never loops". A loop test against a wire-supplied integer is an attacker-chosen iteration count.
func c13Loops(p *Program, r *Report) {
	c := p.codec()
	check := c.Check
	scope := p.codecScope()
	for _, fn := range p.Mod {
		if rm := p.remoting(); rm != nil && fn == rm.ReadFn {
			scope[fn] = &cgStep{}
		}
	}
	n := 0
	for _, fn := range sortedFuncs(scope) {
		t := p.wireInts(fn)
		if len(t) == 0 {
			continue
		}
		g := p.ig(fn)
		// reads that fail at the end of the input: methods of the Reader, and module helpers taking the Reader
		reads := nodesWhere(g, func(in ssa.Instruction) bool {
			cc := callOf(in)
			if cc == nil || cc.StaticCallee() == nil {
				return false
			}
			cal := cc.StaticCallee()
			if cal.Signature.Recv() != nil && namedOf(cal.Signature.Recv().Type()) == c.ReaderT && strings.HasPrefix(strings.ToLower(cal.Name()), "read") {
				return true
			}
			if p.inModule(cal) {
				if _, isW := p.streamParam(cal); !isW {
					for _, prm := range cal.Params {
						if namedOf(prm.Type()) == c.ReaderT {
							return true
						}
					}
				}
			}
			return false
		})
		ord := 0
		for _, ifi := range ifsOf(fn) {
			f, ok := condFact(ifi.Cond, true)
			if !ok || f.Y == nil {
				continue
			}
			var bound ssa.Value
			switch {
			case t[f.Y] || t[unconv(f.Y)]:
				bound = f.Y
			case t[f.X] || t[unconv(f.X)]:
				bound = f.X
			default:
				continue
			}
			hn := g.Idx[ifi]
			if !g.ReachAfter(hn, nil, nil)[hn] {
				continue // not a loop test
			}
			ord++
			n++
			construct := fmt.Sprintf("loop #%d bounded by a wire integer in %s", ord, fnName(fn))
			// (1) every cycle through the test passes a failing read
			if len(reads) > 0 && !g.ReachAfter(hn, reads, nil)[hn] {
				r.Check(true, construct, ifi.Cond.Pos(), "every iteration performs a read from the codec's Reader, which fails at the end of the input: the iteration count is bounded by the input length")
				continue
			}
			// (2) the bound is capped before the loop
			related := map[ssa.Value]bool{bound: true, unconv(bound): true}
			for _, b := range fn.Blocks {
				for _, in2 := range b.Instrs {
					if cv, ok := in2.(*ssa.Convert); ok && related[cv.X] {
						related[cv] = true
					}
				}
			}
			capE := g.edgesWhere(func(f cmpFact) bool {
				if !related[f.X] || (f.Op != token.LEQ && f.Op != token.LSS) {
					return false
				}
				if f.Y == nil {
					return !f.IsNil
				}
				o := p.origins(f.Y)
				return anyContains(o, "Remaining") || anyContains(o, "call:len")
			})
			okCap := len(capE) > 0 && g.DominatedByEdges(hn, capE)
			if !okCap && check != nil {
				chk, _ := callEdges(g, func(cc *ssa.Call) bool {
					return cc.Call.StaticCallee() == check && len(cc.Call.Args) == 2 && related[cc.Call.Args[1]]
				})
				okCap = len(chk) > 0 && g.DominatedByEdges(hn, chk)
			}
			r.Check(okCap, construct, ifi.Cond.Pos(), "the loop does not consume Reader input on every iteration, so its wire-supplied bound must be dominated by a constant cap, the remaining length or the bounds check — otherwise a peer chooses how long (or whether ever) the loop ends")
		}
	}
	if n == 0 {
		r.Unresolved("no loop bounded by a wire integer found in the codec scope")
	}
}

// ---- PANIC ------------------------------------------------------------------------------

func c13Panics(p *Program, r *Report) {
	scope := p.codecScope()
	regT := map[*ssa.Function]types.Type{}
	for _, rg := range p.registrations() {
		regT[rg.Reader], regT[rg.Writer] = rg.T, rg.T
	}
	for _, fn := range sortedFuncs(scope) {
		g := p.ig(fn)
		kindEdges := func(recv ssa.Value, kinds ...string) map[edge]bool {
			// edges asserting recv.Kind() == one of kinds (reflect.Kind constant names)
			m := map[edge]bool{}
			for _, ifi := range ifsOf(fn) {
				for _, outcome := range []bool{true, false} {
					f, ok := condFact(ifi.Cond, outcome)
					if !ok || f.IsNil || f.Y != nil || f.Op != token.EQL {
						continue
					}
					c, ok := strip(f.X).(*ssa.Call)
					if !ok || !strings.HasSuffix(calleeQual(&c.Call), ".Kind") {
						continue
					}
					rv := callRecv(&c.Call)
					if rv == nil || !sameReflect(rv, recv) {
						continue
					}
					for _, k := range kinds {
						if f.C == reflectKind(k) {
							m[g.branchEdge(ifi, outcome)] = true
						}
					}
				}
			}
			return m
		}
		for i, in := range g.Nodes {
			switch x := in.(type) {
			case *ssa.TypeAssert:
				if x.CommaOk {
					continue
				}
				construct := fmt.Sprintf("assertion .(%s) in %s", typeName(x.AssertedType), fnName(fn))
				if t, ok := regT[fn]; ok && len(fn.Params) > 0 && strip(x.X) == ssa.Value(fn.Params[0]) {
					r.Check(types.Identical(t, x.AssertedType), construct, x.Pos(), "unchecked assertion on the message matches the registered type (the registry instantiates exactly that type)")
					continue
				}
				if c, ok := strip(x.X).(*ssa.Call); ok && calleeQual(&c.Call) == "(sync.Pool).Get" {
					r.Lookup(construct, x.Pos(), "value comes from a sync.Pool whose New returns this type")
					continue
				}
				if _, isIface := x.AssertedType.Underlying().(*types.Interface); isIface {
					// interface-to-interface assertion that may fail
					r.Violate(construct, x.Pos(), "unchecked interface assertion in the codec path")
					continue
				}
				r.Violate(construct, x.Pos(), "unchecked type assertion in the codec path")
			case *ssa.Call:
				q := calleeQual(&x.Call)
				recv := callRecv(&x.Call)
				switch {
				case q == "(reflect.Type).Elem" || q == "(*reflect.rtype).Elem":
					ok := len(kindEdges(recv, "Ptr", "Slice", "Array", "Map", "Chan")) > 0 && g.DominatedByEdges(i, kindEdges(recv, "Ptr", "Slice", "Array", "Map", "Chan"))
					// reflect.TypeOf((*T)(nil)).Elem(): statically a pointer type
					if c, isC := strip(recv).(*ssa.Call); isC {
						cq := calleeQual(&c.Call)
						if cq == "reflect.TypeOf" {
							if mi, isMI := c.Call.Args[0].(*ssa.MakeInterface); isMI {
								if _, isPtr := mi.X.Type().Underlying().(*types.Pointer); isPtr {
									ok = true
								}
							}
						}
						if cq == "(reflect.Type).Elem" && fn.Name() == "RegisterInternalMessage" {
							ok = true // second Elem of (**X): C12.R3 checks T is a pointer type
						}
						if (cq == "(reflect.Value).Type") && len(kindEdges(callRecv(&c.Call), "Slice", "Array", "Ptr")) > 0 && g.DominatedByEdges(i, kindEdges(callRecv(&c.Call), "Slice", "Array", "Ptr")) {
							ok = true
						}
					}
					if !ok {
						// element type of the slice/array being decoded: inside the Slice/Array case of the kind switch
						all := map[edge]bool{}
						for _, ifi := range ifsOf(fn) {
							for _, outcome := range []bool{true, false} {
								f, okf := condFact(ifi.Cond, outcome)
								if okf && f.Op == token.EQL && f.Y == nil && !f.IsNil && (f.C == reflectKind("Slice") || f.C == reflectKind("Array")) {
									if kc, isK := strip(f.X).(*ssa.Call); isK && strings.HasSuffix(calleeQual(&kc.Call), ".Kind") {
										all[g.branchEdge(ifi, outcome)] = true
									}
								}
							}
						}
						ok = len(all) > 0 && g.DominatedByEdges(i, all)
					}
					if strings.HasPrefix(fn.Name(), "init$") || isOutsideDescClosure(fn) {
						r.Lookup("reflect.Type.Elem in "+fnName(fn), x.Pos(), "placeholder writer of the outside descriptor: never invoked (see descriptor-use obligations)")
						continue
					}
					r.Check(ok, "reflect.Type.Elem in "+fnName(fn), x.Pos(), "Elem() on a type whose kind was tested (or is statically a pointer)")
				case q == "(reflect.Value).Elem" && anyContains(p.origins(recv), "call:reflect.New") && !anyContains(p.origins(recv), ".Elem<-call:reflect.New"):
					r.Lookup("reflect.Value.Elem in "+fnName(fn), x.Pos(), "Elem() of a value produced by reflect.New (always a pointer)")
				case q == "(reflect.Value).Elem":
					ke := kindEdges(recv, "Ptr", "Interface")
					// readReflect: `Kind() != Ptr || IsNil()` returns; the Elem after it is on the == Ptr edge
					r.Check(len(ke) > 0 && g.DominatedByEdges(i, ke), "reflect.Value.Elem in "+fnName(fn), x.Pos(), "Elem() is dominated by the Kind()==Ptr edge of the same value")
				case q == "(reflect.Value).IsNil":
					ke := kindEdges(recv, "Ptr", "Interface", "Map", "Slice", "Chan", "Func")
					r.Check(len(ke) > 0 && g.DominatedByEdges(i, ke), "reflect.Value.IsNil in "+fnName(fn), x.Pos(), "IsNil() is dominated by a Kind() test for a nil-able kind")
				case q == "(reflect.Value).Addr":
					ca, _ := callEdges(g, func(c *ssa.Call) bool {
						return calleeQual(&c.Call) == "(reflect.Value).CanAddr" && sameReflect(callRecv(&c.Call), recv)
					})
					r.Check(len(ca) > 0 && g.DominatedByEdges(i, ca), "reflect.Value.Addr in "+fnName(fn), x.Pos(), "Addr() is dominated by CanAddr() of the same value")
				case q == "(reflect.Value).Interface":
					ci, _ := callEdges(g, func(c *ssa.Call) bool {
						return calleeQual(&c.Call) == "(reflect.Value).CanInterface" && (sameReflect(callRecv(&c.Call), recv) || derivedReflect(recv, callRecv(&c.Call)))
					})
					ok := len(ci) > 0 && g.DominatedByEdges(i, ci)
					why := "Interface() is dominated by CanInterface()"
					if !ok {
						// field value guarded by the exported test PkgPath == ""
						exp := g.edgesWhere(func(f cmpFact) bool { return false })
						for _, ifi := range ifsOf(fn) {
							for _, outcome := range []bool{true, false} {
								f, okf := condFact(ifi.Cond, outcome)
								if okf && f.Op == token.EQL && anyContains(p.origins(f.X), "PkgPath") {
									exp[g.branchEdge(ifi, outcome)] = true
								}
							}
						}
						if len(exp) > 0 && g.DominatedByEdges(i, exp) {
							ok, why = true, "Interface() of a struct field is dominated by the exported-field test (PkgPath == \"\")"
						}
					}
					if !ok {
						// element of a slice/array, pointer produced by reflect.New / Addr of an addressable interfaceable value
						o := p.origins(recv)
						if !anyContains(o, "(reflect.Value).Field") && (anyContains(o, ".Index") || anyContains(o, "reflect.New") || anyContains(o, ".Addr")) {
							ok, why = true, "Interface() of an element / freshly allocated / addressable value"
						}
					}
					r.Check(ok, "reflect.Value.Interface in "+fnName(fn), x.Pos(), why)
				case q == "(reflect.Value).Len" || q == "(reflect.Value).Index":
					ke := kindEdges(recv, "Slice", "Array", "String")
					ok := len(ke) > 0 && g.DominatedByEdges(i, ke)
					if !ok && anyContains(p.origins(recv), "reflect.MakeSlice") || anyContains(p.origins(recv), "reflect.New") {
						ok = true
					}
					r.Check(ok, strings.TrimPrefix(q, "(reflect.Value).")+" in "+fnName(fn), x.Pos(), "inside the Slice/Array case of the kind switch (or on a freshly made slice/array)")
				case q == "(reflect.Value).NumField" || q == "(reflect.Value).Field":
					ke := kindEdges(recv, "Struct")
					ok := len(ke) > 0 && g.DominatedByEdges(i, ke)
					if !ok && anyContains(p.origins(recv), "reflect.New") {
						// tmp := reflect.New(rv.Type()).Elem() inside the Struct case
						for _, e := range fn.Blocks {
							_ = e
						}
						all := map[edge]bool{}
						for _, ifi := range ifsOf(fn) {
							for _, outcome := range []bool{true, false} {
								f, okf := condFact(ifi.Cond, outcome)
								if okf && f.Op == token.EQL && f.C == reflectKind("Struct") {
									all[g.branchEdge(ifi, outcome)] = true
								}
							}
						}
						ok = len(all) > 0 && g.DominatedByEdges(i, all)
					}
					r.Check(ok, strings.TrimPrefix(q, "(reflect.Value).")+" in "+fnName(fn), x.Pos(), "inside the Struct case of the kind switch")
				case x.Call.IsInvoke() && (x.Call.Method.Name() == "Encode" || x.Call.Method.Name() == "Decode") && strings.HasSuffix(typeName(x.Call.Value.Type()), "Codec"):
					nn := g.edgesWhere(func(f cmpFact) bool { return f.IsNil && f.Op == token.NEQ && strip(f.X) == strip(x.Call.Value) })
					r.Check(len(nn) > 0 && g.DominatedByEdges(i, nn), "Codec."+x.Call.Method.Name()+" in "+fnName(fn), x.Pos(), "the optional codec is nil-checked before use (a missing codec yields ErrCodecRequired, not a nil-interface panic)")
				}
				// descriptor's reader/writer only for non-outside descriptors
				if cal := x.Call.StaticCallee(); cal != nil && (cal.Name() == "SerializeRemotingMessage" || cal.Name() == "DeserializeRemotingMessage") {
					_, notOut := callEdges(g, func(c *ssa.Call) bool {
						return c.Call.StaticCallee() != nil && c.Call.StaticCallee().Name() == "IsOutside"
					})
					r.Check(len(notOut) > 0 && g.DominatedByEdges(i, notOut), cal.Name()+" called in "+fnName(fn), x.Pos(), "the descriptor's own reader/writer is used only on the !IsOutside() edge (the outside descriptor's placeholders are never invoked)")
				}
			}
		}
		// nil dereference of pointer-typed message fields / helper parameters on the writer side
		if _, isW := p.streamParam(fn); isW || regT[fn] != nil {
			c13NilDerefs(p, r, fn)
		}
	}
	// nil-pointer message rejected before the descriptor's writer runs
	if ser := p.Func("internal/messages", "SerializeRemotingMessage"); ser != nil {
		g := p.ig(ser)
		dyn := nodesWhere(g, func(in ssa.Instruction) bool {
			c, ok := in.(*ssa.Call)
			return ok && !c.Call.IsInvoke() && c.Call.StaticCallee() == nil
		})
		isNilE, notNil := callEdges(g, func(c *ssa.Call) bool { return calleeQual(&c.Call) == "(reflect.Value).IsNil" })
		_ = isNilE
		ok := len(dyn) > 0
		for d := range dyn {
			// every path to the writer call avoids the IsNil()==true edge: remove notNil edges and kind-mismatch edges → unreachable? simpler: the true edge leads only to an error return
			_ = d
		}
		tr, _ := callEdges(g, func(c *ssa.Call) bool { return calleeQual(&c.Call) == "(reflect.Value).IsNil" })
		okNil := len(tr) > 0
		for e := range tr {
			reach := g.Reach([]int{e.to}, nil, nil)
			for d := range dyn {
				if reach[d] {
					okNil = false
				}
			}
		}
		_ = notNil
		r.Check(ok && okNil, "nil pointer message rejected before its writer", ser.Pos(), "SerializeRemotingMessage returns an error on the IsNil() edge; the registered writer (which dereferences the message) is not reachable from it")
	} else {
		r.Unresolved("SerializeRemotingMessage")
	}
}

func isOutsideDescClosure(fn *ssa.Function) bool {
	return fn.Parent() != nil && fn.Parent().Name() == "init" && strings.HasSuffix(fnPkg(fn).Path(), "/internal/messages")
}

var reflectKinds = map[string]int64{"Bool": 1, "Int": 2, "Int8": 3, "Int16": 4, "Int32": 5, "Int64": 6, "Uint": 7, "Uint8": 8, "Uint16": 9, "Uint32": 10, "Uint64": 11, "Uintptr": 12,
	"Float32": 13, "Float64": 14, "Complex64": 15, "Complex128": 16, "Array": 17, "Chan": 18, "Func": 19, "Interface": 20, "Map": 21, "Ptr": 22, "Slice": 23, "String": 24, "Struct": 25, "UnsafePointer": 26}

func reflectKind(name string) int64 { return reflectKinds[name] }

// sameReflect: two reflect.Value / reflect.Type operands denote the same value (identical SSA value, same phi, or loads of one cell).
func sameReflect(a, b ssa.Value) bool {
	if a == nil || b == nil {
		return false
	}
	a, b = strip(a), strip(b)
	if a == b {
		return true
	}
	ua, ok1 := a.(*ssa.UnOp)
	ub, ok2 := b.(*ssa.UnOp)
	if ok1 && ok2 && ua.X == ub.X {
		return true
	}
	// phi of the loop variable vs its incoming value
	if pa, ok := a.(*ssa.Phi); ok {
		for _, e := range pa.Edges {
			if strip(e) == b {
				return true
			}
		}
	}
	if pb, ok := b.(*ssa.Phi); ok {
		for _, e := range pb.Edges {
			if strip(e) == a {
				return true
			}
		}
	}
	return false
}

// derivedReflect: v is obtained from base by Addr()/Elem() (field.Addr().CanInterface() guards field.Addr().Interface()).
func derivedReflect(v, base ssa.Value) bool {
	if v == nil || base == nil {
		return false
	}
	cv, ok1 := strip(v).(*ssa.Call)
	cb, ok2 := strip(base).(*ssa.Call)
	if ok1 && ok2 && calleeQual(&cv.Call) == calleeQual(&cb.Call) {
		return sameReflect(callRecv(&cv.Call), callRecv(&cb.Call))
	}
	return false
}

// c13NilDerefs: dereferences of pointers loaded from message fields, and of pointer parameters of stream helpers.
func c13NilDerefs(p *Program, r *Report, fn *ssa.Function) {
	g := p.ig(fn)
	seen := map[ssa.Value]bool{}
	for i, in := range g.Nodes {
		var base ssa.Value
		switch x := in.(type) {
		case *ssa.FieldAddr:
			base = x.X
		case *ssa.Field:
			continue
		case *ssa.Call:
			if rcv := callRecv(&x.Call); rcv != nil && !x.Call.IsInvoke() {
				if cal := x.Call.StaticCallee(); cal != nil && cal.Signature.Recv() != nil {
					if _, isPtr := cal.Signature.Recv().Type().(*types.Pointer); isPtr {
						continue // pointer-receiver method: the callee decides
					}
				}
			}
			continue
		default:
			continue
		}
		base = unspill(base)
		if _, isPtr := base.Type().Underlying().(*types.Pointer); !isPtr {
			continue
		}
		// (1) pointer loaded from a struct field
		if f, _ := fieldLoad(base); f != nil {
			if seen[base] {
				continue
			}
			seen[base] = true
			nn := g.edgesWhere(func(cf cmpFact) bool { return cf.IsNil && cf.Op == token.NEQ && sameValue(cf.X, base) })
			r.Check(len(nn) > 0 && g.DominatedByEdges(i, nn), fmt.Sprintf("deref of field %s in %s", f.Name(), fnName(fn)), in.Pos(), "pointer-typed field is nil-checked before it is dereferenced (a nil field yields an error, not a panic)")
			continue
		}
		// (2) pointer parameter of a helper (not the stream, not the receiver)
		if prm, isPrm := base.(*ssa.Parameter); isPrm {
			if seen[base] {
				continue
			}
			seen[base] = true
			c := p.codec()
			if n := namedOf(prm.Type()); n == c.WriterT || n == c.ReaderT {
				continue
			}
			if fn.Signature.Recv() != nil && prm == fn.Params[0] {
				continue
			}
			nn := g.edgesWhere(func(cf cmpFact) bool { return cf.IsNil && cf.Op == token.NEQ && strip(cf.X) == ssa.Value(prm) })
			if len(nn) > 0 && g.DominatedByEdges(i, nn) {
				r.Check(true, fmt.Sprintf("deref of parameter %s in %s", prm.Name(), fnName(fn)), in.Pos(), "parameter nil-checked locally")
				continue
			}
			// every caller passes a non-nil value
			idx := -1
			for k, q := range fn.Params {
				if q == prm {
					idx = k
				}
			}
			ok := true
			why := "every call site passes a value that is nil-checked there or freshly allocated"
			node := p.CG.Nodes[fn]
			if node == nil || len(node.In) == 0 {
				ok = false
			} else {
				for _, e := range node.In {
					if e.Site == nil {
						continue
					}
					cg := p.ig(e.Caller.Func)
					arg := e.Site.Common().Args[idx]
					if _, fresh := strip(arg).(*ssa.Alloc); fresh {
						continue
					}
					if ac, isCall := strip(arg).(*ssa.Call); isCall && p.neverNil(ac.Call.StaticCallee()) {
						continue
					}
					ni, found := cg.Idx[e.Site.(ssa.Instruction)]
					nn2 := cg.edgesWhere(func(cf cmpFact) bool { return cf.IsNil && cf.Op == token.NEQ && sameValue(cf.X, arg) })
					if !found || len(nn2) == 0 || !cg.DominatedByEdges(ni, nn2) {
						ok = false
						why = "caller " + fnName(e.Caller.Func) + " passes a possibly nil value"
					}
				}
			}
			r.Check(ok, fmt.Sprintf("deref of parameter %s in %s", prm.Name(), fnName(fn)), in.Pos(), why)
		}
	}
}

// ---- R4 / R5 -------------------------------------------------------------------------------

func c13Temporaries(p *Program, r *Report) {
	c := p.codec()
	read := p.methodNamed(c.ReaderT, "Read")
	rr := c.ReadReflect
	if read == nil || rr == nil {
		r.Unresolved("Reader.Read / Reader.readReflect")
		return
	}
	isReaderCall := func(in ssa.Instruction) bool {
		cc := callOf(in)
		if cc == nil || cc.StaticCallee() == nil || cc.StaticCallee().Signature.Recv() == nil {
			return false
		}
		return namedOf(cc.StaticCallee().Signature.Recv().Type()) == c.ReaderT && strings.HasPrefix(strings.ToLower(cc.StaticCallee().Name()), "read")
	}
	g := p.ig(read)
	for i, in := range g.Nodes {
		st, ok := in.(*ssa.Store)
		if !ok {
			continue
		}
		// store through the caller's pointer: address derives from a type assertion of the parameter
		ex, ok := st.Addr.(*ssa.Extract)
		if !ok {
			continue
		}
		ta, ok := ex.Tuple.(*ssa.TypeAssert)
		if !ok || strip(ta.X) != ssa.Value(read.Params[1]) {
			continue
		}
		okS := true
		for n := range g.ReachAfter(i, nil, nil) {
			if isReaderCall(g.Nodes[n]) {
				okS = false
			}
		}
		r.Check(okS, "Reader.Read stores *"+typeName(ta.AssertedType)[1:]+" last", st.Pos(), "the store through the caller's pointer is not followed by any read that can fail")
	}
	g = p.ig(rr)
	n := 0
	for i, in := range g.Nodes {
		cc, ok := in.(*ssa.Call)
		if !ok || calleeQual(&cc.Call) != "(reflect.Value).Set" {
			continue
		}
		// target derives from ValueOf(param).Elem() — the caller's object — not from a temporary (reflect.New / MakeSlice)
		o := p.origins(callRecv(&cc.Call))
		if anyContains(o, "reflect.New") || anyContains(o, "reflect.MakeSlice") {
			continue
		}
		n++
		okS := true
		for m := range g.ReachAfter(i, nil, nil) {
			if isReaderCall(g.Nodes[m]) {
				okS = false
			}
		}
		r.Check(okS, "readReflect assigns the caller's value last", cc.Pos(), "rv.Set(temporary) on the caller's object is not followed by any read that can fail: a failed decode leaves the caller's value untouched")
	}
	if n == 0 {
		r.Unresolved("no assignment of the caller's value in readReflect")
	}
	// every element/field decode inside readReflect targets a temporary: the pointer handed to a read derives on every
	// chain from reflect.New / reflect.MakeSlice, never from the caller's object (reflect.ValueOf(param)...)
	m := 0
	// the reflective reader and the unexported reader helpers it calls (an element reader shared by slice and array case)
	scan := []*ssa.Function{rr}
	for _, in := range g.Nodes {
		if cc, ok := in.(*ssa.Call); ok && isReaderCall(in) {
			if y := cc.Call.StaticCallee(); y != rr && y != read && !ast.IsExported(y.Name()) && len(y.Blocks) > 0 {
				dup := false
				for _, f := range scan {
					if f == y {
						dup = true
					}
				}
				if !dup {
					scan = append(scan, y)
				}
			}
		}
	}
	for _, sf := range scan {
		for _, in := range p.ig(sf).Nodes {
			cc, ok := in.(*ssa.Call)
			if !ok || !isReaderCall(in) {
				continue
			}
			for _, a := range cc.Call.Args[1:] {
				if !(types.IsInterface(a.Type()) && a.Type().Underlying().(*types.Interface).NumMethods() == 0) && !typeIs(a.Type(), "reflect", "Value") {
					continue // decode destinations are `any` pointers or reflect.Values; reflect.Type descriptors etc. are not
				}
				m++
				okT := p.tempDerived(a, sf, rr, 0)
				r.Check(okT, fmt.Sprintf("readReflect decodes into a temporary (nested read #%d)", m), cc.Pos(), "the destination of the nested read derives only from reflect.New / reflect.MakeSlice (through the parameters of an element-reading helper, at every call site): a failure part-way cannot have overwritten the caller's elements")
			}
		}
	}
	if m == 0 {
		r.Unresolved("no nested reads in readReflect")
	}
}

// tempDerived: every provenance chain of v (a decode destination inside fn) starts at reflect.New / reflect.MakeSlice; a chain
// that starts at a parameter of fn is followed to the corresponding argument at every call site of fn (an element reader
// shared by the slice and the array case).
func (p *Program) tempDerived(v ssa.Value, fn, entry *ssa.Function, depth int) bool {
	o := p.origins(v)
	if len(o) == 0 || depth > 2 {
		return false
	}
	for _, ch := range o {
		if strings.Contains(ch, "reflect.New") || strings.Contains(ch, "reflect.MakeSlice") {
			continue
		}
		i := strings.LastIndex(ch, "param:")
		if i < 0 {
			return false
		}
		name := ch[i+len("param:"):]
		pi := -1
		for k, prm := range fn.Params {
			if prm.Name() == name {
				pi = k
			}
		}
		node := p.CG.Nodes[fn]
		if pi <= 0 || node == nil || len(node.In) == 0 || fn == entry {
			return false // the entry point's own parameter is the caller's object
		}
		for _, e := range node.In {
			if e.Site == nil || e.Site.Common().StaticCallee() != fn {
				return false
			}
			args := e.Site.Common().Args
			if pi >= len(args) || !p.tempDerived(args[pi], e.Caller.Func, entry, depth+1) {
				return false
			}
		}
	}
	return true
}

func c13Recursion(p *Program, r *Report) {
	// call-graph SCCs among the functions of the codec package
	var fns []*ssa.Function
	in := map[*ssa.Function]bool{}
	for _, fn := range p.Mod {
		if pk := fnPkg(fn); pk != nil && strings.HasSuffix(pk.Path(), "/internal/messages") && len(fn.Blocks) > 0 {
			fns = append(fns, fn)
			in[fn] = true
		}
	}
	type cedge struct {
		from, to *ssa.Function
		site     ssa.CallInstruction
	}
	var edges []cedge
	adj := map[*ssa.Function][]*ssa.Function{}
	for _, fn := range fns {
		node := p.CG.Nodes[fn]
		if node == nil {
			continue
		}
		for _, e := range node.Out {
			if in[e.Callee.Func] && e.Site != nil {
				if _, isGo := e.Site.(*ssa.Go); isGo {
					continue
				}
				edges = append(edges, cedge{fn, e.Callee.Func, e.Site})
				adj[fn] = append(adj[fn], e.Callee.Func)
			}
		}
	}
	// Tarjan
	index, low := map[*ssa.Function]int{}, map[*ssa.Function]int{}
	onStack := map[*ssa.Function]bool{}
	var stack []*ssa.Function
	var sccs [][]*ssa.Function
	idx := 0
	var strong func(v *ssa.Function)
	strong = func(v *ssa.Function) {
		idx++
		index[v], low[v] = idx, idx
		stack = append(stack, v)
		onStack[v] = true
		for _, w := range adj[v] {
			if index[w] == 0 {
				strong(w)
				if low[w] < low[v] {
					low[v] = low[w]
				}
			} else if onStack[w] && index[w] < low[v] {
				low[v] = index[w]
			}
		}
		if low[v] == index[v] {
			var comp []*ssa.Function
			for {
				w := stack[len(stack)-1]
				stack = stack[:len(stack)-1]
				onStack[w] = false
				comp = append(comp, w)
				if w == v {
					break
				}
			}
			sccs = append(sccs, comp)
		}
	}
	for _, fn := range fns {
		if index[fn] == 0 {
			strong(fn)
		}
	}
	n := 0
	for _, comp := range sccs {
		member := map[*ssa.Function]bool{}
		for _, f := range comp {
			member[f] = true
		}
		self := false
		for _, e := range edges {
			if e.from == comp[0] && e.to == comp[0] && len(comp) == 1 {
				self = true
			}
		}
		if len(comp) == 1 && !self {
			continue
		}
		n++
		// non-progress edges inside the component must not form a cycle
		np := map[*ssa.Function][]*ssa.Function{}
		var desc []string
		for _, e := range edges {
			if !member[e.from] || !member[e.to] {
				continue
			}
			prog := p.edgeMakesProgress(e.from, e.site)
			desc = append(desc, fmt.Sprintf("%s→%s:%s", e.from.Name(), e.to.Name(), map[bool]string{true: "smaller", false: "same"}[prog]))
			if !prog {
				np[e.from] = append(np[e.from], e.to)
			}
		}
		cyc := false
		state := map[*ssa.Function]int{}
		var dfs func(v *ssa.Function)
		dfs = func(v *ssa.Function) {
			state[v] = 1
			for _, w := range np[v] {
				if state[w] == 1 {
					cyc = true
				} else if state[w] == 0 {
					dfs(w)
				}
			}
			state[v] = 2
		}
		for _, f := range comp {
			if state[f] == 0 {
				dfs(f)
			}
		}
		var names []string
		for _, f := range comp {
			names = append(names, f.Name())
		}
		sort.Strings(names)
		sort.Strings(desc)
		r.Check(!cyc, "recursion {"+strings.Join(names, ",")+"}", comp[0].Pos(), "every cycle of this component contains a call that passes a structurally smaller value (element, field, pointee) or a value narrowed to a primitive handled without recursion: "+strings.Join(desc, " "))
	}
	if n == 0 {
		r.Unresolved("no recursive component found in the codec (Write/writeReflect, Read/readReflect expected)")
	}
}

// edgeMakesProgress: the interface{}/reflect value handed to the callee is a sub-value of the caller's, or was narrowed by a type switch to a basic type.
func (p *Program) edgeMakesProgress(from *ssa.Function, site ssa.CallInstruction) bool {
	g := p.ig(from)
	c := site.Common()
	for _, a := range c.Args {
		_, isIface := a.Type().Underlying().(*types.Interface)
		if !isIface && !typeIs(a.Type(), "reflect", "Value") {
			continue
		}
		if typeIs(a.Type(), "reflect", "Type") {
			continue // a type descriptor is not the value being encoded / decoded
		}
		o := p.origins(a)
		if anyContains(o, ".Index") || anyContains(o, ".Field<-") || anyContains(o, "(reflect.Value).Field") || anyContains(o, "call:reflect.New") {
			return true // element, field, or a freshly allocated element of the value being decoded
		}
		// narrowed by a successful type assertion to a basic type
		v := a
		if mi, ok := v.(*ssa.MakeInterface); ok {
			v = mi.X
		}
		if ex, ok := v.(*ssa.Extract); ok {
			if ta, ok := ex.Tuple.(*ssa.TypeAssert); ok {
				if _, isBasic := ta.AssertedType.Underlying().(*types.Basic); isBasic {
					return true
				}
			}
		}
		if ph, ok := v.(*ssa.Phi); ok {
			all := len(ph.Edges) > 0
			for _, e := range ph.Edges {
				if ex, ok := e.(*ssa.Extract); ok {
					if ta, ok := ex.Tuple.(*ssa.TypeAssert); ok {
						if _, isBasic := ta.AssertedType.Underlying().(*types.Basic); isBasic {
							continue
						}
					}
				}
				all = false
			}
			if all {
				return true
			}
		}
		// multi-type case `case bool, int8, ...: w.Write(val)`: val is the original interface, the call is dominated by a type-test edge for basic types
		idx := g.Idx[site.(ssa.Instruction)]
		basicE := map[edge]bool{}
		for _, ifi := range ifsOf(from) {
			for _, outcome := range []bool{true, false} {
				f, ok := condFact(ifi.Cond, outcome)
				if !ok || !f.Bool || f.Op != token.NEQ {
					continue
				}
				if ex, ok := f.X.(*ssa.Extract); ok && ex.Index == 1 {
					if ta, ok := ex.Tuple.(*ssa.TypeAssert); ok {
						if _, isBasic := ta.AssertedType.Underlying().(*types.Basic); isBasic {
							basicE[g.branchEdge(ifi, outcome)] = true
						}
					}
				}
			}
		}
		if len(basicE) > 0 && g.DominatedByEdges(idx, basicE) {
			return true
		}
	}
	return false
}

// guardedInside: the allocation instruction is dominated, inside fn, by the reader's bounds check on the parameter or a constant cap on it.
func (p *Program) guardedInside(fn *ssa.Function, in ssa.Instruction, prm *ssa.Parameter) bool {
	g := p.ig(fn)
	i, ok := g.Idx[in]
	if !ok {
		return false
	}
	check := p.codec().Check
	chk, _ := callEdges(g, func(cc *ssa.Call) bool {
		return check != nil && cc.Call.StaticCallee() == check && len(cc.Call.Args) == 2 && strip(cc.Call.Args[1]) == ssa.Value(prm)
	})
	if len(chk) > 0 && g.DominatedByEdges(i, chk) {
		return true
	}
	capE := g.edgesWhere(func(f cmpFact) bool {
		return strip(f.X) == ssa.Value(prm) && f.Y == nil && !f.IsNil && (f.Op == token.LEQ || f.Op == token.LSS)
	})
	return len(capE) > 0 && g.DominatedByEdges(i, capE)
}

// neverNil: every return of fn yields a package-level variable, a fresh allocation, or a map/assert result on its ok edge.
func (p *Program) neverNil(fn *ssa.Function) bool {
	if fn == nil || len(fn.Blocks) == 0 {
		return false
	}
	g := p.ig(fn)
	for _, ex := range g.Exits {
		v := strip(retOperand(g.Nodes[ex].(*ssa.Return), 0))
		switch x := v.(type) {
		case *ssa.Alloc:
			continue
		case *ssa.UnOp:
			if _, isG := x.X.(*ssa.Global); isG && x.Op == token.MUL {
				continue
			}
			return false
		case *ssa.Extract:
			if lk, isL := x.Tuple.(*ssa.Lookup); isL && lk.CommaOk {
				found, _ := g.okEdgesLookup(lk)
				if len(found) > 0 && g.DominatedByEdges(ex, found) {
					continue
				}
			}
			return false
		default:
			return false
		}
	}
	return true
}

// c13ConstIndex: a decoded reference or name is validated by helpers outside the codec packages (reference factory → path and
// address normalisation). `s[0]` on a value that can be empty panics, and an emptiness test made on a different value (before
// a trim, on the untrimmed original) does not protect it. Every read x[c] with a constant index c of a string or slice in the
// functions reachable from the decoders is dominated by an edge asserting len(x) > c (x != "" for c = 0) for that very value.
func c13ConstIndex(p *Program, r *Report) {
	scope := p.decodeHelperScope()
	n := 0
	for _, fn := range sortedFuncs(scope) {
		g := p.ig(fn)
		for i, in := range g.Nodes {
			var x, idx ssa.Value
			switch v := in.(type) {
			case *ssa.Lookup:
				if b, ok := v.X.Type().Underlying().(*types.Basic); ok && b.Info()&types.IsString != 0 {
					x, idx = v.X, v.Index
				}
			case *ssa.Index:
				if b, ok := v.X.Type().Underlying().(*types.Basic); ok && b.Info()&types.IsString != 0 {
					x, idx = v.X, v.Index
				}
			case *ssa.IndexAddr:
				if _, ok := v.X.Type().Underlying().(*types.Slice); ok {
					x, idx = v.X, v.Index
				}
			}
			if x == nil {
				continue
			}
			c, isC := constInt(idx)
			if !isC {
				continue
			}
			if _, fresh := strip(x).(*ssa.Slice); fresh {
				if al, isAl := strip(x).(*ssa.Slice).X.(*ssa.Alloc); isAl && al != nil {
					continue // slice of a local array literal (variadic arguments)
				}
			}
			n++
			guard := map[edge]bool{}
			for _, ifi := range g.ifs() {
				for _, outcome := range []bool{true, false} {
					if lenFactImplies(ifi.Cond, outcome, x, c) {
						guard[g.branchEdge(ifi, outcome)] = true
					}
				}
			}
			ok := len(guard) > 0 && g.DominatedByEdges(i, guard)
			r.Check(ok, fmt.Sprintf("index [%d] in %s", c, fnName(fn)), in.Pos(), fmt.Sprintf("the read of element %d is dominated by an edge asserting that this very value has more than %d elements (a test on another value — e.g. before trimming — does not count)", c, c))
		}
	}
	if n == 0 {
		r.Unresolved("no constant-index read on the decode path")
	}
}

// lenFactImplies: on the given outcome of cond, value x has more than c elements.
func lenFactImplies(cond ssa.Value, outcome bool, x ssa.Value, c int64) bool {
	b, ok := cond.(*ssa.BinOp)
	if !ok {
		if u, isU := cond.(*ssa.UnOp); isU && u.Op == token.NOT {
			return lenFactImplies(u.X, !outcome, x, c)
		}
		return false
	}
	same := func(v ssa.Value) bool { return v == x || strip(v) == strip(x) }
	// x != "" / x == ""
	if k, isK := b.Y.(*ssa.Const); isK && same(b.X) && k.Value != nil && k.Value.Kind() == constant.String && constant.StringVal(k.Value) == "" {
		if c == 0 && ((b.Op == token.NEQ && outcome) || (b.Op == token.EQL && !outcome)) {
			return true
		}
		return false
	}
	// len(x) OP k
	lc, isCall := b.X.(*ssa.Call)
	if !isCall {
		return false
	}
	bi, isB := lc.Call.Value.(*ssa.Builtin)
	if !isB || bi.Name() != "len" || !same(lc.Call.Args[0]) {
		return false
	}
	k, isK := constInt(b.Y)
	if !isK {
		return false
	}
	op := b.Op
	if !outcome {
		op = negTok(op)
	}
	switch op {
	case token.GTR:
		return k >= c
	case token.GEQ:
		return k > c
	case token.EQL:
		return k > c
	case token.NEQ:
		return c == 0 && k == 0
	}
	return false
}

// decodeHelperScope: the codec scope extended by the validation helpers the decoders call in other packages (reference
// factory, address / path normalisation).
func (p *Program) decodeHelperScope() map[*ssa.Function]*cgStep {
	var roots []*ssa.Function
	for f := range p.codecScope() {
		roots = append(roots, f)
	}
	sort.Slice(roots, func(i, j int) bool { return fnName(roots[i]) < fnName(roots[j]) })
	inPkg := func(fn *ssa.Function) bool {
		pk := fnPkg(fn)
		if pk == nil {
			return false
		}
		switch relPkg(pk) {
		case "internal/messages", "internal/cluster", "", "internal/remoting/serialize", "internal/remoting", "internal/utils":
			return true
		case "internal/actor":
			// only the reference constructors: functions of strings
			sig := fn.Signature
			for i := 0; i < sig.Params().Len(); i++ {
				if b, ok := sig.Params().At(i).Type().Underlying().(*types.Basic); !ok || b.Info()&types.IsString == 0 {
					return false
				}
			}
			return sig.Recv() == nil && sig.Params().Len() > 0
		}
		return false
	}
	return p.closure(roots, cgOpts{ModuleOnly: true, MaxDepth: 4, SkipFunc: func(fn *ssa.Function) bool { return !inPkg(fn) },
		SkipEdge: func(e *callgraph.Edge) bool { return p.isMailboxEnqueueDispatch(e) }})
}
