package main

// The chain idiom: chain.New().Append(f1).Append(f2)...Run() (and NewVoid).
// The steps are recovered from the SSA data dependence of the Append calls that
// end in Run, so that (a) ordering rules can talk about "the kill chain" and
// (b) call-graph traversals follow exactly the appended functions instead of
// VTA's merge of every ChainFN in the program.

import (
	"strings"

	"golang.org/x/tools/go/ssa"
)

type chainRun struct {
	Fn    *ssa.Function
	Run   *ssa.Call
	Steps []chainStep
}

type chainStep struct {
	Append *ssa.Call
	Funcs  []*ssa.Function // the function(s) this step runs (bound method wrappers resolved to the method)
}

func (p *Program) isChainPkgFunc(f *ssa.Function, names ...string) bool {
	if f == nil {
		return false
	}
	pk := fnPkg(f)
	if pk == nil || !strings.HasSuffix(pk.Path(), "/internal/chain") {
		return false
	}
	for _, n := range names {
		if f.Name() == n {
			return true
		}
	}
	return false
}

// resolveStepFuncs: the functions a value of type chain.Chain / chain.Void may run.
func (p *Program) resolveStepFuncs(v ssa.Value, depth int) []*ssa.Function {
	v = strip(v)
	switch x := v.(type) {
	case *ssa.MakeClosure:
		fn, _ := x.Fn.(*ssa.Function)
		if fn == nil {
			return nil
		}
		// bound method wrapper: resolve to the method it calls
		if strings.HasSuffix(fn.Name(), "$bound") {
			for _, b := range fn.Blocks {
				for _, in := range b.Instrs {
					if c := callOf(in); c != nil && c.StaticCallee() != nil {
						return []*ssa.Function{c.StaticCallee()}
					}
				}
			}
		}
		return []*ssa.Function{fn}
	case *ssa.Function:
		return []*ssa.Function{x}
	case *ssa.Call:
		if depth > 2 {
			return nil
		}
		cal := x.Call.StaticCallee()
		if cal == nil {
			return nil
		}
		var out []*ssa.Function
		for _, b := range cal.Blocks {
			for _, in := range b.Instrs {
				if ret, ok := in.(*ssa.Return); ok && len(ret.Results) > 0 {
					out = append(out, p.resolveStepFuncs(retOperand(ret, 0), depth+1)...)
				}
			}
		}
		return out
	case *ssa.Phi:
		var out []*ssa.Function
		for _, e := range x.Edges {
			out = append(out, p.resolveStepFuncs(e, depth+1)...)
		}
		return out
	}
	return nil
}

// chainRuns lists the chain executions started in fn.
func (p *Program) chainRuns(fn *ssa.Function) []chainRun {
	var out []chainRun
	for _, b := range fn.Blocks {
		for _, in := range b.Instrs {
			c, ok := in.(*ssa.Call)
			if !ok || !p.isChainPkgFunc(c.Call.StaticCallee(), "Run") || len(c.Call.Args) == 0 {
				continue
			}
			cr := chainRun{Fn: fn, Run: c}
			// collect every Append applied to the same chain object (receiver chains and re-used variables)
			root := c.Call.Args[0]
			var appends []*ssa.Call
			seen := map[ssa.Value]bool{}
			var back func(v ssa.Value)
			back = func(v ssa.Value) {
				if seen[v] {
					return
				}
				seen[v] = true
				if ac, ok := v.(*ssa.Call); ok {
					if p.isChainPkgFunc(ac.Call.StaticCallee(), "Append", "AppendContext") {
						back(ac.Call.Args[0])
						appends = append(appends, ac)
						return
					}
					if p.isChainPkgFunc(ac.Call.StaticCallee(), "New", "NewVoid") {
						// other Append chains hanging off the same constructor result (v.Append(..) on a variable)
						for _, ref := range *ac.Referrers() {
							if rc, ok := ref.(*ssa.Call); ok && rc != c && p.isChainPkgFunc(rc.Call.StaticCallee(), "Append", "AppendContext") && rc.Call.Args[0] == ac {
								fwd(p, rc, &appends, seen)
							}
						}
					}
				}
			}
			back(root)
			// order by position in the function (Append calls of one chain execute in program order)
			g := p.ig(fn)
			sortCalls(g, appends)
			for _, a := range appends {
				if len(a.Call.Args) < 2 {
					continue
				}
				cr.Steps = append(cr.Steps, chainStep{Append: a, Funcs: p.resolveStepFuncs(a.Call.Args[1], 0)})
			}
			out = append(out, cr)
		}
	}
	return out
}

func fwd(p *Program, a *ssa.Call, appends *[]*ssa.Call, seen map[ssa.Value]bool) {
	if seen[a] {
		return
	}
	seen[a] = true
	*appends = append(*appends, a)
	for _, ref := range *a.Referrers() {
		if rc, ok := ref.(*ssa.Call); ok && p.isChainPkgFunc(rc.Call.StaticCallee(), "Append", "AppendContext") && rc.Call.Args[0] == a {
			fwd(p, rc, appends, seen)
		}
	}
}

func sortCalls(g *IG, cs []*ssa.Call) {
	for i := 1; i < len(cs); i++ {
		for j := i; j > 0 && g.Idx[cs[j]] < g.Idx[cs[j-1]]; j-- {
			cs[j], cs[j-1] = cs[j-1], cs[j]
		}
	}
}

// stepIndex: position of the first step that runs fn (by name suffix when fn is nil).
func (cr chainRun) indexOf(fn *ssa.Function) int {
	for i, s := range cr.Steps {
		for _, f := range s.Funcs {
			if f == fn {
				return i
			}
		}
	}
	return -1
}
