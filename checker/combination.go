package main

import (
	"go/token"
	"go/types"

	"golang.org/x/tools/go/ssa"
)

// c05CombinationPropagates — a combination actor reports the first failing component.
//
// "Prelaunch failure means ActorOf returns an error and the actor never receives anything" (and a failing restart hook makes a
// zombie) must hold for the library's own combination actor too: its hook methods loop over the components and call the same
// hook on each. In every method of the root package that has an error result and calls, inside a loop over a slice field of its
// receiver, an interface method returning error: from the err != nil edge of that call no path reaches the next iteration — the
// error leaves the function. (A `break` that binds to an enclosing `switch` instead of the loop lets a later component's success
// overwrite the failure.)
func c05CombinationPropagates(p *Program, r *Report) {
	errT := types.Universe.Lookup("error").Type()
	n := 0
	for _, fn := range p.Mod {
		pk := fnPkg(fn)
		if pk == nil || pk != p.tpkg("") || len(fn.Blocks) == 0 || fn.Signature.Recv() == nil || fn.Parent() != nil {
			continue
		}
		res := fn.Signature.Results()
		if res.Len() != 1 || !types.Identical(res.At(0).Type(), errT) {
			continue
		}
		g := p.ig(fn)
		for i, in := range g.Nodes {
			c, ok := in.(*ssa.Call)
			if !ok || !c.Call.IsInvoke() || c.Call.Method.Name() != fn.Name() {
				continue // the same hook on a component
			}
			sig := c.Call.Method.Type().(*types.Signature)
			if sig.Results().Len() != 1 || !types.Identical(sig.Results().At(0).Type(), errT) {
				continue
			}
			// inside a loop: the call can reach itself
			if !g.ReachAfter(i, nil, nil)[i] {
				continue
			}
			n++
			failed := map[edge]bool{}
			for _, ifi := range g.ifs() {
				for _, oc := range []bool{true, false} {
					f, okf := condFact(ifi.Cond, oc)
					if okf && f.IsNil && f.Op == token.NEQ && strip(f.X) == ssa.Value(c) {
						failed[g.branchEdge(ifi, oc)] = true
					}
				}
			}
			ok2 := len(failed) > 0
			for e := range failed {
				if g.Reach([]int{e.to}, nil, nil)[i] {
					ok2 = false // the loop goes on after a failure
				}
			}
			r.Check(ok2, "a failing component ends "+fnName(fn), c.Pos(), "from the err != nil edge of the component's hook no path reaches the next iteration: the combination reports the first failure instead of letting a later component's success overwrite it")
		}
	}
	if n == 0 {
		r.Unresolved("combination actor hooks (error-returning methods of the root package calling the same hook on components in a loop)")
	}
}
