package main

import (
	"go/constant"
	"go/token"
	"go/types"

	"golang.org/x/tools/go/ssa"
)

// c16EqualExact — VersionVector.Equal answers "equal" only for vectors Compare calls equal.
//
// The view merge decides the vector part of its changed flag with Equal(merged, own), and the gossip suppression predicate
// skips a peer whose vector is Equal: an Equal that is one-sided ("contains") calls a vector that only GAINED components
// unchanged. Accepted shapes, per return of the function:
//
//	(1) the returned value is Compare(receiver, argument) == the constant Compare itself returns where neither side was seen
//	    less or greater (its enumeration of both operands is C16.R7);
//	(2) a direct implementation: every `return true` is dominated, for each operand, by a range loop over that operand's map in
//	    which every path through the body to the next iteration passes the == outcome of a comparison of the ranged counter
//	    with the other operand's value under the ranged key — or by such a loop over one operand together with the ==
//	    outcome of len(own map) == len(other map). The second loop of a two-pass comparison may skip entries the other
//	    operand holds (the dominating full loop compared them) and compare the rest with the absent value 0.
func c16EqualExact(p *Program, r *Report) {
	vv := p.Named("internal/cluster", "VersionVector")
	if vv == nil {
		r.Unresolved("VersionVector")
		return
	}
	fn, cmp := p.methodNamed(vv, "Equal"), p.methodNamed(vv, "Compare")
	if fn == nil || cmp == nil || len(fn.Params) < 2 {
		r.Unresolved("VersionVector.Equal / Compare")
		return
	}
	var eqC *types.Const
	if pk := p.tpkg("internal/cluster"); pk != nil {
		eqC, _ = pk.Scope().Lookup("VersionEqual").(*types.Const)
	}
	if eqC == nil {
		r.Unresolved("the constant Compare returns for equal vectors")
		return
	}
	g := p.igx(fn)
	operandOf := func(v ssa.Value) int {
		v = g.res(v)
		_, base := fieldLoad(v)
		if base == nil {
			return -1
		}
		return operandBase(base, fn)
	}
	rangePart := func(v ssa.Value, idx int) *ssa.Next {
		ex, ok := strip(v).(*ssa.Extract)
		if !ok || ex.Index != idx {
			return nil
		}
		nx, _ := ex.Tuple.(*ssa.Next)
		return nx
	}
	// loops that check every entry of operand k against the other operand
	checking := map[int]map[int]bool{0: {}, 1: {}}
	type weakLoop struct {
		n, k int
		nx   *ssa.Next
		body []int
		eq   map[edge]bool
	}
	var weak []weakLoop
	for i, in := range g.Nodes {
		nx, ok := in.(*ssa.Next)
		if !ok {
			continue
		}
		rg, isR := nx.Iter.(*ssa.Range)
		if !isR || operandOf(rg.X) < 0 {
			continue
		}
		k := operandOf(rg.X)
		eqEdges := map[edge]bool{}
		otherVal := func(v ssa.Value) bool {
			v = strip(v)
			switch x := v.(type) {
			case *ssa.Extract:
				if lk, isL := x.Tuple.(*ssa.Lookup); isL && x.Index == 0 {
					return operandOf(lk.X) == 1-k && rangePart(lk.Index, 1) == nx
				}
			case *ssa.Lookup:
				return operandOf(x.X) == 1-k && rangePart(x.Index, 1) == nx
			case *ssa.Call:
				if rc := callRecv(&x.Call); rc != nil && operandBase(rc, fn) == 1-k && len(callArgs(&x.Call)) == 1 && rangePart(callArgs(&x.Call)[0], 1) == nx {
					return true
				}
			}
			return false
		}
		var body []int
		for _, ifi := range g.ifs() {
			if ex, isE := ifi.Cond.(*ssa.Extract); isE && ex.Tuple == ssa.Value(nx) && ex.Index == 0 {
				body = append(body, g.branchEdge(ifi, true).to)
			}
			for _, oc := range []bool{true, false} {
				f, ok := condFact(ifi.Cond, oc)
				if !ok || f.Y == nil || f.Op != token.EQL {
					continue
				}
				if (rangePart(f.X, 2) == nx && otherVal(f.Y)) || (rangePart(f.Y, 2) == nx && otherVal(f.X)) {
					eqEdges[g.branchEdge(ifi, oc)] = true
				}
			}
		}
		if len(body) == 0 {
			continue
		}
		if len(eqEdges) > 0 && !g.Reach(body, nil, eqEdges)[i] {
			checking[k][i] = true
			continue
		}
		weak = append(weak, weakLoop{i, k, nx, body, eqEdges})
	}
	// the second loop of a two-pass comparison only has to look at what the first did not: an entry found in the other operand was
	// compared by the (dominating) full loop over that operand, an entry the other operand lacks must equal the absent value 0
	for _, wl := range weak {
		full := checking[1-wl.k]
		if len(full) == 0 || !g.DominatedByNodes(wl.n, full) {
			continue
		}
		pass := map[edge]bool{}
		for e := range wl.eq {
			pass[e] = true
		}
		for _, ifi := range g.ifs() {
			for _, oc := range []bool{true, false} {
				f, ok := condFact(ifi.Cond, oc)
				if !ok {
					continue
				}
				e := g.branchEdge(ifi, oc)
				// found-edge of the lookup of the ranged key in the other operand
				if f.Bool && f.Op == token.NEQ {
					if ex, isE := f.X.(*ssa.Extract); isE && ex.Index == 1 {
						if lk, isL := ex.Tuple.(*ssa.Lookup); isL && operandOf(lk.X) == 1-wl.k {
							if kx, isK := strip(lk.Index).(*ssa.Extract); isK && kx.Tuple == ssa.Value(wl.nx) && kx.Index == 1 {
								pass[e] = true
							}
						}
					}
				}
				// ranged counter == 0
				if !f.Bool && !f.IsNil && f.Y == nil && f.Op == token.EQL && f.C == 0 {
					if vx, isV := strip(f.X).(*ssa.Extract); isV && vx.Tuple == ssa.Value(wl.nx) && vx.Index == 2 {
						pass[e] = true
					}
				}
			}
		}
		if !g.Reach(wl.body, nil, pass)[wl.n] {
			checking[wl.k][wl.n] = true
		}
	}
	lenEq := map[edge]bool{}
	for _, ifi := range g.ifs() {
		for _, oc := range []bool{true, false} {
			f, ok := condFact(ifi.Cond, oc)
			if !ok || f.Y == nil || f.Op != token.EQL {
				continue
			}
			lenOf := func(v ssa.Value) int {
				if c, isC := strip(v).(*ssa.Call); isC {
					if b, isB := c.Call.Value.(*ssa.Builtin); isB && b.Name() == "len" {
						return operandOf(c.Call.Args[0])
					}
				}
				return -1
			}
			if a, b := lenOf(f.X), lenOf(f.Y); a >= 0 && b >= 0 && a != b {
				lenEq[g.branchEdge(ifi, oc)] = true
			}
		}
	}
	n := 0
	for _, ex := range g.Exits {
		ret, ok := g.Nodes[ex].(*ssa.Return)
		if !ok || len(ret.Results) != 1 {
			continue
		}
		for _, v := range g.values(ret.Results[0]) {
			v = strip(v)
			if b, isB := constBool(v); isB {
				if !b {
					continue // "not equal" needs no justification here: C17.R6 / C18.R2 err on the side of announcing
				}
				n++
				both := len(checking[0]) > 0 && g.DominatedByNodes(ex, checking[0]) && len(checking[1]) > 0 && g.DominatedByNodes(ex, checking[1])
				one := (len(checking[0]) > 0 && g.DominatedByNodes(ex, checking[0])) || (len(checking[1]) > 0 && g.DominatedByNodes(ex, checking[1]))
				r.Check(both || (one && len(lenEq) > 0 && g.DominatedByEdges(ex, lenEq)), "Equal answers true only after checking both operands", ret.Pos(), "the return of true is dominated by entry-by-entry checking loops over both operands, or by one such loop and len(own) == len(other)")
				continue
			}
			n++
			good := false
			if bo, isBo := v.(*ssa.BinOp); isBo && bo.Op == token.EQL {
				for _, pr := range [][2]ssa.Value{{bo.X, bo.Y}, {bo.Y, bo.X}} {
					c, isC := strip(pr[0]).(*ssa.Call)
					k, isK := pr[1].(*ssa.Const)
					if !isC || !isK || c.Call.StaticCallee() != cmp || k.Value == nil {
						continue
					}
					a, b := operandBase(callRecv(&c.Call), fn), operandBase(callArgs(&c.Call)[0], fn)
					if a >= 0 && b >= 0 && a != b && constant.Compare(k.Value, token.EQL, eqC.Val()) {
						good = true
					}
				}
			}
			r.Check(good, "Equal is Compare == equal", ret.Pos(), "the returned value is Compare(receiver, argument) == the constant Compare returns for vectors neither less nor greater; Compare enumerates both operands (C16.R7)")
		}
	}
	if n == 0 {
		r.Unresolved("returns of VersionVector.Equal")
	}
}
