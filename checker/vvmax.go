package main

import (
	"fmt"
	"go/token"

	"golang.org/x/tools/go/ssa"
)

// c16PointwiseMax — the join of two version vectors is their pointwise maximum.
//
// The version vector's Merge builds a fresh map from the two operands. For the result to be the least upper bound, for every
// operand X and every entry (k, c) of X the result must end with result[k] >= c, and no store may lower an entry that an
// earlier store put there. Both are shapes of the loops of Merge:
//
//	(a) lower bound, per return of the built result and per operand X: the return is dominated by a range loop over X's map in
//	    which every path through the body either stores (k, c) into the result or passes the "c <= result[k]" outcome of a
//	    comparison of the ranged value with the looked-up current value. A body that skips an existing key without comparing
//	    (copy the larger operand wholesale, back-fill only missing keys) leaves result[k] < c;
//	(b) no lowering: every store into the result writes an operand's ranged (k, c), and is either the first filling of the fresh
//	    map (no other store into the result can run before it) or dominated by the not-found outcome of the lookup of k in the
//	    result or by the "c > result[k]" outcome;
//	(c) a return that hands back one operand (or its copy) instead of the built result is dominated by len(other operand) == 0.
//
// What it does not decide: the arithmetic of the counters (C16.R4), the order computed by Compare (C16.R7).
func c16PointwiseMax(p *Program, r *Report) {
	vv := p.Named("internal/cluster", "VersionVector")
	if vv == nil {
		r.Unresolved("VersionVector")
		return
	}
	fn := p.methodNamed(vv, "Merge")
	if fn == nil || len(fn.Params) < 2 {
		r.Unresolved("VersionVector.Merge")
		return
	}
	g := p.igx(fn) // the loops may live in single-use helpers taking the maps
	// operand index of a map value: 0/1 = field of that parameter, -1 = not an operand's map (the fresh result)
	operandOf := func(v ssa.Value) int {
		v = g.res(v)
		_, base := fieldLoad(v)
		if base == nil {
			return -1
		}
		base = strip(base)
		if al, isA := base.(*ssa.Alloc); isA {
			if _, k := spilledParamIndex(al, fn); k >= 0 {
				return k
			}
			return -1
		}
		for k, q := range fn.Params {
			if base == ssa.Value(q) {
				return k
			}
		}
		return -1
	}
	rangePart := func(v ssa.Value, idx int) *ssa.Next {
		ex, ok := strip(v).(*ssa.Extract)
		if !ok || ex.Index != idx {
			return nil
		}
		nx, _ := ex.Tuple.(*ssa.Next)
		return nx
	}
	loopOperand := func(nx *ssa.Next) int {
		rg, ok := nx.Iter.(*ssa.Range)
		if !ok {
			return -1
		}
		return operandOf(rg.X)
	}
	// stores into the result
	type store struct {
		n  int
		mu *ssa.MapUpdate
		nx *ssa.Next
	}
	var stores []store
	resultStores := map[int]bool{}
	for i, in := range g.Nodes {
		mu, ok := in.(*ssa.MapUpdate)
		if !ok || operandOf(mu.Map) >= 0 {
			continue
		}
		resultStores[i] = true
		kx, vx := rangePart(mu.Key, 1), rangePart(mu.Value, 2)
		if kx == nil || kx != vx || loopOperand(kx) < 0 {
			r.Violate("Merge stores something other than an operand's entry", mu.Pos(), "a store into the join's result whose key and value are not the ranged (node, counter) of one operand's map: the result is no longer determined by the two operands alone")
			continue
		}
		stores = append(stores, store{i, mu, kx})
	}
	// a result that starts as a copy of one operand (out := v.Clone()): that operand's lower bound holds by construction, and no
	// store is a "first filling" any more
	clonedFrom := -1
	resultAllocs := map[ssa.Value]bool{}
	for _, s := range stores {
		_, base := fieldLoad(s.mu.Map)
		if base == nil {
			continue
		}
		resultAllocs[strip(base)] = true
		if al, isA := strip(base).(*ssa.Alloc); isA && al.Referrers() != nil {
			for _, ref := range *al.Referrers() {
				if st, isSt := ref.(*ssa.Store); isSt && st.Addr == ssa.Value(al) {
					if c, isC := strip(st.Val).(*ssa.Call); isC {
						if rc := callRecv(&c.Call); rc != nil && operandBase(rc, fn) >= 0 && c.Call.StaticCallee() != nil && p.inModule(c.Call.StaticCallee()) {
							clonedFrom = operandBase(rc, fn)
						}
					}
				}
			}
		}
	}
	// maps.Copy(result, operand's map): an unconditional store of every entry of that operand
	type bulk struct{ n, k int }
	var bulks []bulk
	for i, in := range g.Nodes {
		c := callOf(in)
		if c == nil || c.StaticCallee() == nil || len(c.Args) != 2 {
			continue
		}
		y := c.StaticCallee()
		if o := y.Origin(); o != nil {
			y = o
		}
		if y.Pkg == nil || y.Pkg.Pkg.Path() != "maps" || y.Name() != "Copy" {
			continue
		}
		if operandOf(c.Args[0]) >= 0 || operandOf(c.Args[1]) < 0 {
			continue
		}
		resultStores[i] = true
		bulks = append(bulks, bulk{i, operandOf(c.Args[1])})
	}
	if len(stores) == 0 && len(bulks) == 0 {
		r.Unresolved("stores into the result map of VersionVector.Merge")
		return
	}
	// comparison edges per loop: c (ranged value of nx) against the looked-up result[k]
	type cmpEdges struct{ leq, gt, missing map[edge]bool }
	edgesOf := func(nx *ssa.Next) cmpEdges {
		ce := cmpEdges{map[edge]bool{}, map[edge]bool{}, map[edge]bool{}}
		isCur := func(v ssa.Value) bool {
			v = strip(v)
			var lk *ssa.Lookup
			if ex, ok := v.(*ssa.Extract); ok && ex.Index == 0 {
				lk, _ = ex.Tuple.(*ssa.Lookup)
			} else {
				lk, _ = v.(*ssa.Lookup)
			}
			return lk != nil && operandOf(lk.X) < 0 && rangePart(lk.Index, 1) == nx
		}
		for _, ifi := range g.ifs() {
			for _, oc := range []bool{true, false} {
				f, ok := condFact(ifi.Cond, oc)
				if !ok {
					continue
				}
				e := g.branchEdge(ifi, oc)
				if f.Bool {
					if ex, isE := f.X.(*ssa.Extract); isE && ex.Index == 1 {
						if lk, isL := ex.Tuple.(*ssa.Lookup); isL && operandOf(lk.X) < 0 && rangePart(lk.Index, 1) == nx && f.Op == token.EQL {
							ce.missing[e] = true
						}
					}
					continue
				}
				if f.Y == nil {
					continue
				}
				op := f.Op
				x, y := f.X, f.Y
				if rangePart(y, 2) == nx && isCur(x) {
					x, y, op = y, x, flipTok(op)
				}
				if rangePart(x, 2) != nx || !isCur(y) {
					continue
				}
				switch op { // c op cur
				case token.GTR, token.GEQ:
					ce.gt[e] = true
				case token.LSS, token.LEQ, token.EQL:
					ce.leq[e] = true
				}
			}
		}
		return ce
	}
	// (b) no lowering
	for _, s := range stores {
		first := clonedFrom < 0
		for o := range resultStores {
			if o != s.n && g.Reach([]int{o}, nil, nil)[s.n] {
				first = false
			}
		}
		ce := edgesOf(s.nx)
		guard := map[edge]bool{}
		for e := range ce.gt {
			guard[e] = true
		}
		for e := range ce.missing {
			guard[e] = true
		}
		ok := first || (len(guard) > 0 && g.DominatedByEdges(s.n, guard))
		why := "the first filling of the fresh result map (no other store into it can run before)"
		if !first {
			why = "dominated by the not-found outcome of the lookup of the ranged key in the result or by the outcome counter > current"
		}
		r.Check(ok, fmt.Sprintf("Merge never lowers an entry: store of operand %d's entry", loopOperand(s.nx)), s.mu.Pos(), why+": an entry already in the result is replaced only by a larger counter")
	}
	for _, bk := range bulks {
		first := clonedFrom < 0
		for o := range resultStores {
			if o != bk.n && g.Reach([]int{o}, nil, nil)[bk.n] {
				first = false
			}
		}
		r.Check(first, fmt.Sprintf("Merge never lowers an entry: bulk copy of operand %d", bk.k), g.Nodes[bk.n].Pos(), "maps.Copy into the result overwrites whatever is there: it must be the first filling of the fresh map (no other store into the result can run before it)")
	}
	// (a) lower bound per loop
	good := map[int]map[int]bool{0: {}, 1: {}} // operand -> Next nodes of loops that establish result[k] >= c
	seenLoop := map[*ssa.Next]bool{}
	for _, s := range stores {
		if seenLoop[s.nx] {
			continue
		}
		seenLoop[s.nx] = true
		ni, has := g.Idx[s.nx]
		if !has {
			continue
		}
		mine := map[int]bool{}
		for _, t := range stores {
			if t.nx == s.nx {
				mine[t.n] = true
			}
		}
		ce := edgesOf(s.nx)
		// body entry: the successor of the loop test on the ok outcome
		var body []int
		var leave = map[edge]bool{}
		for _, ifi := range g.ifs() {
			if ex, isE := ifi.Cond.(*ssa.Extract); isE && ex.Tuple == ssa.Value(s.nx) && ex.Index == 0 {
				body = append(body, g.branchEdge(ifi, true).to)
				leave[g.branchEdge(ifi, false)] = true
			}
		}
		okLoop := len(body) > 0
		if okLoop {
			reach := g.Reach(body, mine, ce.leq)
			if reach[ni] || anyIn(reach, g.Exits) {
				okLoop = false
			}
		}
		if okLoop {
			good[loopOperand(s.nx)][ni] = true
		}
	}
	for _, bk := range bulks {
		good[bk.k][bk.n] = true
	}
	// per return of the built result
	nRet := 0
	for _, ex := range g.Exits {
		ret, ok := g.Nodes[ex].(*ssa.Return)
		if !ok || len(ret.Results) == 0 {
			continue
		}
		v := strip(ret.Results[0])
		if u, isU := ret.Results[0].(*ssa.UnOp); isU && resultAllocs[strip(u.X)] {
			v = u // the built result, even when it started as a copy of an operand
		}
		// which value is returned: the built result (load of a local that is not a spilled operand), an operand, or a call on an operand
		handsBack := -1
		switch x := v.(type) {
		case *ssa.Call:
			if rc := callRecv(&x.Call); rc != nil {
				handsBack = operandBase(rc, fn)
			}
		case *ssa.UnOp:
			if al, isA := strip(x.X).(*ssa.Alloc); isA {
				if _, k := spilledParamIndex(al, fn); k >= 0 {
					handsBack = k
				}
			}
		case *ssa.Parameter:
			for k, q := range fn.Params {
				if q == x {
					handsBack = k
				}
			}
		}
		nRet++
		if handsBack >= 0 {
			other := 1 - handsBack
			guard := map[edge]bool{}
			for _, ifi := range g.ifs() {
				for _, oc := range []bool{true, false} {
					f, ok := condFact(ifi.Cond, oc)
					if !ok || f.Y != nil || f.IsNil || f.Bool || !(f.impliesEq(0) || (f.Op == token.LEQ && f.C == 0) || (f.Op == token.LSS && f.C == 1)) {
						continue
					}
					if c, isC := f.X.(*ssa.Call); isC {
						if b, isB := c.Call.Value.(*ssa.Builtin); isB && b.Name() == "len" && operandOf(c.Call.Args[0]) == other {
							guard[g.branchEdge(ifi, oc)] = true
						}
					}
				}
			}
			r.Check(len(guard) > 0 && g.DominatedByEdges(ex, guard), fmt.Sprintf("Merge hands back operand %d only when the other is empty", handsBack), ret.Pos(), "the return of one operand (or of a call on it) in place of the built join is dominated by len(other operand's map) == 0")
			continue
		}
		for _, k := range []int{0, 1} {
			if k == clonedFrom {
				r.Check(true, fmt.Sprintf("Merge result is at least operand %d", k), ret.Pos(), "the result starts as a copy made by a method of that operand; stores into it are then judged by the no-lowering clause")
				continue
			}
			r.Check(len(good[k]) > 0 && g.DominatedByNodes(ex, good[k]), fmt.Sprintf("Merge result is at least operand %d", k), ret.Pos(), fmt.Sprintf("the return of the built result is dominated by a range loop over operand %d's map in which every path through the body stores the ranged (node, counter) or passes the outcome counter <= result[node]", k))
		}
	}
	if nRet == 0 {
		r.Unresolved("returns of VersionVector.Merge")
	}
}

// operandBase: index of the parameter v denotes (directly, as a load of its spill slot, or the address of the slot), else -1
func operandBase(v ssa.Value, fn *ssa.Function) int {
	v = strip(v)
	if u, ok := v.(*ssa.UnOp); ok && u.Op == token.MUL {
		v = strip(u.X)
	}
	if al, ok := v.(*ssa.Alloc); ok {
		_, k := spilledParamIndex(al, fn)
		return k
	}
	for k, q := range fn.Params {
		if v == ssa.Value(q) {
			return k
		}
	}
	return -1
}
