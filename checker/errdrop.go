package main

// Error discipline over the syntax tree: a call whose last result is an error and whose value is thrown away as a bare
// expression statement ("w.WriteFrom(x)" instead of "if err := w.WriteFrom(x); err != nil { return err }"). An explicit
// "_ = f()" is a visible decision and is not reported; the unchanged tree has no implicit drop in the packages the rules
// look at (cross-checked with errcheck), so every report is a dropped check.

import (
	"go/ast"
	"go/token"
	"go/types"
	"sort"
	"strings"
)

type errDrop struct {
	Pos    token.Pos
	Callee string
	In     string
}

// neverFails: callees whose error result is documented to be always nil (or is irrelevant by contract).
func neverFails(q string) bool {
	for _, pre := range []string{"(*bytes.Buffer).Write", "(*strings.Builder).Write", "fmt.Print", "fmt.Fprint", "(hash.Hash).Write", "math/rand.Read"} {
		if strings.HasPrefix(q, pre) {
			return true
		}
	}
	return false
}

func (p *Program) implicitErrorDrops(inScope func(rel string) bool) []errDrop {
	errT := types.Universe.Lookup("error").Type()
	var out []errDrop
	for _, pk := range p.Pkgs {
		if pk.Types == nil || !inScope(relPkg(pk.Types)) {
			continue
		}
		for _, file := range pk.Syntax {
			fname := p.Fset.Position(file.Pos()).Filename
			if strings.HasSuffix(fname, "_test.go") {
				continue
			}
			var encl []string
			ast.Inspect(file, func(n ast.Node) bool {
				switch x := n.(type) {
				case *ast.FuncDecl:
					name := x.Name.Name
					if x.Recv != nil && len(x.Recv.List) > 0 {
						name = types.ExprString(x.Recv.List[0].Type) + "." + name
					}
					encl = append(encl[:0], name)
				case *ast.ExprStmt:
					call, ok := x.X.(*ast.CallExpr)
					if !ok {
						return true
					}
					t := pk.TypesInfo.TypeOf(call)
					if t == nil {
						return true
					}
					isErr := false
					if tup, isT := t.(*types.Tuple); isT {
						isErr = tup.Len() > 0 && types.Identical(tup.At(tup.Len()-1).Type(), errT)
					} else {
						isErr = types.Identical(t, errT)
					}
					if !isErr {
						return true
					}
					q := types.ExprString(call.Fun)
					if sel, isSel := call.Fun.(*ast.SelectorExpr); isSel {
						if fo, isF := pk.TypesInfo.Uses[sel.Sel].(*types.Func); isF {
							q = fo.FullName()
						}
					} else if id, isId := call.Fun.(*ast.Ident); isId {
						if fo, isF := pk.TypesInfo.Uses[id].(*types.Func); isF {
							q = fo.FullName()
						}
					}
					if neverFails(q) {
						return true
					}
					in := ""
					if len(encl) > 0 {
						in = encl[0]
					}
					out = append(out, errDrop{Pos: call.Pos(), Callee: q, In: in})
				}
				return true
			})
		}
	}
	sort.Slice(out, func(i, j int) bool { return out[i].Pos < out[j].Pos })
	return out
}

// checkNoImplicitDrop reports the drops of a scope as violations; with none, one discharged obligation per scope documents
// what was scanned.
func (p *Program) checkNoImplicitDrop(r *Report, what string, consequence string, inScope func(rel string) bool) {
	drops := p.implicitErrorDrops(inScope)
	nFiles, nStmts := 0, 0
	for _, pk := range p.Pkgs {
		if pk.Types == nil || !inScope(relPkg(pk.Types)) {
			continue
		}
		for _, file := range pk.Syntax {
			if strings.HasSuffix(p.Fset.Position(file.Pos()).Filename, "_test.go") {
				continue
			}
			nFiles++
			ast.Inspect(file, func(n ast.Node) bool {
				if es, ok := n.(*ast.ExprStmt); ok {
					if _, isCall := es.X.(*ast.CallExpr); isCall {
						nStmts++
					}
				}
				return true
			})
		}
	}
	if nFiles == 0 {
		r.Unresolved("source files of " + what)
		return
	}
	for _, d := range drops {
		r.Violate("error of "+d.Callee+" dropped in "+d.In, d.Pos, "the call's error result is discarded as a bare statement (no check, no explicit `_ =`): "+consequence)
	}
	r.Check(len(drops) == 0, "no implicitly dropped error in "+what, token.NoPos, "scanned "+itoa(nFiles)+" files, "+itoa(nStmts)+" call statements: every call statement whose callee returns an error either checks it or discards it explicitly")
}

func itoa(n int) string {
	if n == 0 {
		return "0"
	}
	s := ""
	for n > 0 {
		s = string(rune('0'+n%10)) + s
		n /= 10
	}
	return s
}
