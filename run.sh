#!/bin/bash
# run.sh <property> <quick|thorough> — static check of one property against /repo's current working tree.
# The analysed program is re-loaded from /repo on every run; the checker binary is rebuilt if its sources changed.
cd "$(dirname "$0")"
export GOTOOLCHAIN=local PATH=/opt/veriftools/go1.26.8/bin:$PATH GOFLAGS=-mod=mod GOPROXY=off GOWORK=off
unset GOSUMDB || true
if [ ! -x bin/vcheck ] || [ -n "$(find checker -newer bin/vcheck -name '*.go' -print -quit)" ]; then
  ./setup.sh || { echo "VIOLATION property=$1 replay=none (checker does not build)"; exit 1; }
fi
exec bin/vcheck -prop "$1" -tier "${2:-${VERIF_TIER:-quick}}" -repo /repo -verif "$(pwd)"
