package actor

import (
	"sync/atomic"
	"testing"
	"time"

	"github.com/kercylan98/vivid"
)

// F45: a dying actor releases its path (registry entry) BEFORE its parent has handled the termination notice. A parent that
// re-creates the child under the same name in that window overwrites children[path] with the new reference; when the old
// child's OnKilled is handled afterwards, the child-death step finds an entry with the same address and path and deletes it — the
// live successor is gone from the table: the kill fan-out never reaches it, the parent is reported terminated before it.
func TestF45_SuccessorSurvivesThePredecessorsDeathNotice(t *testing.T) {
	system := NewTestSystem(t)
	defer func() { _ = system.Stop() }()

	var alive atomic.Int32
	child := vivid.ActorFN(func(ctx vivid.ActorContext) {
		switch m := ctx.Message().(type) {
		case *vivid.OnLaunch:
			alive.Add(1)
		case *vivid.OnKilled:
			if m.Ref.Equals(ctx.Ref()) {
				alive.Add(-1)
			}
		}
	})
	parentDead := make(chan struct{})
	respawned := make(chan struct{})
	p, err := system.ActorOf(vivid.ActorFN(func(ctx vivid.ActorContext) {
		switch m := ctx.Message().(type) {
		case *vivid.OnLaunch:
			_, _ = ctx.ActorOf(child, vivid.WithActorName("worker"))
		case string:
			// replace the worker: kill it, wait until its name is free again, create the successor — all in one handler, so the
			// old worker's OnKilled is still waiting in this actor's mailbox when the successor is registered
			old := ctx.Children()[0]
			ctx.Kill(old, false, "replace")
			deadline := time.Now().Add(2 * time.Second)
			for time.Now().Before(deadline) {
				if _, ok := system.actorContexts.Load(old.GetPath()); !ok {
					break
				}
				time.Sleep(time.Millisecond)
			}
			if _, err := ctx.ActorOf(child, vivid.WithActorName("worker")); err != nil {
				t.Errorf("respawn: %v", err)
			}
			close(respawned)
		case *vivid.OnKilled:
			if m.Ref.Equals(ctx.Ref()) {
				close(parentDead)
			}
		}
	}), vivid.WithActorName("f45-p"))
	if err != nil {
		t.Fatal(err)
	}
	time.Sleep(50 * time.Millisecond)
	system.Tell(p, "replace")
	<-respawned
	time.Sleep(100 * time.Millisecond) // the old worker's OnKilled is handled now

	system.Kill(p, false, "stop")
	select {
	case <-parentDead:
	case <-time.After(3 * time.Second):
		t.Fatal("parent did not terminate")
	}
	time.Sleep(100 * time.Millisecond)
	if n := alive.Load(); n != 0 {
		t.Fatalf("the parent was reported terminated while %d worker is still alive: the predecessor's death notice removed the successor from the parent's table", n)
	}
}
