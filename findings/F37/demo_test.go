package actor_test

// F37 demonstration: ActorSystem.ActorOf (documented as callable from any goroutine) racing Stop. ActorOf samples the parent's
// state once, at its start; if the root turns to killing after that sample but before the new child is in the child table, the
// kill fan-out misses the child and ActorOf, still looking at the stale sample, does not kill it either: Stop returns
// success while that child is alive (and the root was reported terminated before one of its descendants).
//   go test -vet=off -count=1 -run TestF37_ ./internal/actor

import (
	"sync"
	"sync/atomic"
	"testing"
	"time"

	"github.com/kercylan98/vivid"
	"github.com/kercylan98/vivid/internal/actor"
	"github.com/kercylan98/vivid/pkg/log"
)

func TestF37_NoChildSurvivesStop(t *testing.T) {
	orphans := 0
	stopErrs := 0
	const rounds = 40
	for i := 0; i < rounds; i++ {
		sys := actor.NewSystem(vivid.WithActorSystemLogger(log.NewTextLogger(log.WithLevel(log.LevelError))))
		if err := sys.Start(); err != nil {
			t.Fatal(err)
		}
		var live atomic.Int64
		var wg sync.WaitGroup
		stop := make(chan struct{})
		for g := 0; g < 4; g++ {
			wg.Add(1)
			go func() {
				defer wg.Done()
				for {
					select {
					case <-stop:
						return
					default:
					}
					_, err := sys.ActorOf(vivid.ActorFN(func(ctx vivid.ActorContext) {
						switch m := ctx.Message().(type) {
						case *vivid.OnLaunch:
							live.Add(1)
						case *vivid.OnKilled:
							if m.Ref.Equals(ctx.Ref()) {
								live.Add(-1)
							}
						}
					}))
					if err != nil {
						return
					}
				}
			}()
		}
		time.Sleep(time.Duration(i%5) * 100 * time.Microsecond)
		err := sys.Stop(1 * time.Second)
		close(stop)
		wg.Wait()
		if err != nil {
			stopErrs++
			continue
		}
		// Stop succeeded: every actor must have terminated
		deadline := time.Now().Add(300 * time.Millisecond)
		for live.Load() != 0 && time.Now().Before(deadline) {
			time.Sleep(5 * time.Millisecond)
		}
		if n := live.Load(); n != 0 {
			orphans++
		}
	}
	t.Logf("rounds=%d stopErrs=%d orphans=%d", rounds, stopErrs, orphans)
	if stopErrs > 0 {
		t.Errorf("in %d of %d rounds Stop(1s) failed while ActorOf was running concurrently", stopErrs, rounds)
	}
	if orphans > 0 {
		t.Fatalf("in %d of %d rounds Stop returned nil while a child spawned concurrently was still alive", orphans, rounds)
	}
}
