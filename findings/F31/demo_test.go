package actor

import (
	"errors"
	"sync/atomic"
	"testing"
	"time"

	"github.com/kercylan98/vivid"
)

// F31: a zombie that is a target of a later one-for-all immediate Restart is paused by the supervisor and ignores the
// RestartMessage (its state is not running), so nothing ever resumes it: it stays paused and stops consuming its mail.
func TestF31_ZombieSiblingStaysPausedAfterOneForAllRestart(t *testing.T) {
	system := NewTestSystem(t)
	defer func() { _ = system.Stop() }()

	var zombieRestarted atomic.Int32
	var workerLaunches atomic.Int32
	refs := make(chan vivid.ActorRef, 2)

	zombieActor := vivid.NewComplexCombinationActor(
		vivid.NewRestartedActor(func(ctx vivid.RestartContext) error {
			zombieRestarted.Add(1)
			return errors.New("restore failed")
		}),
		vivid.ActorFN(func(ctx vivid.ActorContext) {
			if m, ok := ctx.Message().(string); ok && m == "boom" {
				panic("boom")
			}
		}),
	)
	worker := vivid.ActorFN(func(ctx vivid.ActorContext) {
		switch m := ctx.Message().(type) {
		case *vivid.OnLaunch:
			workerLaunches.Add(1)
		case string:
			if m == "boom" {
				panic("boom")
			}
		}
	})

	_, err := system.ActorOf(vivid.ActorFN(func(ctx vivid.ActorContext) {
		if _, ok := ctx.Message().(*vivid.OnLaunch); ok {
			z, _ := ctx.ActorOf(zombieActor, vivid.WithActorName("z"))
			w, _ := ctx.ActorOf(worker, vivid.WithActorName("w"))
			refs <- z
			refs <- w
		}
	}), vivid.WithActorName("p"), vivid.WithActorSupervisionStrategy(vivid.OneForAllStrategy(vivid.SupervisionStrategyDecisionMakerFN(func(ctx vivid.SupervisionContext) (vivid.SupervisionDecision, string) {
		return vivid.SupervisionDecisionRestart, "restart all"
	}))))
	if err != nil {
		t.Fatal(err)
	}
	z, w := <-refs, <-refs

	// 1) z fails: one-for-all restart; z's OnRestarted fails -> z is a zombie, w is restarted
	system.Tell(z, "boom")
	deadline := time.Now().Add(3 * time.Second)
	for (zombieRestarted.Load() < 1 || workerLaunches.Load() < 2) && time.Now().Before(deadline) {
		time.Sleep(10 * time.Millisecond)
	}
	v, ok := system.actorContexts.Load(z.GetPath())
	if !ok {
		t.Fatal("zombie not registered")
	}
	zctx := v.(*Context)
	time.Sleep(100 * time.Millisecond)
	if !zctx.zombie {
		t.Fatal("setup: z did not become a zombie")
	}
	if zctx.mailbox.IsPaused() {
		t.Fatal("setup: zombie paused already after its own failed restart")
	}

	// 2) w fails: one-for-all restart again; the zombie is a target too
	system.Tell(w, "boom")
	deadline = time.Now().Add(3 * time.Second)
	for workerLaunches.Load() < 3 && time.Now().Before(deadline) {
		time.Sleep(10 * time.Millisecond)
	}
	time.Sleep(300 * time.Millisecond)
	if zctx.mailbox.IsPaused() {
		t.Fatalf("the zombie was paused by the supervisor and never resumed: it no longer consumes its mail (workerLaunches=%d)", workerLaunches.Load())
	}
}
