package actor_test

// F42 demonstration: an Escalate decision at the top of the tree never ends. The root has no parent: applyDecision pauses the
// root's own mailbox and tells the escalated supervision context to ctx.parent == nil, which resolves to the root's own mailbox —
// the root supervises "itself" again, decides Escalate again, for ever. The failed child stays suspended, the root's consumer
// spins, and Stop's poison kill waits behind the paused root mailbox: Stop fails at its time-out. The property lets an escalation
// end at the system default (Stop) at the top.
//   go test -vet=off -count=1 -run TestF42_ ./internal/actor

import (
	"testing"
	"time"

	"github.com/kercylan98/vivid"
	"github.com/kercylan98/vivid/internal/actor"
	"github.com/kercylan98/vivid/pkg/log"
)

func TestF42_EscalateAtTheTopStopsTheFailedActor(t *testing.T) {
	sys := actor.NewSystem(
		vivid.WithActorSystemLogger(log.NewTextLogger(log.WithLevel(log.LevelError))),
		vivid.WithActorSystemSupervisionStrategy(vivid.OneForOneStrategy(vivid.SupervisionStrategyDecisionMakerFN(func(ctx vivid.SupervisionContext) (vivid.SupervisionDecision, string) {
			return vivid.SupervisionDecisionEscalate, "not mine"
		}))),
	)
	if err := sys.Start(); err != nil {
		t.Fatal(err)
	}
	dead := make(chan struct{})
	ref, err := sys.ActorOf(vivid.ActorFN(func(ctx vivid.ActorContext) {
		switch m := ctx.Message().(type) {
		case string:
			panic(m)
		case *vivid.OnKilled:
			if m.Ref.Equals(ctx.Ref()) {
				close(dead)
			}
		}
	}), vivid.WithActorName("f42-child"))
	if err != nil {
		t.Fatal(err)
	}
	sys.Tell(ref, "boom")
	select {
	case <-dead:
	case <-time.After(2 * time.Second):
		t.Errorf("the failed actor was not stopped: the escalation at the top never ended")
	}
	if err := sys.Stop(2 * time.Second); err != nil {
		t.Fatalf("Stop failed after a top-level Escalate: %v", err)
	}
}
